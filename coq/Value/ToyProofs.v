(** C16 — the toy codec satisfies the global codec law, for every envelope. *)
From WM Require Import Base.Prelude Value.Model Value.Codec Value.ToyCodec Value.CodecProofs.
Local Open Scope N_scope.

Lemma firstn_length_app {A} (l r : list A) : firstn (length l) (l ++ r) = l.
Proof. induction l; simpl; congruence. Qed.
Lemma skipn_length_app {A} (l r : list A) : skipn (length l) (l ++ r) = r.
Proof. induction l; simpl; congruence. Qed.

Lemma get_put l rest : get (put l ++ rest) = Some (l, rest).
Proof.
  unfold get, put. cbn [app]. rewrite Nat2N.id.
  assert (Nat.leb (length l) (length (l ++ rest)) = true) as ->
    by (apply Nat.leb_le; rewrite app_length; lia).
  now rewrite firstn_length_app, skipn_length_app.
Qed.
Lemma get_put' l rest : get (N.of_nat (length l) :: l ++ rest) = Some (l, rest).
Proof. exact (get_put l rest). Qed.
Lemma get_opt_put p rest : get_opt (put_opt p ++ rest) = Some (p, rest).
Proof.
  destruct p as [b|]; [|reflexivity]. unfold get_opt, put_opt. cbn [app N.eqb].
  now rewrite get_put.
Qed.
Lemma get_entries_put : forall l rest, get_entries (length l) (put_entries l ++ rest) = Some (l, rest).
Proof.
  induction l as [|[k v] l IH]; intros rest; [reflexivity|].
  cbn [put_entries length get_entries fst snd]. rewrite <- !app_assoc. rewrite (get_put k). cbv match beta. rewrite get_put. cbv match beta. rewrite IH. reflexivity.
Qed.

Theorem toy_codec_law : forall e b, toy_enc e = Some b -> toy_dec b = Some e.
Proof.
  intros [d u p md] b [= <-]. unfold toy_dec. cbn [e_dest e_uuid e_payload e_meta].
  rewrite get_put'. cbv match beta. rewrite get_put'. cbv match beta. rewrite get_opt_put. cbv match beta.
  destruct md as [l|]; [|reflexivity]. cbn [N.eqb]. rewrite Nat2N.id.
  rewrite <- (app_nil_r (put_entries l)), get_entries_put. reflexivity.
Qed.

(** hence, with the toy library, wrap/unwrap is the identity for EVERY message and destination *)
Corollary toy_envelope_roundtrip nu dest m : dest <> [] ->
  exists w, wrap toy_enc nu dest m = Ok w /\ unwrap toy_dec w = Ok (dest, m).
Proof.
  intros H. destruct (wrap_outcomes toy_enc nu dest m) as [_ Hw]. specialize (Hw H).
  eexists. split; [exact Hw|]. eapply envelope_roundtrip; [|exact Hw].
  intros b Hb. now apply toy_codec_law.
Qed.

Theorem codec_law_satisfiable :
  exists (jenc : envelope -> option (list N)) (jdec : list N -> option envelope),
    (forall e, jenc e <> None) /\ (forall e b, jenc e = Some b -> jdec b = Some e).
Proof. exists toy_enc, toy_dec. split; [discriminate | exact toy_codec_law]. Qed.
