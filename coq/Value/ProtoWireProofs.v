(** C16, round "proofs 3" — the wrapper messages are read back from their wire bytes; the
    ProtoMarshaler round trip for them needs no library hypothesis. *)
From WM Require Import Base.Prelude Message.Model Value.Model Value.Codec Value.CodecProofs Value.ProtoWire.
Local Open Scope N_scope.
Ltac Zify.zify_post_hook ::= Z.to_euclidean_division_equations.

Fixpoint fits (fuel : nat) (n : N) : Prop :=
  match fuel with O => False | S f => n < 128 \/ fits f (n / 128) end.

Lemma varint_rt : forall fuel n rest, fits fuel n ->
  varint_dec (varint_enc fuel n ++ rest) = Some (n, rest).
Proof.
  induction fuel as [|f IH]; intros n rest H; [contradiction|].
  cbn [varint_enc]. destruct (N.ltb_spec n 128) as [Hlt|Hge].
  - cbn [app varint_dec]. now rewrite (proj2 (N.ltb_lt n 128) Hlt).
  - destruct H as [H|H]; [lia|]. cbn [app varint_dec].
    assert (N.ltb (128 + n mod 128) 128 = false) as -> by (apply N.ltb_ge; lia).
    rewrite (IH _ rest H). f_equal. f_equal. lia.
Qed.

Lemma fits64 n : n < two64 -> fits 10 n.
Proof. unfold two64. intros H. cbn [fits]. lia. Qed.

Lemma varint64_rt n rest : n < two64 -> varint_dec (varint n ++ rest) = Some (n, rest).
Proof. intros H. apply varint_rt. now apply fits64. Qed.

(** BytesValue (and the framing of StringValue): any byte string shorter than 2^64 *)
Theorem len_msg_roundtrip s : N.of_nat (length s) < two64 -> dec_len_msg (enc_len_msg s) = Some s.
Proof.
  intros H. destruct s as [|c s]; [reflexivity|]. unfold enc_len_msg, dec_len_msg.
  cbn [N.eqb Pos.eqb]. rewrite varint64_rt by exact H. now rewrite N.eqb_refl.
Qed.
Theorem string_msg_roundtrip s b : N.of_nat (length s) < two64 ->
  enc_string_msg s = Some b -> dec_string_msg b = Some s.
Proof.
  unfold enc_string_msg, dec_string_msg. intros H. destruct (utf8_valid s) eqn:E; [|discriminate].
  intros [= <-]. rewrite len_msg_roundtrip by exact H. now rewrite E.
Qed.

Theorem int64_msg_roundtrip z : int64_ok z -> dec_int64_msg (enc_int64_msg z) = Some z.
Proof.
  unfold int64_ok, enc_int64_msg, dec_int64_msg, two63, two64. intros H.
  destruct (Z.eqb_spec z 0) as [->|Hz]; [reflexivity|]. cbn [N.eqb Pos.eqb].
  set (u := Z.to_N (z mod Z.of_N 18446744073709551616)).
  assert (Hu : u < 18446744073709551616) by (unfold u; lia).
  rewrite <- (app_nil_r (varint u)), (varint64_rt u [] Hu).
  rewrite (proj2 (N.ltb_lt _ _) Hu). f_equal.
  destruct (N.ltb_spec u 9223372036854775808); unfold u in *; lia.
Qed.

Theorem bool_msg_roundtrip b : dec_bool_msg (enc_bool_msg b) = Some b.
Proof. now destruct b. Qed.

(** ProtoMarshaler with the wire format written out: closed round trips *)
Theorem proto_roundtrip_bytes_closed ts gen cu du (v : list N) m :
  N.of_nat (length v) < two64 ->
  proto_marshal (list N) ts gen cu du true (fun v => Some (Some (enc_len_msg v))) v = Ok m ->
  proto_unmarshal (list N) true dec_len_msg m = Ok v /\ name_from_message m = name_of (list N) ts gen v.
Proof. intros H. apply proto_roundtrip. intros b [= <-]. now apply len_msg_roundtrip. Qed.

Theorem proto_roundtrip_string_closed ts gen cu du (v : list N) m :
  N.of_nat (length v) < two64 ->
  proto_marshal (list N) ts gen cu du true (fun v => option_map Some (enc_string_msg v)) v = Ok m ->
  proto_unmarshal (list N) true dec_string_msg m = Ok v /\ name_from_message m = name_of (list N) ts gen v.
Proof.
  intros H. apply proto_roundtrip. intros b Hb. destruct (enc_string_msg v) as [x|] eqn:E; [|discriminate].
  injection Hb as <-. now apply (string_msg_roundtrip v x).
Qed.

Theorem proto_roundtrip_int64_closed ts gen cu du (v : Z) m : int64_ok v ->
  proto_marshal Z ts gen cu du true (fun v => Some (Some (enc_int64_msg v))) v = Ok m ->
  proto_unmarshal Z true dec_int64_msg m = Ok v /\ name_from_message m = name_of Z ts gen v.
Proof. intros H. apply proto_roundtrip. intros b [= <-]. now apply int64_msg_roundtrip. Qed.

Theorem proto_roundtrip_bool_closed ts gen cu du (v : bool) m :
  proto_marshal bool ts gen cu du true (fun v => Some (Some (enc_bool_msg v))) v = Ok m ->
  proto_unmarshal bool true dec_bool_msg m = Ok v /\ name_from_message m = name_of bool ts gen v.
Proof. apply proto_roundtrip. intros b [= <-]. apply bool_msg_roundtrip. Qed.
