(** C16, round "proofs 2" — encoding/json writes map entries sorted by key (byte-wise string
    comparison); the envelope encoder with that order.  No proofs here. *)
From WM Require Import Base.Prelude Value.Model Value.Codec Value.Json.
Local Open Scope N_scope.

(** Go's string comparison a <= b: lexicographic on bytes *)
Fixpoint key_leb (a b : list N) : bool :=
  match a, b with
  | [], _ => true
  | _ :: _, [] => false
  | x :: a', y :: b' => if N.ltb x y then true else if N.eqb x y then key_leb a' b' else false
  end.
Fixpoint insert_kv (kv : str * str) (l : metadata) : metadata :=
  match l with
  | [] => [kv]
  | kv' :: l' => if key_leb (fst kv) (fst kv') then kv :: l else kv' :: insert_kv kv l'
  end.
Fixpoint sort_md (l : metadata) : metadata :=
  match l with [] => [] | kv :: l' => insert_kv kv (sort_md l') end.

(** the envelope with its metadata in the order the encoder writes it *)
Definition canon_env (e : envelope) : envelope :=
  Env (e_dest e) (e_uuid e) (e_payload e) (option_map sort_md (e_meta e)).
Definition canon_msg (m : msg) : msg := Msg (uuid m) (payload m) (option_map sort_md (meta m)).
Definition jenc_sorted (e : envelope) : option (list N) := jenc_env (canon_env e).
