(** C16, round "proofs 3" — the protobuf wire format of the wrapper messages the CQRS checks
    use (google.protobuf StringValue / BytesValue / Int64Value / BoolValue: one optional field,
    number 1): base-128 varints, tags, length-delimited framing, proto3 "default value is not
    written".  The decoders answer for the single-field encodings (and the empty message); other
    inputs a real decoder accepts (unknown fields, a field repeated, non-minimal varints, more than
    10 varint bytes) are [None] = outside this model.  Executable, total.  No proofs here. *)
From WM Require Import Base.Prelude Value.Model Value.Codec.
Local Open Scope N_scope.

Fixpoint varint_enc (fuel : nat) (n : N) : list N :=
  match fuel with
  | O => []
  | S f => if N.ltb n 128 then [n] else (128 + n mod 128) :: varint_enc f (n / 128)
  end.
Fixpoint varint_dec (s : list N) : option (N * list N) :=
  match s with
  | [] => None
  | b :: r =>
      if N.ltb b 128 then Some (b, r)
      else match varint_dec r with
           | Some (v, r') => Some (b - 128 + 128 * v, r')
           | None => None
           end
  end.
Definition varint (n : N) : list N := varint_enc 10 n.      (* 64-bit values: at most 10 bytes *)

Definition two64 : N := 18446744073709551616.
Definition two63 : N := 9223372036854775808.

(** field 1, wire type 2 (tag 0x0A): length, bytes *)
Definition enc_len_msg (s : list N) : list N :=
  match s with [] => [] | _ => 10 :: varint (N.of_nat (length s)) ++ s end.
Definition dec_len_msg (b : list N) : option (list N) :=
  match b with
  | [] => Some []
  | t :: r =>
      if N.eqb t 10 then
        match varint_dec r with
        | Some (n, body) => if N.eqb (N.of_nat (length body)) n then Some body else None
        | None => None
        end
      else None
  end.
(** StringValue additionally insists on valid UTF-8, on both sides *)
Definition enc_string_msg (s : list N) : option (list N) := if utf8_valid s then Some (enc_len_msg s) else None.
Definition dec_string_msg (b : list N) : option (list N) :=
  match dec_len_msg b with Some s => if utf8_valid s then Some s else None | None => None end.

(** field 1, wire type 0 (tag 0x08): int64 as the 64-bit two's complement *)
Definition enc_int64_msg (z : Z) : list N :=
  if Z.eqb z 0 then [] else 8 :: varint (Z.to_N (z mod (Z.of_N two64))).
Definition dec_int64_msg (b : list N) : option Z :=
  match b with
  | [] => Some 0%Z
  | t :: r =>
      if N.eqb t 8 then
        match varint_dec r with
        | Some (u, []) => if N.ltb u two64 then Some (if N.ltb u two63 then Z.of_N u else (Z.of_N u - Z.of_N two64)%Z) else None
        | _ => None
        end
      else None
  end.
Definition int64_ok (z : Z) : Prop := (- Z.of_N two63 <= z < Z.of_N two63)%Z.

Definition enc_bool_msg (b : bool) : list N := if b then [8; 1] else [].
Definition dec_bool_msg (s : list N) : option bool :=
  match s with
  | [] => Some false
  | [t; v] => if N.eqb t 8 then (if N.eqb v 1 then Some true else if N.eqb v 0 then Some false else None) else None
  | _ => None
  end.
