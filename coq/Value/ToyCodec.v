(** C16 — a toy serialisation of the envelope (length-prefixed fields) that exists only to show
    that the GLOBAL codec law assumed of encoding/json ("decode reads back every envelope
    encode wrote") is satisfiable, so the round-trip theorems are not vacuous.  No proofs here. *)
From WM Require Import Base.Prelude Value.Model Value.Codec.
Local Open Scope N_scope.

Definition put (l : list N) : list N := N.of_nat (length l) :: l.
Definition get (s : list N) : option (list N * list N) :=
  match s with
  | [] => None
  | n :: r => if Nat.leb (N.to_nat n) (length r)
              then Some (firstn (N.to_nat n) r, skipn (N.to_nat n) r) else None
  end.
Definition put_opt (p : option (list N)) : list N := match p with None => [0] | Some b => 1 :: put b end.
Definition get_opt (s : list N) : option (option (list N) * list N) :=
  match s with
  | [] => None
  | t :: r => if N.eqb t 0 then Some (None, r)
              else match get r with Some (b, r') => Some (Some b, r') | None => None end
  end.
Fixpoint put_entries (l : metadata) : list N :=
  match l with [] => [] | kv :: l' => put (fst kv) ++ put (snd kv) ++ put_entries l' end.
Fixpoint get_entries (n : nat) (s : list N) : option (metadata * list N) :=
  match n with
  | O => Some ([], s)
  | S n' =>
      match get s with
      | None => None
      | Some (k, r) =>
          match get r with
          | None => None
          | Some (v, r') =>
              match get_entries n' r' with Some (l, r'') => Some ((k, v) :: l, r'') | None => None end
          end
      end
  end.
Definition toy_enc (e : envelope) : option (list N) :=
  Some (put (e_dest e) ++ put (e_uuid e) ++ put_opt (e_payload e)
        ++ match e_meta e with None => [0] | Some l => 1 :: N.of_nat (length l) :: put_entries l end).
Definition toy_dec (s : list N) : option envelope :=
  match get s with
  | None => None
  | Some (d, r1) =>
      match get r1 with
      | None => None
      | Some (u, r2) =>
          match get_opt r2 with
          | None => None
          | Some (p, r3) =>
              match r3 with
              | [] => None
              | t :: r4 =>
                  if N.eqb t 0 then Some (Env d u p None) else
                  match r4 with
                  | [] => None
                  | n :: r5 => match get_entries (N.to_nat n) r5 with
                               | Some (l, _) => Some (Env d u p (Some l))
                               | None => None
                               end
                  end
              end
          end
      end
  end.
