(** C16, round "proofs 3" — every acceptor that judges implementation results is linked to the
    model by a theorem: what the model computes passes it. *)
From WM Require Import Base.Prelude Message.Model Value.Model Value.Codec Value.EqualsProofs Value.CodecProofs.

Section CqrsAccepted.
  Variable V : Type.
  Variable type_string : V -> str.
  Variable gen_name : option (V -> str).
  Variable cfg_uuid : option str.
  Variable default_uuid : str.
  Variable is_msg : bool.
  Variable venc : V -> option (option (list N)).
  Variable vdec : list N -> option V.
  Variable is_gogo : bool.
  Variable genc : V -> lib (option (list N)).
  Variable gdec : list N -> lib V.
  Variable nofb : bool.
  Variable veqb : V -> V -> bool.
  Hypothesis veqb_refl : forall x, veqb x x = true.

  Notation jm := (json_marshal V type_string gen_name cfg_uuid default_uuid venc).
  Notation ju := (json_unmarshal V vdec).
  Notation pm := (proto_marshal V type_string gen_name cfg_uuid default_uuid is_msg venc).
  Notation pu := (proto_unmarshal V is_msg vdec).
  Notation gm := (gogo_marshal V type_string gen_name cfg_uuid default_uuid is_msg venc is_gogo genc nofb).
  Notation gu := (gogo_unmarshal V is_msg vdec is_gogo gdec nofb).
  Notation ok := (cqrs_rt_ok V type_string gen_name veqb).

  Definition read_name (r : res msg) : str := match r with Ok m => name_from_message m | Err _ => [] end.
  Definition read_back (un : msg -> res V) (r : res msg) : res V := match r with Ok m => un m | Err e => Err e end.

  Theorem json_model_accepted v :
    (forall b, venc v = Some b -> vdec (pl_bytes b) = Some v) ->
    ok v (jm v) (read_name (jm v)) (read_back ju (jm v)) = true.
  Proof.
    intros Hl. apply cqrs_rt_ok_intro; auto. intros m Hm. rewrite Hm. simpl.
    destruct (json_roundtrip V type_string gen_name cfg_uuid default_uuid venc vdec v m Hl Hm). auto.
  Qed.
  Theorem proto_model_accepted v :
    (forall b, venc v = Some b -> vdec (pl_bytes b) = Some v) ->
    ok v (pm v) (read_name (pm v)) (read_back pu (pm v)) = true.
  Proof.
    intros Hl. apply cqrs_rt_ok_intro; auto. intros m Hm. rewrite Hm. simpl.
    destruct (proto_roundtrip V type_string gen_name cfg_uuid default_uuid is_msg venc vdec v m Hl Hm). auto.
  Qed.
  Theorem gogo_model_accepted v :
    (forall b, genc v = LOk b -> gdec (pl_bytes b) = LOk v) ->
    (forall b, venc v = Some b -> vdec (pl_bytes b) = Some v) ->
    (forall b v', venc v = Some b -> gdec (pl_bytes b) = LOk v' -> v' = v) ->
    ok v (gm v) (read_name (gm v)) (read_back (gu true) (gm v)) = true.
  Proof.
    intros Hg Hs Hx. apply cqrs_rt_ok_intro; auto. intros m Hm. rewrite Hm. simpl.
    destruct (gogo_roundtrip V type_string gen_name cfg_uuid default_uuid is_msg venc vdec is_gogo genc gdec nofb v m Hg Hs Hx Hm). auto.
  Qed.
End CqrsAccepted.

(** forwarder.Publisher: every (message, unwrapped envelope) pair of a batch passes the envelope
    acceptor *)
Theorem publisher_model_accepted jenc jdec nu cfg inner_ok dest ms ft ws :
  (forall m, In m ms -> msg_wf m) ->
  (forall m b, In m ms -> jenc (env_of dest m) = Some b -> jdec b = Some (env_of dest m)) ->
  fwd_publish jenc nu cfg inner_ok dest ms = Ok (ft, ws) ->
  length ws = length ms
  /\ forallb (fun mu => envelope_rt_ok dest (fst mu) (snd mu)) (combine ms (map (unwrap jdec) ws)) = true.
Proof.
  intros Hwf Hlaw Hp. destruct (publisher_roundtrip jenc jdec nu cfg inner_ok dest ms ft ws Hlaw Hp) as [_ Hm].
  split.
  - rewrite <- (map_length (unwrap jdec) ws), Hm. apply map_length.
  - rewrite Hm. clear Hm Hp Hlaw. induction ms as [|m ms IH]; [reflexivity|].
    simpl. rewrite str_eqb_refl, identical_b_refl by (apply Hwf; now left). simpl.
    apply IH. intros x Hx. apply Hwf. now right.
Qed.
