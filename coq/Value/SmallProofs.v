(** C16, round "proofs 3" — Messages.IDs, LogFields.Add / Copy, identifier formats. *)
From WM Require Import Base.Prelude Message.Model Value.Model Value.Codec Value.Small
  Value.EqualsProofs Value.StoreProofs.
Local Open Scope N_scope.

Theorem ids_spec ms : length (ids ms) = length ms /\ forall i, nth_error (ids ms) i = option_map uuid (nth_error ms i).
Proof. unfold ids. split; [apply map_length | intros i; apply nth_error_map]. Qed.

(** lookups in the result of Add: the new fields win, the rest comes from the receiver *)
Lemma fold_set_get : forall (new acc : metadata) k, md_wf new ->
  md_get (fold_left (fun a kv => md_set a (fst kv) (snd kv)) new acc) k
  = match md_get new k with Some v => Some v | None => md_get acc k end.
Proof.
  induction new as [|[k' v'] new IH]; intros acc k W; [reflexivity|].
  unfold md_wf in W. simpl in W. inversion W as [|? ? Hnotin W']; subst.
  cbn [fold_left fst snd]. rewrite IH by exact W'. cbn [md_get].
  destruct (str_eqb k' k) eqn:E.
  - apply str_eqb_eq in E. subst k'.
    assert (md_get new k = None) as -> by now apply md_get_None. apply md_get_set_same.
  - destruct (md_get new k); auto. apply md_get_set_other. apply str_eqb_neq in E. congruence.
Qed.
Lemma fold_set_wf : forall (new acc : metadata), md_wf acc ->
  md_wf (fold_left (fun a kv => md_set a (fst kv) (snd kv)) new acc).
Proof. induction new as [|kv new IH]; intros acc W; simpl; auto. apply IH. now apply md_set_wf. Qed.

Theorem lf_add_spec l new : md_wf (md_entries l) -> md_wf (md_entries new) ->
  md_wf (lf_add l new)
  /\ forall k, md_get (lf_add l new) k
               = match md_get (md_entries new) k with Some v => Some v | None => md_get (md_entries l) k end.
Proof.
  intros Wl Wn. unfold lf_add. split.
  - apply fold_set_wf. apply md_build_wf.
  - intros k. rewrite fold_set_get by exact Wn. now rewrite (md_build_id _ Wl).
Qed.
Theorem lf_copy_spec l : md_wf (md_entries l) -> lf_copy l = md_entries l.
Proof. intros W. unfold lf_copy. now apply md_build_id. Qed.

(** identifiers in any of the three formats are non-empty ASCII, hence valid UTF-8: a message whose
    UUID comes from NewUUID / NewShortUUID / NewULID meets the precondition of the closed envelope
    round trip *)
Lemma ascii_utf8 s : forallb (fun c => N.ltb c 128) s = true -> utf8_valid s = true.
Proof.
  induction s as [|c s IH]; [reflexivity|]. simpl. intros H. apply andb_true_iff in H as [H1 H2].
  rewrite H1. now apply IH.
Qed.
Lemma forallb_impl {A} (f g : A -> bool) l : (forall x, f x = true -> g x = true) -> forallb f l = true -> forallb g l = true.
Proof. intros H. rewrite !forallb_forall. auto. Qed.

Ltac range_lt :=
  unfold in_range in *;
  repeat match goal with
         | H : _ && _ = true |- _ => apply andb_true_iff in H; destruct H
         | H : _ || _ = true |- _ => apply orb_true_iff in H; destruct H
         | H : N.leb _ _ = true |- _ => apply N.leb_le in H
         | H : N.eqb _ _ = true |- _ => apply N.eqb_eq in H
         end; apply N.ltb_lt; lia.

Lemma uuid4_char_ascii i c : uuid4_char i c = true -> N.ltb c 128 = true.
Proof. unfold uuid4_char, hex_lower. intros H. repeat match type of H with (if ?b then _ else _) = true => destruct b end; range_lt. Qed.

Lemma combine_snd_forall {A B} (f : B -> bool) (g : A * B -> bool) : (forall a b, g (a, b) = true -> f b = true) ->
  forall (la : list A) (lb : list B), length la = length lb -> forallb g (combine la lb) = true -> forallb f lb = true.
Proof.
  intros H. induction la as [|a la IH]; intros [|b lb] Hl; simpl; try discriminate; auto.
  intros Hg. apply andb_true_iff in Hg as [H1 H2]. rewrite (H a b H1). simpl. apply IH; auto.
Qed.

Theorem id_formats_usable s :
  uuid4_format s = true \/ shortuuid_format s = true \/ ulid_format s = true ->
  s <> [] /\ utf8_valid s = true.
Proof.
  intros [H|[H|H]].
  - unfold uuid4_format in H. apply andb_true_iff in H as [Hl Hc]. apply Nat.eqb_eq in Hl. split.
    + intros ->. discriminate.
    + apply ascii_utf8. apply (combine_snd_forall _ (fun ic => uuid4_char (fst ic) (snd ic)) (fun a b => uuid4_char_ascii a b) (seq 0 36) s); auto.
  - unfold shortuuid_format in H. apply andb_true_iff in H as [Hl Hc]. apply andb_true_iff in Hl as [Hl _]. apply Nat.leb_le in Hl. split.
    + intros ->. simpl in Hl. inversion Hl.
    + apply ascii_utf8. eapply forallb_impl; [|exact Hc]. intros c Hx. unfold base57_char in Hx. range_lt.
  - unfold ulid_format in H. apply andb_true_iff in H as [H _]. apply andb_true_iff in H as [Hl Hc].
    apply Nat.eqb_eq in Hl. split.
    + intros ->. discriminate.
    + apply ascii_utf8. eapply forallb_impl; [|exact Hc]. intros c Hx. unfold crockford_char in Hx. range_lt.
Qed.

(** Copy keeps the value and drops the context, whatever was set *)
Theorem copy_drops_context mc c : fst (copy_c (set_context mc c)) = fst mc /\ snd (copy_c (set_context mc c)) = 0.
Proof. split; reflexivity. Qed.
