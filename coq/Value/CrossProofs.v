(** C16, round "proofs" — the CQRS protobuf marshalers used with DIFFERENT configurations on the
    two sides (marshaler_protobuf_gogo.go documents ProtobufMarshaler as "backward and forward
    compatible with ProtoMarshaler"), and the message context through the forwarder envelope. *)
From WM Require Import Base.Prelude Message.Model Value.Model Value.Codec Value.CodecProofs.

Section Cross.
  Variable V : Type.
  Variable type_string : V -> str.
  Variable gen_name : option (V -> str).
  Variable cfg_uuid : option str.
  Variable default_uuid : str.
  Variable is_msg : bool.
  Variable venc : V -> option (option (list N)).
  Variable vdec : list N -> option V.
  Variable is_gogo : bool.
  Variable genc : V -> lib (option (list N)).
  Variable gdec : list N -> lib V.

  Notation pm := (proto_marshal V type_string gen_name cfg_uuid default_uuid is_msg venc).
  Notation pu := (proto_unmarshal V is_msg vdec).
  Notation gm := (gogo_marshal V type_string gen_name cfg_uuid default_uuid is_msg venc is_gogo genc).
  Notation gu := (gogo_unmarshal V is_msg vdec is_gogo gdec).

  (** forward: written by ProtoMarshaler, read by the gogo marshaler with the fallback enabled *)
  Theorem proto_then_gogo v m :
    (forall b, venc v = Some b -> vdec (pl_bytes b) = Some v) ->
    (forall b v', venc v = Some b -> gdec (pl_bytes b) = LOk v' -> v' = v) ->
    pm v = Ok m -> gu false true m = Ok v.
  Proof.
    intros Hs Hx. unfold proto_marshal, json_marshal, gogo_unmarshal, proto_unmarshal, json_unmarshal.
    destruct is_msg; simpl; [|discriminate].
    destruct (venc v) as [b|] eqn:Ev; [|discriminate]. intros [= <-]. simpl.
    destruct is_gogo; simpl.
    - destruct (gdec (pl_bytes b)) as [v'| |] eqn:Ed.
      + now rewrite (Hx _ _ eq_refl Ed).
      + now rewrite (Hs _ eq_refl).
      + now rewrite (Hs _ eq_refl).
    - now rewrite (Hs _ eq_refl).
  Qed.

  (** backward: written by the gogo marshaler (either setting), read by ProtoMarshaler — needs the
      std library to read gogo's bytes when gogo wrote them *)
  Theorem gogo_then_proto nofb v m : is_msg = true ->
    (forall b, venc v = Some b -> vdec (pl_bytes b) = Some v) ->
    (forall b, genc v = LOk b -> vdec (pl_bytes b) = Some v) ->
    gm nofb v = Ok m -> pu m = Ok v.
  Proof.
    intros Em Hs Hy. unfold gogo_marshal, proto_marshal, json_marshal, proto_unmarshal, json_unmarshal.
    rewrite Em. simpl.
    destruct is_gogo; simpl.
    - destruct (genc v) as [b| |] eqn:Eg.
      + intros [= <-]. simpl. now rewrite (Hy _ eq_refl).
      + destruct nofb; simpl; [discriminate|].
        destruct (venc v) as [b|] eqn:Ev; [|discriminate]. intros [= <-]. simpl. now rewrite (Hs _ eq_refl).
      + destruct nofb; simpl; [discriminate|].
        destruct (venc v) as [b|] eqn:Ev; [|discriminate]. intros [= <-]. simpl. now rewrite (Hs _ eq_refl).
    - destruct nofb; simpl; [discriminate|].
      destruct (venc v) as [b|] eqn:Ev; [|discriminate]. intros [= <-]. simpl. now rewrite (Hs _ eq_refl).
  Qed.

  (** gogo on both sides with different fallback settings: fine whenever gogo itself wrote the
      bytes ... *)
  Theorem gogo_cross_config_gogo_bytes nofb_w nofb_r fixed v b :
    is_gogo = true -> genc v = LOk b ->
    (forall b, genc v = LOk b -> gdec (pl_bytes b) = LOk v) ->
    exists m, gm nofb_w v = Ok m /\ gu nofb_r fixed m = Ok v.
  Proof.
    intros Eg Eb Hg. unfold gogo_marshal, gogo_unmarshal. rewrite Eg, Eb. simpl.
    eexists. split; [reflexivity|]. simpl. now rewrite (Hg _ Eb).
  Qed.
End Cross.

(** ... but a message the writer's FALLBACK produced cannot be read by a reader whose fallback is
    disabled (the situation marshaler_protobuf_gogo_test.go "publishing service uses fallback and
    consuming service does not" exercises) *)
Theorem gogo_cross_config_refuted :
  exists (venc : unit -> option (option (list N))) (vdec : list N -> option unit)
         (genc : unit -> lib (option (list N))) (gdec : list N -> lib unit) m,
    (forall b, venc tt = Some b -> vdec (pl_bytes b) = Some tt)
    /\ gogo_marshal unit (fun _ => []) None None [] true venc true genc false tt = Ok m
    /\ gogo_unmarshal unit true vdec true gdec true true m = Err ELibPanic.
Proof.
  exists (fun _ => Some (Some [])), (fun _ => Some tt), (fun _ => LPanic), (fun _ => LPanic).
  eexists. split; [reflexivity|]. split; reflexivity.
Qed.

(** * message context through the envelope (envelope.go l.56 and l.72: SetContext(msg.Context())).
    A context is an opaque identity here. *)
Section Ctx.
  Variable jenc : envelope -> option (list N).
  Variable jdec : list N -> option envelope.
  Variable nu : str.

  (** the envelope message carries the wrapped message's context; the unwrapped message carries
      the context of the envelope message it was unwrapped FROM (after a broker hop: the
      subscriber's), whatever the original's was *)
  Theorem envelope_context dest m c c' w :
    (forall b, jenc (env_of dest m) = Some b -> jdec b = Some (env_of dest m)) ->
    wrap_c jenc nu dest (m, c) = Ok w ->
    snd w = c /\ unwrap_c jdec (fst w, c') = Ok (dest, (m, c')).
  Proof.
    intros Hlaw. unfold wrap_c, unwrap_c. simpl.
    destruct (wrap jenc nu dest m) as [w0|] eqn:Ew; [|discriminate]. intros [= <-]. simpl.
    split; auto. now rewrite (envelope_roundtrip jenc jdec nu dest m w0 Hlaw Ew).
  Qed.
End Ctx.
