(** C16, round "seeds 3" — Unmarshal as what it is in Go: a function of the payload AND of what
    the target value held before the call (components/cqrs/marshaler_json.go l.39-41:
    json.Unmarshal(msg.Payload, v); marshaler_protobuf.go l.63-70: proto.Unmarshal(msg.Payload, v);
    marshaler_protobuf_gogo.go Unmarshal: gogo proto.Unmarshal on the target, then — on error or
    panic — ProtoMarshaler.Unmarshal on the SAME target, whatever the failed attempt rest in it).
    The library calls are oracles [*_into prev bytes]; [zero] is a freshly created target.
    Executable, total.  No proofs here. *)
From WM Require Import Base.Prelude Value.Model Value.Codec.

Section Reuse.
  Variable V : Type.
  Variable vdec_into : V -> list N -> option V.        (* json.Unmarshal / std proto.Unmarshal into a target holding [prev] *)
  Variable is_msg : bool.
  Variable is_gogo : bool.
  Variable gdec_into : V -> list N -> lib V * V.        (* gogo proto.Unmarshal: outcome, and what the target holds afterwards *)
  Variable nofb : bool.

  Definition json_unmarshal_into (prev : V) (m : msg) : res V :=
    match vdec_into prev (pl_bytes (payload m)) with None => Err ELibUnmarshal | Some v => Ok v end.
  Definition proto_unmarshal_into (prev : V) (m : msg) : res V :=
    if negb is_msg then Err ENoProto else json_unmarshal_into prev m.
  Definition gogo_unmarshal_into (fixed : bool) (prev : V) (m : msg) : res V :=
    if negb is_gogo then
      (if fixed && negb nofb then proto_unmarshal_into prev m else Err ENoProto)
    else
      let '(r, rest) := gdec_into prev (pl_bytes (payload m)) in
      match r with
      | LOk v => Ok v
      | LErr => if negb nofb then proto_unmarshal_into rest m else Err ELibUnmarshal
      | LPanic => if negb nofb then proto_unmarshal_into rest m else Err ELibPanic
      end.

  (** the contract proto.Unmarshal documents ("resets m, then merges"): the result does not depend
      on what the target held *)
  Definition resets (zero : V) : Prop := forall prev b, vdec_into prev b = vdec_into zero b.
  Definition gogo_resets (zero : V) : Prop := forall prev b, fst (gdec_into prev b) = fst (gdec_into zero b).
End Reuse.
