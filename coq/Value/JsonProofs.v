(** C16, round "proofs" — proved round trips of the Gallina model of encoding/json
    (coq/Value/Json.v): string escaping, base64, the envelope's JSON text. *)
From WM Require Import Base.Prelude Message.Model Value.Model Value.Codec Value.Json
  Value.EqualsProofs Value.CodecProofs Value.StoreProofs.
Local Open Scope N_scope.

(** * walking *)
Lemma walk_skip step : forall c rest, walk step (length c) (c ++ rest) = walk step 0 rest.
Proof. induction c as [|b c IH]; intros rest; simpl; auto. Qed.
Lemma walk_chunk step b c rest out :
  step ((b :: c) ++ rest) = (out, length (b :: c)) ->
  walk step 0 ((b :: c) ++ rest) = out ++ walk step 0 rest.
Proof.
  intros H. change (walk step 0 ((b :: c) ++ rest))
    with (let '(o, n) := step ((b :: c) ++ rest) in o ++ walk step (pred n) (c ++ rest)).
  rewrite H. simpl pred. now rewrite walk_skip.
Qed.
Lemma walk_opt_skip step : forall c rest, walk_opt step (length c) (c ++ rest) = walk_opt step 0 rest.
Proof. induction c as [|b c IH]; intros rest; simpl; auto. Qed.
Lemma walk_opt_chunk step b c rest out :
  step ((b :: c) ++ rest) = Some (out, length (b :: c)) ->
  walk_opt step 0 ((b :: c) ++ rest) =
  match walk_opt step 0 rest with Some t => Some (out ++ t) | None => None end.
Proof.
  intros H. change (walk_opt step 0 ((b :: c) ++ rest))
    with (match step ((b :: c) ++ rest) with
          | None => None
          | Some (o, n) => match walk_opt step (pred n) (c ++ rest) with Some t => Some (o ++ t) | None => None end
          end).
  rewrite H. simpl pred. now rewrite walk_opt_skip.
Qed.

(** * one UTF-8 sequence at a time *)
Ltac split_ifs :=
  repeat match goal with
         | |- context [if ?b then _ else _] => let E := fresh "E" in destruct b eqn:E
         | H : context [if ?b then _ else _] |- _ => let E := fresh "E" in destruct b eqn:E
         end.
Ltac rew_bools :=
  repeat match goal with
         | H : ?b = true |- context [?b] => rewrite H
         | H : ?b = false |- context [?b] => rewrite H
         end.

Lemma utf8_valid_unfold s :
  utf8_valid s = match s with
                 | [] => true
                 | _ => match rune_len s with O => false | n => utf8_valid (skipn n s) end
                 end.
Proof.
  destruct s as [|b0 r0]; [reflexivity|].
  cbn [utf8_valid rune_len].
  destruct (N.ltb b0 128); [reflexivity|].
  destruct r0 as [|b1 r1]; [reflexivity|]. cbv match beta.
  destruct (in_range 194 223 b0). { destruct (cont b1); reflexivity. }
  destruct r1 as [|b2 r2]; [reflexivity|]. cbv match beta.
  destruct (N.eqb b0 224). { destruct (in_range 160 191 b1), (cont b2); reflexivity. }
  destruct (in_range 225 236 b0 || in_range 238 239 b0). { destruct (cont b1), (cont b2); reflexivity. }
  destruct (N.eqb b0 237). { destruct (in_range 128 159 b1), (cont b2); reflexivity. }
  destruct r2 as [|b3 r3]; [reflexivity|]. cbv match beta.
  destruct (N.eqb b0 240). { destruct (in_range 144 191 b1), (cont b2), (cont b3); reflexivity. }
  destruct (in_range 241 243 b0). { destruct (cont b1), (cont b2), (cont b3); reflexivity. }
  destruct (N.eqb b0 244). { destruct (in_range 128 143 b1), (cont b2), (cont b3); reflexivity. }
  reflexivity.
Qed.

(** the shape of the sequence at the head of [s] *)
Lemma rune_split s n : rune_len s = S n ->
  length (firstn (S n) s) = S n
  /\ (forall X, rune_len (firstn (S n) s ++ X) = S n)
  /\ exists b0 c, firstn (S n) s = b0 :: c /\ (N.ltb b0 128 = true -> c = []).
Proof.
  destruct s as [|b0 [|b1 [|b2 [|b3 r]]]]; cbn [rune_len]; intros H; split_ifs; try discriminate;
    injection H as <-; cbn [firstn skipn length app];
    (split; [reflexivity|]; split;
     [ intros X; cbn [rune_len app]; rew_bools; reflexivity
     | eexists; eexists; split; [reflexivity | intros; first [reflexivity | congruence]] ]).
Qed.

Lemma rune_len_le s : (rune_len s <= length s)%nat.
Proof.
  destruct s as [|b0 [|b1 [|b2 [|b3 r]]]]; cbn [rune_len length]; split_ifs; lia.
Qed.

(** * escape, one sequence at a time *)

(** every ASCII byte: what the encoder writes for it is read back as that byte, in one step *)
Lemma unesc_ascii b X : b < 128 ->
  unesc_step (esc_ascii b ++ X) = Some ([b], length (esc_ascii b)) /\ esc_ascii b <> [].
Proof.
  intros H. destruct b as [|p]; [split; [reflexivity | discriminate]|].
  do 7 (try destruct p as [p|p|]); try (exfalso; lia); (split; [vm_compute; reflexivity | discriminate]).
Qed.

(** what the encoder writes for one well-formed sequence [c] *)
Definition esc_rune (c : list N) : list N :=
  match c with
  | [b] => if N.ltb b 128 then esc_ascii b else c
  | _ => if list_eqb N.eqb c [226; 128; 168] then [92; 117; 50; 48; 50; 56]
         else if list_eqb N.eqb c [226; 128; 169] then [92; 117; 50; 48; 50; 57] else c
  end.

Lemma esc_step_rune s n : rune_len s = S n ->
  esc_step (firstn (S n) s ++ skipn (S n) s) = (esc_rune (firstn (S n) s), length (firstn (S n) s)).
Proof.
  intros H. rewrite firstn_skipn. destruct (rune_split s n H) as (Hl & _ & b0 & c & Hc & Hasc).
  assert (Hs : exists r, s = b0 :: r).
  { destruct s as [|x r]; [discriminate|]. simpl in Hc. inversion Hc. eauto. }
  destruct Hs as [r ->]. unfold esc_step. rewrite H, Hc.
  destruct (N.ltb b0 128) eqn:E.
  - rewrite (Hasc eq_refl) in *. simpl. rewrite E. simpl in Hl. congruence.
  - unfold esc_rune. destruct c as [|c1 c'].
    + rewrite E. assert (list_eqb N.eqb [b0] [226; 128; 168] = false) as -> by (simpl; now rewrite andb_false_r).
      assert (list_eqb N.eqb [b0] [226; 128; 169] = false) as -> by (simpl; now rewrite andb_false_r).
      rewrite <- Hc, Hl. reflexivity.
    + destruct (list_eqb N.eqb (b0 :: c1 :: c') [226; 128; 168]) eqn:E1.
      { apply bytes_eqb_eq in E1. rewrite E1. reflexivity. }
      destruct (list_eqb N.eqb (b0 :: c1 :: c') [226; 128; 169]) eqn:E2.
      { apply bytes_eqb_eq in E2. rewrite E2. reflexivity. }
      rewrite <- Hc, Hl. reflexivity.
Qed.

Lemma unesc_step_rune s n X : rune_len s = S n ->
  unesc_step (esc_rune (firstn (S n) s) ++ X) = Some (firstn (S n) s, length (esc_rune (firstn (S n) s)))
  /\ esc_rune (firstn (S n) s) <> [].
Proof.
  intros H. destruct (rune_split s n H) as (Hl & Hr & b0 & c & Hc & Hasc). rewrite Hc in *.
  destruct (N.ltb b0 128) eqn:E.
  - rewrite (Hasc eq_refl). simpl. rewrite E. apply unesc_ascii. now apply N.ltb_lt.
  - assert (Hraw : unesc_step ((b0 :: c) ++ X) = Some (b0 :: c, length (b0 :: c))).
    { cbn [app]. unfold unesc_step. apply N.ltb_ge in E.
      assert (N.ltb b0 32 = false) as -> by (apply N.ltb_ge; lia).
      assert (N.eqb b0 34 = false) as -> by (apply N.eqb_neq; lia).
      assert (N.eqb b0 92 = false) as -> by (apply N.eqb_neq; lia).
      assert (N.ltb b0 128 = false) as -> by (apply N.ltb_ge; lia).
      cbn [orb]. change (b0 :: c ++ X) with ((b0 :: c) ++ X). rewrite Hr, Hl.
      rewrite <- Hl at 1. rewrite firstn_app, firstn_all, Nat.sub_diag. simpl firstn. now rewrite app_nil_r. }
    unfold esc_rune. destruct c as [|c1 c']; [rewrite E; split; [exact Hraw | discriminate]|].
    destruct (list_eqb N.eqb (b0 :: c1 :: c') [226; 128; 168]) eqn:E1.
    { apply bytes_eqb_eq in E1. rewrite E1. split; [reflexivity | discriminate]. }
    destruct (list_eqb N.eqb (b0 :: c1 :: c') [226; 128; 169]) eqn:E2.
    { apply bytes_eqb_eq in E2. rewrite E2. split; [reflexivity | discriminate]. }
    split; [exact Hraw | discriminate].
Qed.

(** ** the round trip: reading back what the encoder wrote for a valid-UTF-8 string *)
Theorem unescape_escape : forall s, utf8_valid s = true -> unescape (escape s) = Some s.
Proof.
  intros s. remember (length s) as k eqn:Hk. revert s Hk.
  induction k as [k IH] using lt_wf_ind. intros s Hk Hv.
  destruct s as [|b r] eqn:Es; [reflexivity|]. rewrite <- Es in *.
  rewrite utf8_valid_unfold in Hv. rewrite Es in Hv at 1.
  destruct (rune_len s) as [|n] eqn:Hn; [discriminate|].
  pose proof (rune_split s n Hn) as (Hl & _ & b0 & c & Hc & _).
  pose proof (esc_step_rune s n Hn) as He.
  destruct (unesc_step_rune s n (escape (skipn (S n) s)) Hn) as [Hu Hne].
  assert (Hlen : (length (skipn (S n) s) < k)%nat).
  { rewrite skipn_length. pose proof (rune_len_le s). subst k. rewrite Es in *. simpl length in *. lia. }
  specialize (IH _ Hlen (skipn (S n) s) eq_refl Hv).
  unfold escape, unescape in *.
  rewrite <- (firstn_skipn (S n) s) at 1. rewrite Hc in *.
  rewrite (walk_chunk esc_step b0 c _ _ He).
  destruct (esc_rune (b0 :: c)) as [|e0 ec] eqn:Er; [congruence|].
  rewrite (walk_opt_chunk unesc_step e0 ec _ _ Hu), IH.
  rewrite <- Hc, firstn_skipn. reflexivity.
Qed.

(** * base64 *)
Ltac Zify.zify_post_hook ::= Z.to_euclidean_division_equations.

Lemma b64c_range x : x < 64 ->
  (65 <= b64c x <= 90 \/ 97 <= b64c x <= 122 \/ 48 <= b64c x <= 57 \/ b64c x = 43 \/ b64c x = 47).
Proof.
  intros H. unfold b64c.
  destruct (N.ltb_spec x 26); [lia|]. destruct (N.ltb_spec x 52); [lia|].
  destruct (N.ltb_spec x 62); [lia|]. destruct (N.eqb_spec x 62); lia.
Qed.
Lemma b64v_b64c x : x < 64 -> b64v (b64c x) = Some x.
Proof.
  intros H. unfold b64c, b64v, in_range.
  destruct (N.ltb_spec x 26).
  { assert (N.leb 65 (65 + x) = true) as -> by (apply N.leb_le; lia).
    assert (N.leb (65 + x) 90 = true) as -> by (apply N.leb_le; lia). cbn [andb orb]. f_equal. lia. }
  destruct (N.ltb_spec x 52).
  { assert (N.leb (71 + x) 90 = false) as -> by (apply N.leb_gt; lia). rewrite andb_false_r.
    assert (N.leb 97 (71 + x) = true) as -> by (apply N.leb_le; lia).
    assert (N.leb (71 + x) 122 = true) as -> by (apply N.leb_le; lia). cbn [andb orb]. f_equal. lia. }
  destruct (N.ltb_spec x 62).
  { assert (N.leb 65 (x - 4) = false) as -> by (apply N.leb_gt; lia). cbn [andb orb].
    assert (N.leb 97 (x - 4) = false) as -> by (apply N.leb_gt; lia). cbn [andb orb].
    assert (N.leb 48 (x - 4) = true) as -> by (apply N.leb_le; lia).
    assert (N.leb (x - 4) 57 = true) as -> by (apply N.leb_le; lia). cbn [andb orb]. f_equal. lia. }
  destruct (N.eqb_spec x 62); [subst; reflexivity|].
  assert (x = 63) as -> by lia. reflexivity.
Qed.
Lemma b64c_not_pad x : x < 64 -> N.eqb (b64c x) 61 = false.
Proof. intros H. apply N.eqb_neq. pose proof (b64c_range x H). lia. Qed.

Lemma list_ind3 {A} (P : list A -> Prop) :
  P [] -> (forall a, P [a]) -> (forall a b, P [a; b]) ->
  (forall a b c r, P r -> P (a :: b :: c :: r)) -> forall l, P l.
Proof.
  intros H0 H1 H2 H3. fix IH 1. intros [|a [|b [|c r]]]; [exact H0 | exact (H1 a) | exact (H2 a b) | exact (H3 a b c r (IH r))].
Qed.

Lemma b64dec_q_enc : forall bs, bytes_ok bs -> b64dec_q (b64enc bs) = Some bs.
Proof.
  induction bs as [|a|a b|a b c r IH] using list_ind3; intros Hok.
  - reflexivity.
  - inversion Hok as [|? ? Ha _]; subst. cbn [b64enc b64dec_q].
    rewrite !b64v_b64c by lia. cbn [N.eqb Pos.eqb]. f_equal. f_equal. lia.
  - inversion Hok as [|? ? Ha Hok']; subst. inversion Hok' as [|? ? Hb _]; subst. cbn [b64enc b64dec_q].
    rewrite !b64v_b64c by lia. cbn [N.eqb Pos.eqb]. rewrite b64c_not_pad by lia.
    rewrite ?b64v_b64c by lia. f_equal. f_equal; [lia|]. f_equal. lia.
  - inversion Hok as [|? ? Ha Hok1]; subst. inversion Hok1 as [|? ? Hb Hok2]; subst.
    inversion Hok2 as [|? ? Hc Hok3]; subst.
    cbn [b64enc app b64dec_q]. rewrite !b64v_b64c by lia. rewrite b64c_not_pad by lia.
    rewrite ?b64v_b64c by lia. rewrite (IH Hok3). f_equal. cbn [app].
    f_equal; [lia|]. f_equal; [lia|]. f_equal. lia.
Qed.

(** the characters base64 writes: never a newline, and safe inside a JSON string *)
Definition b64_out (c : N) : Prop := 43 <= c <= 122 /\ c <> 92.
Lemma b64enc_chars : forall bs, bytes_ok bs -> Forall b64_out (b64enc bs).
Proof.
  assert (Hc : forall x, x < 64 -> b64_out (b64c x)).
  { intros x H. pose proof (b64c_range x H). unfold b64_out. lia. }
  assert (Hp : b64_out 61) by (unfold b64_out; lia).
  induction bs as [|a|a b|a b c r IH] using list_ind3; intros Hok; cbn [b64enc].
  - constructor.
  - inversion Hok; subst. do 2 (constructor; [apply Hc; lia|]). do 2 (constructor; [exact Hp|]). constructor.
  - inversion Hok as [|? ? Ha Hok']; subst. inversion Hok'; subst. do 3 (constructor; [apply Hc; lia|]). constructor; [exact Hp|]. constructor.
  - inversion Hok as [|? ? Ha Hok1]; subst. inversion Hok1 as [|? ? Hb Hok2]; subst.
    inversion Hok2 as [|? ? Hc' Hok3]; subst. cbn [app].
    do 4 (constructor; [apply Hc; lia|]). auto.
Qed.
Lemma filter_b64 l : Forall b64_out l -> filter not_newline l = l.
Proof.
  induction 1 as [|c l Hc _ IH]; simpl; auto.
  assert (not_newline c = true) as ->.
  { unfold not_newline, b64_out in *. destruct (N.eqb_spec c 10), (N.eqb_spec c 13); simpl; auto; lia. }
  now rewrite IH.
Qed.

Theorem b64dec_b64enc bs : bytes_ok bs -> b64dec (b64enc bs) = Some bs.
Proof.
  intros H. unfold b64dec. rewrite filter_b64 by now apply b64enc_chars. now apply b64dec_q_enc.
Qed.

(** * field codecs *)
Theorem dec_str_enc_str s : utf8_valid s = true -> dec_str (enc_str s) = Some s.
Proof.
  intros H. unfold dec_str, enc_str. cbn [N.eqb Pos.eqb]. rewrite rev_unit. cbn [N.eqb Pos.eqb].
  rewrite rev_involutive. now apply unescape_escape.
Qed.

(** text that needs no escaping is read back as it is *)
Lemma unescape_safe l : Forall b64_out l -> unescape l = Some l.
Proof.
  unfold unescape. induction 1 as [|c l Hc _ IH]; [reflexivity|].
  assert (Hs : unesc_step (c :: l) = Some ([c], 1%nat)).
  { unfold unesc_step. unfold b64_out in Hc.
    assert (N.ltb c 32 = false) as -> by (apply N.ltb_ge; lia).
    assert (N.eqb c 34 = false) as -> by (apply N.eqb_neq; lia).
    assert (N.eqb c 92 = false) as -> by (apply N.eqb_neq; lia).
    assert (N.ltb c 128 = true) as -> by (apply N.ltb_lt; lia). reflexivity. }
  cbn [walk_opt]. rewrite Hs. cbn [pred]. now rewrite IH.
Qed.

Definition dec_bytes (v : list N) : option (option (list N)) :=
  if is_null v then Some None
  else match dec_str v with Some t => option_map Some (b64dec t) | None => None end.
Theorem dec_bytes_enc_bytes p : bytes_ok (pl_bytes p) -> dec_bytes (enc_bytes p) = Some p.
Proof.
  intros H. destruct p as [b|]; [|reflexivity]. simpl in H.
  unfold dec_bytes, enc_bytes. assert (is_null (34 :: b64enc b ++ [34]) = false) as -> by reflexivity.
  unfold dec_str. cbn [N.eqb Pos.eqb]. rewrite rev_unit. cbn [N.eqb Pos.eqb]. rewrite rev_involutive.
  rewrite unescape_safe by now apply b64enc_chars. now rewrite b64dec_b64enc.
Qed.

(** * the envelope *)
Lemma dec_keys : dec_str k_dest = Some n_dest /\ dec_str k_uuid = Some n_uuid
  /\ dec_str k_payload = Some n_payload /\ dec_str k_metadata = Some n_metadata.
Proof. repeat split; vm_compute; reflexivity. Qed.

Lemma is_null_enc_str s : is_null (enc_str s) = false.
Proof. reflexivity. Qed.
Lemma is_null_frame ms : is_null (frame_obj ms) = false.
Proof. reflexivity. Qed.

Lemma dec_meta_entries : forall l acc,
  forallb (fun kv => utf8_valid (fst kv) && utf8_valid (snd kv)) l = true ->
  fold_left dec_meta_entry (meta_members l) (Some acc)
  = Some (fold_left (fun a kv => md_set a (fst kv) (snd kv)) l acc).
Proof.
  induction l as [|[k v] l IH]; intros acc H; [reflexivity|].
  simpl in H. apply andb_true_iff in H as [Hkv Hl]. apply andb_true_iff in Hkv as [Hk Hv].
  cbn [meta_members map fold_left fst snd]. unfold dec_meta_entry at 2. cbn [fst snd].
  rewrite (dec_str_enc_str k Hk), is_null_enc_str, (dec_str_enc_str v Hv).
  apply IH. exact Hl.
Qed.

(** what the decoder makes of the text the encoder wrote, given the member split of the (at most
    two) objects in it *)
Theorem jdec_jenc_env unframe e : envelope_ok e ->
  unframe (frame_obj (env_members e)) = Some (env_members e) ->
  (forall l, e_meta e = Some l -> unframe (frame_obj (meta_members l)) = Some (meta_members l)) ->
  forall b, jenc_env e = Some b -> jdec_env unframe b = Some e.
Proof.
  intros (Hu & Hb & Hw) H1 H2 b [= <-]. unfold jdec_env. rewrite H1.
  destruct e as [dest uu p md]. unfold envelope_utf8 in Hu. cbn [e_dest e_uuid e_payload e_meta] in *.
  apply andb_true_iff in Hu as [Hu Hmd]. apply andb_true_iff in Hu as [Hd Huu].
  destruct dec_keys as (K1 & K2 & K3 & K4).
  unfold env_members. cbn [e_dest e_uuid e_payload e_meta fold_left].
  (* destination_topic *)
  unfold dec_member at 4. cbn [fst snd]. rewrite K1.
  assert (fold_eqb n_dest n_dest = true) as -> by reflexivity.
  rewrite is_null_enc_str, (dec_str_enc_str dest Hd). cbn [e_dest e_uuid e_payload e_meta].
  (* uuid *)
  unfold dec_member at 3. cbn [fst snd]. rewrite K2.
  assert (fold_eqb n_uuid n_dest = false) as -> by reflexivity.
  assert (fold_eqb n_uuid n_uuid = true) as -> by reflexivity.
  rewrite is_null_enc_str, (dec_str_enc_str uu Huu). cbn [e_dest e_uuid e_payload e_meta].
  (* payload *)
  unfold dec_member at 2. cbn [fst snd]. rewrite K3.
  assert (fold_eqb n_payload n_dest = false) as -> by reflexivity.
  assert (fold_eqb n_payload n_uuid = false) as -> by reflexivity.
  assert (fold_eqb n_payload n_payload = true) as -> by reflexivity.
  pose proof (dec_bytes_enc_bytes p Hb) as Hp. unfold dec_bytes in Hp.
  assert (Hpay : (if is_null (enc_bytes p) then Some (Env dest uu None None)
                  else match dec_str (enc_bytes p) with
                       | Some t => match b64dec t with Some bs => Some (Env dest uu (Some bs) None) | None => None end
                       | None => None
                       end) = Some (Env dest uu p None)).
  { destruct (is_null (enc_bytes p)); [now inversion Hp|].
    destruct (dec_str (enc_bytes p)) as [t|]; [|discriminate].
    destruct (b64dec t) as [bs|]; [|discriminate]. simpl in Hp. now inversion Hp. }
  cbn [e_dest e_uuid e_payload e_meta]. rewrite Hpay.
  (* metadata *)
  unfold dec_member. cbn [fst snd]. rewrite K4.
  assert (fold_eqb n_metadata n_dest = false) as -> by reflexivity.
  assert (fold_eqb n_metadata n_uuid = false) as -> by reflexivity.
  assert (fold_eqb n_metadata n_payload = false) as -> by reflexivity.
  assert (fold_eqb n_metadata n_metadata = true) as -> by reflexivity.
  cbn [e_dest e_uuid e_payload e_meta].
  destruct md as [l|]; [|reflexivity].
  cbn [enc_meta]. rewrite is_null_frame, (H2 l eq_refl). cbn [md_entries].
  rewrite (dec_meta_entries l [] Hmd).
  change (fold_left (fun a kv => md_set a (fst kv) (snd kv)) l []) with (md_build l).
  now rewrite (md_build_id l Hw).
Qed.

(** * the round-trip theorems of Value/CodecProofs.v with the JSON library instantiated *)

Theorem envelope_roundtrip_json unframe nu dest m w :
  envelope_ok (env_of dest m) -> framing_ok unframe (env_of dest m) ->
  wrap jenc_env nu dest m = Ok w -> unwrap (jdec_env unframe) w = Ok (dest, m).
Proof.
  intros Hok [F1 F2]. apply envelope_roundtrip. intros b Hb. eapply jdec_jenc_env; eauto.
Qed.

(** the encoder never fails: with a destination, wrap succeeds and the bytes are known *)
Theorem wrap_json_total nu dest m : dest <> [] ->
  wrap jenc_env nu dest m = Ok (Msg nu (Some (frame_obj (env_members (env_of dest m)))) (Some [])).
Proof. intros H. now rewrite (proj2 (wrap_outcomes jenc_env nu dest m) H). Qed.

Theorem publisher_roundtrip_json unframe nu cfg inner_ok dest ms ft ws :
  (forall m, In m ms -> envelope_ok (env_of dest m) /\ framing_ok unframe (env_of dest m)) ->
  fwd_publish jenc_env nu cfg inner_ok dest ms = Ok (ft, ws) ->
  ft = (if str_eqb cfg [] then default_forwarder_topic else cfg)
  /\ map (unwrap (jdec_env unframe)) ws = map (fun m => Ok (dest, m)) ms.
Proof.
  intros H. apply publisher_roundtrip. intros m b Hin Hb. destruct (H m Hin) as [Hok [F1 F2]].
  eapply jdec_jenc_env; eauto.
Qed.

(** reply marshaler with a string result: json.Marshal / Unmarshal of a Go string *)
Theorem reply_roundtrip_string nu (p : rparams str) m :
  utf8_valid (p_result str p) = true ->
  marshal_reply str (fun r => Some (Some (enc_str r))) nu p = Ok m ->
  unmarshal_reply str dec_str m = Ok (Rep str (p_result str p) (p_err str p)).
Proof.
  intros Hv. apply reply_roundtrip. intros b [= <-]. now apply dec_str_enc_str.
Qed.

(** * outside valid UTF-8 the encoder is not injective: every ill-formed byte becomes U+FFFD *)
Theorem escape_not_injective : exists s1 s2, s1 <> s2 /\ enc_str s1 = enc_str s2.
Proof. exists [255], [254]. split; [discriminate | reflexivity]. Qed.

Theorem invalid_utf8_not_read_back :
  exists s, utf8_valid s = false /\ dec_str (enc_str s) = Some fffd_raw /\ s <> fffd_raw.
Proof. exists [255]. repeat split; try reflexivity. discriminate. Qed.

(** two different messages (UUIDs that are not valid UTF-8) get the same envelope: no decoder
    can give both back *)
Theorem envelope_invalid_utf8_collapses :
  exists dest m1 m2 w, m1 <> m2
    /\ wrap jenc_env [85] dest m1 = Ok w /\ wrap jenc_env [85] dest m2 = Ok w
    /\ forall jdec, ~ (unwrap jdec w = Ok (dest, m1) /\ unwrap jdec w = Ok (dest, m2)).
Proof.
  exists [116], (Msg [255] None None), (Msg [254] None None). eexists.
  split; [discriminate|]. split; [reflexivity|]. split; [reflexivity|].
  intros jdec [H1 H2]. rewrite H1 in H2. discriminate.
Qed.
