(** C16 — proofs about messages as Go objects: Copy equals the original, is unsettled, owns its
    metadata; a Set touches one map only.  Invariant of every reachable store: references are
    in range, no two objects reference the same map, every map is duplicate-free. *)
From WM Require Import Base.Prelude Message.Model Value.Model Value.EqualsProofs.

(** ** association lists: set / build *)
Lemma md_get_set_same m k v : md_get (md_set m k v) k = Some v.
Proof.
  induction m as [|[k' v'] m IH]; simpl.
  - now rewrite str_eqb_refl.
  - destruct (str_eqb k' k) eqn:E; simpl; rewrite E; auto.
Qed.
Lemma md_get_set_other m k v k' : k' <> k -> md_get (md_set m k v) k' = md_get m k'.
Proof.
  intros Hne. induction m as [|[k0 v0] m IH]; simpl.
  - assert (str_eqb k k' = false) by (apply str_eqb_neq; congruence). now rewrite H.
  - destruct (str_eqb k0 k) eqn:E; simpl.
    + apply str_eqb_eq in E. subst k0.
      assert (str_eqb k k' = false) by (apply str_eqb_neq; congruence). now rewrite H.
    + destruct (str_eqb k0 k'); auto.
Qed.
Lemma md_set_keys m k v : ~ In k (map fst m) -> md_set m k v = m ++ [(k, v)].
Proof.
  induction m as [|[k' v'] m IH]; simpl; auto. intros H.
  destruct (str_eqb k' k) eqn:E.
  - apply str_eqb_eq in E. subst. exfalso. apply H. now left.
  - f_equal. apply IH. intros ?. apply H. now right.
Qed.
Lemma md_set_fst_in m k v : In k (map fst m) -> map fst (md_set m k v) = map fst m.
Proof.
  induction m as [|[k' v'] m IH]; simpl; [intros []|]. intros H.
  destruct (str_eqb k' k) eqn:E; simpl; auto. f_equal. apply IH.
  destruct H as [H|H]; auto. subst. rewrite str_eqb_refl in E. discriminate.
Qed.
Lemma NoDup_snoc {A} (l : list A) x : NoDup l -> ~ In x l -> NoDup (l ++ [x]).
Proof.
  induction l as [|y l IH]; simpl; intros Hnd Hnin.
  - repeat constructor. intros [].
  - inversion Hnd; subst. constructor.
    + rewrite in_app_iff. simpl. intros [H|[H|[]]]; auto.
    + apply IH; auto.
Qed.
Lemma md_set_wf m k v : md_wf m -> md_wf (md_set m k v).
Proof.
  unfold md_wf. intros W.
  destruct (in_dec (list_eq_dec N.eq_dec) k (map fst m)) as [Hin|Hnin].
  - now rewrite md_set_fst_in.
  - rewrite md_set_keys by assumption. rewrite map_app. simpl.
    now apply NoDup_snoc.
Qed.

Lemma md_build_acc l : forall acc, md_wf acc -> md_wf (fold_left (fun a kv => md_set a (fst kv) (snd kv)) l acc).
Proof. induction l as [|[k v] l IH]; simpl; auto. intros acc W. apply IH. now apply md_set_wf. Qed.
Lemma md_build_wf l : md_wf (md_build l).
Proof. apply md_build_acc. constructor. Qed.

(** rebuilding a duplicate-free map entry by entry gives the same entries (in the same order) *)
Lemma md_build_id_acc l : forall acc, NoDup (map fst (acc ++ l)) ->
  fold_left (fun a kv => md_set a (fst kv) (snd kv)) l acc = acc ++ l.
Proof.
  induction l as [|[k v] l IH]; simpl; intros acc Hnd.
  - now rewrite app_nil_r.
  - rewrite md_set_keys.
    + rewrite IH; rewrite <- app_assoc; simpl; auto.
    + rewrite map_app in Hnd. simpl in Hnd. apply NoDup_remove_2 in Hnd.
      intros Hin. apply Hnd. apply in_or_app. now left.
Qed.
Lemma md_build_id m : md_wf m -> md_build m = m.
Proof. intros W. unfold md_build. now rewrite md_build_id_acc. Qed.

Lemma md_incl_refl m : md_wf m -> md_incl m m = true.
Proof. intros W. apply md_incl_spec. intros k v. now apply In_md_get. Qed.
Lemma md_same_b_refl (x : option metadata) : md_wf (md_entries x) -> md_same_b x x = true.
Proof. intros W. unfold md_same_b. rewrite md_incl_refl by assumption. now destruct x. Qed.

Lemma set_effect md k v : md_wf md -> set_effect_ok k v (Some md) (Some (md_set md k v)) = true.
Proof.
  intros W. unfold set_effect_ok. rewrite md_get_set_same, str_eqb_refl. simpl.
  apply andb_true_iff. split.
  - apply forallb_forall. intros [k' w] Hin. simpl.
    destruct (str_eqb k' k) eqn:E; auto. simpl. apply str_eqb_neq in E.
    rewrite md_get_set_other by assumption. rewrite (In_md_get _ _ _ W Hin). apply str_eqb_refl.
  - apply forallb_forall. intros [k' w] Hin. simpl.
    destruct (str_eqb k' k) eqn:E; auto. simpl. apply str_eqb_neq in E.
    apply (In_md_get _ _ _ (md_set_wf md k v W)) in Hin.
    rewrite md_get_set_other in Hin by assumption. rewrite Hin. apply str_eqb_refl.
Qed.

(** ** list_upd *)
Lemma list_upd_length {A} (l : list A) i x : length (list_upd l i x) = length l.
Proof.
  unfold list_upd. revert i. induction l as [|y l IH]; intros [|i]; simpl; auto.
Qed.
Lemma nth_error_list_upd_same {A} (l : list A) i x : i < length l -> nth_error (list_upd l i x) i = Some x.
Proof.
  unfold list_upd. revert i. induction l as [|y l IH]; intros [|i]; simpl; try lia; auto.
  intros H. apply IH. lia.
Qed.
Lemma nth_error_list_upd_other {A} (l : list A) i x j : j <> i -> nth_error (list_upd l i x) j = nth_error l j.
Proof.
  unfold list_upd. revert i j. induction l as [|y l IH]; intros i j Hne.
  - destruct i, j; reflexivity.
  - destruct i as [|i], j as [|j]; simpl; auto; try congruence.
    all: try (apply IH; congruence).
Qed.

(** ** the store invariant *)
Definition refs_ok (s : store) : Prop :=
  forall i o, nth_error (objs s) i = Some o ->
    (forall j, o_md o = Some j -> j < length (maps s)) /\ (forall j, o_pl o = Some j -> j < length (bufs s)).
Definition no_shared_map (s : store) : Prop :=
  forall i1 i2 o1 o2 j, nth_error (objs s) i1 = Some o1 -> nth_error (objs s) i2 = Some o2 ->
    o_md o1 = Some j -> o_md o2 = Some j -> i1 = i2.
Definition maps_wf (s : store) : Prop := forall j m, nth_error (maps s) j = Some m -> md_wf m.
Definition inv (s : store) : Prop := refs_ok s /\ no_shared_map s /\ maps_wf s.

Lemma inv_empty : inv empty_store.
Proof.
  repeat split; try (intros; destruct i; discriminate).
  - intros i1 i2 o1 o2 j H. destruct i1; discriminate.
  - intros j m H. destruct j; discriminate.
Qed.

Lemma get_map_wf s o : maps_wf s -> md_wf (md_entries (get_map s o)).
Proof.
  intros W. unfold get_map. destruct (o_md o) as [j|]; [|constructor].
  destruct (nth_error (maps s) j) eqn:E; [|constructor]. simpl. eauto.
Qed.
Lemma val_wf s o : maps_wf s -> msg_wf (val s o).
Proof. intros W. unfold msg_wf, val. simpl. now apply get_map_wf. Qed.

Lemma metas_go_frame skip : forall b a i,
  length b <= length a ->
  (forall n x, nth_error b n = Some x ->
     skip = Some (i + n) \/ exists y, nth_error a n = Some y /\ md_same_b (meta (ov_val x)) (meta (ov_val y)) = true) ->
  metas_go skip i b a = true.
Proof.
  induction b as [|x b IH]; intros [|y a] i Hlen H; simpl in *; auto; try lia.
  apply andb_true_iff; split.
  - destruct (H 0 x eq_refl) as [->|(y' & Hy & Hs)].
    + rewrite Nat.add_0_r, Nat.eqb_refl. reflexivity.
    + simpl in Hy. inversion Hy; subst. rewrite Hs. apply orb_true_r.
  - apply IH; [lia|]. intros n x' Hn. destruct (H (S n) x' Hn) as [->|Hex].
    + left. f_equal. lia.
    + right. exact Hex.
Qed.

Lemma snapshot_nth s n : nth_error (snapshot s) n = option_map (view s) (nth_error (objs s) n).
Proof. unfold snapshot. apply nth_error_map. Qed.
Lemma snapshot_length s : length (snapshot s) = length (objs s).
Proof. unfold snapshot. apply map_length. Qed.

Lemma frame s s' skip : maps_wf s -> length (objs s) <= length (objs s') ->
  (forall i o, nth_error (objs s) i = Some o ->
     skip = Some i \/ exists o', nth_error (objs s') i = Some o' /\ get_map s' o' = get_map s o) ->
  metas_unchanged_except skip (snapshot s) (snapshot s') = true.
Proof.
  intros W Hlen H. apply metas_go_frame; rewrite ?snapshot_length; auto.
  intros n x Hn. rewrite snapshot_nth in Hn.
  destruct (nth_error (objs s) n) as [o|] eqn:E; [|discriminate]. inversion Hn; subst.
  destruct (H _ _ E) as [->|(o' & Ho' & Hg)]; [left; reflexivity|]. right.
  exists (view s' o'). rewrite snapshot_nth, Ho'. split; auto.
  simpl. rewrite Hg. apply md_same_b_refl. now apply get_map_wf.
Qed.

(** ** stores that grow by one object *)
Lemma nth_error_snoc {A} (l : list A) x i o : nth_error (l ++ [x]) i = Some o ->
  (i < length l /\ nth_error l i = Some o) \/ (i = length l /\ o = x).
Proof.
  intros H. destruct (Nat.lt_ge_cases i (length l)) as [Hlt|Hge].
  - left. split; auto. now rewrite nth_error_app1 in H.
  - right. rewrite nth_error_app2 in H by assumption.
    destruct (i - length l) eqn:E; simpl in H.
    + inversion H. split; auto. lia.
    + destruct n; discriminate.
Qed.

Record extends (s s' : store) (onew : obj) (mx : list metadata) (bx : list (list N)) : Prop := {
  ex_objs : objs s' = objs s ++ [onew];
  ex_maps : maps s' = maps s ++ mx;
  ex_bufs : bufs s' = bufs s ++ bx }.

Lemma ext_old s s' onew mx bx i o : inv s -> extends s s' onew mx bx -> nth_error (objs s) i = Some o ->
  nth_error (objs s') i = Some o /\ get_map s' o = get_map s o /\ get_buf s' o = get_buf s o.
Proof.
  intros (R & _ & _) [E1 E2 E3] Hn. destruct (R _ _ Hn) as [Rm Rb].
  split; [|split].
  - rewrite E1. rewrite nth_error_app1; auto. apply nth_error_Some. congruence.
  - unfold get_map. destruct (o_md o) as [j|]; auto. rewrite E2. apply nth_error_app1. now apply Rm.
  - unfold get_buf. destruct (o_pl o) as [j|]; auto. rewrite E3. apply nth_error_app1. now apply Rb.
Qed.

Lemma ext_inv s s' onew mx bx : inv s -> extends s s' onew mx bx ->
  (forall j, o_md onew = Some j -> j = length (maps s) /\ length mx = 1) ->
  (forall j, o_pl onew = Some j -> j < length (bufs s')) ->
  Forall md_wf mx -> inv s'.
Proof.
  intros (R & S & W) [E1 E2 E3] Hm Hb Hw. split; [|split].
  - intros i o Hn. rewrite E1 in Hn. apply nth_error_snoc in Hn as [[Hlt Hn]|[-> ->]].
    + destruct (R _ _ Hn) as [Rm Rb]. split; intros j Hj.
      * rewrite E2, app_length. specialize (Rm _ Hj). lia.
      * rewrite E3, app_length. specialize (Rb _ Hj). lia.
    + split; intros j Hj.
      * destruct (Hm _ Hj) as [-> Hl]. rewrite E2, app_length. lia.
      * now apply Hb.
  - intros i1 i2 o1 o2 j H1 H2 J1 J2. rewrite E1 in H1, H2.
    apply nth_error_snoc in H1 as [[L1 H1]|[-> ->]]; apply nth_error_snoc in H2 as [[L2 H2]|[-> ->]]; auto.
    + eapply S; eauto.
    + destruct (R _ _ H1) as [Rm _]. specialize (Rm _ J1). destruct (Hm _ J2). lia.
    + destruct (R _ _ H2) as [Rm _]. specialize (Rm _ J2). destruct (Hm _ J1). lia.
  - intros j m Hn. rewrite E2 in Hn. apply nth_error_In in Hn. apply in_app_or in Hn as [Hin|Hin].
    + apply In_nth_error in Hin as [j' Hj']. eauto.
    + rewrite Forall_forall in Hw. auto.
Qed.

Lemma ext_frame s s' onew mx bx : inv s -> extends s s' onew mx bx ->
  metas_unchanged_except None (snapshot s) (snapshot s') = true.
Proof.
  intros I E. apply frame.
  - apply I.
  - rewrite (ex_objs _ _ _ _ _ E), app_length. lia.
  - intros i o Hn. right. exists o. destruct (ext_old _ _ _ _ _ _ _ I E Hn) as (H1 & H2 & _). auto.
Qed.

Lemma ext_new s s' onew mx bx : extends s s' onew mx bx ->
  nth_error (objs s') (length (objs s)) = Some onew /\ length (objs s') = S (length (objs s)).
Proof.
  intros [E1 _ _]. rewrite E1. split.
  - rewrite nth_error_app2, Nat.sub_diag by lia. reflexivity.
  - rewrite app_length. simpl. lia.
Qed.

Lemma inv_same_shape s s' : inv s ->
  length (maps s') = length (maps s) -> length (bufs s') = length (bufs s) -> maps_wf s' ->
  (forall i o', nth_error (objs s') i = Some o' ->
     exists o, nth_error (objs s) i = Some o /\ o_md o' = o_md o /\ o_pl o' = o_pl o) ->
  inv s'.
Proof.
  intros (R & S & W) Lm Lb W' H. split; [|split]; auto.
  - intros i o' Hn. destruct (H _ _ Hn) as (o & Ho & E1 & E2). destruct (R _ _ Ho) as [Rm Rb].
    rewrite Lm, Lb, E1, E2. auto.
  - intros i1 i2 o1 o2 j H1 H2 J1 J2.
    destruct (H _ _ H1) as (p1 & P1 & E1 & _). destruct (H _ _ H2) as (p2 & P2 & E2 & _).
    rewrite E1 in J1. rewrite E2 in J2. eapply S; eauto.
Qed.

Definition result_store f s op := fst (vstep f s op).
Definition result_res f s op := snd (vstep f s op).

Lemma eqb_len n : Nat.eqb n n = true. Proof. apply Nat.eqb_refl. Qed.

Lemma create_step_ok s s' onew mx bx op : inv s -> extends s s' onew mx bx ->
  (match op with VNew _ _ | VLit _ _ _ => True | _ => False end) ->
  step_ok op (snapshot s) (RObj (length (objs s))) (snapshot s') = true.
Proof.
  intros I E Hop. destruct (ext_new _ _ _ _ _ E) as [_ Hl].
  destruct op; try contradiction; simpl;
    rewrite !snapshot_length, Hl, !eqb_len, (ext_frame _ _ _ _ _ I E); reflexivity.
Qed.

Lemma step_new f s u p : inv s ->
  inv (result_store f s (VNew u p))
  /\ step_ok (VNew u p) (snapshot s) (result_res f s (VNew u p)) (snapshot (result_store f s (VNew u p))) = true
  /\ length (objs (result_store f s (VNew u p))) = S (length (objs s)).
Proof.
  intros I. unfold result_store, result_res. destruct p as [b|].
  - pose (onew := Obj u (Some (length (bufs s))) (Some (length (maps s))) (init CtorNew)).
    pose (s' := Store (objs s ++ [onew]) (bufs s ++ [b]) (maps s ++ [[]])).
    assert (E : extends s s' onew [[]] [b]) by (split; reflexivity).
    split; [|split].
    + apply (ext_inv s s' onew [[]] [b] I E).
      * intros j [= <-]. auto.
      * intros j [= <-]. simpl. rewrite app_length. simpl. lia.
      * repeat constructor.
    + exact (create_step_ok s s' onew [[]] [b] (VNew u (Some b)) I E Logic.I).
    + exact (proj2 (ext_new _ _ _ _ _ E)).
  - pose (onew := Obj u None (Some (length (maps s))) (init CtorNew)).
    pose (s' := Store (objs s ++ [onew]) (bufs s) (maps s ++ [[]])).
    assert (E : extends s s' onew [[]] []) by (split; simpl; auto using app_nil_r).
    split; [|split].
    + apply (ext_inv s s' onew [[]] [] I E).
      * intros j [= <-]. auto.
      * intros j [=].
      * repeat constructor.
    + exact (create_step_ok s s' onew [[]] [] (VNew u None) I E Logic.I).
    + exact (proj2 (ext_new _ _ _ _ _ E)).
Qed.

Ltac solve_create I onew s' mx bx op :=
  let E := fresh "E" in
  assert (E : extends _ s' onew mx bx) by (split; simpl; auto using app_nil_r);
  split; [|split];
  [ apply (ext_inv _ s' onew mx bx I E);
    [ try (intros j [= <-]; auto); try (intros j [=])
    | try (intros j [= <-]; simpl; rewrite app_length; simpl; lia); try (intros j [=])
    | repeat constructor; try apply md_build_wf ]
  | exact (create_step_ok _ s' onew mx bx op I E Logic.I)
  | exact (proj2 (ext_new _ _ _ _ _ E)) ].

Lemma step_lit f s u p m : inv s ->
  inv (result_store f s (VLit u p m))
  /\ step_ok (VLit u p m) (snapshot s) (result_res f s (VLit u p m)) (snapshot (result_store f s (VLit u p m))) = true
  /\ length (objs (result_store f s (VLit u p m))) = S (length (objs s)).
Proof.
  intros I. unfold result_store, result_res. destruct p as [b|], m as [l|].
  - pose (onew := Obj u (Some (length (bufs s))) (Some (length (maps s))) (init CtorZero)).
    pose (s' := Store (objs s ++ [onew]) (bufs s ++ [b]) (maps s ++ [md_build l])).
    solve_create I onew s' [md_build l] [b] (VLit u (Some b) (Some l)).
  - pose (onew := Obj u (Some (length (bufs s))) None (init CtorZero)).
    pose (s' := Store (objs s ++ [onew]) (bufs s ++ [b]) (maps s)).
    solve_create I onew s' (@nil metadata) [b] (VLit u (Some b) None).
  - pose (onew := Obj u None (Some (length (maps s))) (init CtorZero)).
    pose (s' := Store (objs s ++ [onew]) (bufs s) (maps s ++ [md_build l])).
    solve_create I onew s' [md_build l] (@nil (list N)) (VLit u None (Some l)).
  - pose (onew := Obj u None None (init CtorZero)).
    pose (s' := Store (objs s ++ [onew]) (bufs s) (maps s)).
    solve_create I onew s' (@nil metadata) (@nil (list N)) (VLit u None None).
Qed.

Lemma copy_value_same u pb (om : option metadata) : md_wf (md_entries om) ->
  same_value_b (Msg u pb om) (Msg u pb (Some (md_entries om))) = true.
Proof.
  intros W. unfold same_value_b. simpl.
  rewrite str_eqb_refl, md_incl_refl by assumption. simpl.
  assert (list_eqb N.eqb (pl_bytes pb) (pl_bytes pb) = true) by now apply bytes_eqb_eq.
  now rewrite H.
Qed.

(** what Copy produces, in one place *)
Definition copy_store (s : store) (o : obj) : store :=
  Store (objs s ++ [Obj (o_uuid o) (o_pl o) (Some (length (maps s))) (init CtorCopy)])
        (bufs s) (maps s ++ [md_build (md_entries (get_map s o))]).
Definition copy_obj (s : store) (o : obj) : obj := Obj (o_uuid o) (o_pl o) (Some (length (maps s))) (init CtorCopy).

Lemma vstep_copy f s i o : nth_error (objs s) i = Some o ->
  vstep f s (VCopy i) = (copy_store s o, RObj (length (objs s))).
Proof. intros H. unfold vstep. rewrite H. reflexivity. Qed.

Lemma copy_extends s o : extends s (copy_store s o) (copy_obj s o) [md_build (md_entries (get_map s o))] [].
Proof. split; simpl; auto using app_nil_r. Qed.

Lemma copy_inv s i o : inv s -> nth_error (objs s) i = Some o -> inv (copy_store s o).
Proof.
  intros I Hn. apply (ext_inv _ _ _ _ _ I (copy_extends s o)).
  - intros j [= <-]. auto.
  - intros j Hj. simpl in *. destruct I as (R & _ & _). destruct (R _ _ Hn) as [_ Rb]. auto.
  - repeat constructor. apply md_build_wf.
Qed.

Lemma copy_vals s i o : inv s -> nth_error (objs s) i = Some o ->
  val (copy_store s o) o = val s o
  /\ val (copy_store s o) (copy_obj s o) = Msg (o_uuid o) (get_buf s o) (Some (md_entries (get_map s o))).
Proof.
  intros I Hn. destruct (ext_old _ _ _ _ _ _ _ I (copy_extends s o) Hn) as (_ & Hm & Hb).
  split.
  - unfold val. now rewrite Hm, Hb.
  - unfold val. f_equal.
    unfold get_map. simpl. rewrite nth_error_app2, Nat.sub_diag by lia. simpl.
    f_equal. apply md_build_id. apply get_map_wf. apply I.
Qed.

Lemma step_copy f s i o : inv s -> nth_error (objs s) i = Some o ->
  inv (result_store f s (VCopy i))
  /\ step_ok (VCopy i) (snapshot s) (result_res f s (VCopy i)) (snapshot (result_store f s (VCopy i))) = true
  /\ length (objs (result_store f s (VCopy i))) = S (length (objs s)).
Proof.
  intros I Hn. unfold result_store, result_res. rewrite (vstep_copy f s i o Hn). simpl fst. simpl snd.
  pose proof (copy_extends s o) as E. destruct (ext_new _ _ _ _ _ E) as [Hnew Hlen].
  split; [eapply copy_inv; eauto|]. split; [|exact Hlen].
  unfold step_ok. rewrite !snapshot_length, Hlen, !eqb_len, (ext_frame _ _ _ _ _ I E). simpl andb.
  rewrite !snapshot_nth, Hnew. destruct (ext_old _ _ _ _ _ _ _ I E Hn) as (Hold & _ & _). rewrite Hold.
  simpl option_map. cbv iota.
  destruct (copy_vals s i o I Hn) as [V1 V2]. unfold view. simpl ov_val. simpl ov_acked. simpl ov_nacked.
  fold (copy_obj s o). rewrite V1, V2. unfold val at 1 2. simpl payload. simpl meta.
  rewrite copy_value_same by (apply get_map_wf; apply I).
  destruct (get_buf s o); reflexivity.
Qed.

Lemma frame_id s skip : maps_wf s -> metas_unchanged_except skip (snapshot s) (snapshot s) = true.
Proof. intros W. apply frame; auto. intros i o H. right. now exists o. Qed.

Lemma nth_error_in_range {A} (l : list A) j : j < length l -> exists x, nth_error l j = Some x.
Proof. intros H. destruct (nth_error l j) eqn:E; eauto. apply nth_error_None in E. lia. Qed.

Lemma step_set f s i k v o : inv s -> nth_error (objs s) i = Some o ->
  inv (result_store f s (VSet i k v))
  /\ step_ok (VSet i k v) (snapshot s) (result_res f s (VSet i k v)) (snapshot (result_store f s (VSet i k v))) = true
  /\ length (objs (result_store f s (VSet i k v))) = length (objs s).
Proof.
  intros I Hn. pose proof I as (R & S & W). unfold result_store, result_res, vstep. rewrite Hn.
  destruct (o_md o) as [j|] eqn:Emd.
  - destruct (R _ _ Hn) as [Rm _]. destruct (nth_error_in_range (maps s) j (Rm _ Emd)) as [m Hm].
    rewrite Hm. simpl fst. simpl snd.
    set (s' := Store (objs s) (bufs s) (list_upd (maps s) j (md_set m k v))).
    assert (Wm : md_wf m) by eauto.
    assert (G : forall o', o_md o' <> Some j -> get_map s' o' = get_map s o').
    { intros o' Hne. unfold get_map. destruct (o_md o') as [j'|]; auto. simpl.
      apply nth_error_list_upd_other. congruence. }
    assert (Gi : get_map s' o = Some (md_set m k v)).
    { unfold get_map. rewrite Emd. simpl. apply nth_error_list_upd_same. now apply Rm. }
    split; [|split; [|reflexivity]].
    + apply (inv_same_shape s s' I); simpl; auto using list_upd_length.
      * intros j' m' H'. unfold s' in H'. simpl in H'. destruct (Nat.eq_dec j' j) as [->|Hne].
        -- rewrite nth_error_list_upd_same in H' by now apply Rm. inversion H'. now apply md_set_wf.
        -- rewrite nth_error_list_upd_other in H' by assumption. eauto.
      * intros i0 o' H0. now exists o'.
    + unfold step_ok. rewrite !snapshot_length. simpl objs. rewrite eqb_len. simpl andb.
      rewrite (frame s s' (Some i) W).
      * rewrite !snapshot_nth. simpl objs. rewrite Hn. simpl option_map. cbv iota.
        unfold view. simpl ov_val. unfold val. simpl meta. rewrite Gi.
        unfold get_map. rewrite Emd, Hm. now apply set_effect.
      * simpl. lia.
      * intros i' o' H'. destruct (Nat.eq_dec i' i) as [->|Hne]; [now left|]. right.
        exists o'. split; auto. apply G. intros Habs. apply Hne. eapply S; eauto.
  - simpl fst. simpl snd. split; [exact I|]. split; [|reflexivity].
    unfold step_ok. rewrite (frame_id s None W). rewrite snapshot_nth, Hn. simpl.
    unfold get_map. now rewrite Emd.
Qed.

Lemma step_poke f s i pos b o : inv s -> nth_error (objs s) i = Some o ->
  inv (result_store f s (VPoke i pos b))
  /\ step_ok (VPoke i pos b) (snapshot s) (result_res f s (VPoke i pos b)) (snapshot (result_store f s (VPoke i pos b))) = true
  /\ length (objs (result_store f s (VPoke i pos b))) = length (objs s).
Proof.
  intros I Hn. pose proof I as (R & S & W). unfold result_store, result_res, vstep. rewrite Hn.
  assert (Id : step_ok (VPoke i pos b) (snapshot s) RPanicked (snapshot s) = true).
  { unfold step_ok. now rewrite snapshot_length, eqb_len, (frame_id s None W). }
  destruct (o_pl o) as [j|] eqn:Epl; [|simpl; auto].
  destruct (R _ _ Hn) as [_ Rb]. destruct (nth_error_in_range (bufs s) j (Rb _ Epl)) as [buf Hb].
  rewrite Hb. destruct (Nat.ltb pos (length buf)); [|simpl; auto].
  simpl fst. simpl snd.
  set (s' := Store (objs s) (list_upd (bufs s) j (list_upd buf pos b)) (maps s)).
  split; [|split; [|reflexivity]].
  - apply (inv_same_shape s s' I); simpl; auto using list_upd_length.
    intros i0 o' H0. now exists o'.
  - unfold step_ok. rewrite !snapshot_length. simpl objs. rewrite eqb_len. simpl andb.
    apply frame; auto. intros i' o' H'. right. now exists o'.
Qed.

Lemma step_settle f s i o (isack : bool) : inv s -> nth_error (objs s) i = Some o ->
  let op := if isack then VAck i else VNack i in
  inv (result_store f s op)
  /\ step_ok op (snapshot s) (result_res f s op) (snapshot (result_store f s op)) = true
  /\ length (objs (result_store f s op)) = length (objs s).
Proof.
  intros I Hn. pose proof I as (R & S & W).
  assert (Hi : i < length (objs s)) by (apply nth_error_Some; congruence).
  assert (Gen : forall st' r,
    let s' := Store (list_upd (objs s) i (Obj (o_uuid o) (o_pl o) (o_md o) st')) (bufs s) (maps s) in
    let op := if isack then VAck i else VNack i in
    (r = RPanicked \/ exists bb, r = RB bb) ->
    inv s' /\ step_ok op (snapshot s) r (snapshot s') = true /\ length (objs s') = length (objs s)).
  { intros st' r s' op Hr.
    assert (Hobj : forall i0 o', nth_error (objs s') i0 = Some o' ->
              exists o0, nth_error (objs s) i0 = Some o0 /\ o_md o' = o_md o0 /\ o_pl o' = o_pl o0).
    { intros i0 o' H0. simpl in H0. destruct (Nat.eq_dec i0 i) as [->|Hne].
      - rewrite nth_error_list_upd_same in H0 by assumption. inversion H0. exists o. auto.
      - rewrite nth_error_list_upd_other in H0 by assumption. now exists o'. }
    split; [|split].
    - apply (inv_same_shape s s' I); auto.
    - assert (F : metas_unchanged_except None (snapshot s) (snapshot s') = true).
      { apply frame; auto.
        - simpl. rewrite list_upd_length. lia.
        - intros i' o' H'. right. simpl. destruct (Nat.eq_dec i' i) as [->|Hne].
          + rewrite nth_error_list_upd_same by assumption. eexists. split; eauto.
            rewrite Hn in H'. inversion H'. reflexivity.
          + rewrite nth_error_list_upd_other by assumption. now exists o'. }
      unfold step_ok, op. rewrite !snapshot_length. simpl objs. rewrite list_upd_length, eqb_len, F.
      destruct isack, Hr as [->|[bb ->]]; reflexivity.
    - simpl. apply list_upd_length. }
  intros op. unfold result_store, result_res, op. destruct isack; unfold vstep; rewrite Hn.
  - destruct (step (o_st o) OpAck) as [st' r] eqn:Es. simpl fst. simpl snd.
    apply (Gen st'). destruct r; eauto.
  - destruct (step (o_st o) OpNack) as [st' r] eqn:Es. simpl fst. simpl snd.
    apply (Gen st'). destruct r; eauto.
Qed.

Lemma step_equals f s i j oi oj : inv s -> nth_error (objs s) i = Some oi -> nth_error (objs s) j = Some oj ->
  inv (result_store f s (VEquals i j))
  /\ step_ok (VEquals i j) (snapshot s) (result_res f s (VEquals i j)) (snapshot (result_store f s (VEquals i j))) = true
  /\ length (objs (result_store f s (VEquals i j))) = length (objs s).
Proof.
  intros I Hi Hj. unfold result_store, result_res, vstep. rewrite Hi, Hj. simpl.
  split; auto. split; auto. unfold step_ok. rewrite snapshot_length, eqb_len, frame_id; auto. apply I.
Qed.

(** ** every step of a scoped script keeps the invariant and is accepted *)
Lemma vstep_ok f s op : inv s -> op_scoped (length (objs s)) op = true ->
  inv (result_store f s op)
  /\ step_ok op (snapshot s) (result_res f s op) (snapshot (result_store f s op)) = true
  /\ length (objs (result_store f s op)) = (if creates op then S (length (objs s)) else length (objs s)).
Proof.
  intros I Hs. destruct op as [u p|u p m|i|i k v|i pos b|i|i|i j]; simpl in Hs; simpl creates.
  - now apply step_new.
  - now apply step_lit.
  - apply Nat.ltb_lt in Hs. destruct (nth_error_in_range _ _ Hs) as [o Ho]. eapply step_copy; eauto.
  - apply Nat.ltb_lt in Hs. destruct (nth_error_in_range _ _ Hs) as [o Ho]. eapply step_set; eauto.
  - apply Nat.ltb_lt in Hs. destruct (nth_error_in_range _ _ Hs) as [o Ho]. eapply step_poke; eauto.
  - apply Nat.ltb_lt in Hs. destruct (nth_error_in_range _ _ Hs) as [o Ho]. exact (step_settle f s i o true I Ho).
  - apply Nat.ltb_lt in Hs. destruct (nth_error_in_range _ _ Hs) as [o Ho]. exact (step_settle f s i o false I Ho).
  - apply andb_true_iff in Hs as [H1 H2]. apply Nat.ltb_lt in H1, H2.
    destruct (nth_error_in_range _ _ H1) as [oi Hi]. destruct (nth_error_in_range _ _ H2) as [oj Hj].
    eapply step_equals; eauto.
Qed.

Theorem trace_accepted f : forall ops s, inv s -> script_scoped (length (objs s)) ops = true ->
  trace_ok (snapshot s) ops (vrun f s ops) = true.
Proof.
  induction ops as [|op ops IH]; intros s I Hs; simpl; auto.
  simpl in Hs. apply andb_true_iff in Hs as [H1 H2].
  destruct (vstep_ok f s op I H1) as (I' & Hok & Hlen).
  unfold result_store, result_res in *. destruct (vstep f s op) as [s1 r]. simpl in *.
  rewrite Hok. simpl. apply IH; auto. now rewrite Hlen.
Qed.

Corollary model_trace_accepted f ops : script_scoped 0 ops = true ->
  trace_ok [] ops (vrun f empty_store ops) = true.
Proof. intros H. exact (trace_accepted f ops empty_store inv_empty H). Qed.

(** the store after a script; reachable stores satisfy the invariant *)
Lemma vexec_inv f : forall ops s, inv s -> script_scoped (length (objs s)) ops = true -> inv (vexec f s ops).
Proof.
  induction ops as [|op ops IH]; intros s I Hs; simpl; auto.
  simpl in Hs. apply andb_true_iff in Hs as [H1 H2].
  destruct (vstep_ok f s op I H1) as (I' & _ & Hlen). unfold result_store in *.
  apply IH; auto. now rewrite Hlen.
Qed.
Lemma reachable_inv s : reachable s -> inv s.
Proof. intros (f & ops & Hs & ->). now apply vexec_inv; [apply inv_empty|]. Qed.

(** ** Copy *)
Theorem copy_spec f s i o : inv s -> nth_error (objs s) i = Some o ->
  let s' := fst (vstep f s (VCopy i)) in
  let n := length (objs s) in
  snd (vstep f s (VCopy i)) = RObj n
  /\ exists c, nth_error (objs s') n = Some c
     /\ nth_error (objs s') i = Some o /\ val s' o = val s o
     /\ same_value (val s' o) (val s' c)
     /\ equals true (val s' o) (val s' c) = true /\ equals false (val s' o) (val s' c) = true
     /\ payload (val s' c) = payload (val s' o)
     /\ meta (val s' c) <> None
     /\ o_st c = MS Unsettled COpen COpen false
     /\ (forall i' o', nth_error (objs s') i' = Some o' -> i' <> n -> o_md o' <> o_md c).
Proof.
  intros I Hn s' n. unfold s', n. rewrite (vstep_copy f s i o Hn). simpl fst. simpl snd.
  split; auto. exists (copy_obj s o).
  pose proof (copy_extends s o) as E. destruct (ext_new _ _ _ _ _ E) as [Hnew _].
  destruct (ext_old _ _ _ _ _ _ _ I E Hn) as (Hold & _ & _).
  destruct (copy_vals s i o I Hn) as [V1 V2].
  pose proof (copy_inv s i o I Hn) as I'.
  assert (Hsame : same_value (val (copy_store s o) o) (val (copy_store s o) (copy_obj s o))).
  { apply same_value_b_sound. rewrite V1, V2. unfold val. apply copy_value_same. apply get_map_wf, I. }
  assert (W1 : msg_wf (val (copy_store s o) o)) by (apply val_wf, I').
  assert (W2 : msg_wf (val (copy_store s o) (copy_obj s o))) by (apply val_wf, I').
  split; [exact Hnew|]. split; [exact Hold|]. split; [exact V1|]. split; [exact Hsame|].
  split; [now apply equals_fixed_iff|]. split; [now apply equals_pinned_complete|].
  split; [rewrite V1, V2; reflexivity|]. split; [rewrite V2; discriminate|]. split; [reflexivity|].
  intros i' o' H' Hne Habs. destruct I' as (_ & S' & _).
  simpl in Habs. apply Hne. exact (S' _ _ _ _ _ H' Hnew Habs eq_refl).
Qed.

(** ** Set touches one object's metadata only *)
Lemma set_frame f s i k v : inv s ->
  inv (fst (vstep f s (VSet i k v)))
  /\ forall x ox, x <> i -> nth_error (objs s) x = Some ox ->
       nth_error (objs (fst (vstep f s (VSet i k v)))) x = Some ox
       /\ get_map (fst (vstep f s (VSet i k v))) ox = get_map s ox.
Proof.
  intros I. destruct (nth_error (objs s) i) as [o|] eqn:Hn.
  - destruct (step_set f s i k v o I Hn) as (I' & _ & _). split; [exact I'|].
    unfold result_store in *. intros x ox Hx Hox. unfold vstep in *. rewrite Hn in *.
    destruct (o_md o) as [j|] eqn:Emd; [|simpl; auto].
    destruct (nth_error (maps s) j) as [m|] eqn:Hm; [|simpl; auto].
    simpl. split; auto. unfold get_map. destruct (o_md ox) as [j'|] eqn:Ex; auto. simpl.
    apply nth_error_list_upd_other. intros ->. apply Hx. destruct I as (_ & S & _). eapply S; eauto.
  - unfold vstep. rewrite Hn. simpl. auto.
Qed.

Theorem sets_frame f : forall (sets : list (nat * str * str)) s x ox, inv s ->
  nth_error (objs s) x = Some ox -> Forall (fun t => fst (fst t) <> x) sets ->
  nth_error (objs (vexec f s (map set_op sets))) x = Some ox
  /\ get_map (vexec f s (map set_op sets)) ox = get_map s ox.
Proof.
  induction sets as [|[[i k] v] sets IH]; intros s x ox I Hx Hall; simpl; auto.
  inversion Hall as [|? ? Hne Hall']; subst. simpl in Hne.
  destruct (set_frame f s i k v I) as [I' Hf]. destruct (Hf x ox (not_eq_sym Hne) Hx) as [H1 H2].
  change (set_op (i, k, v)) with (VSet i k v).
  destruct (IH _ x ox I' H1 Hall') as [G1 G2]. split; [exact G1|]. etransitivity; [exact G2|exact H2].
Qed.

(** the same for the stores a script can produce *)
Corollary copy_spec_reachable f s i o : reachable s -> nth_error (objs s) i = Some o ->
  let s' := fst (vstep f s (VCopy i)) in
  let n := length (objs s) in
  snd (vstep f s (VCopy i)) = RObj n
  /\ exists c, nth_error (objs s') n = Some c
     /\ nth_error (objs s') i = Some o /\ val s' o = val s o
     /\ same_value (val s' o) (val s' c)
     /\ equals true (val s' o) (val s' c) = true /\ equals false (val s' o) (val s' c) = true
     /\ payload (val s' c) = payload (val s' o)
     /\ meta (val s' c) <> None
     /\ o_st c = MS Unsettled COpen COpen false
     /\ (forall i' o', nth_error (objs s') i' = Some o' -> i' <> n -> o_md o' <> o_md c).
Proof. intros R. apply copy_spec. now apply reachable_inv. Qed.

Corollary sets_frame_reachable f sets s x ox : reachable s ->
  nth_error (objs s) x = Some ox -> Forall (fun t => fst (fst t) <> x) sets ->
  nth_error (objs (vexec f s (map set_op sets))) x = Some ox
  /\ get_map (vexec f s (map set_op sets)) ox = get_map s ox.
Proof. intros R. apply sets_frame. now apply reachable_inv. Qed.

(** after a Copy, whatever is Set on the original (or on anything else) the copy keeps its
    metadata, and whatever is Set on the copy the original keeps its *)
Corollary copy_owns_metadata f s i o sets_other sets_copy : reachable s -> nth_error (objs s) i = Some o ->
  let s1 := fst (vstep f s (VCopy i)) in
  let n := length (objs s) in
  Forall (fun t => fst (fst t) <> n) sets_other -> Forall (fun t => fst (fst t) = n) sets_copy ->
  exists c, nth_error (objs s1) n = Some c
    /\ get_map (vexec f s1 (map set_op sets_other)) c = get_map s1 c
    /\ get_map (vexec f s1 (map set_op sets_copy)) o = get_map s o.
Proof.
  intros R Hn s1 n H1 H2. pose proof (reachable_inv _ R) as I.
  destruct (copy_spec f s i o I Hn) as (_ & c & Hc & Ho & Hv & _).
  fold s1 in Hc, Ho, Hv. fold n in Hc.
  assert (I1 : inv s1).
  { unfold s1. rewrite (vstep_copy f s i o Hn). simpl. eapply copy_inv; eauto. }
  exists c. split; [exact Hc|]. split.
  - apply (sets_frame f sets_other s1 n c I1 Hc H1).
  - assert (Hi : i < n) by (apply nth_error_Some; congruence).
    assert (H2' : Forall (fun t : nat * str * str => fst (fst t) <> i) sets_copy).
    { eapply Forall_impl; [|exact H2]. simpl. intros t ->. lia. }
    destruct (sets_frame f sets_copy s1 i o I1 Ho H2') as [_ G]. rewrite G.
    assert (E : meta (val s1 o) = meta (val s o)) by now rewrite Hv. exact E.
Qed.
