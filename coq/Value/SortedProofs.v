(** C16, round "proofs 2" — with Go's sorted-by-key output the round trip returns the same message
    value: same UUID, payload and nil-ness, metadata with the same lookups (its entries sorted). *)
From Coq Require Import Sorting.Permutation.
From WM Require Import Base.Prelude Message.Model Value.Model Value.Codec Value.Json Value.Scan Value.Sorted
  Value.EqualsProofs Value.CodecProofs Value.StoreProofs Value.JsonProofs Value.ScanProofs.

Lemma insert_perm kv l : Permutation (insert_kv kv l) (kv :: l).
Proof.
  induction l as [|kv' l IH]; simpl; auto.
  destruct (key_leb (fst kv) (fst kv')); auto.
  rewrite IH. apply perm_swap.
Qed.
Lemma sort_perm l : Permutation (sort_md l) l.
Proof. induction l as [|kv l IH]; simpl; auto. rewrite insert_perm. now constructor. Qed.

Lemma sort_wf l : md_wf l -> md_wf (sort_md l).
Proof.
  unfold md_wf. intros H. eapply Permutation_NoDup; [|exact H].
  apply Permutation_map. symmetry. apply sort_perm.
Qed.
Lemma sort_get l k : md_wf l -> md_get (sort_md l) k = md_get l k.
Proof.
  intros W. pose proof (sort_wf l W) as W'.
  destruct (md_get l k) as [v|] eqn:E.
  - apply In_md_get; auto. apply md_get_In in E. eapply Permutation_in; [symmetry; apply sort_perm | exact E].
  - apply md_get_None. apply md_get_None in E. intros Hin. apply E.
    eapply Permutation_in; [apply Permutation_map; apply sort_perm | exact Hin].
Qed.
Lemma sort_utf8 l : forallb (fun kv => utf8_valid (fst kv) && utf8_valid (snd kv)) l = true ->
  forallb (fun kv => utf8_valid (fst kv) && utf8_valid (snd kv)) (sort_md l) = true.
Proof.
  rewrite !forallb_forall. intros H x Hin. apply H. eapply Permutation_in; [apply sort_perm | exact Hin].
Qed.

Lemma canon_ok e : envelope_ok e -> envelope_ok (canon_env e).
Proof.
  intros (Hu & Hb & Hw). destruct e as [d u p md]. unfold envelope_ok, envelope_utf8, canon_env in *.
  cbn [e_dest e_uuid e_payload e_meta] in *. split; [|split]; auto.
  - apply andb_true_iff in Hu as [Hu Hm]. rewrite Hu. simpl. destruct md as [l|]; [|reflexivity].
    unfold md_utf8 in *. simpl in *. now apply sort_utf8.
  - destruct md as [l|]; simpl in *; [now apply sort_wf | constructor].
Qed.

(** the canonical message is the same value as the message (and as nil or non-nil) *)
Lemma canon_same m : msg_wf m -> same_value m (canon_msg m)
  /\ (payload (canon_msg m) = payload m) /\ (meta m = None <-> meta (canon_msg m) = None).
Proof.
  intros W. unfold msg_wf in W. destruct m as [u p md]. unfold same_value, canon_msg. cbn [uuid payload meta] in *.
  split; [|split].
  - split; [reflexivity|]. split; [reflexivity|]. intros k. destruct md as [l|]; simpl; auto.
    symmetry. now apply sort_get.
  - reflexivity.
  - destruct md; simpl; split; congruence.
Qed.

(** unwrap after wrap with the encoder writing map entries in Go's order, closed *)
Theorem envelope_roundtrip_sorted nu dest m w : envelope_ok (env_of dest m) ->
  wrap jenc_sorted nu dest m = Ok w ->
  unwrap (jdec_env unframe_std) w = Ok (dest, canon_msg m).
Proof.
  intros Hok Hw. unfold jenc_sorted in Hw.
  assert (Hc : envelope_ok (env_of dest (canon_msg m))) by exact (canon_ok _ Hok).
  assert (Hw' : wrap jenc_env nu dest (canon_msg m) = Ok w).
  { revert Hw. unfold wrap, new_envelope, validate. simpl. destruct (str_eqb dest []); auto. }
  exact (envelope_roundtrip_closed nu dest (canon_msg m) w Hc Hw').
Qed.

Corollary envelope_roundtrip_sorted_same_value nu dest m w : envelope_ok (env_of dest m) ->
  wrap jenc_sorted nu dest m = Ok w ->
  exists m', unwrap (jdec_env unframe_std) w = Ok (dest, m') /\ same_value m m'
    /\ payload m' = payload m /\ (meta m = None <-> meta m' = None).
Proof.
  intros Hok Hw. exists (canon_msg m). split; [now apply (envelope_roundtrip_sorted nu)|].
  apply canon_same. destruct Hok as (_ & _ & W). exact W.
Qed.
