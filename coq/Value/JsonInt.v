(** C16, round "proofs 2" — JSON text of an integer result (reply marshaler with an int64
    result): strconv's decimal formatting, via the standard library's decimal conversions.
    Not modelled on the decoding side: rejection of leading zeros and of values outside int64
    (the check feeds the decoder canonical numerals and ill-formed texts only).  No proofs here. *)
From Coq Require Strings.String Strings.Ascii Numbers.DecimalString.
From WM Require Import Base.Prelude.

Definition bytes_of_string (s : String.string) : list N := map Ascii.N_of_ascii (String.list_ascii_of_string s).
Definition string_of_bytes (b : list N) : String.string := String.string_of_list_ascii (map Ascii.ascii_of_N b).

Definition enc_int (z : Z) : list N := bytes_of_string (DecimalString.NilZero.string_of_int (Z.to_int z)).
Definition dec_int (b : list N) : option Z :=
  option_map Z.of_int (DecimalString.NilZero.int_of_string (string_of_bytes b)).
