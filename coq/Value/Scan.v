(** C16, round "proofs 2" — the last piece of encoding/json the envelope needs: splitting the
    text of a JSON object into the raw texts of its members.  [unframe_std] scans objects whose
    member values are string literals, null, or (at top level) one-level objects of such — the
    shapes the envelope uses —, with JSON whitespace between tokens; anything else is [None]
    ("outside the scanner": the check then falls back to the harness' splitter and compares).
    String literals are delimited the way the JSON scanner does it (a backslash protects the next
    byte, control characters end the scan with an error); whether their escapes are well formed is
    decided later by [dec_str].  Executable, total.  No proofs here. *)
From WM Require Import Base.Prelude Value.Model Value.Codec Value.Json.
Local Open Scope N_scope.

Definition is_ws (c : N) : bool := N.eqb c 32 || N.eqb c 9 || N.eqb c 10 || N.eqb c 13.
Fixpoint skip_ws (s : list N) : list N :=
  match s with
  | c :: r => if is_ws c then skip_ws r else s
  | [] => []
  end.

(** after the opening quote: the body up to and including the closing quote, and the rest *)
Fixpoint scan_str_body (esc : bool) (s : list N) : option (list N * list N) :=
  match s with
  | [] => None
  | c :: r =>
      if esc then match scan_str_body false r with Some (b, t) => Some (c :: b, t) | None => None end
      else if N.eqb c 34 then Some ([34], r)
      else if N.ltb c 32 then None
      else match scan_str_body (N.eqb c 92) r with Some (b, t) => Some (c :: b, t) | None => None end
  end.
Definition scan_string (s : list N) : option (list N * list N) :=
  match s with
  | c :: r => if N.eqb c 34
              then match scan_str_body false r with Some (b, t) => Some (34 :: b, t) | None => None end
              else None
  | [] => None
  end.

Definition starts_null (s : list N) : option (list N) :=
  match s with
  | a :: b :: c :: d :: r => if N.eqb a 110 && N.eqb b 117 && N.eqb c 108 && N.eqb d 108 then Some r else None
  | _ => None
  end.

(** members of an object, positioned after '{' (at least one member) or after ','; [sv] scans one
    value (it is handed the input with leading whitespace already skipped) *)
Fixpoint scan_members (sv : list N -> option (list N * list N)) (fuel : nat) (s : list N)
  : option (list (list N * list N) * list N) :=
  match fuel with
  | O => None
  | S f =>
      match scan_string (skip_ws s) with
      | None => None
      | Some (k, r1) =>
          match skip_ws r1 with
          | c :: r2 =>
              if N.eqb c 58 then
                match sv (skip_ws r2) with
                | None => None
                | Some (v, r3) =>
                    match skip_ws r3 with
                    | d :: r4 =>
                        if N.eqb d 125 then Some ([(k, v)], r4)
                        else if N.eqb d 44 then
                          match scan_members sv f r4 with
                          | Some (ms, r5) => Some ((k, v) :: ms, r5)
                          | None => None
                          end
                        else None
                    | [] => None
                    end
                end
              else None
          | [] => None
          end
      end
  end.
Definition scan_object (sv : list N -> option (list N * list N)) (s : list N)
  : option (list (list N * list N) * list N) :=
  match s with
  | c :: r =>
      if N.eqb c 123 then
        match skip_ws r with
        | d :: r' => if N.eqb d 125 then Some ([], r') else scan_members sv (length r) r
        | [] => None
        end
      else None
  | [] => None
  end.

Definition value_flat (s : list N) : option (list N * list N) :=
  match scan_string s with
  | Some x => Some x
  | None => match starts_null s with Some r => Some (null_text, r) | None => None end
  end.
Definition value_top (s : list N) : option (list N * list N) :=
  match value_flat s with
  | Some x => Some x
  | None =>
      match scan_object value_flat s with
      | Some (_, rest) => Some (firstn (length s - length rest) s, rest)      (* the raw text of the nested object *)
      | None => None
      end
  end.

Definition unframe_std (b : list N) : option (list (list N * list N)) :=
  match scan_object value_top (skip_ws b) with
  | Some (ms, rest) => match skip_ws rest with [] => Some ms | _ => None end
  | None => None
  end.

(** the texts the scanner is proved on: string literals whose body has no bare quote or control
    character and ends outside an escape ... *)
Fixpoint neutral (esc : bool) (body : list N) : bool :=
  match body with
  | [] => negb esc
  | c :: r => if esc then neutral false r
              else negb (N.eqb c 34) && negb (N.ltb c 32) && neutral (N.eqb c 92) r
  end.
Definition str_text (t : list N) : Prop := exists body, t = 34 :: body ++ [34] /\ neutral false body = true.
Definition flat_text (v : list N) : Prop := str_text v \/ v = null_text.
Definition flat_members (ms : list (list N * list N)) : Prop :=
  Forall (fun kv => str_text (fst kv) /\ flat_text (snd kv)) ms.
(** ... null, and objects of those *)
Definition top_text (v : list N) : Prop := flat_text v \/ exists ms, v = frame_obj ms /\ flat_members ms.
Definition top_members (ms : list (list N * list N)) : Prop :=
  Forall (fun kv => str_text (fst kv) /\ top_text (snd kv)) ms.
