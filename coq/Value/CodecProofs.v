(** C16 — proofs about the envelope, the CQRS marshalers and the reply marshaler.
    The library laws are hypotheses of the individual theorems, stated POINTWISE (for the one
    value being marshalled), which is weaker to assume than a law for all values. *)
From WM Require Import Base.Prelude Message.Model Value.Model Value.EqualsProofs Value.Codec.

Lemma msg_eta m : Msg (uuid m) (payload m) (meta m) = m.
Proof. now destruct m. Qed.


Section EnvelopeProofs.
  Variable jenc : envelope -> option (list N).
  Variable jdec : list N -> option envelope.
  Variable nu : str.

  Lemma wrap_ok_inv dest m w : wrap jenc nu dest m = Ok w ->
    dest <> [] /\ exists b, jenc (env_of dest m) = Some b /\ w = Msg nu (Some b) (Some []).
  Proof.
    unfold wrap, new_envelope, validate. simpl.
    destruct (str_eqb dest []) eqn:E; simpl; [discriminate|].
    apply str_eqb_neq in E. fold (env_of dest m).
    destruct (jenc (env_of dest m)) as [b|] eqn:Eb; [|discriminate].
    intros [= <-]. split; auto. now exists b.
  Qed.

  (** wrap then unwrap is the identity on (destination, UUID, payload, metadata) — including
      whether payload / metadata are nil — whenever the JSON library reads back the envelope
      it has just written *)
  Theorem envelope_roundtrip dest m w :
    (forall b, jenc (env_of dest m) = Some b -> jdec b = Some (env_of dest m)) ->
    wrap jenc nu dest m = Ok w -> unwrap jdec w = Ok (dest, m).
  Proof.
    intros Hlaw Hw. apply wrap_ok_inv in Hw as (Hd & b & Hb & ->).
    unfold unwrap. simpl. rewrite (Hlaw _ Hb). unfold validate, env_of. simpl.
    apply str_eqb_neq in Hd. rewrite Hd. simpl. now rewrite msg_eta.
  Qed.

  (** the same with the law assumed only for envelopes made of valid UTF-8 strings *)
  Corollary envelope_roundtrip_utf8 dest m w :
    (forall e b, envelope_utf8 e = true -> jenc e = Some b -> jdec b = Some e) ->
    utf8_valid dest = true -> utf8_valid (uuid m) = true -> md_utf8 (meta m) = true ->
    wrap jenc nu dest m = Ok w -> unwrap jdec w = Ok (dest, m).
  Proof.
    intros Hlaw H1 H2 H3. apply envelope_roundtrip. intros b. apply Hlaw.
    unfold envelope_utf8, env_of. simpl. now rewrite H1, H2, H3.
  Qed.

  Theorem wrap_outcomes dest m :
    (dest = [] -> wrap jenc nu dest m = Err EUnknownDest)
    /\ (dest <> [] -> wrap jenc nu dest m =
          match jenc (env_of dest m) with
          | Some b => Ok (Msg nu (Some b) (Some []))
          | None => Err EMarshalEnvelope
          end).
  Proof.
    unfold wrap, new_envelope, validate, env_of. simpl. split.
    - intros ->. reflexivity.
    - intros H. apply str_eqb_neq in H. rewrite H. reflexivity.
  Qed.

  (** an envelope without a destination is rejected on the way in, whatever else it holds;
      so an unwrapped destination is never empty *)
  Theorem unwrap_rejects_empty_dest w :
    (forall e, jdec (pl_bytes (payload w)) = Some e -> e_dest e = [] -> unwrap jdec w = Err EInvalidEnvelope)
    /\ (forall d m, unwrap jdec w = Ok (d, m) -> d <> []).
  Proof.
    unfold unwrap, validate. split.
    - intros e -> ->. reflexivity.
    - intros d m. destruct (jdec _) as [e|]; [|discriminate].
      destruct (str_eqb (e_dest e) []) eqn:E; simpl; [discriminate|].
      intros [= <- _]. now apply str_eqb_neq.
  Qed.

  Theorem unwrap_outcomes w :
    unwrap jdec w =
    match jdec (pl_bytes (payload w)) with
    | None => Err EUnmarshalEnvelope
    | Some e => if str_eqb (e_dest e) [] then Err EInvalidEnvelope
                else Ok (e_dest e, Msg (e_uuid e) (e_payload e) (e_meta e))
    end.
  Proof.
    unfold unwrap, validate. destruct (jdec _) as [e|]; auto. now destruct (str_eqb (e_dest e) []).
  Qed.

  (** the model's round trip passes the acceptor applied to the implementation *)
  Theorem envelope_model_accepted dest m w : msg_wf m ->
    (forall b, jenc (env_of dest m) = Some b -> jdec b = Some (env_of dest m)) ->
    wrap jenc nu dest m = Ok w -> envelope_rt_ok dest m (unwrap jdec w) = true.
  Proof.
    intros W Hlaw Hw. rewrite (envelope_roundtrip _ _ _ Hlaw Hw). simpl.
    now rewrite str_eqb_refl, identical_b_refl.
  Qed.

  (** forwarder.Publisher: every message of the batch arrives at the wrapped publisher, in order,
      each in its own envelope that unwraps to (topic, that message); all on the forwarder topic *)
  Lemma wrap_all_roundtrip dest ms ws :
    (forall m b, In m ms -> jenc (env_of dest m) = Some b -> jdec b = Some (env_of dest m)) ->
    wrap_all jenc nu dest ms = Ok ws ->
    map (unwrap jdec) ws = map (fun m => Ok (dest, m)) ms.
  Proof.
    revert ws. induction ms as [|m ms IH]; simpl; intros ws Hlaw.
    - intros [= <-]. reflexivity.
    - destruct (wrap jenc nu dest m) as [w|] eqn:Ew; [|discriminate].
      destruct (wrap_all jenc nu dest ms) as [ws'|] eqn:Ews; [|discriminate].
      intros [= <-]. simpl. f_equal.
      + apply envelope_roundtrip; auto.
      + apply IH; auto.
  Qed.
  Theorem publisher_roundtrip cfg inner_ok dest ms ft ws :
    (forall m b, In m ms -> jenc (env_of dest m) = Some b -> jdec b = Some (env_of dest m)) ->
    fwd_publish jenc nu cfg inner_ok dest ms = Ok (ft, ws) ->
    ft = (if str_eqb cfg [] then default_forwarder_topic else cfg)
    /\ map (unwrap jdec) ws = map (fun m => Ok (dest, m)) ms.
  Proof.
    unfold fwd_publish. intros Hlaw.
    destruct (wrap_all jenc nu dest ms) as [ws'|] eqn:E; [|discriminate].
    destruct inner_ok; [|discriminate]. intros [= <- <-]. split; auto.
    now apply wrap_all_roundtrip.
  Qed.
End EnvelopeProofs.

(** FullyQualifiedStructName "ignores if the value is a pointer or not": %T of a pointer is "*" + %T
    of the pointee *)
Lemma trim_left_stars_pointer s : trim_left_stars (42%N :: s) = trim_left_stars s.
Proof. reflexivity. Qed.
Lemma trim_left_stars_idem s : trim_left_stars (trim_left_stars s) = trim_left_stars s.
Proof. induction s as [|b s IH]; simpl; auto. destruct (N.eqb b 42) eqn:E; auto. simpl. now rewrite E. Qed.

Section CqrsProofs.
  Variable V : Type.
  Variable type_string : V -> str.
  Variable gen_name : option (V -> str).
  Variable cfg_uuid : option str.
  Variable default_uuid : str.
  Variable is_msg : bool.
  Variable venc : V -> option (option (list N)).
  Variable vdec : list N -> option V.
  Variable is_gogo : bool.
  Variable genc : V -> lib (option (list N)).
  Variable gdec : list N -> lib V.
  Variable nofb : bool.

  Notation named := (named_message V type_string gen_name cfg_uuid default_uuid).
  Notation name := (name_of V type_string gen_name).
  Notation jm := (json_marshal V type_string gen_name cfg_uuid default_uuid venc).
  Notation ju := (json_unmarshal V vdec).
  Notation pm := (proto_marshal V type_string gen_name cfg_uuid default_uuid is_msg venc).
  Notation pu := (proto_unmarshal V is_msg vdec).
  Notation gm := (gogo_marshal V type_string gen_name cfg_uuid default_uuid is_msg venc is_gogo genc nofb).
  Notation gu := (gogo_unmarshal V is_msg vdec is_gogo gdec nofb).

  Lemma name_from_named b v : name_from_message (named b v) = name v.
  Proof. reflexivity. Qed.
  Lemma named_value b v :
    uuid (named b v) = (match cfg_uuid with Some u => u | None => default_uuid end)
    /\ payload (named b v) = b /\ meta (named b v) = Some [(key_name, name v)].
  Proof. repeat split. Qed.

  Theorem json_roundtrip v m :
    (forall b, venc v = Some b -> vdec (pl_bytes b) = Some v) ->
    jm v = Ok m -> ju m = Ok v /\ name_from_message m = name v.
  Proof.
    unfold json_marshal, json_unmarshal. intros Hlaw.
    destruct (venc v) as [b|] eqn:E; [|discriminate]. intros [= <-].
    rewrite name_from_named. simpl. now rewrite (Hlaw _ eq_refl).
  Qed.

  Theorem proto_roundtrip v m :
    (forall b, venc v = Some b -> vdec (pl_bytes b) = Some v) ->
    pm v = Ok m -> pu m = Ok v /\ name_from_message m = name v.
  Proof.
    unfold proto_marshal, proto_unmarshal. intros Hlaw. destruct is_msg; simpl; [|discriminate].
    now apply json_roundtrip.
  Qed.
  Theorem proto_rejects_non_message v m : is_msg = false -> pm v = Err ENoProto /\ pu m = Err ENoProto.
  Proof. unfold proto_marshal, proto_unmarshal. intros ->. auto. Qed.

  (** the gogo marshaler with the repaired Unmarshal.  Library assumptions: each library reads
      back what it wrote; when the fallback wrote the bytes, gogo either fails on them or reads
      the same value. *)
  Theorem gogo_roundtrip v m :
    (forall b, genc v = LOk b -> gdec (pl_bytes b) = LOk v) ->
    (forall b, venc v = Some b -> vdec (pl_bytes b) = Some v) ->
    (forall b v', venc v = Some b -> gdec (pl_bytes b) = LOk v' -> v' = v) ->
    gm v = Ok m -> gu true m = Ok v /\ name_from_message m = name v.
  Proof.
    intros Hg Hs Hx. unfold gogo_marshal, gogo_unmarshal.
    destruct is_gogo; simpl.
    - destruct (genc v) as [b| |] eqn:Eg.
      + intros [= <-]. rewrite name_from_named. simpl. now rewrite (Hg _ eq_refl).
      + destruct nofb; simpl; [discriminate|]. destruct is_msg eqn:Em; simpl; [|discriminate].
        unfold proto_marshal, json_marshal. try rewrite Em. simpl.
        destruct (venc v) as [b|] eqn:Ev; [|discriminate]. intros [= <-].
        rewrite name_from_named. simpl. split; auto.
        destruct (gdec (pl_bytes b)) as [v'| |] eqn:Ed.
        * now rewrite (Hx _ _ eq_refl Ed).
        * unfold proto_unmarshal, json_unmarshal. try rewrite Em. simpl. now rewrite (Hs _ eq_refl).
        * unfold proto_unmarshal, json_unmarshal. try rewrite Em. simpl. now rewrite (Hs _ eq_refl).
      + destruct nofb; simpl; [discriminate|]. destruct is_msg eqn:Em; simpl; [|discriminate].
        unfold proto_marshal, json_marshal. try rewrite Em. simpl.
        destruct (venc v) as [b|] eqn:Ev; [|discriminate]. intros [= <-].
        rewrite name_from_named. simpl. split; auto.
        destruct (gdec (pl_bytes b)) as [v'| |] eqn:Ed.
        * now rewrite (Hx _ _ eq_refl Ed).
        * unfold proto_unmarshal, json_unmarshal. try rewrite Em. simpl. now rewrite (Hs _ eq_refl).
        * unfold proto_unmarshal, json_unmarshal. try rewrite Em. simpl. now rewrite (Hs _ eq_refl).
    - destruct nofb; simpl; [discriminate|]. destruct is_msg eqn:Em; simpl; [|discriminate].
      unfold proto_marshal, json_marshal. try rewrite Em. simpl.
      destruct (venc v) as [b|] eqn:Ev; [|discriminate]. intros [= <-].
      rewrite name_from_named. simpl. split; auto.
      unfold proto_unmarshal, json_unmarshal. try rewrite Em. simpl. now rewrite (Hs _ eq_refl).
  Qed.

  (** with the pinned Unmarshal the round trip still holds for every type that implements gogo's
      proto.Message *)
  Theorem gogo_roundtrip_pinned_gogo_types v m : is_gogo = true ->
    (forall b, genc v = LOk b -> gdec (pl_bytes b) = LOk v) ->
    (forall b, venc v = Some b -> vdec (pl_bytes b) = Some v) ->
    (forall b v', venc v = Some b -> gdec (pl_bytes b) = LOk v' -> v' = v) ->
    gm v = Ok m -> gu false m = Ok v /\ name_from_message m = name v.
  Proof.
    intros Eg Hg Hs Hx Hm. destruct (gogo_roundtrip v m Hg Hs Hx Hm) as [H1 H2]. split; auto.
    revert H1. unfold gogo_unmarshal. now rewrite Eg.
  Qed.
End CqrsProofs.

(** ... and fails for a type that implements only the google.golang.org/protobuf Message
    interface (ProtoReflect) and not gogo's (Reset/String/ProtoMessage): Marshal succeeds through
    the fallback, Unmarshal rejects the value before the fallback is installed. *)
Theorem gogo_roundtrip_pinned_refuted :
  exists (venc : unit -> option (option (list N))) (vdec : list N -> option unit)
         (genc : unit -> lib (option (list N))) (gdec : list N -> lib unit) m,
    (forall b, venc tt = Some b -> vdec (pl_bytes b) = Some tt)
    /\ gogo_marshal unit (fun _ => []) None None [] true venc false genc false tt = Ok m
    /\ gogo_unmarshal unit true vdec false gdec false false m = Err ENoProto.
Proof.
  exists (fun _ => Some (Some [])), (fun _ => Some tt), (fun _ => LErr), (fun _ => LErr).
  eexists. split; [reflexivity|]. split; reflexivity.
Qed.

Section ReplyProofs.
  Variable R : Type.
  Variable renc : R -> option (option (list N)).
  Variable rdec : list N -> option R.
  Variable nu : str.

  Lemma reply_metadata (p : rparams R) m : marshal_reply R renc nu p = Ok m ->
    meta m = Some (match p_err R p with
                   | Some t => [(key_error, t); (key_has_error, s_one)]
                   | None => [(key_has_error, s_zero)]
                   end)
    /\ exists b, renc (p_result R p) = Some b /\ payload m = b.
  Proof.
    unfold marshal_reply. destruct (renc (p_result R p)) as [b|] eqn:E; [|discriminate].
    intros [= <-]. simpl. split; [|now exists b]. now destruct (p_err R p).
  Qed.

  (** result and error text come back exactly: no error stays no error, an error with the
      empty text stays an error with the empty text *)
  Theorem reply_roundtrip (p : rparams R) m :
    (forall b, renc (p_result R p) = Some b -> rdec (pl_bytes b) = Some (p_result R p)) ->
    marshal_reply R renc nu p = Ok m ->
    unmarshal_reply R rdec m = Ok (Rep R (p_result R p) (p_err R p)).
  Proof.
    intros Hlaw Hm. destruct (reply_metadata _ _ Hm) as (Hmd & b & Hb & Hp).
    unfold unmarshal_reply. rewrite Hmd, Hp, (Hlaw _ Hb).
    destruct (p_err R p) as [t|]; reflexivity.
  Qed.

  Theorem reply_model_accepted reqb (p : rparams R) :
    (forall r, reqb r r = true) ->
    (forall b, renc (p_result R p) = Some b -> rdec (pl_bytes b) = Some (p_result R p)) ->
    reply_rt_ok R reqb p (marshal_reply R renc nu p)
      (match marshal_reply R renc nu p with Ok m => unmarshal_reply R rdec m | Err e => Err e end) = true.
  Proof.
    intros Hr Hlaw. destruct (marshal_reply R renc nu p) as [m|] eqn:E; [|reflexivity].
    rewrite (reply_roundtrip _ _ Hlaw E). simpl. rewrite Hr. simpl.
    destruct (p_err R p); simpl; auto. apply str_eqb_refl.
  Qed.
End ReplyProofs.

(** the acceptors applied to the implementation accept every round trip the theorems describe *)
Lemma cqrs_rt_ok_intro V ts gen veqb (v : V) (mr : res msg) nfm (got : res V) :
  (forall x, veqb x x = true) ->
  (forall m, mr = Ok m -> got = Ok v /\ nfm = name_of V ts gen v) ->
  cqrs_rt_ok V ts gen veqb v mr nfm got = true.
Proof.
  intros Hr H. unfold cqrs_rt_ok. destruct mr as [m|]; auto.
  destruct (H m eq_refl) as [-> ->]. now rewrite str_eqb_refl, Hr.
Qed.
