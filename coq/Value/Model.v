(** C16 — messages as values and as Go objects (message/message.go Equals l.74-87, NewMessage,
    Copy l.189-195; message/metadata.go Get/Set).  Executable, total.  No proofs here.

    Strings and payloads are byte sequences ([list N], one element per byte) — exactly Go's
    notion of string / []byte equality, no interning.  [None] is Go's nil for a []byte or a
    map; Go's [len], [range] and [bytes.Equal] do not distinguish nil from empty and neither do
    [pl_bytes] / [md_entries].

    A Go map is modelled as an association list without duplicate keys ([md_wf], the
    representation invariant that every operation preserves); iteration order is not
    observable in anything modelled here. *)
From WM Require Import Base.Prelude Message.Model.

Definition str := list N.
Definition str_eqb : str -> str -> bool := list_eqb N.eqb.

Definition metadata := list (str * str).

Fixpoint md_get (m : metadata) (k : str) : option str :=
  match m with
  | [] => None
  | (k', v) :: m' => if str_eqb k' k then Some v else md_get m' k
  end.

(** [m[key]] of a Go map / [Metadata.Get]: a missing key reads as "" *)
Definition md_read (m : metadata) (k : str) : str :=
  match md_get m k with Some v => v | None => [] end.

(** [m[k] = v] *)
Fixpoint md_set (m : metadata) (k v : str) : metadata :=
  match m with
  | [] => [(k, v)]
  | (k', v') :: m' => if str_eqb k' k then (k', v) :: m' else (k', v') :: md_set m' k v
  end.

Definition md_wf (m : metadata) : Prop := NoDup (map fst m).

Definition pl_bytes (p : option (list N)) : list N := match p with Some b => b | None => [] end.
Definition md_entries (m : option metadata) : metadata := match m with Some l => l | None => [] end.

(** the value of a message: UUID, Payload, Metadata (settlement and context are not part of it) *)
Record msg := Msg { uuid : str; payload : option (list N); meta : option metadata }.

Definition msg_wf (a : msg) : Prop := md_wf (md_entries (meta a)).

(** [Message.Equals], statement by statement.  [fixed = false] is the pinned code
    ([value != toCompare.Metadata[key]]: a missing key reads as ""), [fixed = true] the
    repaired one (the key must be present). *)
Definition entry_matches (fixed : bool) (mb : metadata) (kv : str * str) : bool :=
  let '(k, v) := kv in
  if fixed
  then match md_get mb k with Some w => str_eqb v w | None => false end
  else str_eqb v (md_read mb k).

Definition equals (fixed : bool) (a b : msg) : bool :=
  if negb (str_eqb (uuid a) (uuid b)) then false else
  if negb (Nat.eqb (length (md_entries (meta a))) (length (md_entries (meta b)))) then false else
  if negb (forallb (entry_matches fixed (md_entries (meta b))) (md_entries (meta a))) then false else
  list_eqb N.eqb (pl_bytes (payload a)) (pl_bytes (payload b)).

(** The specification side of "Equals is true exactly when UUID, payload bytes and the complete
    metadata key/value set coincide" *)
Definition same_value (a b : msg) : Prop :=
  uuid a = uuid b /\ pl_bytes (payload a) = pl_bytes (payload b)
  /\ forall k, md_get (md_entries (meta a)) k = md_get (md_entries (meta b)) k.

(** ... and the same thing as a boolean, written without reference to [equals] (both
    inclusions of the key/value sets are tested): this is the acceptor the harness applies to
    what the implementation's Equals returned. *)
Definition md_incl (ma mb : metadata) : bool :=
  forallb (fun kv => match md_get mb (fst kv) with Some w => str_eqb (snd kv) w | None => false end) ma.
Definition same_value_b (a b : msg) : bool :=
  str_eqb (uuid a) (uuid b)
  && list_eqb N.eqb (pl_bytes (payload a)) (pl_bytes (payload b))
  && md_incl (md_entries (meta a)) (md_entries (meta b))
  && md_incl (md_entries (meta b)) (md_entries (meta a)).

(** identical including nil-ness (what the codec round trips deliver); metadata as a set *)
Definition option_same {A} (x y : option A) : bool :=
  match x, y with Some _, Some _ | None, None => true | _, _ => false end.
Definition identical_b (a b : msg) : bool :=
  same_value_b a b && option_same (payload a) (payload b) && option_same (meta a) (meta b).

(** * Messages as Go objects: who shares what.

    A store holds message objects; a payload is a reference to a byte buffer (a Go slice shares
    its backing array when copied by value), metadata a reference to a map.  [Copy] is
    [NewMessage(m.UUID, m.Payload)] followed by [Set] for every entry: the UUID is copied, the
    payload buffer is SHARED, the metadata map is new, the settlement state is fresh. *)
Record obj := Obj { o_uuid : str; o_pl : option nat; o_md : option nat; o_st : mstate }.
Record store := Store { objs : list obj; bufs : list (list N); maps : list metadata }.

Definition empty_store : store := Store [] [] [].

Inductive vop :=
| VNew (u : str) (p : option (list N))                       (* message.NewMessage(u, p) *)
| VLit (u : str) (p : option (list N)) (m : option metadata) (* &message.Message{UUID, Payload, Metadata} *)
| VCopy (o : nat)                                            (* o.Copy() *)
| VSet (o : nat) (k v : str)                                 (* o.Metadata.Set(k, v) *)
| VPoke (o : nat) (i : nat) (b : N)                          (* o.Payload[i] = b *)
| VAck (o : nat) | VNack (o : nat)
| VEquals (o1 o2 : nat).                                     (* o1.Equals(o2) *)

Inductive vres := RObj (n : nat) | RUnit | RB (b : bool) | RPanicked | RInvalid.

Definition list_upd {A} (l : list A) (i : nat) (x : A) : list A :=
  firstn i l ++ match skipn i l with [] => [] | _ :: t => x :: t end.

Definition alloc_buf (s : store) (p : option (list N)) : store * option nat :=
  match p with
  | None => (s, None)
  | Some b => (Store (objs s) (bufs s ++ [b]) (maps s), Some (length (bufs s)))
  end.
Definition alloc_map (s : store) (m : option metadata) : store * option nat :=
  match m with
  | None => (s, None)
  | Some l => (Store (objs s) (bufs s) (maps s ++ [l]), Some (length (maps s)))
  end.
Definition add_obj (s : store) (o : obj) : store * vres :=
  (Store (objs s ++ [o]) (bufs s) (maps s), RObj (length (objs s))).

Definition get_map (s : store) (o : obj) : option metadata :=
  match o_md o with Some i => nth_error (maps s) i | None => None end.
Definition get_buf (s : store) (o : obj) : option (list N) :=
  match o_pl o with Some i => nth_error (bufs s) i | None => None end.

(** the value currently held by an object *)
Definition val (s : store) (o : obj) : msg := Msg (o_uuid o) (get_buf s o) (get_map s o).

(** a map literal / a fresh map filled entry by entry: duplicates cannot exist in Go *)
Definition md_build (l : metadata) : metadata := fold_left (fun acc kv => md_set acc (fst kv) (snd kv)) l [].

Definition vstep (fixed : bool) (s : store) (op : vop) : store * vres :=
  match op with
  | VNew u p =>
      let '(s1, bp) := alloc_buf s p in
      let '(s2, mp) := alloc_map s1 (Some []) in
      add_obj s2 (Obj u bp mp (init CtorNew))
  | VLit u p m =>
      let '(s1, bp) := alloc_buf s p in
      let '(s2, mp) := alloc_map s1 (option_map md_build m) in
      add_obj s2 (Obj u bp mp (init CtorZero))
  | VCopy i =>
      match nth_error (objs s) i with
      | None => (s, RInvalid)
      | Some o =>
          (* NewMessage(m.UUID, m.Payload): same slice; then Set for every entry of the old map *)
          let '(s1, mp) := alloc_map s (Some (md_build (md_entries (get_map s o)))) in
          add_obj s1 (Obj (o_uuid o) (o_pl o) mp (init CtorCopy))
      end
  | VSet i k v =>
      match nth_error (objs s) i with
      | None => (s, RInvalid)
      | Some o =>
          match o_md o with
          | None => (s, RPanicked)                         (* assignment to entry in nil map *)
          | Some j =>
              match nth_error (maps s) j with
              | None => (s, RInvalid)
              | Some m => (Store (objs s) (bufs s) (list_upd (maps s) j (md_set m k v)), RUnit)
              end
          end
      end
  | VPoke i pos b =>
      match nth_error (objs s) i with
      | None => (s, RInvalid)
      | Some o =>
          match o_pl o with
          | None => (s, RPanicked)                         (* index out of range on a nil slice *)
          | Some j =>
              match nth_error (bufs s) j with
              | None => (s, RInvalid)
              | Some buf =>
                  if Nat.ltb pos (length buf)
                  then (Store (objs s) (list_upd (bufs s) j (list_upd buf pos b)) (maps s), RUnit)
                  else (s, RPanicked)
              end
          end
      end
  | VAck i | VNack i =>
      match nth_error (objs s) i with
      | None => (s, RInvalid)
      | Some o =>
          let '(st', r) := step (o_st o) (match op with VAck _ => OpAck | _ => OpNack end) in
          (Store (list_upd (objs s) i (Obj (o_uuid o) (o_pl o) (o_md o) st')) (bufs s) (maps s),
           match r with RBool b => RB b | _ => RPanicked end)
      end
  | VEquals i j =>
      match nth_error (objs s) i, nth_error (objs s) j with
      | Some a, Some b => (s, RB (equals fixed (val s a) (val s b)))
      | _, _ => (s, RInvalid)
      end
  end.

(** what the harness can see of the store after every operation: per object its value and its
    settlement (state, ack channel closed, nack channel closed) *)
Definition chan_closed (c : chanst) : bool := match c with CClosed => true | _ => false end.
Record oview := OV { ov_val : msg; ov_acked : bool; ov_nacked : bool }.
Definition view (s : store) (o : obj) : oview :=
  OV (val s o) (chan_closed (ackc (o_st o))) (chan_closed (nackc (o_st o))).
Definition snapshot (s : store) : list oview := map (view s) (objs s).

Fixpoint vrun (fixed : bool) (s : store) (ops : list vop) : list (vres * list oview) :=
  match ops with
  | [] => []
  | op :: ops' =>
      let '(s1, r) := vstep fixed s op in
      (r, snapshot s1) :: vrun fixed s1 ops'
  end.

(** * The acceptor for object traces (applied to the implementation's observed trace and
    proved of the model's): Copy yields an object that has the original's value, is unsettled
    with open channels, and shares no metadata — a Set on one object changes the metadata of that
    object only (to exactly "k ↦ v, everything else as before"), and no other operation changes
    any metadata at all. *)
Definition md_same_b (x y : option metadata) : bool :=
  md_incl (md_entries x) (md_entries y) && md_incl (md_entries y) (md_entries x) && option_same x y.

Fixpoint metas_go (skip : option nat) (i : nat) (b a : list oview) : bool :=
  match b, a with
  | [], _ => true
  | x :: b', y :: a' =>
      (match skip with Some j => Nat.eqb i j | None => false end || md_same_b (meta (ov_val x)) (meta (ov_val y)))
      && metas_go skip (S i) b' a'
  | _ :: _, [] => false
  end.
Definition metas_unchanged_except (skip : option nat) (before after : list oview) : bool :=
  metas_go skip 0 before after.

Definition set_effect_ok (k v : str) (before after : option metadata) : bool :=
  match before, after with
  | Some mb, Some ma =>
      match md_get ma k with Some w => str_eqb w v | None => false end
      && forallb (fun kv => str_eqb (fst kv) k || match md_get ma (fst kv) with Some w => str_eqb (snd kv) w | None => false end) mb
      && forallb (fun kv => str_eqb (fst kv) k || match md_get mb (fst kv) with Some w => str_eqb (snd kv) w | None => false end) ma
  | _, _ => false
  end.

Definition step_ok (op : vop) (before : list oview) (r : vres) (after : list oview) : bool :=
  match op, r with
  | VCopy i, RObj n =>
      Nat.eqb n (length before) && Nat.eqb (length after) (S n)
      && metas_unchanged_except None before after
      && match nth_error after i, nth_error after n with
         | Some orig, Some cp =>
             same_value_b (ov_val orig) (ov_val cp)                  (* Equals the original *)
             && option_same (payload (ov_val orig)) (payload (ov_val cp))
             && (match meta (ov_val cp) with Some _ => true | None => false end)  (* always a usable map *)
             && negb (ov_acked cp) && negb (ov_nacked cp)            (* unsettled *)
         | _, _ => false
         end
  | VSet i k v, RUnit =>
      Nat.eqb (length after) (length before)
      && metas_unchanged_except (Some i) before after
      && match nth_error before i, nth_error after i with
         | Some x, Some y => set_effect_ok k v (meta (ov_val x)) (meta (ov_val y))
         | _, _ => false
         end
  | VSet i k v, RPanicked =>                                        (* only a nil map panics *)
      metas_unchanged_except None before after
      && match nth_error before i with Some x => match meta (ov_val x) with None => true | Some _ => false end | None => false end
  | (VNew _ _ | VLit _ _ _), RObj n =>
      Nat.eqb n (length before) && Nat.eqb (length after) (S n) && metas_unchanged_except None before after
  | (VPoke _ _ _ | VAck _ | VNack _ | VEquals _ _), (RUnit | RB _ | RPanicked) =>
      Nat.eqb (length after) (length before) && metas_unchanged_except None before after
  | _, _ => false
  end.

Fixpoint trace_ok (before : list oview) (ops : list vop) (tr : list (vres * list oview)) : bool :=
  match ops, tr with
  | [], [] => true
  | op :: ops', (r, after) :: tr' => step_ok op before r after && trace_ok after ops' tr'
  | _, _ => false
  end.

(** scripts the harness generates (and the theorem quantifies over): every object index refers
    to an object that exists at that point *)
Definition op_scoped (n : nat) (op : vop) : bool :=
  match op with
  | VNew _ _ | VLit _ _ _ => true
  | VCopy i | VSet i _ _ | VPoke i _ _ | VAck i | VNack i => Nat.ltb i n
  | VEquals i j => Nat.ltb i n && Nat.ltb j n
  end.
Definition creates (op : vop) : bool := match op with VNew _ _ | VLit _ _ _ | VCopy _ => true | _ => false end.
Fixpoint script_scoped (n : nat) (ops : list vop) : bool :=
  match ops with
  | [] => true
  | op :: ops' => op_scoped n op && script_scoped (if creates op then S n else n) ops'
  end.

(** the store after a script; the stores the theorems talk about are the ones a (scoped) script
    can produce from nothing *)
Fixpoint vexec (f : bool) (s : store) (ops : list vop) : store :=
  match ops with [] => s | op :: ops' => vexec f (fst (vstep f s op)) ops' end.
Definition reachable (s : store) : Prop :=
  exists f ops, script_scoped 0 ops = true /\ s = vexec f empty_store ops.
Definition set_op (t : nat * str * str) : vop := VSet (fst (fst t)) (snd (fst t)) (snd t).
