(** C16, round "proofs" — what encoding/json does to the forwarder envelope, written out:
    string escaping (encode.go appendString with escapeHTML = true) and unescaping (decode.go
    unquoteBytes + the scanner's syntax rules for string literals), standard base64 with padding
    (encoding/base64 StdEncoding, non-strict, CR/LF skipped), the mapping between the envelope
    struct and JSON members (field names, null handling, []byte as base64 string, map as object,
    case-insensitive field match, later members overwrite / merge), and the text of the object the
    encoder writes.  The only thing left as an oracle is [unframe]: splitting the text of a JSON
    object into the raw texts of its members.  Executable, total.  No proofs here. *)
From WM Require Import Base.Prelude Value.Model Value.Codec.
Local Open Scope N_scope.

(** * UTF-8 sequences: length of the well-formed sequence at the head of [s], 0 if there is
    none (utf8.DecodeRune returns (RuneError, 1) in exactly that case) *)
Definition rune_len (s : list N) : nat :=
  match s with
  | [] => 0
  | b0 :: r0 =>
    if N.ltb b0 128 then 1 else
    match r0 with
    | [] => 0
    | b1 :: r1 =>
      if in_range 194 223 b0 then (if cont b1 then 2 else 0) else
      match r1 with
      | [] => 0
      | b2 :: r2 =>
        if N.eqb b0 224 then (if in_range 160 191 b1 && cont b2 then 3 else 0) else
        if in_range 225 236 b0 || in_range 238 239 b0 then (if cont b1 && cont b2 then 3 else 0) else
        if N.eqb b0 237 then (if in_range 128 159 b1 && cont b2 then 3 else 0) else
        match r2 with
        | [] => 0
        | b3 :: r3 =>
          if N.eqb b0 240 then (if in_range 144 191 b1 && cont b2 && cont b3 then 4 else 0) else
          if in_range 241 243 b0 then (if cont b1 && cont b2 && cont b3 then 4 else 0) else
          if N.eqb b0 244 then (if in_range 128 143 b1 && cont b2 && cont b3 then 4 else 0) else 0
        end
      end
    end
  end%nat.

(** Go's loops "look at the bytes at position i, emit something, advance by size": [step] sees the
    remaining input, returns what to emit and how many bytes it consumed; the walker skips those *)
Fixpoint walk (step : list N -> list N * nat) (skip : nat) (s : list N) : list N :=
  match s with
  | [] => []
  | _ :: r =>
      match skip with
      | S k => walk step k r
      | O => let '(out, n) := step s in out ++ walk step (pred n) r
      end
  end.
Fixpoint walk_opt (step : list N -> option (list N * nat)) (skip : nat) (s : list N) : option (list N) :=
  match s with
  | [] => match skip with O => Some [] | S _ => None end
  | _ :: r =>
      match skip with
      | S k => walk_opt step k r
      | O => match step s with
             | None => None
             | Some (out, n) => match walk_opt step (pred n) r with Some t => Some (out ++ t) | None => None end
             end
      end
  end.

(** * String escaping *)
Definition hexdig (d : N) : N := if N.ltb d 10 then 48 + d else 87 + d.           (* "0123456789abcdef"[d] *)
Definition hexval (c : N) : option N :=
  if in_range 48 57 c then Some (c - 48) else
  if in_range 97 102 c then Some (c - 87) else
  if in_range 65 70 c then Some (c - 55) else None.
Definition hex4 (h1 h2 h3 h4 : N) : option N :=
  match hexval h1, hexval h2, hexval h3, hexval h4 with
  | Some a, Some b, Some c, Some d => Some (((a * 16 + b) * 16 + c) * 16 + d)
  | _, _, _, _ => None
  end.

Definition u00 (b : N) : list N := [92; 117; 48; 48; hexdig (b / 16); hexdig (b mod 16)].    (* \u00XY *)
Definition esc_ascii (b : N) : list N :=
  if N.eqb b 34 || N.eqb b 92 then [92; b] else
  if N.eqb b 8 then [92; 98] else
  if N.eqb b 12 then [92; 102] else
  if N.eqb b 10 then [92; 110] else
  if N.eqb b 13 then [92; 114] else
  if N.eqb b 9 then [92; 116] else
  if N.ltb b 32 || N.eqb b 60 || N.eqb b 62 || N.eqb b 38 then u00 b else [b].
Definition fffd_esc : list N := [92; 117; 102; 102; 102; 100].     (* � *)
Definition fffd_raw : list N := [239; 191; 189].
Definition esc_step (s : list N) : list N * nat :=
  match s with
  | [] => ([], 1%nat)
  | b :: _ =>
      if N.ltb b 128 then (esc_ascii b, 1%nat) else
      match rune_len s with
      | O => (fffd_esc, 1%nat)
      | n =>
          let c := firstn n s in
          if list_eqb N.eqb c [226; 128; 168] then ([92; 117; 50; 48; 50; 56], 3%nat) else     (* U+2028 *)
          if list_eqb N.eqb c [226; 128; 169] then ([92; 117; 50; 48; 50; 57], 3%nat) else     (* U+2029 *)
          (c, n)
      end
  end.
Definition escape (s : list N) : list N := walk esc_step 0 s.
Definition enc_str (s : list N) : list N := 34 :: escape s ++ [34].

(** * String unescaping *)
Definition enc_rune (c : N) : list N :=                      (* utf8.EncodeRune for a valid code point *)
  if N.ltb c 128 then [c] else
  if N.ltb c 2048 then [192 + c / 64; 128 + c mod 64] else
  if N.ltb c 65536 then [224 + c / 4096; 128 + (c / 64) mod 64; 128 + c mod 64] else
  [240 + c / 262144; 128 + (c / 4096) mod 64; 128 + (c / 64) mod 64; 128 + c mod 64].

Definition unesc_u (r1 : list N) : option (list N * nat) :=    (* r1 = what follows "\u" *)
  match r1 with
  | h1 :: h2 :: h3 :: h4 :: r5 =>
      match hex4 h1 h2 h3 h4 with
      | None => None
      | Some cp =>
          if in_range 55296 57343 cp then          (* utf16.IsSurrogate *)
            match r5 with
            | a :: b :: g1 :: g2 :: g3 :: g4 :: _ =>
                if N.eqb a 92 && N.eqb b 117 then
                  match hex4 g1 g2 g3 g4 with
                  | Some lo =>
                      if N.ltb cp 56320 && in_range 56320 57343 lo
                      then Some (enc_rune (65536 + (cp - 55296) * 1024 + (lo - 56320)), 12%nat)
                      else Some (fffd_raw, 6%nat)
                  | None => Some (fffd_raw, 6%nat)
                  end
                else Some (fffd_raw, 6%nat)
            | _ => Some (fffd_raw, 6%nat)
            end
          else Some (enc_rune cp, 6%nat)
      end
  | _ => None
  end.

Definition unesc_step (s : list N) : option (list N * nat) :=
  match s with
  | [] => None
  | b :: r =>
      if N.ltb b 32 || N.eqb b 34 then None else                 (* control character / bare quote *)
      if N.eqb b 92 then
        match r with
        | [] => None
        | e :: r1 =>
            if N.eqb e 34 || N.eqb e 92 || N.eqb e 47 then Some ([e], 2%nat) else
            if N.eqb e 98 then Some ([8], 2%nat) else
            if N.eqb e 102 then Some ([12], 2%nat) else
            if N.eqb e 110 then Some ([10], 2%nat) else
            if N.eqb e 114 then Some ([13], 2%nat) else
            if N.eqb e 116 then Some ([9], 2%nat) else
            if N.eqb e 117 then unesc_u r1 else None
        end
      else if N.ltb b 128 then Some ([b], 1%nat)
      else match rune_len s with                                 (* coerce to well-formed UTF-8 *)
           | O => Some (fffd_raw, 1%nat)
           | n => Some (firstn n s, n)
           end
  end.
Definition unescape (s : list N) : option (list N) := walk_opt unesc_step 0 s.
Definition dec_str (t : list N) : option (list N) :=
  match t with
  | q :: r =>
      if N.eqb q 34 then
        match rev r with
        | q' :: m => if N.eqb q' 34 then unescape (rev m) else None
        | [] => None
        end
      else None
  | [] => None
  end.

(** * Base64, standard alphabet, '=' padding *)
Definition b64c (x : N) : N :=
  if N.ltb x 26 then 65 + x else if N.ltb x 52 then 71 + x else if N.ltb x 62 then x - 4 else
  if N.eqb x 62 then 43 else 47.
Definition b64v (c : N) : option N :=
  if in_range 65 90 c then Some (c - 65) else
  if in_range 97 122 c then Some (c - 71) else
  if in_range 48 57 c then Some (c + 4) else
  if N.eqb c 43 then Some 62 else if N.eqb c 47 then Some 63 else None.
Fixpoint b64enc (bs : list N) : list N :=
  match bs with
  | [] => []
  | [a] => [b64c (a / 4); b64c ((a mod 4) * 16); 61; 61]
  | [a; b] => [b64c (a / 4); b64c ((a mod 4) * 16 + b / 16); b64c ((b mod 16) * 4); 61]
  | a :: b :: c :: r =>
      [b64c (a / 4); b64c ((a mod 4) * 16 + b / 16); b64c ((b mod 16) * 4 + c / 64); b64c (c mod 64)] ++ b64enc r
  end.
Fixpoint b64dec_q (s : list N) : option (list N) :=
  match s with
  | [] => Some []
  | c0 :: c1 :: c2 :: c3 :: r =>
      match b64v c0, b64v c1 with
      | Some x0, Some x1 =>
          if N.eqb c3 61 then
            match r with
            | [] =>
                if N.eqb c2 61 then Some [x0 * 4 + x1 / 16]
                else match b64v c2 with
                     | Some x2 => Some [x0 * 4 + x1 / 16; (x1 mod 16) * 16 + x2 / 4]
                     | None => None
                     end
            | _ => None
            end
          else
            match b64v c2, b64v c3 with
            | Some x2, Some x3 =>
                match b64dec_q r with
                | Some t => Some ([x0 * 4 + x1 / 16; (x1 mod 16) * 16 + x2 / 4; (x2 mod 4) * 64 + x3] ++ t)
                | None => None
                end
            | _, _ => None
            end
      | _, _ => None
      end
  | _ => None
  end.
Definition not_newline (c : N) : bool := negb (N.eqb c 10 || N.eqb c 13).
Definition b64dec (s : list N) : option (list N) := b64dec_q (filter not_newline s).

Definition bytes_ok (bs : list N) : Prop := Forall (fun b => b < 256) bs.

(** * The envelope as JSON text *)
Definition null_text : list N := [110; 117; 108; 108].
Definition k_dest : list N := [34;100;101;115;116;105;110;97;116;105;111;110;95;116;111;112;105;99;34].  (* "destination_topic" with quotes *)
Definition k_uuid : list N := [34;117;117;105;100;34].
Definition k_payload : list N := [34;112;97;121;108;111;97;100;34].
Definition k_metadata : list N := [34;109;101;116;97;100;97;116;97;34].
Definition n_dest : list N := [100;101;115;116;105;110;97;116;105;111;110;95;116;111;112;105;99].
Definition n_uuid : list N := [117;117;105;100].
Definition n_payload : list N := [112;97;121;108;111;97;100].
Definition n_metadata : list N := [109;101;116;97;100;97;116;97].

(** the text of an object given the texts of its members: {k:v,k:v} without whitespace *)
Fixpoint members_text (ms : list (list N * list N)) : list N :=
  match ms with
  | [] => []
  | [(k, v)] => k ++ 58 :: v
  | (k, v) :: ms' => k ++ 58 :: v ++ 44 :: members_text ms'
  end.
Definition frame_obj (ms : list (list N * list N)) : list N := 123 :: members_text ms ++ [125].

Definition enc_bytes (p : option (list N)) : list N :=
  match p with None => null_text | Some b => 34 :: b64enc b ++ [34] end.
Definition meta_members (l : metadata) : list (list N * list N) :=
  map (fun kv => (enc_str (fst kv), enc_str (snd kv))) l.
(** Go writes map entries sorted by key; the model writes them in representation order (a Go map
    has no order; the harness hands the entries over sorted) *)
Definition enc_meta (m : option metadata) : list N :=
  match m with None => null_text | Some l => frame_obj (meta_members l) end.
Definition env_members (e : envelope) : list (list N * list N) :=
  [ (k_dest, enc_str (e_dest e)); (k_uuid, enc_str (e_uuid e));
    (k_payload, enc_bytes (e_payload e)); (k_metadata, enc_meta (e_meta e)) ].
Definition jenc_env (e : envelope) : option (list N) := Some (frame_obj (env_members e)).

Definition lower (c : N) : N := if in_range 65 90 c then c + 32 else c.
Definition fold_eqb (a b : list N) : bool := list_eqb N.eqb (map lower a) (map lower b).
Definition is_null (v : list N) : bool := list_eqb N.eqb v null_text.

Section Decode.
  (** the oracle: the raw (key text, value text) members of the JSON object [b], in order;
      [None] if [b] is not (syntactically valid JSON that is) an object *)
  Variable unframe : list N -> option (list (list N * list N)).

  Definition dec_meta_entry (acc : option metadata) (kv : list N * list N) : option metadata :=
    match acc with
    | None => None
    | Some md =>
        match dec_str (fst kv) with
        | None => None
        | Some k =>
            if is_null (snd kv) then Some (md_set md k [])       (* null stores the zero value *)
            else match dec_str (snd kv) with Some v => Some (md_set md k v) | None => None end
        end
    end.
  (** a field is decoded INTO the current value: strings keep their value on null, a map is
      merged into, a slice is replaced *)
  Definition dec_member (acc : option envelope) (kv : list N * list N) : option envelope :=
    match acc with
    | None => None
    | Some e =>
        match dec_str (fst kv) with
        | None => None
        | Some name =>
            let v := snd kv in
            if fold_eqb name n_dest then
              (if is_null v then Some e else
               match dec_str v with Some s => Some (Env s (e_uuid e) (e_payload e) (e_meta e)) | None => None end)
            else if fold_eqb name n_uuid then
              (if is_null v then Some e else
               match dec_str v with Some s => Some (Env (e_dest e) s (e_payload e) (e_meta e)) | None => None end)
            else if fold_eqb name n_payload then
              (if is_null v then Some (Env (e_dest e) (e_uuid e) None (e_meta e)) else
               match dec_str v with
               | Some t => match b64dec t with
                           | Some bs => Some (Env (e_dest e) (e_uuid e) (Some bs) (e_meta e))
                           | None => None
                           end
               | None => None
               end)
            else if fold_eqb name n_metadata then
              (if is_null v then Some (Env (e_dest e) (e_uuid e) (e_payload e) None) else
               match unframe v with
               | None => None
               | Some ms =>
                   match fold_left dec_meta_entry ms (Some (md_entries (e_meta e))) with
                   | Some md => Some (Env (e_dest e) (e_uuid e) (e_payload e) (Some md))
                   | None => None
                   end
               end)
            else Some e                                         (* unknown member: ignored *)
        end
    end.
  Definition jdec_env (b : list N) : option envelope :=
    match unframe b with
    | None => None
    | Some ms => fold_left dec_member ms (Some (Env [] [] None None))
    end.
End Decode.

(** valid input for the closed round trip: valid-UTF-8 strings, bytes < 256, no duplicate keys *)
Definition envelope_ok (e : envelope) : Prop :=
  envelope_utf8 e = true /\ bytes_ok (pl_bytes (e_payload e)) /\ md_wf (md_entries (e_meta e)).

(** the one assumption left about encoding/json for the envelope: its scanner splits the text of
    the (at most two) objects the encoder wrote for [e] — the envelope and its metadata — back
    into the member texts they were built from.  (Object framing: braces, commas, colons, no
    whitespace; member order as written.) *)
Definition framing_ok (unframe : list N -> option (list (list N * list N))) (e : envelope) : Prop :=
  unframe (frame_obj (env_members e)) = Some (env_members e)
  /\ forall l, e_meta e = Some l -> unframe (frame_obj (meta_members l)) = Some (meta_members l).
