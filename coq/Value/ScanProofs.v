(** C16, round "proofs 2" — the scanner splits every object the envelope encoder writes back into
    the member texts it was built from: [unframe_std (frame_obj ms) = Some ms]. *)
From WM Require Import Base.Prelude Message.Model Value.Model Value.Codec Value.Json Value.Scan
  Value.EqualsProofs Value.CodecProofs Value.JsonProofs.
Local Open Scope N_scope.

(** * string literals *)
Lemma scan_body_neutral : forall body esc rest, neutral esc body = true ->
  scan_str_body esc (body ++ 34 :: rest) = (if esc then None else Some (body ++ [34], rest))
  \/ esc = true /\ body <> [] /\ scan_str_body esc (body ++ 34 :: rest) = Some (body ++ [34], rest)
  \/ esc = false /\ scan_str_body esc (body ++ 34 :: rest) = Some (body ++ [34], rest).
Proof. Abort.

Lemma scan_body_ok : forall body esc rest, neutral esc body = true ->
  scan_str_body esc (body ++ 34 :: rest) = Some (body ++ [34], rest).
Proof.
  induction body as [|c body IH]; intros esc rest H; simpl in H.
  - destruct esc; [discriminate|]. reflexivity.
  - cbn [app scan_str_body]. destruct esc.
    + now rewrite (IH false rest H).
    + apply andb_true_iff in H as [H H3]. apply andb_true_iff in H as [H1 H2].
      apply negb_true_iff in H1, H2. rewrite H1, H2. now rewrite (IH _ rest H3).
Qed.

Lemma scan_string_ok t rest : str_text t -> scan_string (t ++ rest) = Some (t, rest).
Proof.
  intros (body & -> & Hn). cbn [app scan_string N.eqb Pos.eqb]. rewrite <- app_assoc. cbn [app].
  now rewrite (scan_body_ok body false rest Hn).
Qed.

Lemma skip_ws_head c r : is_ws c = false -> skip_ws (c :: r) = c :: r.
Proof. intros H. simpl. now rewrite H. Qed.
Lemma str_text_head t : str_text t -> exists r, t = 34 :: r.
Proof. intros (body & -> & _). eauto. Qed.
Lemma skip_ws_str t rest : str_text t -> skip_ws (t ++ rest) = t ++ rest.
Proof. intros H. destruct (str_text_head t H) as [r ->]. reflexivity. Qed.

(** * values *)
Lemma value_flat_ok v rest : flat_text v -> value_flat (skip_ws (v ++ rest)) = Some (v, rest).
Proof.
  intros [H| ->].
  - rewrite skip_ws_str by assumption. unfold value_flat. now rewrite scan_string_ok.
  - reflexivity.
Qed.

(** * members *)
Definition sv_ok (sv : list N -> option (list N * list N)) (P : list N -> Prop) : Prop :=
  forall v rest, P v -> sv (skip_ws (v ++ rest)) = Some (v, rest).

Lemma members_text_cons k v m ms :
  members_text ((k, v) :: m :: ms) = k ++ 58 :: v ++ 44 :: members_text (m :: ms).
Proof. destruct m. reflexivity. Qed.

Lemma scan_members_ok sv P : sv_ok sv P -> forall ms fuel rest,
  ms <> [] -> Forall (fun kv => str_text (fst kv) /\ P (snd kv)) ms -> (length ms <= fuel)%nat ->
  scan_members sv fuel (members_text ms ++ 125 :: rest) = Some (ms, rest).
Proof.
  intros Hsv. induction ms as [|[k v] ms IH]; intros fuel rest Hne Hall Hf; [congruence|].
  inversion Hall as [|? ? [Hk Hv] Hall']; subst. cbn [fst snd] in *.
  destruct fuel as [|f]. { simpl in Hf. exfalso. exact (Nat.nle_succ_0 _ Hf). } cbn [scan_members].
  destruct ms as [|m ms'].
  - cbn [members_text]. rewrite <- app_assoc. cbn [app].
    rewrite skip_ws_str, scan_string_ok by assumption.
    rewrite skip_ws_head by reflexivity. cbn [N.eqb Pos.eqb].
    change (v ++ 125 :: rest) with (v ++ (125 :: rest)). rewrite (Hsv v (125 :: rest) Hv).
    rewrite skip_ws_head by reflexivity. reflexivity.
  - rewrite members_text_cons. rewrite <- app_assoc. cbn [app]. rewrite <- app_assoc. cbn [app].
    rewrite skip_ws_str, scan_string_ok by assumption.
    rewrite skip_ws_head by reflexivity. cbn [N.eqb Pos.eqb].
    rewrite (Hsv v _ Hv). rewrite skip_ws_head by reflexivity. cbn [N.eqb Pos.eqb].
    rewrite IH; [reflexivity | discriminate | assumption | simpl in *; lia].
Qed.

Lemma members_text_length ms : (length ms <= length (members_text ms))%nat.
Proof.
  induction ms as [|[k v] ms IH]; [simpl; lia|].
  destruct ms as [|m ms'].
  - simpl. rewrite app_length. simpl. lia.
  - rewrite members_text_cons. rewrite !app_length. cbn [length]. rewrite app_length. cbn [length].
    remember (length (members_text (m :: ms'))) as L. cbn [length] in IH. lia.
Qed.
Lemma members_text_head ms : ms <> [] -> Forall (fun kv => str_text (fst kv)) ms ->
  exists r, members_text ms = 34 :: r.
Proof.
  intros Hne Hall. destruct ms as [|[k v] ms]; [congruence|]. inversion Hall as [|? ? Hk _]; subst.
  destruct (str_text_head k Hk) as [r ->]. destruct ms as [|m ms'].
  - simpl. eauto.
  - rewrite members_text_cons. simpl. eauto.
Qed.

Lemma scan_object_ok sv P : sv_ok sv P -> forall ms rest,
  Forall (fun kv => str_text (fst kv) /\ P (snd kv)) ms ->
  scan_object sv (frame_obj ms ++ rest) = Some (ms, rest).
Proof.
  intros Hsv ms rest Hall. unfold frame_obj, scan_object. cbn [app N.eqb Pos.eqb].
  destruct ms as [|m ms'] eqn:Ems.
  - reflexivity.
  - rewrite <- Ems in *. assert (Hne : ms <> []) by (rewrite Ems; discriminate).
    assert (Hk : Forall (fun kv => str_text (fst kv)) ms).
    { eapply Forall_impl; [|exact Hall]. simpl. tauto. }
    destruct (members_text_head ms Hne Hk) as [r Hr].
    set (X := (members_text ms ++ [125]) ++ rest).
    assert (HX : X = 34 :: (r ++ [125] ++ rest)).
    { unfold X. rewrite Hr. rewrite <- app_assoc. reflexivity. }
    assert (Hs : skip_ws X = X) by (rewrite HX; reflexivity).
    rewrite Hs. rewrite HX at 1. cbn [N.eqb Pos.eqb].
    unfold X. rewrite <- app_assoc. cbn [app]. apply (scan_members_ok sv P Hsv); auto.
    rewrite app_length. pose proof (members_text_length ms). lia.
Qed.

Lemma frame_obj_head ms : exists r, frame_obj ms = 123 :: r.
Proof. unfold frame_obj. eauto. Qed.

Lemma value_flat_brace X : value_flat (123 :: X) = None.
Proof. unfold value_flat. cbn [scan_string N.eqb Pos.eqb]. destruct X as [|b [|c [|d r]]]; reflexivity. Qed.

Lemma value_top_ok v rest : top_text v -> value_top (skip_ws (v ++ rest)) = Some (v, rest).
Proof.
  intros [H|(ms & -> & Hms)].
  - unfold value_top. now rewrite value_flat_ok.
  - destruct (frame_obj_head ms) as [r Hr]. rewrite Hr. cbn [app]. rewrite skip_ws_head by reflexivity.
    change (123 :: r ++ rest) with ((123 :: r) ++ rest). rewrite <- Hr.
    unfold value_top.
    assert (value_flat (frame_obj ms ++ rest) = None) as -> by (rewrite Hr; apply value_flat_brace).
    rewrite (scan_object_ok value_flat flat_text value_flat_ok ms rest Hms).
    rewrite app_length, Nat.add_sub, firstn_app, Nat.sub_diag, firstn_all. simpl. now rewrite app_nil_r.
Qed.

(** ** the framing law *)
Theorem unframe_frame ms : top_members ms -> unframe_std (frame_obj ms) = Some ms.
Proof.
  intros H. unfold unframe_std. destruct (frame_obj_head ms) as [r Hr].
  assert (skip_ws (frame_obj ms) = frame_obj ms) as -> by (rewrite Hr; reflexivity).
  rewrite <- (app_nil_r (frame_obj ms)).
  rewrite (scan_object_ok value_top top_text value_top_ok ms [] H). reflexivity.
Qed.
