(** C16, round "proofs 2" — the scanner splits every object the envelope encoder writes back into
    the member texts it was built from: [unframe_std (frame_obj ms) = Some ms]. *)
From WM Require Import Base.Prelude Message.Model Value.Model Value.Codec Value.Json Value.Scan
  Value.EqualsProofs Value.CodecProofs Value.JsonProofs.
Local Open Scope N_scope.

(** * string literals *)
Lemma scan_body_neutral : forall body esc rest, neutral esc body = true ->
  scan_str_body esc (body ++ 34 :: rest) = (if esc then None else Some (body ++ [34], rest))
  \/ esc = true /\ body <> [] /\ scan_str_body esc (body ++ 34 :: rest) = Some (body ++ [34], rest)
  \/ esc = false /\ scan_str_body esc (body ++ 34 :: rest) = Some (body ++ [34], rest).
Proof. Abort.

Lemma scan_body_ok : forall body esc rest, neutral esc body = true ->
  scan_str_body esc (body ++ 34 :: rest) = Some (body ++ [34], rest).
Proof.
  induction body as [|c body IH]; intros esc rest H; simpl in H.
  - destruct esc; [discriminate|]. reflexivity.
  - cbn [app scan_str_body]. destruct esc.
    + now rewrite (IH false rest H).
    + apply andb_true_iff in H as [H H3]. apply andb_true_iff in H as [H1 H2].
      apply negb_true_iff in H1, H2. rewrite H1, H2. now rewrite (IH _ rest H3).
Qed.

Lemma scan_string_ok t rest : str_text t -> scan_string (t ++ rest) = Some (t, rest).
Proof.
  intros (body & -> & Hn). cbn [app scan_string N.eqb Pos.eqb]. rewrite <- app_assoc. cbn [app].
  now rewrite (scan_body_ok body false rest Hn).
Qed.

Lemma skip_ws_head c r : is_ws c = false -> skip_ws (c :: r) = c :: r.
Proof. intros H. simpl. now rewrite H. Qed.
Lemma str_text_head t : str_text t -> exists r, t = 34 :: r.
Proof. intros (body & -> & _). eauto. Qed.
Lemma skip_ws_str t rest : str_text t -> skip_ws (t ++ rest) = t ++ rest.
Proof. intros H. destruct (str_text_head t H) as [r ->]. reflexivity. Qed.

(** * values *)
Lemma value_flat_ok v rest : flat_text v -> value_flat (skip_ws (v ++ rest)) = Some (v, rest).
Proof.
  intros [H| ->].
  - rewrite skip_ws_str by assumption. unfold value_flat. now rewrite scan_string_ok.
  - reflexivity.
Qed.

(** * members *)
Definition sv_ok (sv : list N -> option (list N * list N)) (P : list N -> Prop) : Prop :=
  forall v rest, P v -> sv (skip_ws (v ++ rest)) = Some (v, rest).

Lemma members_text_cons k v m ms :
  members_text ((k, v) :: m :: ms) = k ++ 58 :: v ++ 44 :: members_text (m :: ms).
Proof. destruct m. reflexivity. Qed.

Lemma scan_members_ok sv P : sv_ok sv P -> forall ms fuel rest,
  ms <> [] -> Forall (fun kv => str_text (fst kv) /\ P (snd kv)) ms -> (length ms <= fuel)%nat ->
  scan_members sv fuel (members_text ms ++ 125 :: rest) = Some (ms, rest).
Proof.
  intros Hsv. induction ms as [|[k v] ms IH]; intros fuel rest Hne Hall Hf; [congruence|].
  inversion Hall as [|? ? [Hk Hv] Hall']; subst. cbn [fst snd] in *.
  destruct fuel as [|f]. { simpl in Hf. exfalso. exact (Nat.nle_succ_0 _ Hf). } cbn [scan_members].
  destruct ms as [|m ms'].
  - cbn [members_text]. rewrite <- app_assoc. cbn [app].
    rewrite skip_ws_str, scan_string_ok by assumption.
    rewrite skip_ws_head by reflexivity. cbn [N.eqb Pos.eqb].
    change (v ++ 125 :: rest) with (v ++ (125 :: rest)). rewrite (Hsv v (125 :: rest) Hv).
    rewrite skip_ws_head by reflexivity. reflexivity.
  - rewrite members_text_cons. rewrite <- app_assoc. cbn [app]. rewrite <- app_assoc. cbn [app].
    rewrite skip_ws_str, scan_string_ok by assumption.
    rewrite skip_ws_head by reflexivity. cbn [N.eqb Pos.eqb].
    rewrite (Hsv v _ Hv). rewrite skip_ws_head by reflexivity. cbn [N.eqb Pos.eqb].
    rewrite IH; [reflexivity | discriminate | assumption | simpl in *; lia].
Qed.

Lemma members_text_length ms : (length ms <= length (members_text ms))%nat.
Proof.
  induction ms as [|[k v] ms IH]; [simpl; lia|].
  destruct ms as [|m ms'].
  - simpl. rewrite app_length. simpl. lia.
  - rewrite members_text_cons. rewrite !app_length. cbn [length]. rewrite app_length. cbn [length].
    remember (length (members_text (m :: ms'))) as L. cbn [length] in IH. lia.
Qed.
Lemma members_text_head ms : ms <> [] -> Forall (fun kv => str_text (fst kv)) ms ->
  exists r, members_text ms = 34 :: r.
Proof.
  intros Hne Hall. destruct ms as [|[k v] ms]; [congruence|]. inversion Hall as [|? ? Hk _]; subst.
  destruct (str_text_head k Hk) as [r ->]. destruct ms as [|m ms'].
  - simpl. eauto.
  - rewrite members_text_cons. simpl. eauto.
Qed.

Lemma scan_object_ok sv P : sv_ok sv P -> forall ms rest,
  Forall (fun kv => str_text (fst kv) /\ P (snd kv)) ms ->
  scan_object sv (frame_obj ms ++ rest) = Some (ms, rest).
Proof.
  intros Hsv ms rest Hall. unfold frame_obj, scan_object. cbn [app N.eqb Pos.eqb].
  destruct ms as [|m ms'] eqn:Ems.
  - reflexivity.
  - rewrite <- Ems in *. assert (Hne : ms <> []) by (rewrite Ems; discriminate).
    assert (Hk : Forall (fun kv => str_text (fst kv)) ms).
    { eapply Forall_impl; [|exact Hall]. simpl. tauto. }
    destruct (members_text_head ms Hne Hk) as [r Hr].
    set (X := (members_text ms ++ [125]) ++ rest).
    assert (HX : X = 34 :: (r ++ [125] ++ rest)).
    { unfold X. rewrite Hr. rewrite <- app_assoc. reflexivity. }
    assert (Hs : skip_ws X = X) by (rewrite HX; reflexivity).
    rewrite Hs. rewrite HX at 1. cbn [N.eqb Pos.eqb].
    unfold X. rewrite <- app_assoc. cbn [app]. apply (scan_members_ok sv P Hsv); auto.
    rewrite app_length. pose proof (members_text_length ms). lia.
Qed.

Lemma frame_obj_head ms : exists r, frame_obj ms = 123 :: r.
Proof. unfold frame_obj. eauto. Qed.

Lemma value_flat_brace X : value_flat (123 :: X) = None.
Proof. unfold value_flat. cbn [scan_string N.eqb Pos.eqb]. destruct X as [|b [|c [|d r]]]; reflexivity. Qed.

Lemma value_top_ok v rest : top_text v -> value_top (skip_ws (v ++ rest)) = Some (v, rest).
Proof.
  intros [H|(ms & -> & Hms)].
  - unfold value_top. now rewrite value_flat_ok.
  - destruct (frame_obj_head ms) as [r Hr]. rewrite Hr. cbn [app]. rewrite skip_ws_head by reflexivity.
    change (123 :: r ++ rest) with ((123 :: r) ++ rest). rewrite <- Hr.
    unfold value_top.
    assert (value_flat (frame_obj ms ++ rest) = None) as -> by (rewrite Hr; apply value_flat_brace).
    rewrite (scan_object_ok value_flat flat_text value_flat_ok ms rest Hms).
    rewrite app_length, Nat.add_sub, firstn_app, Nat.sub_diag, firstn_all. simpl. now rewrite app_nil_r.
Qed.

(** ** the framing law *)
Theorem unframe_frame ms : top_members ms -> unframe_std (frame_obj ms) = Some ms.
Proof.
  intros H. unfold unframe_std. destruct (frame_obj_head ms) as [r Hr].
  assert (skip_ws (frame_obj ms) = frame_obj ms) as -> by (rewrite Hr; reflexivity).
  rewrite <- (app_nil_r (frame_obj ms)).
  rewrite (scan_object_ok value_top top_text value_top_ok ms [] H). reflexivity.
Qed.

(** * what the encoder writes is such text *)
Lemma neutral_app a : forall b, neutral false a = true -> neutral false (a ++ b) = neutral false b.
Proof.
  assert (G : forall a esc b, neutral esc a = true -> neutral esc (a ++ b) = neutral false b).
  { induction a0 as [|c a0 IH]; intros esc b H; simpl in H.
    - destruct esc; [discriminate | reflexivity].
    - cbn [app neutral]. destruct esc; [now apply IH|].
      apply andb_true_iff in H as [H H3]. rewrite H. now apply IH. }
  intros b H. now apply G.
Qed.

Lemma neutral_high l : Forall (fun b => 128 <= b) l -> neutral false l = true.
Proof.
  induction 1 as [|c l Hc _ IH]; [reflexivity|]. cbn [neutral].
  assert (N.eqb c 34 = false) as -> by (apply N.eqb_neq; lia).
  assert (N.ltb c 32 = false) as -> by (apply N.ltb_ge; lia).
  assert (N.eqb c 92 = false) as -> by (apply N.eqb_neq; lia). exact IH.
Qed.

Lemma neutral_esc_ascii b : b < 128 -> neutral false (esc_ascii b) = true.
Proof.
  intros H. destruct b as [|p]; [reflexivity|].
  do 7 (try destruct p as [p|p|]); try (exfalso; lia); vm_compute; reflexivity.
Qed.

Ltac bool_facts :=
  repeat match goal with
         | H : _ && _ = true |- _ => apply andb_true_iff in H; destruct H
         | H : _ || _ = true |- _ => apply orb_true_iff in H; destruct H
         | H : in_range _ _ _ = true |- _ => unfold in_range in H
         | H : cont _ = true |- _ => unfold cont, in_range in H
         | H : N.leb _ _ = true |- _ => apply N.leb_le in H
         | H : N.eqb _ _ = true |- _ => apply N.eqb_eq in H
         | H : N.ltb _ _ = false |- _ => apply N.ltb_ge in H
         end.

(** a multi-byte sequence consists of bytes >= 128 *)
Lemma rune_bytes_high s n : rune_len s = S n ->
  match s with b0 :: _ => N.ltb b0 128 = false | [] => False end ->
  Forall (fun b => 128 <= b) (firstn (S n) s).
Proof.
  destruct s as [|b0 [|b1 [|b2 [|b3 r]]]]; cbn [rune_len]; intros H Hb; try contradiction;
    rewrite Hb in H; split_ifs; try discriminate; injection H as <-; cbn [firstn];
    bool_facts; repeat (constructor; [lia|]); constructor.
Qed.

Lemma neutral_esc_step s : neutral false (fst (esc_step s)) = true.
Proof.
  destruct s as [|b r]; [reflexivity|]. unfold esc_step.
  destruct (N.ltb b 128) eqn:E; [apply neutral_esc_ascii; now apply N.ltb_lt|].
  destruct (rune_len (b :: r)) as [|n] eqn:Hn; [reflexivity|].
  destruct (list_eqb N.eqb (firstn (S n) (b :: r)) [226; 128; 168]); [reflexivity|].
  destruct (list_eqb N.eqb (firstn (S n) (b :: r)) [226; 128; 169]); [reflexivity|].
  cbn [fst]. apply neutral_high. apply rune_bytes_high; auto.
Qed.

Lemma neutral_escape s : neutral false (escape s) = true.
Proof.
  unfold escape. generalize 0%nat as k. induction s as [|b r IH]; intros k; [reflexivity|].
  cbn [walk]. destruct k as [|k]; [|apply IH].
  pose proof (neutral_esc_step (b :: r)) as Hs. destruct (esc_step (b :: r)) as [out n]. cbn [fst] in Hs.
  rewrite neutral_app by assumption. apply IH.
Qed.

Lemma enc_str_text s : str_text (enc_str s).
Proof. exists (escape s). split; [reflexivity | apply neutral_escape]. Qed.

Lemma neutral_b64 l : Forall b64_out l -> neutral false l = true.
Proof.
  induction 1 as [|c l Hc _ IH]; [reflexivity|]. cbn [neutral]. unfold b64_out in Hc.
  assert (N.eqb c 34 = false) as -> by (apply N.eqb_neq; lia).
  assert (N.ltb c 32 = false) as -> by (apply N.ltb_ge; lia).
  assert (N.eqb c 92 = false) as -> by (apply N.eqb_neq; lia). exact IH.
Qed.
Lemma enc_bytes_text p : bytes_ok (pl_bytes p) -> flat_text (enc_bytes p).
Proof.
  intros H. destruct p as [b|]; [|now right]. left. exists (b64enc b). split; [reflexivity|].
  apply neutral_b64. now apply b64enc_chars.
Qed.
Lemma meta_members_flat l : flat_members (meta_members l).
Proof.
  unfold flat_members, meta_members. apply Forall_forall. intros kv Hin.
  apply in_map_iff in Hin as (x & <- & _). cbn [fst snd]. split; [apply enc_str_text | left; apply enc_str_text].
Qed.
Lemma enc_meta_text m : top_text (enc_meta m).
Proof.
  destruct m as [l|]; [|left; now right]. right. exists (meta_members l). split; [reflexivity | apply meta_members_flat].
Qed.
Lemma key_texts : str_text k_dest /\ str_text k_uuid /\ str_text k_payload /\ str_text k_metadata.
Proof.
  repeat split; [exists n_dest | exists n_uuid | exists n_payload | exists n_metadata]; split; reflexivity.
Qed.

Lemma env_members_top e : bytes_ok (pl_bytes (e_payload e)) -> top_members (env_members e).
Proof.
  intros Hb. destruct key_texts as (K1 & K2 & K3 & K4). unfold top_members, env_members.
  constructor; [split; [exact K1 | left; left; apply enc_str_text]|].
  constructor; [split; [exact K2 | left; left; apply enc_str_text]|].
  constructor; [split; [exact K3 | left; now apply enc_bytes_text]|].
  constructor; [split; [exact K4 | apply enc_meta_text]|]. constructor.
Qed.

(** ** [framing_ok] is no longer an assumption *)
Theorem framing_std e : bytes_ok (pl_bytes (e_payload e)) -> framing_ok unframe_std e.
Proof.
  intros Hb. split.
  - apply unframe_frame. now apply env_members_top.
  - intros l _. apply unframe_frame. unfold top_members.
    eapply Forall_impl; [|apply (meta_members_flat l)]. intros kv [H1 H2]. split; auto. now left.
Qed.

(** * the envelope round trips, closed: no hypothesis about encoding/json is left *)
Theorem envelope_roundtrip_closed nu dest m w : envelope_ok (env_of dest m) ->
  wrap jenc_env nu dest m = Ok w -> unwrap (jdec_env unframe_std) w = Ok (dest, m).
Proof.
  intros Hok. apply (envelope_roundtrip_json unframe_std nu); auto. apply framing_std. apply Hok.
Qed.

Theorem publisher_roundtrip_closed nu cfg inner_ok dest ms ft ws :
  (forall m, In m ms -> envelope_ok (env_of dest m)) ->
  fwd_publish jenc_env nu cfg inner_ok dest ms = Ok (ft, ws) ->
  ft = (if str_eqb cfg [] then default_forwarder_topic else cfg)
  /\ map (unwrap (jdec_env unframe_std)) ws = map (fun m => Ok (dest, m)) ms.
Proof.
  intros H. apply (publisher_roundtrip_json unframe_std nu). intros m Hin. split; [now apply H|].
  apply framing_std. apply (H m Hin).
Qed.

(** for every destination and every message made of valid UTF-8 / bytes: wrap succeeds and unwrap
    gives the destination and the message back *)
Corollary envelope_identity nu dest m : dest <> [] -> envelope_ok (env_of dest m) ->
  exists w, wrap jenc_env nu dest m = Ok w /\ unwrap (jdec_env unframe_std) w = Ok (dest, m).
Proof.
  intros Hd Hok. eexists. split; [now apply wrap_json_total|].
  apply (envelope_roundtrip_closed nu); auto. now apply wrap_json_total.
Qed.
