(** Time-lock freedom of the timely system (Dedup/Timed.v): from every reachable state there is
    a schedule, accepted label by label, that carries the clock past any bound — the urgency
    assumptions never paint the system into a corner.  Together with
    [TimedProofs.expired_key_reaccepted_timely] this is the closed-system liveness. *)
From WM Require Import Base.Prelude Dedup.Model Dedup.MonProofs Dedup.Proofs Dedup.Timed Dedup.TimedProofs.
Local Open Scope Z_scope.

(** * the converse owner invariant: the owner of the mutex is between Lock and Unlock *)

Definition OwnerInv (s : state) : Prop := forall t, owner s = Some t -> holds (thr s t) = true.

Lemma step_owner w s l s' : step w s l = Some s' -> OwnerInv s -> OwnerInv s'.
Proof.
  intros H Ho t' Hown. destruct l as [x|t|c T]; simpl in H.
  - inversion H; subst; simpl in *. now apply Ho.
  - destruct (thr s t) as [todo pc res|pc] eqn:Et.
    + destruct pc as [|m k|m k dup|m k].
      * destruct todo as [|[m k] rest]; [discriminate|]. destruct (owner s); [discriminate|].
        inversion H; subst; clear H; simpl in *. inversion Hown; subst. now rewrite upd_same.
      * inversion H; subst; clear H; simpl in *. updt t t'; [reflexivity|now apply Ho].
      * destruct dup; inversion H; subst; clear H; simpl in *; [discriminate|].
        updt t t'; [reflexivity|now apply Ho].
      * inversion H; subst; clear H; simpl in *. discriminate.
    + destruct pc as [|T|T|T]; [discriminate| | |].
      * destruct (owner s); [discriminate|].
        inversion H; subst; clear H; simpl in *. inversion Hown; subst. now rewrite upd_same.
      * inversion H; subst; clear H; simpl in *. updt t t'; [reflexivity|now apply Ho].
      * inversion H; subst; clear H; simpl in *. discriminate.
  - destruct (thr s c) as [|pc] eqn:Ec; [discriminate|]. destruct pc; try discriminate.
    destruct (T <=? clock s); [|discriminate]. inversion H; subst; clear H. unfold set_thr in *. simpl in *.
    specialize (Ho t' Hown). updt c t'; [|exact Ho]. rewrite Ec in Ho. discriminate.
Qed.

Lemma init_owner t0 roles : OwnerInv (init t0 roles).
Proof. intros t H. discriminate. Qed.

(** * good states of the timely system *)

Section Timelock.
  Variables (w p d : Z) (c : tid) (t0 : Z).
  Hypothesis Hw : 0 <= w.
  Hypothesis Hd : 0 <= d <= p.

  Definition Good (ts : tstate) : Prop :=
    Inv w t0 (base ts) /\ TInv w p d c t0 ts /\ OwnerInv (base ts).

  Lemma tstep_good ts l ts' : Good ts -> tstep w p d c ts l = Some ts' -> Good ts'.
  Proof.
    intros (HI & HT & HO) E. pose proof (tstep_step _ _ _ _ _ _ _ E) as Es. split; [|split].
    - eapply step_inv; eauto.
    - eapply (tstep_inv w p d c t0 Hw Hd); eauto.
    - eapply step_owner; eauto.
  Qed.

  Lemma treplay_good : forall sched ts ts', Good ts -> treplay w p d c ts sched = Some ts' -> Good ts'.
  Proof.
    induction sched as [|l sched IH]; simpl; intros ts ts' HG H; [inversion H; subst; exact HG|].
    destruct (tstep w p d c ts l) as [ts1|] eqn:E; [|discriminate].
    eapply IH; [|exact H]. eapply tstep_good; eauto.
  Qed.

  Lemma trun_good : forall sched ts, Good ts -> Good (trun w p d c ts sched).
  Proof.
    induction sched as [|l sched IH]; simpl; intros ts HG; [exact HG|].
    destruct (tstep w p d c ts l) as [ts1|] eqn:E; [|now apply IH]. apply IH. eapply tstep_good; eauto.
  Qed.

  Lemma tinit_good roles : roles c = RCleaner -> Good (tinit t0 roles).
  Proof. intros Hc. split; [|split]; [apply init_inv|now apply tinit_inv|apply init_owner]. Qed.

  Lemma treplay_app a : forall b ts,
    treplay w p d c ts (a ++ b) =
    match treplay w p d c ts a with Some ts' => treplay w p d c ts' b | None => None end.
  Proof.
    induction a as [|l a IH]; intros b ts; simpl; [reflexivity|].
    destruct (tstep w p d c ts l); [apply IH|reflexivity].
  Qed.

  (** thread steps are never refused by the timely system and do not touch the ticker *)
  Lemma lift_thr : forall sched ts s',
    Forall (fun l => exists t, l = LThr t) sched ->
    replay w (base ts) sched = Some s' ->
    exists ts', treplay w p d c ts sched = Some ts' /\ base ts' = s' /\ last_tick ts' = last_tick ts.
  Proof.
    induction sched as [|l sched IH]; simpl; intros ts s' Hf H.
    - inversion H; subst. eauto.
    - inversion Hf as [|? ? [t ->] Hf']; subst.
      destruct (step w (base ts) (LThr t)) as [s1|] eqn:Es; [|discriminate].
      unfold tstep. rewrite Es.
      match goal with |- context [treplay w p d c ?X sched] => destruct (IH X s' Hf' H) as (ts' & E1 & E2 & E3) end.
      exists ts'. repeat split; assumption.
  Qed.

  Lemma Forall_repeat_thr t n : Forall (fun l => exists t', l = LThr t') (repeat (LThr t) n).
  Proof. induction n; simpl; constructor; eauto. Qed.

  (** the holder releases the mutex (in at most three of its own steps), nobody else moves,
      and a cleaner ends up waiting for its next tick *)
  Ltac fin_release :=
    split; [reflexivity|]; split; [reflexivity|]; split; [reflexivity|]; split;
    [ intros t' Hne; simpl; now rewrite ?upd_other by assumption
    | intros pc Hpc; try discriminate; simpl; try apply upd_same ].

  Lemma holder_releases' s t :
    holds (thr s t) = true ->
    exists n s', replay w s (repeat (LThr t) n) = Some s' /\ owner s' = None /\ clock s' = clock s
                 /\ (forall t', t' <> t -> thr s' t' = thr s t')
                 /\ (forall pc, thr s t = TCleaner pc -> thr s' t = TCleaner CWait).
  Proof.
    intros H. destruct (thr s t) as [todo pc res|pc] eqn:Et; destruct pc as [|a b|a b dup|a b]; try discriminate.
    - destruct (alookup b (tags s)) as [e|] eqn:El.
      + exists 2%nat. eexists. simpl. rewrite Et. simpl. rewrite El. simpl. rewrite upd_same. simpl. fin_release.
      + exists 3%nat. eexists. simpl. rewrite Et. simpl. rewrite El. simpl. rewrite upd_same. simpl.
        rewrite upd_same. simpl. fin_release.
    - destruct dup.
      + exists 1%nat. eexists. simpl. rewrite Et. simpl. fin_release.
      + exists 2%nat. eexists. simpl. rewrite Et. simpl. rewrite upd_same. simpl. fin_release.
    - exists 1%nat. eexists. simpl. rewrite Et. simpl. fin_release.
    - exists 2%nat. eexists. simpl. rewrite Et. simpl. rewrite upd_same. simpl. fin_release.
    - exists 1%nat. eexists. simpl. rewrite Et. simpl. fin_release.
  Qed.

  (** ** from every good state, in zero time, the cleaner can be brought to wait for its tick *)
  Lemma reach_ready ts : Good ts ->
    exists sched ts', treplay w p d c ts sched = Some ts'
                      /\ thr (base ts') c = TCleaner CWait /\ last_tick ts' = last_tick ts.
  Proof.
    intros HG. pose proof HG as (HI & HT & HO).
    destruct (thr (base ts) c) as [todo pc res|pc] eqn:Ec.
    - destruct HT as [_ _ _ Hpc _]. rewrite Ec in Hpc. contradiction.
    - destruct pc as [|T|T|T].
      + exists [], ts. simpl. auto.
      + (* has its tick: free the mutex (the holder is somebody else), then run the cycle *)
        assert (Hfree : exists sched1 ts1, treplay w p d c ts sched1 = Some ts1 /\ owner (base ts1) = None
                                           /\ thr (base ts1) c = TCleaner (CTicked T) /\ last_tick ts1 = last_tick ts).
        { destruct (owner (base ts)) as [t|] eqn:Eo.
          - assert (Hh : holds (thr (base ts) t) = true) by now apply HO.
            assert (Hne : c <> t). { intros ->. rewrite Ec in Hh. discriminate. }
            destruct (holder_releases' _ _ Hh) as (n & s' & Hr & Hown & _ & Hoth & _).
            destruct (lift_thr _ ts s' (Forall_repeat_thr t n) Hr) as (ts1 & E1 & E2 & E3).
            exists (repeat (LThr t) n), ts1. subst s'. repeat split; try assumption.
            rewrite Hoth by assumption. exact Ec.
          - exists [], ts. simpl. auto. }
        destruct Hfree as (sched1 & ts1 & R1 & Hown & Hc1 & Hl1).
        destruct (cleaner_cycle_possible w _ _ _ Hc1 Hown) as (s' & Hr & Hcw & _).
        assert (Hf : Forall (fun l => exists t', l = LThr t') [LThr c; LThr c; LThr c]) by (repeat constructor; eauto).
        destruct (lift_thr _ ts1 s' Hf Hr) as (ts2 & E1 & E2 & E3).
        exists (sched1 ++ [LThr c; LThr c; LThr c]), ts2. rewrite treplay_app, R1. subst s'.
        repeat split; try assumption. congruence.
      + (* holds the mutex itself *)
        assert (Hh : holds (thr (base ts) c) = true) by now rewrite Ec.
        destruct (holder_releases' _ _ Hh) as (n & s' & Hr & _ & _ & _ & Hcw).
        destruct (lift_thr _ ts s' (Forall_repeat_thr c n) Hr) as (ts1 & E1 & E2 & E3).
        exists (repeat (LThr c) n), ts1. subst s'. repeat split; try assumption. eapply Hcw; eauto.
      + assert (Hh : holds (thr (base ts) c) = true) by now rewrite Ec.
        destruct (holder_releases' _ _ Hh) as (n & s' & Hr & _ & _ & _ & Hcw).
        destruct (lift_thr _ ts s' (Forall_repeat_thr c n) Hr) as (ts1 & E1 & E2 & E3).
        exists (repeat (LThr c) n), ts1. subst s'. repeat split; try assumption. eapply Hcw; eauto.
  Qed.

  (** ** one period: let the clock reach the next fire time, receive the tick, finish the cycle *)
  Lemma one_period ts : Good ts -> thr (base ts) c = TCleaner CWait ->
    exists sched ts', treplay w p d c ts sched = Some ts'
                      /\ thr (base ts') c = TCleaner CWait /\ last_tick ts' = last_tick ts + p.
  Proof.
    intros HG Hc. pose proof HG as (HI & HT & HO).
    pose proof (ti_pc _ _ _ _ _ _ HT) as Hpc. rewrite Hc in Hpc. destruct Hpc as [_ Hclk].
    set (T := last_tick ts + p).
    (* time passes up to the fire time *)
    assert (E1 : tstep w p d c ts (LAdv T) = Some (TS (ST (tags (base ts)) (owner (base ts)) (Z.max (clock (base ts)) T) (thr (base ts)) (trace (base ts))) (last_tick ts) (swept_to ts))).
    { unfold tstep, deadline. rewrite Hc.
      assert (Hle : (Z.max (clock (base ts)) T <=? last_tick ts + p + d) = true) by (apply Z.leb_le; unfold T; lia).
      rewrite Hle. reflexivity. }
    set (ts1 := TS (ST (tags (base ts)) (owner (base ts)) (Z.max (clock (base ts)) T) (thr (base ts)) (trace (base ts))) (last_tick ts) (swept_to ts)) in *.
    (* the tick is received *)
    assert (E2 : tstep w p d c ts1 (LTick c T) = Some (TS (set_thr (base ts1) c (TCleaner (CTicked T))) T (swept_to ts))).
    { unfold tstep. rewrite Nat.eqb_refl. unfold ts1 at 1. cbn [last_tick].
      assert (Hle : (last_tick ts + p <=? T) = true) by (apply Z.leb_le; unfold T; lia). rewrite Hle.
      unfold step. unfold ts1. cbn [base thr clock]. rewrite Hc.
      assert (Hle2 : (T <=? Z.max (clock (base ts)) T) = true) by (apply Z.leb_le; lia). rewrite Hle2.
      reflexivity. }
    set (ts2 := TS (set_thr (base ts1) c (TCleaner (CTicked T))) T (swept_to ts)) in *.
    assert (HG2 : Good ts2) by (eapply tstep_good; [eapply tstep_good; [exact HG|exact E1]|exact E2]).
    destruct (reach_ready ts2 HG2) as (sched & ts3 & R & Hcw & Hl).
    exists (LAdv T :: LTick c T :: sched), ts3. cbn [treplay]. rewrite E1, E2.
    split; [exact R|]. split; [exact Hcw|]. rewrite Hl. reflexivity.
  Qed.

  Lemma n_periods : forall (n : nat) ts, Good ts -> thr (base ts) c = TCleaner CWait ->
    exists sched ts', treplay w p d c ts sched = Some ts' /\ Good ts'
                      /\ thr (base ts') c = TCleaner CWait /\ last_tick ts' = last_tick ts + Z.of_nat n * p.
  Proof.
    induction n as [|n IH]; intros ts HG Hc.
    - exists [], ts. split; [reflexivity|]. split; [exact HG|]. split; [exact Hc|]. lia.
    - destruct (one_period ts HG Hc) as (s1 & ts1 & R1 & Hc1 & Hl1).
      assert (HG1 : Good ts1) by (eapply treplay_good; eauto).
      destruct (IH ts1 HG1 Hc1) as (s2 & ts2 & R2 & HG2 & Hc2 & Hl2).
      exists (s1 ++ s2), ts2. rewrite treplay_app, R1. split; [exact R2|]. split; [exact HG2|]. split; [exact Hc2|]. lia.
  Qed.

  (** * time-lock freedom *)
  Theorem time_can_advance roles sched X :
    0 < p -> roles c = RCleaner ->
    exists sched' ts', treplay w p d c (trun w p d c (tinit t0 roles) sched) sched' = Some ts'
                       /\ X <= clock (base ts').
  Proof.
    intros Hp Hc. set (ts := trun w p d c (tinit t0 roles) sched).
    assert (HG : Good ts) by (apply trun_good, tinit_good; assumption).
    destruct (reach_ready ts HG) as (s1 & ts1 & R1 & Hc1 & Hl1).
    assert (HG1 : Good ts1) by (eapply treplay_good; eauto).
    destruct (n_periods (Z.to_nat (X - last_tick ts1)) ts1 HG1 Hc1) as (s2 & ts2 & R2 & HG2 & Hc2 & Hl2).
    exists (s1 ++ s2), ts2. rewrite treplay_app. fold ts. rewrite R1. split; [exact R2|].
    destruct HG2 as (_ & HT2 & _). pose proof (ti_lt _ _ _ _ _ _ HT2) as Hlt.
    assert (X - last_tick ts1 <= Z.of_nat (Z.to_nat (X - last_tick ts1))) by lia.
    assert (Z.of_nat (Z.to_nat (X - last_tick ts1)) <= Z.of_nat (Z.to_nat (X - last_tick ts1)) * p) by nia.
    lia.
  Qed.
End Timelock.

(** the owner of the mutex is between Lock and Unlock, in every reachable state *)
Theorem owner_holds w t0 roles sched t :
  owner (run w (init t0 roles) sched) = Some t -> holds (thr (run w (init t0 roles) sched) t) = true.
Proof.
  assert (H : forall sched s, OwnerInv s -> OwnerInv (run w s sched)).
  { induction sched0 as [|l sched0 IH]; intros s Hs; simpl; [exact Hs|].
    destruct (step w s l) eqn:E; [|now apply IH]. apply IH. eapply step_owner; eauto. }
  apply (H sched _ (init_owner t0 roles)).
Qed.

(** * closed-system liveness in one statement: in the timely system time never stops, and
    whenever it has carried a call more than w + p + 3d past the last insertion of its key,
    that call is answered "new" *)
Theorem closed_system_liveness w p d c t0 roles sched :
  0 <= w -> 0 <= d <= p -> 0 < p -> roles c = RCleaner ->
  let ts := trun w p d c (tinit t0 roles) sched in
  (forall X, exists sched' ts', treplay w p d c ts sched' = Some ts' /\ X <= clock (base ts'))
  /\ (forall sched' ts', treplay w p d c ts sched' = Some ts' ->
      forall pre t m k tins mid e rest,
        rev (trace (base ts')) = pre ++ EIns t m k tins :: mid ++ e :: rest ->
        forallb (fun y => negb (inserts k y)) mid = true ->
        calls_key k e = true -> tins + w + p + 3 * d < ev_time e ->
        is_dup e = false).
Proof.
  intros Hw Hd Hp Hc ts. split.
  - intros X. apply time_can_advance; assumption.
  - intros sched' ts' R. 
    assert (E : ts' = trun w p d c (tinit t0 roles) (sched ++ sched')).
    { clear -R. unfold ts in R. revert R. generalize (tinit t0 roles) as u.
      induction sched as [|l sched IH]; intros u R; simpl in *.
      - revert u R. induction sched' as [|l' s' IH']; intros u R; simpl in *; [congruence|].
        destruct (tstep w p d c u l'); [now apply IH'|discriminate].
      - destruct (tstep w p d c u l); now apply IH. }
    rewrite E. intros. eapply expired_key_reaccepted_timely; eauto.
Qed.
