(** Proofs about the timed-set specification ([mon_step]) of Dedup/Model.v: what EVERY accepted
    chronological trace satisfies.  The transition system is shown to produce only accepted
    traces in Dedup/Proofs.v. *)
From WM Require Import Base.Prelude Dedup.Model.
Local Open Scope Z_scope.

(** * association lists *)

Lemma alookup_aremove_same k (m : tagmap) : alookup k (aremove k m) = None.
Proof.
  induction m as [|[k' e] m IH]; simpl; [reflexivity|].
  destruct (N.eqb k' k) eqn:E; simpl; [exact IH|]. now rewrite E.
Qed.

Lemma alookup_aremove_other k k' (m : tagmap) : k' <> k -> alookup k' (aremove k m) = alookup k' m.
Proof.
  intros Hne. induction m as [|[k0 e] m IH]; simpl; [reflexivity|].
  destruct (N.eqb k0 k) eqn:E; simpl.
  - apply N.eqb_eq in E. subst k0. destruct (N.eqb k k') eqn:E'; [apply N.eqb_eq in E'; congruence|exact IH].
  - destruct (N.eqb k0 k'); [reflexivity|exact IH].
Qed.

Lemma alookup_None_notin {A} k (m : list (N * A)) : alookup k m = None -> ~ In k (map fst m).
Proof.
  induction m as [|[k' e] m IH]; simpl; [tauto|].
  destruct (N.eqb k' k) eqn:E; [discriminate|]. intros H [H1|H1].
  - subst. now rewrite N.eqb_refl in E.
  - now apply IH.
Qed.

Lemma alookup_notin_None {A} k (m : list (N * A)) : ~ In k (map fst m) -> alookup k m = None.
Proof.
  induction m as [|[k' e] m IH]; simpl; [reflexivity|]. intros H.
  destruct (N.eqb k' k) eqn:E; [apply N.eqb_eq in E; tauto|]. apply IH. tauto.
Qed.

Lemma alookup_In {A} k (e : A) (m : list (N * A)) : alookup k m = Some e -> In (k, e) m.
Proof.
  induction m as [|[k' e'] m IH]; simpl; [discriminate|].
  destruct (N.eqb k' k) eqn:E.
  - apply N.eqb_eq in E. intros H; inversion H; subst. now left.
  - intros H. right. now apply IH.
Qed.

Lemma aremove_notin k (m : tagmap) : ~ In k (map fst m) -> aremove k m = m.
Proof.
  induction m as [|[k' e] m IH]; simpl; [reflexivity|]. intros H.
  destruct (N.eqb k' k) eqn:E; [apply N.eqb_eq in E; tauto|]. simpl. f_equal. apply IH. tauto.
Qed.

Lemma filter_keys_subset (f : N * Z -> bool) (m : tagmap) k :
  In k (map fst (filter f m)) -> In k (map fst m).
Proof.
  rewrite !in_map_iff. intros [x [H1 H2]]. apply filter_In in H2. exists x. tauto.
Qed.

Lemma NoDup_keys_filter (f : N * Z -> bool) (m : tagmap) :
  NoDup (map fst m) -> NoDup (map fst (filter f m)).
Proof.
  induction m as [|kv m IH]; simpl; [constructor|]. intros H. inversion H; subst.
  destruct (f kv); simpl; [|now apply IH]. constructor; [|now apply IH].
  intros Hin. apply filter_keys_subset in Hin. contradiction.
Qed.

Lemma alookup_filter_expired T k (m : tagmap) :
  NoDup (map fst m) ->
  alookup k (filter (fun kv => negb (expired T kv)) m) =
  match alookup k m with Some e => if e <? T then None else Some e | None => None end.
Proof.
  induction m as [|[k' e] m IH]; simpl; [reflexivity|]. intros H. inversion H; subst.
  unfold expired at 1. simpl. destruct (N.eqb k' k) eqn:E.
  - apply N.eqb_eq in E. subst k'. destruct (e <? T) eqn:Et; simpl.
    + apply alookup_notin_None. intros Hin. apply filter_keys_subset in Hin. contradiction.
    + now rewrite N.eqb_refl.
  - destruct (e <? T); simpl; [|rewrite E]; now apply IH.
Qed.

(** * remove_keys *)

Lemma remove_keys_lookup T ks : forall m m' k,
  remove_keys T ks m = Some m' ->
  alookup k m' = if existsb (N.eqb k) ks then None else alookup k m.
Proof.
  induction ks as [|k0 ks IH]; simpl; intros m m' k H.
  - now inversion H.
  - destruct (alookup k0 m) as [e|] eqn:El; [|discriminate].
    destruct (e <? T); [|discriminate].
    rewrite (IH _ _ k H). destruct (N.eqb k k0) eqn:E; simpl.
    + apply N.eqb_eq in E. subst k0. rewrite alookup_aremove_same. now destruct (existsb _ ks).
    + destruct (existsb (N.eqb k) ks); [reflexivity|]. apply alookup_aremove_other.
      intros ->. now rewrite N.eqb_refl in E.
Qed.

Lemma remove_keys_expired T ks : forall m m' k,
  remove_keys T ks m = Some m' -> existsb (N.eqb k) ks = true ->
  exists e, alookup k m = Some e /\ e < T.
Proof.
  induction ks as [|k0 ks IH]; simpl; intros m m' k H Hin; [discriminate|].
  destruct (alookup k0 m) as [e|] eqn:El; [|discriminate].
  destruct (e <? T) eqn:Et; [|discriminate].
  destruct (N.eqb k k0) eqn:E.
  - apply N.eqb_eq in E. subst k0. exists e. split; [assumption|]. now apply Z.ltb_lt.
  - simpl in Hin. destruct (IH _ _ k H Hin) as [e' [H1 H2]]. exists e'. split; [|assumption].
    rewrite alookup_aremove_other in H1; [assumption|]. intros ->. now rewrite N.eqb_refl in E.
Qed.

(** the model's sweep is accepted by the specification's sweep *)
Lemma aremove_cons_other k k0 e (m : tagmap) :
  N.eqb k k0 = false -> aremove k0 ((k, e) :: m) = (k, e) :: aremove k0 m.
Proof. intros E. unfold aremove. simpl. now rewrite E. Qed.

Lemma remove_keys_cons_other T ks : forall k e m,
  ~ In k ks ->
  remove_keys T ks ((k, e) :: m) =
  match remove_keys T ks m with Some m' => Some ((k, e) :: m') | None => None end.
Proof.
  induction ks as [|k0 ks IH]; intros k e m Hni; [reflexivity|].
  cbn [remove_keys alookup].
  destruct (N.eqb k k0) eqn:E; [apply N.eqb_eq in E; subst; simpl in Hni; tauto|].
  destruct (alookup k0 m) as [e0|]; [|reflexivity].
  destruct (e0 <? T); [|reflexivity].
  rewrite aremove_cons_other by assumption. apply IH. simpl in Hni. tauto.
Qed.

Lemma aremove_cons_same k e (m : tagmap) :
  ~ In k (map fst m) -> aremove k ((k, e) :: m) = m.
Proof. intros H. unfold aremove. simpl. rewrite N.eqb_refl. simpl. now apply aremove_notin. Qed.

Lemma remove_keys_filter T (m : tagmap) :
  NoDup (map fst m) ->
  remove_keys T (map fst (filter (expired T) m)) m = Some (filter (fun kv => negb (expired T kv)) m).
Proof.
  induction m as [|[k e] m IH]; [reflexivity|]. intros H. inversion H; subst.
  cbn [filter]. change (expired T (k, e)) with (e <? T). destruct (e <? T) eqn:Et; cbn [negb map fst].
  - cbn [remove_keys alookup]. rewrite N.eqb_refl, Et.
    rewrite aremove_cons_same by assumption. now apply IH.
  - rewrite remove_keys_cons_other.
    + now rewrite IH.
    + intros Hin. apply filter_keys_subset in Hin. contradiction.
Qed.

Lemma forallb_filter_negb {A} (f : A -> bool) (l : list A) :
  forallb (fun x => negb (f x)) (filter (fun x => negb (f x)) l) = true.
Proof. apply forallb_forall. intros x Hx. now apply filter_In in Hx. Qed.

(** * runs of the monitor *)

Lemma mon_run_app w : forall a b ms,
  mon_run w ms (a ++ b) =
  match mon_run w ms a with Some ms' => mon_run w ms' b | None => None end.
Proof.
  induction a as [|e a IH]; simpl; intros b ms; [reflexivity|].
  destruct (mon_step w ms e); [apply IH|reflexivity].
Qed.

Lemma mon_step_time w m last e m' last' :
  mon_step w (m, last) e = Some (m', last') -> last <= ev_time e /\ last' = ev_time e.
Proof.
  destruct e; simpl.
  - destruct (last <=? now) eqn:E; [|discriminate]. apply Z.leb_le in E.
    destruct (alookup k m); [discriminate|]. intros H; inversion H; subst. tauto.
  - destruct (last <=? now) eqn:E; [|discriminate]. apply Z.leb_le in E.
    destruct (alookup k m); [|discriminate]. intros H; inversion H; subst. tauto.
  - destruct (last <=? clk) eqn:E; simpl; [|discriminate]. apply Z.leb_le in E.
    destruct (T <=? clk); [|discriminate].
    destruct (remove_keys T ks m); [|discriminate].
    destruct (forallb _ t0); [|discriminate]. intros H; inversion H; subst. tauto.
Qed.

(** what one accepted event does to one key *)
Lemma mon_step_key w m last e m' last' k :
  mon_step w (m, last) e = Some (m', last') ->
  (calls_key k e = true ->
     (is_dup e = true /\ alookup k m <> None /\ alookup k m' = alookup k m)
     \/ (is_dup e = false /\ alookup k m = None /\ alookup k m' = Some (ev_time e + w)))
  /\ (removes k e = true ->
        alookup k m' = None /\ exists x, alookup k m = Some x /\ x < ev_time e)
  /\ (calls_key k e = false -> removes k e = false -> alookup k m' = alookup k m).
Proof.
  intros H. destruct e; simpl in *.
  - destruct (last <=? now); [|discriminate].
    destruct (alookup k0 m) eqn:El; [discriminate|]. inversion H; subst. clear H.
    unfold calls_key; simpl. repeat split; try discriminate.
    + intros E. apply N.eqb_eq in E. subst k0. right. simpl. now rewrite N.eqb_refl.
    + intros E _. simpl. now rewrite E.
  - destruct (last <=? now); [|discriminate].
    destruct (alookup k0 m) eqn:El; [|discriminate]. inversion H; subst. clear H.
    unfold calls_key; simpl. repeat split; try discriminate.
    + intros E. apply N.eqb_eq in E. subst k0. left. repeat split. congruence.
  - destruct (last <=? clk); simpl in H; [|discriminate].
    destruct (T <=? clk) eqn:ET; [|discriminate]. apply Z.leb_le in ET.
    destruct (remove_keys T ks m) as [m1|] eqn:Er; [|discriminate].
    destruct (forallb _ m1); [|discriminate]. inversion H; subst. clear H.
    unfold calls_key; simpl. repeat split; try discriminate.
    + rewrite (remove_keys_lookup _ _ _ _ k Er). now rewrite H.
    + destruct (remove_keys_expired _ _ _ _ k Er H) as [x [H1 H2]]. exists x. split; [assumption|lia].
    + intros _ Hr. rewrite (remove_keys_lookup _ _ _ _ k Er). now rewrite Hr.
Qed.

Arguments mon_step : simpl never.

(** times never run backwards in an accepted trace *)
Lemma mon_run_time w : forall es m last m' last',
  mon_run w (m, last) es = Some (m', last') ->
  last <= last' /\ Forall (fun e => last <= ev_time e <= last') es.
Proof.
  induction es as [|e es IH]; simpl; intros m last m' last' H.
  - inversion H; subst. split; [lia|constructor].
  - destruct (mon_step w (m, last) e) as [[m1 l1]|] eqn:Es; [|discriminate].
    apply mon_step_time in Es. destruct Es as [H1 H2].
    destruct (IH _ _ _ _ H) as [H3 H4]. split; [lia|].
    apply Forall_cons; [lia|].
    eapply Forall_impl; [|exact H4]. simpl. intros; lia.
Qed.

(** ** exactly one per epoch: in every epoch of every key the first call is answered "new"
    and all later ones "duplicate" *)
Lemma epochs_ok_gen w k : forall es m last cur ms',
  mon_run w (m, last) es = Some ms' ->
  (match rev cur with [] => alookup k m = None | b :: r => b = false /\ forallb (fun x => x) r = true /\ alookup k m <> None end) ->
  forallb epoch_ok (epochs k es cur) = true.
Proof.
  induction es as [|e es IH]; intros m last cur ms' H Hc.
  - simpl. rewrite andb_true_r. unfold epoch_ok. destruct (rev cur) as [|b r]; [reflexivity|].
    destruct Hc as [-> [Hc _]]. now rewrite Hc.
  - simpl in H. destruct (mon_step w (m, last) e) as [[m1 l1]|] eqn:Es; [|discriminate].
    destruct (mon_step_key _ _ _ _ _ _ k Es) as [Hcall [Hrem Hoth]].
    simpl. destruct (calls_key k e) eqn:Ec.
    + apply (IH _ _ _ _ H). simpl.
      destruct (Hcall eq_refl) as [[Hd [Hp He]]|[Hd [Hp He]]]; rewrite Hd.
      * destruct (rev cur) as [|b r]; simpl; [contradiction|].
        destruct Hc as [-> [Hc _]]. repeat split.
        -- rewrite forallb_app, Hc. reflexivity.
        -- congruence.
      * destruct (rev cur) as [|b r]; simpl.
        -- repeat split. congruence.
        -- destruct Hc as [_ [_ Hc]]. contradiction.
    + destruct (removes k e) eqn:Er.
      * simpl. apply andb_true_iff. split.
        -- unfold epoch_ok. destruct (rev cur) as [|b r]; [reflexivity|].
           destruct Hc as [-> [Hc _]]. now rewrite Hc.
        -- apply (IH _ _ _ _ H). simpl. now destruct (Hrem eq_refl).
      * apply (IH _ _ _ _ H). rewrite (Hoth eq_refl eq_refl). exact Hc.
Qed.

Theorem accepted_one_per_epoch w t0 es k :
  mon_ok w t0 es = true -> forallb epoch_ok (epochs k es []) = true.
Proof.
  unfold mon_ok. destruct (mon_run w ([], t0) es) eqn:H; [|discriminate]. intros _.
  eapply epochs_ok_gen; [exact H|]. reflexivity.
Qed.

(** ** a duplicate has a cause with the SAME key: a remembered key was inserted by an earlier
    call with that key, and nothing removed or re-inserted it since *)
Lemma remembered_has_cause w : forall es m0 last0 m last k e,
  mon_run w (m0, last0) es = Some (m, last) ->
  alookup k m0 = None ->
  alookup k m = Some e ->
  exists pre t mm now post,
    es = pre ++ EIns t mm k now :: post /\ e = now + w
    /\ forallb (fun x => negb (removes k x) && negb (inserts k x)) post = true.
Proof.
  intros es. induction es as [|x es IH] using rev_ind; intros m0 last0 m last k e H H0 He.
  - simpl in H. inversion H; subst. congruence.
  - rewrite mon_run_app in H. destruct (mon_run w (m0, last0) es) as [[m1 l1]|] eqn:H1; [|discriminate].
    simpl in H. destruct (mon_step w (m1, l1) x) as [[m2 l2]|] eqn:Es; [|discriminate].
    inversion H; subst m2 l2. clear H.
    destruct (mon_step_key _ _ _ _ _ _ k Es) as [Hcall [Hrem Hoth]].
    destruct (calls_key k x) eqn:Ec.
    + destruct (Hcall eq_refl) as [[Hd [Hp Hl]]|[Hd [Hp Hl]]].
      * rewrite Hl in He. destruct (IH _ _ _ _ _ _ H1 H0 He) as (pre & t & mm & now & post & E1 & E2 & E3).
        exists pre, t, mm, now, (post ++ [x]). repeat split.
        -- rewrite E1, <- app_assoc. reflexivity.
        -- assumption.
        -- rewrite forallb_app, E3. simpl. destruct x; simpl in *; try discriminate. reflexivity.
      * destruct x as [tx mx kx nowx|tx mx kx nowx|cx Tx clkx ksx]; simpl in Hd, Ec; try discriminate.
        unfold calls_key in Ec. simpl in Ec. apply N.eqb_eq in Ec. subst kx.
        exists es, tx, mx, nowx, []. repeat split. simpl in Hl. congruence.
    + destruct (removes k x) eqn:Er.
      * destruct (Hrem eq_refl) as [Hn _]. congruence.
      * rewrite (Hoth eq_refl eq_refl) in He.
        destruct (IH _ _ _ _ _ _ H1 H0 He) as (pre & t & mm & now & post & E1 & E2 & E3).
        exists pre, t, mm, now, (post ++ [x]). repeat split.
        -- rewrite E1, <- app_assoc. reflexivity.
        -- assumption.
        -- rewrite forallb_app, E3. simpl. rewrite Er. simpl.
           destruct x; simpl in *; try reflexivity. unfold calls_key in Ec. simpl in Ec. now rewrite Ec.
Qed.

Theorem accepted_dup_has_cause w t0 es t m k now :
  mon_ok w t0 (es ++ [EDup t m k now]) = true ->
  exists pre t' m' now' post,
    es = pre ++ EIns t' m' k now' :: post /\ now' <= now
    /\ forallb (fun x => negb (removes k x) && negb (inserts k x)) post = true.
Proof.
  unfold mon_ok. rewrite mon_run_app.
  destruct (mon_run w ([], t0) es) as [[m1 l1]|] eqn:H1; [|discriminate].
  simpl. unfold mon_step. destruct (l1 <=? now) eqn:El; [|discriminate]. apply Z.leb_le in El.
  destruct (alookup k m1) as [e|] eqn:Ek; [|discriminate]. intros _.
  destruct (remembered_has_cause _ _ _ _ _ _ _ _ H1 eq_refl Ek) as (pre & t' & m' & now' & post & E1 & E2 & E3).
  exists pre, t', m', now', post. repeat split; try assumption.
  subst es. rewrite mon_run_app in H1.
  destruct (mon_run w ([], t0) pre) as [[m2 l2]|] eqn:H2; [|discriminate].
  apply mon_run_time in H1. destruct H1 as [_ H1]. inversion H1; subst. simpl in *. lia.
Qed.

(** ** retained for at least the window: after a call recorded key k at time t0, every call
    with key k at a time <= t0 + w is answered "duplicate" *)
(** the invariant carries the expiry: either k is remembered with an expiry >= t0 + w, or the
    clock has passed t0 + w *)
Lemma retained_gen w k t0 : forall mid m last m' last',
  mon_run w (m, last) mid = Some (m', last') ->
  ((exists e, alookup k m = Some e /\ t0 + w <= e) \/ t0 + w < last) ->
  ((exists e, alookup k m' = Some e /\ t0 + w <= e) \/ t0 + w < last').
Proof.
  induction mid as [|x mid IH]; simpl; intros m last m' last' H Hp.
  - inversion H; subst. exact Hp.
  - destruct (mon_step w (m, last) x) as [[m1 l1]|] eqn:Es; [|discriminate].
    apply (IH _ _ _ _ H).
    pose proof (mon_step_time _ _ _ _ _ _ Es) as [Ht1 Ht2]. subst l1.
    destruct (mon_step_key _ _ _ _ _ _ k Es) as [Hcall [Hrem Hoth]].
    destruct Hp as [[e [He1 He2]]|Hp]; [|right; lia].
    destruct (calls_key k x) eqn:Ec.
    + destruct (Hcall eq_refl) as [[_ [_ Hl]]|[_ [Hn _]]].
      * left. exists e. split; congruence.
      * congruence.
    + destruct (removes k x) eqn:Er.
      * destruct (Hrem eq_refl) as [_ [e' [He3 He4]]]. right. rewrite He1 in He3. inversion He3; subst. lia.
      * left. exists e. rewrite (Hoth eq_refl eq_refl). tauto.
Qed.

Theorem accepted_retained w tinit pre t m k t0 mid e :
  mon_ok w tinit (pre ++ EIns t m k t0 :: mid ++ [e]) = true ->
  calls_key k e = true -> ev_time e <= t0 + w ->
  is_dup e = true.
Proof.
  unfold mon_ok. rewrite mon_run_app.
  destruct (mon_run w ([], tinit) pre) as [[m1 l1]|] eqn:H1; [|discriminate].
  simpl. destruct (mon_step w (m1, l1) (EIns t m k t0)) as [[m2 l2]|] eqn:Es; [|discriminate].
  rewrite mon_run_app.
  destruct (mon_run w (m2, l2) mid) as [[m3 l3]|] eqn:H3; [|discriminate].
  simpl. destruct (mon_step w (m3, l3) e) as [[m4 l4]|] eqn:Ee; [|discriminate]. intros _ Hc Ht.
  destruct (mon_step_key _ _ _ _ _ _ k Es) as [Hcall _].
  assert (Hk : calls_key k (EIns t m k t0) = true) by (unfold calls_key; simpl; apply N.eqb_refl).
  destruct (Hcall Hk) as [[Hd _]|[_ [_ Hl]]]; [discriminate|]. simpl in Hl.
  assert (Hp : (exists x, alookup k m3 = Some x /\ t0 + w <= x) \/ t0 + w < l3).
  { eapply retained_gen; [exact H3|]. left. exists (t0 + w). split; [assumption|lia]. }
  pose proof (mon_step_time _ _ _ _ _ _ Ee) as [Ht1 _].
  destruct Hp as [[x [Hx _]]|Hp]; [|lia].
  destruct (mon_step_key _ _ _ _ _ _ k Ee) as [Hcall' _].
  destruct (Hcall' Hc) as [[Hd _]|[_ [Hn _]]]; [assumption|congruence].
Qed.

(** ** accepted again after expiry: once a sweep carrying T later than the key's expiry has
    run (and nobody re-inserted the key meanwhile), the next call with that key is answered
    "new".  Right after ANY sweep carrying T no remembered key has an expiry before T. *)
Lemma absent_or_same_gen w k x : forall mid m last m' last',
  mon_run w (m, last) mid = Some (m', last') ->
  forallb (fun y => negb (inserts k y)) mid = true ->
  (alookup k m = None \/ alookup k m = Some x) ->
  (alookup k m' = None \/ alookup k m' = Some x).
Proof.
  induction mid as [|y mid IH]; simpl; intros m last m' last' H Hni Hp.
  - inversion H; subst. exact Hp.
  - destruct (mon_step w (m, last) y) as [[m1 l1]|] eqn:Es; [|discriminate].
    apply andb_true_iff in Hni. destruct Hni as [Hy Hni].
    apply (IH _ _ _ _ H Hni).
    destruct (mon_step_key _ _ _ _ _ _ k Es) as [Hcall [Hrem Hoth]].
    destruct (calls_key k y) eqn:Ec.
    + destruct (Hcall eq_refl) as [[_ [_ Hl]]|[Hd _]]; [now rewrite Hl|].
      destruct y; simpl in *; try discriminate. unfold calls_key in Ec. simpl in Ec. now rewrite Ec in Hy.
    + destruct (removes k y) eqn:Er.
      * left. now destruct (Hrem eq_refl).
      * now rewrite (Hoth eq_refl eq_refl).
Qed.

Theorem accepted_reaccepted w tinit pre t m k t0 mid c T clk ks post e :
  mon_ok w tinit (pre ++ EIns t m k t0 :: mid ++ ESweep c T clk ks :: post ++ [e]) = true ->
  t0 + w < T ->
  forallb (fun y => negb (inserts k y)) (mid ++ post) = true ->
  calls_key k e = true ->
  is_dup e = false.
Proof.
  unfold mon_ok. rewrite mon_run_app.
  destruct (mon_run w ([], tinit) pre) as [[m1 l1]|] eqn:H1; [|discriminate].
  simpl. destruct (mon_step w (m1, l1) (EIns t m k t0)) as [[m2 l2]|] eqn:Es; [|discriminate].
  rewrite mon_run_app.
  destruct (mon_run w (m2, l2) mid) as [[m3 l3]|] eqn:H3; [|discriminate].
  simpl. destruct (mon_step w (m3, l3) (ESweep c T clk ks)) as [[m4 l4]|] eqn:Esw; [|discriminate].
  rewrite mon_run_app.
  destruct (mon_run w (m4, l4) post) as [[m5 l5]|] eqn:H5; [|discriminate].
  simpl. destruct (mon_step w (m5, l5) e) as [[m6 l6]|] eqn:Ee; [|discriminate].
  intros _ HT Hni Hc. rewrite forallb_app in Hni. apply andb_true_iff in Hni. destruct Hni as [Hn1 Hn2].
  destruct (mon_step_key _ _ _ _ _ _ k Es) as [Hcall _].
  assert (Hk : calls_key k (EIns t m k t0) = true) by (unfold calls_key; simpl; apply N.eqb_refl).
  destruct (Hcall Hk) as [[Hd _]|[_ [_ Hl]]]; [discriminate|]. simpl in Hl.
  assert (H3' : alookup k m3 = None \/ alookup k m3 = Some (t0 + w)).
  { eapply absent_or_same_gen; [exact H3|exact Hn1|]. now right. }
  assert (H4 : alookup k m4 = None).
  { unfold mon_step in Esw. destruct (l3 <=? clk); simpl in Esw; [|discriminate].
    destruct (T <=? clk); [|discriminate].
    destruct (remove_keys T ks m3) as [mm|] eqn:Er; [|discriminate].
    destruct (forallb (fun kv => negb (expired T kv)) mm) eqn:Ef; [|discriminate].
    inversion Esw; subst mm l4. clear Esw.
    destruct (alookup k m4) as [x|] eqn:Ex; [|reflexivity]. exfalso.
    pose proof (alookup_In _ _ _ Ex) as Hin.
    rewrite forallb_forall in Ef. specialize (Ef _ Hin). unfold expired in Ef. simpl in Ef.
    apply negb_true_iff, Z.ltb_ge in Ef.
    rewrite (remove_keys_lookup _ _ _ _ k Er) in Ex.
    destruct (existsb (N.eqb k) ks); [discriminate|].
    destruct H3' as [H3'|H3']; rewrite H3' in Ex; [discriminate|]. inversion Ex; subst. lia. }
  assert (H5' : alookup k m5 = None \/ alookup k m5 = Some (t0 + w)).
  { eapply absent_or_same_gen; [exact H5|exact Hn2|]. now left. }
  assert (H5'' : alookup k m5 = None).
  { destruct H5' as [?|H5']; [assumption|]. exfalso.
    (* nothing inserts k in post, so it cannot reappear *)
    assert (Hx : alookup k m5 = None \/ alookup k m5 = Some (t0 + w + 1)).
    { eapply absent_or_same_gen; [exact H5|exact Hn2|]. now left. }
    destruct Hx as [Hx|Hx]; rewrite Hx in H5'; [discriminate|]. inversion H5'. lia. }
  destruct (mon_step_key _ _ _ _ _ _ k Ee) as [Hcall' _].
  destruct (Hcall' Hc) as [[_ [Hp _]]|[Hd _]]; [congruence|assumption].
Qed.

Theorem accepted_sweep_leaves_no_expired w tinit es c T clk ks m last :
  mon_run w ([], tinit) (es ++ [ESweep c T clk ks]) = Some (m, last) ->
  T <= clk /\ forall k e, alookup k m = Some e -> T <= e.
Proof.
  rewrite mon_run_app. destruct (mon_run w ([], tinit) es) as [[m1 l1]|]; [|discriminate].
  simpl. unfold mon_step. destruct (l1 <=? clk); simpl; [|discriminate].
  destruct (T <=? clk) eqn:ET; [|discriminate]. apply Z.leb_le in ET.
  destruct (remove_keys T ks m1) as [mm|]; [|discriminate].
  destruct (forallb (fun kv => negb (expired T kv)) mm) eqn:Ef; [|discriminate].
  intros H; inversion H; subst. split; [assumption|]. intros k e He.
  apply alookup_In in He. rewrite forallb_forall in Ef. specialize (Ef _ He).
  unfold expired in Ef. simpl in Ef. now apply negb_true_iff, Z.ltb_ge in Ef.
Qed.

(** a deleted key had expired: its insertion lies more than a window before the sweep *)
Theorem accepted_removed_was_expired w tinit es c T clk ks k :
  mon_ok w tinit (es ++ [ESweep c T clk ks]) = true -> In k ks ->
  exists pre t m now post,
    es = pre ++ EIns t m k now :: post /\ now + w < T /\ T <= clk
    /\ forallb (fun x => negb (removes k x) && negb (inserts k x)) post = true.
Proof.
  unfold mon_ok. rewrite mon_run_app.
  destruct (mon_run w ([], tinit) es) as [[m1 l1]|] eqn:H1; [|discriminate].
  simpl. unfold mon_step. destruct (l1 <=? clk); simpl; [|discriminate].
  destruct (T <=? clk) eqn:ET; [|discriminate]. apply Z.leb_le in ET.
  destruct (remove_keys T ks m1) as [mm|] eqn:Er; [|discriminate]. intros _ Hin.
  assert (Hex : existsb (N.eqb k) ks = true).
  { apply existsb_exists. exists k. split; [assumption|apply N.eqb_refl]. }
  destruct (remove_keys_expired _ _ _ _ k Er Hex) as [e [He1 He2]].
  destruct (remembered_has_cause _ _ _ _ _ _ _ _ H1 eq_refl He1) as (pre & t & m & now & post & E1 & E2 & E3).
  exists pre, t, m, now, post. repeat split; try assumption. lia.
Qed.
