(** The repository with a TIMELY clean-up: the closed system in which "accepted again after it
    expired" is a theorem with a bound.  No proofs in this file.

    [Dedup/Model.v] leaves open WHEN the cleaner receives a tick and how long its cycle takes
    (any schedule).  Here one designated cleaner thread [c] is driven by a ticker of period [p]
    (the code: window / 2) and the environment is fair enough, in the style of a timed automaton
    with urgency — steps take no time, time passes only with [LAdv], and [LAdv] is refused when
    it would carry the clock past a deadline:

      * ticks received by [c] carry fire times at least a period apart:
            [LTick c T] needs  last_tick + p <= T <= clock         (then last_tick := T)
      * while [c] waits for a tick the clock may not pass  last_tick + p + d
            (the tick that fires at last_tick + p is received with latency at most d);
      * while [c] is between receiving tick T and its Unlock the clock may not pass  T + 2d
            (Lock, sweep, Unlock of the cycle are done at most 2d after the fire time —
            this is also the assumption on the clients: nobody sits on the mutex for long).

    [d] is the scheduling latency; d = 0 is the documentation's "up to 50% longer".  In
    particular: between two clock advances of total >= p + d the cleaner takes a tick.
    Everything else (clients, other cleaners, their ticks) is as in [Model.step]: every
    [tstep] IS a [step], so all safety theorems hold for the timely system. *)
From WM Require Import Base.Prelude Dedup.Model.
Local Open Scope Z_scope.

Record tstate := TS {
  base : state;
  last_tick : Z;          (* fire time of the last tick [c] received (initially: creation time) *)
  swept_to : Z            (* ghost: T of the last sweep [c] completed (initially: creation time) *)
}.

Section Timed.
  Variables (w p d : Z) (c : tid).

  Definition deadline (ts : tstate) : option Z :=
    match thr (base ts) c with
    | TCleaner CWait => Some (last_tick ts + p + d)
    | TCleaner (CTicked T) | TCleaner (CLocked T) | TCleaner (CSwept T) => Some (T + d + d)
    | TClient _ _ _ => None
    end.

  Definition tstep (ts : tstate) (l : label) : option tstate :=
    match l with
    | LAdv t =>
        let ok := match deadline ts with
                  | Some D => Z.max (clock (base ts)) t <=? D
                  | None => true
                  end in
        if ok then
          match step w (base ts) l with
          | Some s' => Some (TS s' (last_tick ts) (swept_to ts))
          | None => None
          end
        else None
    | LTick c' T =>
        if Nat.eqb c' c then
          if last_tick ts + p <=? T then
            match step w (base ts) l with
            | Some s' => Some (TS s' T (swept_to ts))
            | None => None
            end
          else None
        else
          match step w (base ts) l with
          | Some s' => Some (TS s' (last_tick ts) (swept_to ts))
          | None => None
          end
    | LThr t =>
        match step w (base ts) l with
        | Some s' =>
            Some (TS s' (last_tick ts)
                     (match thr (base ts) t with
                      | TCleaner (CLocked T) => if Nat.eqb t c then T else swept_to ts
                      | _ => swept_to ts
                      end))
        | None => None
        end
    end.

  Fixpoint trun (ts : tstate) (sched : list label) : tstate :=
    match sched with
    | [] => ts
    | l :: sched' => match tstep ts l with Some ts' => trun ts' sched' | None => trun ts sched' end
    end.

  (** strict: every label must be taken by the timely system *)
  Fixpoint treplay (ts : tstate) (sched : list label) : option tstate :=
    match sched with
    | [] => Some ts
    | l :: sched' => match tstep ts l with Some ts' => treplay ts' sched' | None => None end
    end.
End Timed.

Definition tinit (t0 : Z) (roles : tid -> role) : tstate := TS (init t0 roles) t0 t0.

(** ** the specification with a freshness bound

    [dups_fresh w B ms es]: along the run of the timed-set specification, every "duplicate"
    answer is given at most B after the expiry of the remembered entry: now <= expiry + B.
    [tmon_ok] = accepted by [mon_step] and fresh.  With B = p + 3d this is what the timely
    system guarantees; the harness evaluates the same function with its own slack. *)
Definition dup_fresh (B : Z) (m : tagmap) (e : ev) : bool :=
  match e with
  | EDup _ _ k now => match alookup k m with Some x => now <=? x + B | None => false end
  | _ => true
  end.

Fixpoint dups_fresh (w B : Z) (ms : mstate) (es : list ev) : bool :=
  match es with
  | [] => true
  | e :: es' =>
      dup_fresh B (fst ms) e &&
      match mon_step w ms e with Some ms' => dups_fresh w B ms' es' | None => true end
  end.

Definition tmon_ok (w B t0 : Z) (es : list ev) : bool :=
  mon_ok w t0 es && dups_fresh w B ([], t0) es.
