(** Model of message/router/middleware/deduplicator.go.  No proofs in this file.

    Three layers:

    1. the hashers (NewMessageHasherAdler32 / NewMessageHasherSHA256 /
       NewMessageHasherFromMetadataField): what watermill does AROUND the hash function — the
       floor of the read limit, which bytes are fed, the key being the raw digest, the
       behaviour on a missing metadata field.  The hash functions themselves (hash/adler32,
       crypto/sha256: "digest of the bytes written so far") are a Section variable.

    2. mapExpiringKeyRepository as a thread-level transition system: any number of client
       threads calling IsDuplicate (Lock / lookup / insert with time.Now()+window / Unlock —
       one step per synchronisation operation AND one for the lookup and one for the insert,
       so that the theorems need the mutex), any number of cleaner threads (receive a tick
       carrying a time T that is not in the future / Lock / delete every entry whose expiry
       is Before(T) / Unlock), and the clock as an oracle ([LAdv] labels, monotone).

    3. what Deduplicator.Middleware and the publisher decorator do with the answers
       (sequential; the repository's answers and the hasher's outcome are inputs, so custom
       repositories that fail are covered).  [fixed = false] is the behaviour of the
       decorator before the repair "fix: deduplicating publisher must not record keys of a
       batch it then refuses" (hash message i, ask the repository, hash message i+1, ...);
       [fixed = true] hashes the whole batch first. *)
From WM Require Import Base.Prelude.
Local Open Scope Z_scope.

(** * 1. Hashers *)

Definition read_limit_min : Z := 64.          (* MessageHasherReadLimitMinimum *)

(** [if readLimit < MessageHasherReadLimitMinimum { readLimit = MessageHasherReadLimitMinimum }] *)
Definition eff_limit (l : Z) : Z := if l <? read_limit_min then read_limit_min else l.

(** io.CopyN(h, bytes.NewReader(payload), n): the first min(n, len) bytes are written to h;
    io.EOF (payload shorter than n) is swallowed by the caller.  Structural on the list so
    that n = math.MaxInt64 evaluates. *)
Fixpoint take (n : Z) (l : list N) : list N :=
  match l with
  | [] => []
  | x :: r => if n <=? 0 then [] else x :: take (n - 1) r
  end.

Section Hash.
  (** digest of a byte string: h := New(); h.Write(bytes); h.Sum(nil) *)
  Variable H : list N -> list N.
  (** the key is string(h.Sum(nil)): the raw digest bytes *)
  Definition hash_key (limit : Z) (payload : list N) : list N :=
    H (take (eff_limit limit) payload).
End Hash.

(** NewMessageHasherFromMetadataField: metadata as an association list (interned strings) *)
Fixpoint alookup {A} (k : N) (l : list (N * A)) : option A :=
  match l with
  | [] => None
  | (k', v) :: r => if N.eqb k' k then Some v else alookup k r
  end.

Inductive hres :=
| HKey (k : N)                      (* the key *)
| HAbsent (uuid field : N).         (* error naming the message and the field; key is "" *)

Definition meta_key (field uuid : N) (meta : list (N * N)) : hres :=
  match alookup field meta with
  | Some v => HKey v
  | None => HAbsent uuid field
  end.

(** * 2. The repository as a transition system *)

Definition tagmap := list (N * Z).            (* key -> expiry; keys are distinct (invariant) *)

Definition aremove (k : N) (m : tagmap) : tagmap :=
  filter (fun kv => negb (N.eqb (fst kv) k)) m.
Definition expired (T : Z) (kv : N * Z) : bool := snd kv <? T.     (* expires.Before(T) *)

Inductive pc :=
| PIdle                             (* between two IsDuplicate calls *)
| PLocked (m k : N)                 (* kr.mu.Lock() returned *)
| PSeen (m k : N) (dup : bool)      (* _, alreadySeen := kr.tags[key] *)
| PInserted (m k : N).              (* kr.tags[key] = time.Now().Add(kr.window) *)

Inductive cpc :=
| CWait                             (* blocked in the select on ticker.C *)
| CTicked (T : Z)                   (* received tagsBefore = T, about to Lock *)
| CLocked (T : Z)
| CSwept (T : Z).                   (* the range loop is over, deferred Unlock pending *)

(** a client runs a finite program of calls (message id, key); results newest first *)
Inductive thread :=
| TClient (todo : list (N * N)) (p : pc) (results : list (N * N * bool))
| TCleaner (p : cpc).

(** linearisation events, stamped with the clock *)
Inductive ev :=
| EIns (t : tid) (m k : N) (now : Z)          (* IsDuplicate = false: key recorded at [now] *)
| EDup (t : tid) (m k : N) (now : Z)          (* IsDuplicate = true *)
| ESweep (t : tid) (T clk : Z) (ks : list N). (* cleanOut(T) at clock clk deleted exactly ks *)

Record state := ST {
  tags : tagmap;
  owner : option tid;               (* kr.mu *)
  clock : Z;
  thr : tid -> thread;
  trace : list ev                   (* newest first *)
}.

Inductive label :=
| LAdv (t : Z)                      (* time passes: clock := max clock t *)
| LThr (t : tid)                    (* thread t takes its next step *)
| LTick (c : tid) (T : Z).          (* cleaner c receives a tick that carries T <= clock *)

Definition holds (th : thread) : bool :=
  match th with
  | TClient _ (PLocked _ _) _ | TClient _ (PSeen _ _ _) _ | TClient _ (PInserted _ _) _ => true
  | TCleaner (CLocked _) | TCleaner (CSwept _) => true
  | _ => false
  end.

Definition is_some {A} (o : option A) : bool := match o with Some _ => true | None => false end.

Definition set_thr (s : state) (t : tid) (th : thread) : state :=
  ST (tags s) (owner s) (clock s) (upd (thr s) t th) (trace s).

Definition step (w : Z) (s : state) (l : label) : option state :=
  match l with
  | LAdv t => Some (ST (tags s) (owner s) (Z.max (clock s) t) (thr s) (trace s))
  | LTick c T =>
      match thr s c with
      | TCleaner CWait => if T <=? clock s then Some (set_thr s c (TCleaner (CTicked T))) else None
      | _ => None
      end
  | LThr t =>
      match thr s t with
      | TClient todo PIdle res =>
          match todo, owner s with
          | (m, k) :: rest, None =>
              Some (ST (tags s) (Some t) (clock s) (upd (thr s) t (TClient rest (PLocked m k) res)) (trace s))
          | _, _ => None
          end
      | TClient todo (PLocked m k) res =>
          let dup := is_some (alookup k (tags s)) in
          Some (ST (tags s) (owner s) (clock s) (upd (thr s) t (TClient todo (PSeen m k dup) res))
                   (if dup then EDup t m k (clock s) :: trace s else trace s))
      | TClient todo (PSeen m k true) res =>
          Some (ST (tags s) None (clock s) (upd (thr s) t (TClient todo PIdle ((m, k, true) :: res))) (trace s))
      | TClient todo (PSeen m k false) res =>
          Some (ST ((k, clock s + w) :: tags s) (owner s) (clock s)
                   (upd (thr s) t (TClient todo (PInserted m k) res))
                   (EIns t m k (clock s) :: trace s))
      | TClient todo (PInserted m k) res =>
          Some (ST (tags s) None (clock s) (upd (thr s) t (TClient todo PIdle ((m, k, false) :: res))) (trace s))
      | TCleaner CWait => None
      | TCleaner (CTicked T) =>
          match owner s with
          | None => Some (ST (tags s) (Some t) (clock s) (upd (thr s) t (TCleaner (CLocked T))) (trace s))
          | Some _ => None
          end
      | TCleaner (CLocked T) =>
          Some (ST (filter (fun kv => negb (expired T kv)) (tags s)) (owner s) (clock s)
                   (upd (thr s) t (TCleaner (CSwept T)))
                   (ESweep t T (clock s) (map fst (filter (expired T) (tags s))) :: trace s))
      | TCleaner (CSwept T) =>
          Some (ST (tags s) None (clock s) (upd (thr s) t (TCleaner CWait)) (trace s))
      end
  end.

(** a thread is a cleaner or a client with a program; everything starts idle, map empty *)
Inductive role := RClient (prog : list (N * N)) | RCleaner.
Definition init_thread (r : role) : thread :=
  match r with RClient p => TClient p PIdle [] | RCleaner => TCleaner CWait end.
Definition init (t0 : Z) (roles : tid -> role) : state :=
  ST [] None t0 (fun t => init_thread (roles t)) [].

(** every list of labels is a schedule: a label that is not enabled is skipped *)
Fixpoint run (w : Z) (s : state) (sched : list label) : state :=
  match sched with
  | [] => s
  | l :: sched' => match step w s l with Some s' => run w s' sched' | None => run w s sched' end
  end.

(** strict replay for the correspondence check: every label must be enabled *)
Fixpoint replay (w : Z) (s : state) (sched : list label) : option state :=
  match sched with
  | [] => Some s
  | l :: sched' => match step w s l with Some s' => replay w s' sched' | None => None end
  end.

(** ** The specification: a timed set (the monitor)

    State: key -> expiry of the keys currently remembered, and the time of the last event.
    It accepts a chronological list of events iff time never runs backwards, a call is
    answered "new" exactly when its key is not remembered, a sweep happens no earlier than
    the time T it carries, deletes only remembered keys whose expiry is before T, and leaves
    nothing behind whose expiry is before T. *)
Fixpoint remove_keys (T : Z) (ks : list N) (m : tagmap) : option tagmap :=
  match ks with
  | [] => Some m
  | k :: r =>
      match alookup k m with
      | Some e => if e <? T then remove_keys T r (aremove k m) else None
      | None => None
      end
  end.

Definition mstate := (tagmap * Z)%type.

Definition mon_step (w : Z) (ms : mstate) (e : ev) : option mstate :=
  let '(m, last) := ms in
  match e with
  | EIns _ _ k now =>
      if last <=? now then
        match alookup k m with None => Some ((k, now + w) :: m, now) | Some _ => None end
      else None
  | EDup _ _ k now =>
      if last <=? now then
        match alookup k m with Some _ => Some (m, now) | None => None end
      else None
  | ESweep _ T clk ks =>
      if (last <=? clk) && (T <=? clk) then
        match remove_keys T ks m with
        | Some m' => if forallb (fun kv => negb (expired T kv)) m' then Some (m', clk) else None
        | None => None
        end
      else None
  end.

Fixpoint mon_run (w : Z) (ms : mstate) (es : list ev) : option mstate :=
  match es with
  | [] => Some ms
  | e :: es' => match mon_step w ms e with Some ms' => mon_run w ms' es' | None => None end
  end.

Definition mon_ok (w t0 : Z) (es : list ev) : bool := is_some (mon_run w ([], t0) es).

(** per-key view of a chronological trace: the answers ([true] = duplicate) of the calls with
    key k, cut into epochs at every sweep that deletes k *)
Definition ev_key (e : ev) : option N :=
  match e with EIns _ _ k _ | EDup _ _ k _ => Some k | ESweep _ _ _ _ => None end.
Definition removes (k : N) (e : ev) : bool :=
  match e with ESweep _ _ _ ks => existsb (N.eqb k) ks | _ => false end.
Definition inserts (k : N) (e : ev) : bool :=
  match e with EIns _ _ k' _ => N.eqb k' k | _ => false end.
Definition calls_key (k : N) (e : ev) : bool :=
  match ev_key e with Some k' => N.eqb k' k | None => false end.
Definition is_dup (e : ev) : bool := match e with EDup _ _ _ _ => true | _ => false end.
Definition ev_time (e : ev) : Z :=
  match e with EIns _ _ _ t | EDup _ _ _ t => t | ESweep _ _ clk _ => clk end.

(** [cur] = answers of the current epoch, newest first *)
Fixpoint epochs (k : N) (es : list ev) (cur : list bool) : list (list bool) :=
  match es with
  | [] => [rev cur]
  | e :: es' =>
      if calls_key k e then epochs k es' (is_dup e :: cur)
      else if removes k e then rev cur :: epochs k es' []
      else epochs k es' cur
  end.

(** "exactly one — the first — call of the epoch is answered new" *)
Definition epoch_ok (ep : list bool) : bool :=
  match ep with
  | [] => true
  | b :: r => negb b && forallb (fun x => x) r
  end.

(** calls of one thread in a trace (newest first, like the thread's result list) *)
Definition calls_by (t : tid) (tr : list ev) : list (N * N * bool) :=
  flat_map (fun e => match e with
                     | EIns t' m k _ => if Nat.eqb t' t then [(m, k, false)] else []
                     | EDup t' m k _ => if Nat.eqb t' t then [(m, k, true)] else []
                     | ESweep _ _ _ _ => []
                     end) tr.

Definition inflight (th : thread) : list (N * N * bool) :=
  match th with
  | TClient _ (PSeen m k true) _ => [(m, k, true)]
  | TClient _ (PInserted m k) _ => [(m, k, false)]
  | _ => []
  end.
Definition results_of (th : thread) : list (N * N * bool) :=
  match th with TClient _ _ r => r | TCleaner _ => [] end.

(** ** API-level observation: calls with conservative time stamps, no hooks

    A call is (key, start, end, duplicate?) with the clock read by the caller before and
    after the call.  [api_ok] holds iff two calls with the same key that were both answered
    "new" are more than a window apart, and every duplicate has a possible cause: a call with
    the same key answered "new" that started no later than the duplicate ended. *)
Record acall := AC { ac_key : N; ac_start : Z; ac_end : Z; ac_dup : bool }.

Fixpoint pairwise {A} (f : A -> A -> bool) (l : list A) : bool :=
  match l with
  | [] => true
  | x :: r => forallb (f x) r && pairwise f r
  end.

Definition far_apart (w : Z) (a b : acall) : bool :=
  negb (N.eqb (ac_key a) (ac_key b)) || ac_dup a || ac_dup b
  || (ac_start a + w <? ac_end b) || (ac_start b + w <? ac_end a).

Definition has_cause (cs : list acall) (b : acall) : bool :=
  negb (ac_dup b)
  || existsb (fun a => N.eqb (ac_key a) (ac_key b) && negb (ac_dup a) && (ac_start a <=? ac_end b)) cs.

Definition api_ok (w : Z) (cs : list acall) : bool :=
  pairwise (far_apart w) cs && forallb (has_cause cs) cs.

(** the calls of a chronological trace, in order *)
Definition trace_calls (es : list ev) : list (N * Z * bool) :=
  flat_map (fun e => match e with
                     | EIns _ _ k t => [(k, t, false)]
                     | EDup _ _ k t => [(k, t, true)]
                     | ESweep _ _ _ _ => []
                     end) es.
(** an observation encloses a call: same key, same answer, start <= linearisation <= end *)
Definition encloses (a : acall) (c : N * Z * bool) : Prop :=
  let '(k, t, d) := c in ac_key a = k /\ ac_dup a = d /\ ac_start a <= t <= ac_end a.

(** * 3. Middleware and publisher decorator (sequential) *)

Inductive item := IKey (k : N) | IErr (e : N).      (* what d.KeyFactory(msg) returned *)
Inductive rres := RNew | RDup | RFail (e : N).      (* what d.Repository.IsDuplicate returned *)

Inductive mw_ret :=
| MErr (e : N)                      (* return nil, err *)
| MDropped                          (* return nil, nil *)
| MPass.                            (* return h(msg): the handler's own values, untouched *)

Record mw_out := MWO { mw_repo_key : option N; mw_handler : bool; mw_result : mw_ret }.

Definition mw_run (it : item) (r : rres) : mw_out :=
  match it with
  | IErr e => MWO None false (MErr e)
  | IKey k =>
      match r with
      | RFail e => MWO (Some k) false (MErr e)
      | RDup => MWO (Some k) false MDropped
      | RNew => MWO (Some k) true MPass
      end
  end.

Inductive dec_ret :=
| DErr (e : N)                      (* return err: the inner publisher is not called *)
| DInner.                           (* return d.Publisher.Publish(topic, notRecent...) *)

Record dec_out := DO {
  d_repo_keys : list N;             (* keys the repository was asked about, in order *)
  d_acked : list N;                 (* messages the decorator acked, in order *)
  d_inner : option (list N);        (* the one call of the inner publisher: its messages *)
  d_result : dec_ret
}.

(** the loop of deduplicatingPublisherDecorator.Publish; accumulators newest first *)
Fixpoint dec_loop (ms : list (N * item * rres)) (keys acked kept : list N) : dec_out :=
  match ms with
  | [] => DO (rev keys) (rev acked) (Some (rev kept)) DInner
  | (m, IErr e, _) :: _ => DO (rev keys) (rev acked) None (DErr e)
  | (m, IKey k, RFail e) :: _ => DO (rev (k :: keys)) (rev acked) None (DErr e)
  | (m, IKey k, RDup) :: r => dec_loop r (k :: keys) (m :: acked) kept
  | (m, IKey k, RNew) :: r => dec_loop r (k :: keys) acked (m :: kept)
  end.

Fixpoint first_hash_err (ms : list (N * item * rres)) : option N :=
  match ms with
  | [] => None
  | (_, IErr e, _) :: _ => Some e
  | _ :: r => first_hash_err r
  end.

Definition dec_run (fixed : bool) (ms : list (N * item * rres)) : dec_out :=
  if fixed then
    match first_hash_err ms with
    | Some e => DO [] [] None (DErr e)
    | None => dec_loop ms [] [] []
    end
  else dec_loop ms [] [] [].

(** the repository program of a client thread, and its answers as [rres] *)
Definition rres_of (dup : bool) : rres := if dup then RDup else RNew.
