(** What key separation needs.  No proofs in this file.

    [Model.hash_key H limit p = H (take (eff_limit limit) p)]: the key is a function of the
    digest ONLY.  A hasher that returns some payloads verbatim ("a payload that fits into the
    digest is its own collision-free tag") puts verbatim keys and digest keys into one key space
    without domain separation; [n] = the digest size. *)
From WM Require Import Base.Prelude Dedup.Model.
Local Open Scope Z_scope.

Section Variant.
  Variable H : list N -> list N.
  Definition hash_key_verbatim (n : Z) (limit : Z) (payload : list N) : list N :=
    if Z.of_nat (length payload) <=? n then payload else hash_key H limit payload.
End Variant.
