(** Client programs: Deduplicator.Middleware calls and decorator batches as programs of the
    repository transition system.  No proofs in this file.

    A goroutine's work is a list of operations; [compile] turns it into the program of
    IsDuplicate calls it makes against the map repository (which never fails), and
    [delivered] says — through [mw_run] / [dec_run] of Dedup/Model.v — which messages reach the
    handler / the inner publisher given the answers the calls got.  Dedup/ClientsProofs.v
    links the two inside the concurrent system. *)
From WM Require Import Base.Prelude Dedup.Model.

Inductive opspec :=
| OpMW (m : N) (it : item)               (* h := d.Middleware(handler); h(msg) *)
| OpDEC (ms : list (N * item)).          (* decorated.Publish(topic, msgs...) *)

Definition has_err (ms : list (N * item)) : bool :=
  existsb (fun x => match snd x with IErr _ => true | IKey _ => false end) ms.

(** the loop of the decorator asks message by message and stops at the first hasher error *)
Fixpoint keys_until_err (ms : list (N * item)) : list (N * N) :=
  match ms with
  | [] => []
  | (m, IKey k) :: r => (m, k) :: keys_until_err r
  | (_, IErr _) :: _ => []
  end.

Definition op_calls (fixed : bool) (op : opspec) : list (N * N) :=
  match op with
  | OpMW m (IKey k) => [(m, k)]
  | OpMW _ (IErr _) => []
  | OpDEC ms => if fixed && has_err ms then [] else keys_until_err ms
  end.

Definition compile (fixed : bool) (ops : list opspec) : list (N * N) :=
  flat_map (op_calls fixed) ops.

(** attach the answers (in call order) to the messages of a batch *)
Fixpoint annotate (ms : list (N * item)) (ans : list bool) : list (N * item * rres) :=
  match ms with
  | [] => []
  | (m, IKey k) :: r =>
      match ans with
      | a :: ans' => (m, IKey k, rres_of a) :: annotate r ans'
      | [] => (m, IKey k, RNew) :: annotate r []
      end
  | (m, IErr e) :: r => (m, IErr e, RNew) :: annotate r ans
  end.

Definition op_delivered (fixed : bool) (op : opspec) (ans : list bool) : list N :=
  match op with
  | OpMW m it =>
      if mw_handler (mw_run it (match ans with a :: _ => rres_of a | [] => RNew end))
      then [m] else []
  | OpDEC ms =>
      match d_inner (dec_run fixed (annotate ms ans)) with Some l => l | None => [] end
  end.

(** messages that reach the handler / the inner publisher, in order, given all answers *)
Fixpoint delivered (fixed : bool) (ops : list opspec) (ans : list bool) : list N :=
  match ops with
  | [] => []
  | op :: r =>
      let n := length (op_calls fixed op) in
      op_delivered fixed op (firstn n ans) ++ delivered fixed r (skipn n ans)
  end.

(** messages of thread t's "new" answers in a chronological trace *)
Definition ins_msgs (t : tid) (es : list ev) : list N :=
  flat_map (fun e => match e with
                     | EIns t' m _ _ => if Nat.eqb t' t then [m] else []
                     | _ => []
                     end) es.

(** the call in flight of a client thread, as part of its program *)
Definition cur_call (th : thread) : list (N * N) :=
  match th with
  | TClient _ (PLocked m k) _ | TClient _ (PSeen m k _) _ | TClient _ (PInserted m k) _ => [(m, k)]
  | _ => []
  end.
Definition todo_of (th : thread) : list (N * N) :=
  match th with TClient todo _ _ => todo | TCleaner _ => [] end.
