(** Middleware calls and decorator batches as client programs of the concurrent system:
    a message reaches the handler / the inner publisher iff its repository step answered "new". *)
From WM Require Import Base.Prelude Dedup.Model Dedup.MonProofs Dedup.Proofs Dedup.Clients.
Local Open Scope Z_scope.

(** * a thread's program is conserved: done ++ in flight ++ to do *)

Definition prog_of (th : thread) : list (N * N) :=
  rev (map fst (results_of th)) ++ cur_call th ++ todo_of th.

Lemma step_prog w s l s' : step w s l = Some s' -> forall t', prog_of (thr s' t') = prog_of (thr s t').
Proof.
  intros H t'. destruct l as [x|t|c T]; simpl in H.
  - inversion H; reflexivity.
  - destruct (thr s t) as [todo pc res|pc] eqn:Et.
    + destruct pc as [|m k|m k dup|m k].
      * destruct todo as [|[m k] rest]; [discriminate|]. destruct (owner s); [discriminate|].
        inversion H; subst; clear H; simpl. updt t t'; [|reflexivity]. rewrite Et. reflexivity.
      * inversion H; subst; clear H; simpl. updt t t'; [|reflexivity]. rewrite Et. reflexivity.
      * destruct dup; inversion H; subst; clear H; simpl; (updt t t'; [|reflexivity]); rewrite Et;
          unfold prog_of; simpl; rewrite <- ?app_assoc; reflexivity.
      * inversion H; subst; clear H; simpl. updt t t'; [|reflexivity]. rewrite Et.
        unfold prog_of; simpl; rewrite <- ?app_assoc; reflexivity.
    + destruct pc as [|T|T|T]; [discriminate| | |].
      * destruct (owner s); [discriminate|].
        inversion H; subst; clear H; simpl. updt t t'; [|reflexivity]. rewrite Et. reflexivity.
      * inversion H; subst; clear H; simpl. updt t t'; [|reflexivity]. rewrite Et. reflexivity.
      * inversion H; subst; clear H; simpl. updt t t'; [|reflexivity]. rewrite Et. reflexivity.
  - destruct (thr s c) as [|pc] eqn:Ec; [discriminate|]. destruct pc; try discriminate.
    destruct (T <=? clock s); [|discriminate]. inversion H; subst; clear H. unfold set_thr. simpl.
    updt c t'; [|reflexivity]. rewrite Ec. reflexivity.
Qed.

Lemma run_prog w : forall sched s t, prog_of (thr (run w s sched) t) = prog_of (thr s t).
Proof.
  induction sched as [|l sched IH]; intros s t; simpl; [reflexivity|].
  destruct (step w s l) as [s'|] eqn:E; [|apply IH]. rewrite IH. eapply step_prog; eauto.
Qed.

Theorem program_conserved w t0 roles sched t prog :
  roles t = RClient prog ->
  prog_of (thr (run w (init t0 roles) sched) t) = prog.
Proof.
  intros Hr. rewrite run_prog. simpl. rewrite Hr. unfold prog_of. simpl. reflexivity.
Qed.

(** * which messages are delivered, as a function of the answers (sequential, via mw_run/dec_run) *)

Definition news (l : list (N * N * bool)) : list N :=
  map (fun x => fst (fst x)) (filter (fun x => negb (snd x)) l).

Lemma news_app a b : news (a ++ b) = news a ++ news b.
Proof. unfold news. now rewrite filter_app, map_app. Qed.

Lemma has_err_annotate ms : has_err ms = true -> forall ans, first_hash_err (annotate ms ans) <> None.
Proof.
  induction ms as [|[m it] ms IH]; simpl; [discriminate|]. destruct it as [k|e]; simpl.
  - intros H ans. destruct ans; simpl; apply IH; exact H.
  - intros _ ans. discriminate.
Qed.

Lemma no_err_annotate ms : has_err ms = false -> forall ans,
  length ans = length (keys_until_err ms) ->
  all_keys (annotate ms ans)
  /\ msgs_with is_new (annotate ms ans) = news (combine (keys_until_err ms) ans).
Proof.
  induction ms as [|[m it] ms IH]; simpl; intros H ans Hl.
  - split; [constructor|]. destruct ans; reflexivity.
  - destruct it as [k|e]; simpl in *; [|discriminate].
    destruct ans as [|a ans]; [discriminate|]. simpl in Hl. inversion Hl.
    destruct (IH H ans H1) as [IH1 IH2]. split.
    + constructor; [now destruct a|assumption].
    + unfold msgs_with, news in *. destruct a; simpl; [exact IH2|now rewrite IH2].
Qed.

Lemma op_delivered_news op ans :
  length ans = length (op_calls true op) ->
  op_delivered true op ans = news (combine (op_calls true op) ans).
Proof.
  destruct op as [m it|ms]; unfold op_delivered, op_calls.
  - destruct it as [k|e]; simpl.
    + destruct ans as [|a [|]]; try discriminate. intros _. now destruct a.
    + destruct ans; [reflexivity|discriminate].
  - destruct (has_err ms) eqn:He; cbn [andb].
    + destruct ans; [|discriminate]. intros _. unfold dec_run.
      destruct (first_hash_err (annotate ms [])) eqn:Ef; [reflexivity|].
      exfalso. eapply has_err_annotate; eauto.
    + intros Hl. destruct (no_err_annotate ms He ans Hl) as [Ha Hn].
      rewrite (decorator_filters_and_acks true _ Ha). cbn [d_inner]. exact Hn.
Qed.

Lemma combine_app_l {A B} : forall (a b : list A) (l : list B),
  combine (a ++ b) l = combine a (firstn (length a) l) ++ combine b (skipn (length a) l).
Proof.
  induction a as [|x a IH]; intros b l; simpl; [reflexivity|].
  destruct l as [|y l]; simpl; [now destruct b|]. now rewrite IH.
Qed.

Theorem delivered_news : forall ops ans,
  length ans = length (compile true ops) ->
  delivered true ops ans = news (combine (compile true ops) ans).
Proof.
  induction ops as [|op ops IH]; intros ans Hl; simpl.
  - reflexivity.
  - unfold compile in *. simpl in Hl. rewrite app_length in Hl.
    rewrite combine_app_l, news_app. f_equal.
    + apply op_delivered_news. rewrite firstn_length. lia.
    + apply IH. rewrite skipn_length. lia.
Qed.

Theorem delivered_before_fix_refuted :
  exists ops ans, length ans = length (compile false ops)
                  /\ delivered false ops ans <> news (combine (compile false ops) ans).
Proof.
  exists [OpDEC [(1%N, IKey 7%N); (2%N, IErr 9%N)]], [false]. vm_compute. split; [reflexivity|discriminate].
Qed.

(** * the trace side *)

Lemma ins_msgs_calls t : forall es, ins_msgs t es = news (calls_by t es).
Proof.
  induction es as [|e es IH]; [reflexivity|].
  unfold ins_msgs, calls_by in *. simpl. rewrite IH. unfold news. rewrite filter_app, map_app. f_equal.
  destruct e as [t' m k now|t' m k now|]; simpl; try reflexivity; destruct (Nat.eqb t' t); reflexivity.
Qed.

Lemma calls_by_rev t : forall tr, calls_by t (rev tr) = rev (calls_by t tr).
Proof.
  induction tr as [|e tr IH]; [reflexivity|]. unfold calls_by in *. simpl.
  rewrite flat_map_app, IH, rev_app_distr. simpl. rewrite app_nil_r. f_equal.
  destruct e as [t' m k now|t' m k now|]; simpl; try reflexivity; destruct (Nat.eqb t' t); reflexivity.
Qed.

Lemma combine_fst_snd {A B} (l : list (A * B)) : combine (map fst l) (map snd l) = l.
Proof. induction l as [|[a b] l IH]; simpl; [reflexivity|now rewrite IH]. Qed.

(** * the link, for the concurrent system: any window, any population, any schedule *)

Theorem delivered_iff_new w t0 roles sched t ops res :
  roles t = RClient (compile true ops) ->
  thr (run w (init t0 roles) sched) t = TClient [] PIdle res ->
  delivered true ops (rev (map snd res)) = ins_msgs t (rev (trace (run w (init t0 roles) sched))).
Proof.
  intros Hr Hth.
  pose proof (program_conserved w t0 roles sched t _ Hr) as Hp.
  pose proof (results_are_trace_calls w t0 roles sched t) as Hc. simpl in Hc.
  rewrite Hth in Hp, Hc. unfold prog_of in Hp. simpl in Hp, Hc. rewrite app_nil_r in Hp.
  rewrite ins_msgs_calls, calls_by_rev, Hc.
  rewrite delivered_news.
  - rewrite <- Hp, <- !map_rev, combine_fst_snd. reflexivity.
  - rewrite <- Hp. now rewrite !rev_length, !map_length.
Qed.
