(** What reaches the handler / the inner publisher, end to end: client programs (middleware
    calls and decorator batches, Dedup/Clients.v) over the TIMELY repository (Dedup/Timed.v). *)
From WM Require Import Base.Prelude Dedup.Model Dedup.MonProofs Dedup.Proofs Dedup.Timed Dedup.TimedProofs
  Dedup.Clients Dedup.ClientsProofs.
Local Open Scope Z_scope.

Lemma new_call_is_ins k e : calls_key k e = true -> is_dup e = false ->
  exists te me ne, e = EIns te me k ne.
Proof.
  destruct e as [te me ke ne|te me ke ne|]; unfold calls_key; simpl; try discriminate.
  intros H _. apply N.eqb_eq in H. subst. eauto.
Qed.

Lemma ins_msgs_In te me k ne a b : In me (ins_msgs te (a ++ EIns te me k ne :: b)).
Proof.
  unfold ins_msgs. apply in_flat_map. exists (EIns te me k ne). split.
  - apply in_or_app. right. now left.
  - rewrite Nat.eqb_refl. now left.
Qed.

Theorem handler_end_to_end w p d c t0 roles sched :
  0 <= w -> 0 <= d <= p -> roles c = RCleaner ->
  let s := base (trun w p d c (tinit t0 roles) sched) in
  (* the messages a finished goroutine's handler / inner publisher were given are exactly its
     repository steps answered "new" *)
  (forall t ops res, roles t = RClient (compile true ops) -> thr s t = TClient [] PIdle res ->
     delivered true ops (rev (map snd res)) = ins_msgs t (rev (trace s)))
  (* two of those with one key — of any goroutines — are more than a window apart *)
  /\ (forall a t1 m1 k n1 b t2 m2 n2 c',
        rev (trace s) = a ++ EIns t1 m1 k n1 :: b ++ EIns t2 m2 k n2 :: c' -> n1 + w < n2)
  /\ (forall pre t m k tins mid e rest,
        rev (trace s) = pre ++ EIns t m k tins :: mid ++ e :: rest -> calls_key k e = true ->
        (* within the window of an accepted message every message with its key is dropped *)
        (ev_time e <= tins + w -> is_dup e = true)
        (* and later than w + p + 3d after the last accepted one, a message with that key is
           accepted again: it is one of the "new" steps of its goroutine, hence delivered *)
        /\ (forallb (fun y => negb (inserts k y)) mid = true -> tins + w + p + 3 * d < ev_time e ->
            exists te me ne, e = EIns te me k ne /\ In me (ins_msgs te (rev (trace s))))).
Proof.
  intros Hw Hd Hc s.
  destruct (timely_refines w p d c t0 roles sched) as [sched' Hs]. fold s in Hs.
  split; [|split].
  - intros t ops res Hr Ht. rewrite Hs in *. now apply delivered_iff_new.
  - intros a t1 m1 k n1 b t2 m2 n2 c' E. rewrite Hs in E.
    now destruct (two_new_are_separated _ _ _ _ _ _ _ _ _ _ _ _ _ _ E).
  - intros pre t m k tins mid e rest E Hk. split.
    + intros Ht. rewrite Hs in E. eapply retained_for_window; eauto.
    + intros Hni Ht.
      assert (Hn : is_dup e = false).
      { eapply (expired_key_reaccepted_timely w p d c t0 Hw Hd roles sched Hc); eauto. }
      destruct (new_call_is_ins k e Hk Hn) as (te & me & ne & ->).
      exists te, me, ne. split; [reflexivity|]. rewrite E.
      replace (pre ++ EIns t m k tins :: mid ++ EIns te me k ne :: rest)
        with ((pre ++ EIns t m k tins :: mid) ++ EIns te me k ne :: rest)
        by (rewrite <- app_assoc; reflexivity).
      apply ins_msgs_In.
Qed.
