(** Every acceptor the check evaluates on implementation histories accepts every history of
    the model (round "proofs 3"): the freshness verdict with the harness's slack, the
    stale-duplicate verdict on outside observations, the glue comparators; the Router
    composition; what "accepted again after it expired" means without the timely environment;
    what the code assumes of a custom ExpiringKeyRepository. *)
From WM Require Import Base.Prelude Message.Model Handler.RouterHandle
  Dedup.Model Dedup.MonProofs Dedup.Proofs Dedup.ApiProofs Dedup.Timed Dedup.TimedProofs
  Dedup.Clients Dedup.Glue Corr.C14.
Local Open Scope Z_scope.

(** * freshness is monotone in the slack *)

Lemma dup_fresh_mono B B' m e : B <= B' -> dup_fresh B m e = true -> dup_fresh B' m e = true.
Proof.
  intros Hb. destruct e; simpl; auto. destruct (alookup k m); [|discriminate].
  intros H. apply Z.leb_le in H. apply Z.leb_le. lia.
Qed.

Lemma dups_fresh_mono w B B' : B <= B' -> forall es ms,
  dups_fresh w B ms es = true -> dups_fresh w B' ms es = true.
Proof.
  intros Hb. induction es as [|e es IH]; intros ms H; simpl in *; [reflexivity|].
  apply andb_true_iff in H. destruct H as [H1 H2]. apply andb_true_iff. split.
  - eapply dup_fresh_mono; eauto.
  - destruct (mon_step w ms e); [now apply IH|reflexivity].
Qed.

(** the hook-level freshness verdict (slack [fresh_slack] = 7 windows) accepts every trace of
    the timely model whose latency satisfies p + 3d <= 7w *)
Theorem fresh_verdict_model_accepted w p d c t0 roles sched :
  0 <= w -> 0 <= d <= p -> roles c = RCleaner -> p + 3 * d <= fresh_slack * w ->
  dups_fresh w (fresh_slack * w) ([], t0) (rev (trace (base (trun w p d c (tinit t0 roles) sched)))) = true.
Proof.
  intros Hw Hd Hc Hs. pose proof (timely_trace_fresh w p d c t0 Hw Hd roles sched Hc) as H.
  unfold tmon_ok in H. apply andb_true_iff in H. destruct H as [_ H].
  eapply dups_fresh_mono; eauto.
Qed.

(** * the stale-duplicate verdict *)

(** a fresh duplicate has a cause that is at most w + B old *)
Lemma fresh_dup_cause w B t0 a t m k now :
  tmon_ok w B t0 (a ++ [EDup t m k now]) = true ->
  exists now', In (k, now', false) (trace_calls a) /\ now' <= now <= now' + w + B.
Proof.
  unfold tmon_ok, mon_ok. rewrite dups_fresh_app, mon_run_app. intros H.
  apply andb_true_iff in H. destruct H as [Hm Hf].
  destruct (mon_run w ([], t0) a) as [[m1 l1]|] eqn:H1; [|discriminate].
  apply andb_true_iff in Hf. destruct Hf as [_ Hf]. cbn [dups_fresh fst dup_fresh] in Hf.
  apply andb_true_iff in Hf. destruct Hf as [Hf _].
  destruct (alookup k m1) as [x|] eqn:Ek; [|discriminate]. apply Z.leb_le in Hf.
  destruct (remembered_has_cause _ _ _ _ _ _ _ _ H1 eq_refl Ek) as (pre & t' & m' & now' & post & E1 & E2 & _).
  exists now'. subst a x. split.
  - rewrite trace_calls_app, trace_calls_cons. apply in_or_app. right. now left.
  - split; [|lia].
    cbn [mon_run] in Hm. unfold mon_step in Hm.
    destruct (l1 <=? now) eqn:El; [|discriminate]. apply Z.leb_le in El.
    rewrite mon_run_app in H1.
    destruct (mon_run w ([], t0) pre) as [[m2 l2]|] eqn:H2; [|discriminate].
    apply mon_run_time in H1. destruct H1 as [_ H1]. inversion H1; subst. simpl in *. lia.
Qed.

Theorem stale_verdict_accepts w B t0 es obs S :
  tmon_ok w B t0 es = true -> Forall2 encloses obs (trace_calls es) -> w + B < S * w ->
  stale_keys S w obs = [].
Proof.
  intros Hok Hobs HS. unfold stale_keys.
  assert (Hnil : filter (stale_dup S w obs) obs = []).
  { destruct (filter (stale_dup S w obs) obs) as [|b l] eqn:Ef; [reflexivity|]. exfalso.
    assert (Hb : In b (filter (stale_dup S w obs) obs)) by (rewrite Ef; now left).
    apply filter_In in Hb. destruct Hb as [Hb Hst]. unfold stale_dup in Hst.
    apply andb_true_iff in Hst. destruct Hst as [Hst Hall].
    apply andb_true_iff in Hst. destruct Hst as [Hd _].
    destruct (Forall2_In_l _ _ _ _ Hobs Hb) as (pre & cc & post & pre' & E & Hbc & _).
    destruct cc as [[k t] dd]. simpl in Hbc. destruct Hbc as (K & D & T).
    assert (dd = true) by congruence. subst dd. rewrite Hd in E.
    destruct (split_calls _ _ _ _ E) as (a & e & b' & E1 & E2 & E3 & _).
    destruct e as [|te me ke ne|]; simpl in E3; try discriminate. injection E3 as Hke Hne. subst ke ne.
    assert (Hpre : tmon_ok w B t0 (a ++ [EDup te me k t]) = true).
    { apply tmon_ok_prefix with (b := b'). rewrite <- app_assoc. simpl. now rewrite <- E1. }
    destruct (fresh_dup_cause _ _ _ _ _ _ _ _ Hpre) as (now' & Hin & Hn).
    assert (Hin' : In (k, now', false) (trace_calls es)).
    { rewrite E1, trace_calls_app. apply in_or_app. now left. }
    destruct (Forall2_In_r _ _ _ _ Hobs Hin') as (a' & Ha & Hac). simpl in Hac.
    destruct Hac as (K' & D' & T').
    rewrite forallb_forall in Hall.
    assert (Hc : In a' (filter (fun a0 => N.eqb (ac_key a0) (ac_key b) && negb (ac_dup a0) && (ac_start a0 <=? ac_end b)) obs)).
    { apply filter_In. split; [assumption|]. rewrite K', K, N.eqb_refl, D'. simpl. apply Z.leb_le. lia. }
    specialize (Hall _ Hc). apply Z.leb_le in Hall. lia. }
  rewrite Hnil. reflexivity.
Qed.

(** for every run of the timely model and every outside observation of it *)
Theorem stale_verdict_model_accepted w p d c t0 roles sched obs S :
  0 <= w -> 0 <= d <= p -> roles c = RCleaner -> w + p + 3 * d < S * w ->
  Forall2 encloses obs (trace_calls (rev (trace (base (trun w p d c (tinit t0 roles) sched))))) ->
  stale_keys S w obs = [].
Proof.
  intros Hw Hd Hc HS Hobs.
  eapply stale_verdict_accepts; [exact (timely_trace_fresh w p d c t0 Hw Hd roles sched Hc)|exact Hobs|lia].
Qed.

(** * "accepted again after it expired" is FALSE for arbitrary schedules: without a sweep a key
    is remembered for ever (window 10, the call at clock 1000 is still a duplicate) *)
Theorem reaccept_without_sweep_refuted :
  exists w t0 roles sched pre t m k tins e rest,
    rev (trace (run w (init t0 roles) sched)) = pre ++ EIns t m k tins :: e :: rest
    /\ calls_key k e = true /\ tins + 50 * w < ev_time e /\ is_dup e = true.
Proof.
  exists 10, 0, (fun t => match t with O => RClient [(1, 5); (2, 5)]%N | _ => RCleaner end),
         [LThr 0; LThr 0; LThr 0; LThr 0; LAdv 1000; LThr 0; LThr 0; LThr 0]%nat,
         [], 0%nat, 1%N, 5%N, 0, (EDup 0%nat 2%N 5%N 1000), [].
  vm_compute. repeat split; reflexivity.
Qed.

(** * the middleware under the Router's settle rule (Handler/RouterHandle.handle) *)

Section Router.
  Context {M : Type}.

  (** a duplicate is Acked by the Router — once, successfully, nothing is published and the
      wrapped handler is not part of the chain's result — whatever publisher the handler has *)
  Theorem dropped_duplicate_is_acked k (pk : @pubkind) (pb : @pubbeh) (h : @chain_result M) :
    handle pk pb (mw_chain (IKey k) RDup h) = (MS Acked CClosed COpen false, [HCall; HSettle true true]).
  Proof. destruct pk, pb; reflexivity. Qed.

  (** a hasher or repository failure is Nacked (redelivery), nothing is published *)
  Theorem dedup_failure_is_nacked it r e (pk : @pubkind) (pb : @pubbeh) (h : @chain_result M) :
    mw_result (mw_run it r) = MErr e ->
    handle pk pb (mw_chain it r h) = (MS Nacked COpen CClosed false, [HCall; HSettle false true]).
  Proof. intros H. unfold mw_chain. rewrite H. destruct pk, pb; reflexivity. Qed.

  (** everything else: the Router sees exactly the wrapped handler's own result *)
  Theorem new_message_passes_to_router k (pk : @pubkind) (pb : @pubbeh) (h : @chain_result M) :
    handle pk pb (mw_chain (IKey k) RNew h) = handle pk pb h.
  Proof. reflexivity. Qed.
End Router.

(** * what the code assumes of a custom ExpiringKeyRepository

    Nothing in Deduplicator / Middleware / the decorator looks inside the repository: they
    need IsDuplicate to be an atomic check-and-record whose linearisation history is accepted
    by the timed-set specification.  For ANY history [es] accepted by [mon_ok] (MonProofs):
    first-of-epoch-wins, a same-key cause for every duplicate, retention for the window; the
    middleware / decorator outcomes then follow from the answers alone (mw_run, dec_run).
    A repository that fails in the middle of a batch leaves the keys of the messages before
    the failure recorded although nothing is published — only possible with a custom
    repository (the map repository never fails): *)
Theorem custom_repository_failure_records_prefix :
  exists ms k e, d_repo_keys (dec_run true ms) = [k; 8%N] /\ d_inner (dec_run true ms) = None
                 /\ d_result (dec_run true ms) = DErr e.
Proof. exists [(1%N, IKey 7%N, RNew); (2%N, IKey 8%N, RFail 9%N)], 7%N, 9%N. vm_compute. repeat split. Qed.

(** * glue *)

Lemma eff_timeout_spec t :
  min_timeout <= eff_timeout t /\ t <= eff_timeout t
  /\ (min_timeout <= t -> eff_timeout t = t) /\ (t < min_timeout -> eff_timeout t = min_timeout).
Proof.
  unfold eff_timeout. destruct (t <? min_timeout) eqn:E.
  - apply Z.ltb_lt in E. lia.
  - apply Z.ltb_ge in E. lia.
Qed.

Lemma window_ok_spec w : (window_ok w = true <-> min_window <= w) /\ (window_ok w = true -> 0 <= w).
Proof.
  unfold window_ok, min_window. destruct (w <? 1000000) eqn:E; simpl.
  - apply Z.ltb_lt in E. split; [split; [discriminate|lia]|discriminate].
  - apply Z.ltb_ge in E. split; [split; [lia|reflexivity]|lia].
Qed.
