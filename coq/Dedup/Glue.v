(** The glue around the repository (deduplicator.go l.82-108, l.145-148) and the composition of
    the middleware with the Router's settle rule (Handler/RouterHandle.v).  No proofs here. *)
From WM Require Import Base.Prelude Message.Model Handler.RouterHandle Dedup.Model.
Local Open Scope Z_scope.

(** applyDefaultsToDeduplicator: [if d.Timeout < time.Millisecond*5 { d.Timeout = time.Millisecond * 5 }];
    Deduplicator.IsDuplicate: [context.WithTimeout(m.Context(), d.Timeout)] — the deadline the
    repository sees is (time of the call) + eff_timeout.  Nanoseconds. *)
Definition min_timeout : Z := 5000000.
Definition eff_timeout (t : Z) : Z := if t <? min_timeout then min_timeout else t.

(** NewMapExpiringKeyRepository: [if window < time.Millisecond { return nil, errors.New(...) }] *)
Definition min_window : Z := 1000000.
Definition window_ok (w : Z) : bool := negb (w <? min_window).

(** what the Router's handleMessage is given when the Deduplicator middleware wraps a handler
    whose own behaviour for this message is [h]: a duplicate is (nil, nil), a hasher /
    repository error is (nil, err), everything else is the handler's own result *)
Definition mw_chain {M : Type} (it : item) (r : rres) (h : @chain_result M) : @chain_result M :=
  match mw_result (mw_run it r) with
  | MDropped => CR PreNone (Ret [])
  | MErr _ => CR PreNone (Fail [])
  | MPass => h
  end.
