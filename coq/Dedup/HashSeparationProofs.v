(** Key separation: it needs the hash function to be injective AND the key to be a function of
    the digest only. *)
From WM Require Import Base.Prelude Dedup.Model Dedup.Proofs Dedup.HashVariants.
Local Open Scope Z_scope.

(** any key that is an injective function applied to SOME function f of the payload separates
    exactly what f separates — with f = take (eff_limit limit) this is the read-limit law *)
Theorem key_of_digest_only_separates (H : list N -> list N) (f : list N -> list N) :
  (forall a b, H a = H b -> a = b) ->
  forall p1 p2, (H (f p1) = H (f p2) <-> f p1 = f p2).
Proof. intros Hinj p1 p2. split; [apply Hinj|intros ->; reflexivity]. Qed.

Lemma take_length_le : forall l n, 0 <= n -> Z.of_nat (length (take n l)) <= n.
Proof.
  induction l as [|x l IH]; intros n Hn; simpl; [lia|].
  destruct (n <=? 0) eqn:E; simpl; [lia|]. apply Z.leb_gt in E. specialize (IH (n - 1)). lia.
Qed.

(** verbatim keys break separation for EVERY hash function with digests of at most n < 64
    bytes — injective or not: a payload p1 longer than n and the payload made of the digest of
    p1's prefix at the read limit differ within the limit (already in length) and get one key *)
Theorem verbatim_keys_break_separation (H : list N -> list N) (n : Z) :
  (forall x, Z.of_nat (length (H x)) <= n) -> 0 <= n < read_limit_min ->
  forall limit p1, n < Z.of_nat (length p1) ->
  let p2 := H (take (eff_limit limit) p1) in
  firstn (Z.to_nat (eff_limit limit)) p1 <> firstn (Z.to_nat (eff_limit limit)) p2
  /\ hash_key_verbatim H n limit p1 = hash_key_verbatim H n limit p2.
Proof.
  intros Hlen Hn limit p1 Hp1 p2. pose proof (eff_limit_floor limit) as [Hf _].
  assert (Hl2 : Z.of_nat (length p2) <= n) by apply Hlen. split.
  - intros E. apply (f_equal (@length N)) in E. rewrite !firstn_length in E.
    unfold read_limit_min in *. lia.
  - unfold hash_key_verbatim.
    assert (E1 : (Z.of_nat (length p1) <=? n) = false) by (apply Z.leb_gt; lia).
    assert (E2 : (Z.of_nat (length p2) <=? n) = true) by (apply Z.leb_le; lia).
    rewrite E1, E2. reflexivity.
Qed.
