(** Proofs about the timely system of Dedup/Timed.v: bounded retention and re-acceptance. *)
From WM Require Import Base.Prelude Dedup.Model Dedup.MonProofs Dedup.Proofs Dedup.Timed.
Local Open Scope Z_scope.

(** * what one step of the base system does (a summary of [Model.step]) *)

Lemma step_adv_spec w s t s' : step w s (LAdv t) = Some s' ->
  s' = ST (tags s) (owner s) (Z.max (clock s) t) (thr s) (trace s).
Proof. simpl. congruence. Qed.

Lemma step_tick_spec w s c T s' : step w s (LTick c T) = Some s' ->
  thr s c = TCleaner CWait /\ T <= clock s /\ s' = set_thr s c (TCleaner (CTicked T)).
Proof.
  simpl. destruct (thr s c) as [|pc]; [discriminate|]. destruct pc; try discriminate.
  destruct (T <=? clock s) eqn:E; [|discriminate]. apply Z.leb_le in E.
  intros H; inversion H. auto.
Qed.

Lemma step_thr_spec w s t s' : step w s (LThr t) = Some s' ->
  clock s' = clock s /\ (forall t', t' <> t -> thr s' t' = thr s t') /\
  match thr s t with
  | TCleaner CWait => False
  | TCleaner (CTicked T) => thr s' t = TCleaner (CLocked T) /\ tags s' = tags s /\ trace s' = trace s
  | TCleaner (CLocked T) =>
      thr s' t = TCleaner (CSwept T)
      /\ tags s' = filter (fun kv => negb (expired T kv)) (tags s)
      /\ exists ks, trace s' = ESweep t T (clock s) ks :: trace s
  | TCleaner (CSwept T) => thr s' t = TCleaner CWait /\ tags s' = tags s /\ trace s' = trace s
  | TClient _ _ _ =>
      (exists a b r, thr s' t = TClient a b r)
      /\ ((tags s' = tags s /\ trace s' = trace s)
          \/ (exists m k e, tags s' = tags s /\ trace s' = EDup t m k (clock s) :: trace s
                            /\ alookup k (tags s) = Some e)
          \/ (exists m k, tags s' = (k, clock s + w) :: tags s
                          /\ trace s' = EIns t m k (clock s) :: trace s))
  end.
Proof.
  unfold step. destruct (thr s t) as [todo pc res|pc] eqn:Et.
  - destruct pc as [|m k|m k dup|m k].
    + destruct todo as [|[m k] rest]; [discriminate|]. destruct (owner s); [discriminate|].
      intros H; inversion H; subst; clear H; simpl. repeat split.
      * intros t' Hne. now apply upd_other.
      * rewrite upd_same. eauto.
      * left. auto.
    + destruct (alookup k (tags s)) as [e|] eqn:El; simpl; intros H; inversion H; subst; clear H; simpl; repeat split.
      * intros t' Hne. now apply upd_other.
      * rewrite upd_same. eauto.
      * right. left. exists m, k, e. auto.
      * intros t' Hne. now apply upd_other.
      * rewrite upd_same. eauto.
      * left. auto.
    + destruct dup; intros H; inversion H; subst; clear H; simpl; repeat split.
      * intros t' Hne. now apply upd_other.
      * rewrite upd_same. eauto.
      * left. auto.
      * intros t' Hne. now apply upd_other.
      * rewrite upd_same. eauto.
      * right. right. exists m, k. auto.
    + intros H; inversion H; subst; clear H; simpl. repeat split.
      * intros t' Hne. now apply upd_other.
      * rewrite upd_same. eauto.
      * left. auto.
  - destruct pc as [|T|T|T].
    + discriminate.
    + destruct (owner s); [discriminate|]. intros H; inversion H; subst; clear H; simpl.
      repeat split; [intros t' Hne; now apply upd_other|apply upd_same].
    + intros H; inversion H; subst; clear H; simpl.
      repeat split; [intros t' Hne; now apply upd_other|apply upd_same|eauto].
    + intros H; inversion H; subst; clear H; simpl.
      repeat split; [intros t' Hne; now apply upd_other|apply upd_same].
Qed.

(** * every timely step is a step; every timely run is a run *)

Lemma tstep_step w p d c ts l ts' :
  tstep w p d c ts l = Some ts' -> step w (base ts) l = Some (base ts').
Proof.
  unfold tstep. destruct l as [t|t|c' T].
  - destruct (match deadline p d c ts with Some D => _ | None => true end); [|discriminate].
    destruct (step w (base ts) (LAdv t)); [|discriminate]. intros H; inversion H. reflexivity.
  - destruct (step w (base ts) (LThr t)); [|discriminate]. intros H; inversion H. reflexivity.
  - destruct (Nat.eqb c' c).
    + destruct (last_tick ts + p <=? T); [|discriminate].
      destruct (step w (base ts) (LTick c' T)); [|discriminate]. intros H; inversion H. reflexivity.
    + destruct (step w (base ts) (LTick c' T)); [|discriminate]. intros H; inversion H. reflexivity.
Qed.

Lemma trun_is_run w p d c : forall sched ts,
  exists sched', base (trun w p d c ts sched) = run w (base ts) sched'.
Proof.
  induction sched as [|l sched IH]; intros ts; simpl.
  - exists []. reflexivity.
  - destruct (tstep w p d c ts l) as [ts'|] eqn:E.
    + destruct (IH ts') as [sched' H]. exists (l :: sched'). simpl.
      rewrite (tstep_step _ _ _ _ _ _ _ E). exact H.
    + apply IH.
Qed.

(** * freshness along a run of the specification *)

Lemma dups_fresh_app w B : forall a b ms,
  dups_fresh w B ms (a ++ b) =
  dups_fresh w B ms a && match mon_run w ms a with Some ms1 => dups_fresh w B ms1 b | None => true end.
Proof.
  induction a as [|e a IH]; intros b ms; simpl; [reflexivity|].
  destruct (mon_step w ms e) as [ms'|]; [|now rewrite !andb_true_r].
  rewrite IH. now rewrite andb_assoc.
Qed.

Lemma tmon_ok_prefix w B t0 a b : tmon_ok w B t0 (a ++ b) = true -> tmon_ok w B t0 a = true.
Proof.
  unfold tmon_ok. rewrite dups_fresh_app. intros H. apply andb_true_iff in H. destruct H as [H1 H2].
  apply andb_true_iff in H2. destruct H2 as [H2 _]. apply mon_ok_prefix in H1. now rewrite H1, H2.
Qed.

(** the statement about accepted-and-fresh traces: once the last insertion of a key is more
    than w + B in the past, a call with that key is answered "new" *)
Theorem fresh_reaccepted w B tinit pre t m k tins mid e :
  tmon_ok w B tinit (pre ++ EIns t m k tins :: mid ++ [e]) = true ->
  forallb (fun y => negb (inserts k y)) mid = true ->
  calls_key k e = true -> tins + w + B < ev_time e ->
  is_dup e = false.
Proof.
  unfold tmon_ok, mon_ok. intros H Hni Hc Ht. apply andb_true_iff in H. destruct H as [Hm Hf].
  rewrite dups_fresh_app in Hf. rewrite mon_run_app in Hm.
  destruct (mon_run w ([], tinit) pre) as [[m1 l1]|] eqn:H1; [|discriminate].
  apply andb_true_iff in Hf. destruct Hf as [_ Hf].
  cbn [mon_run dups_fresh] in Hm, Hf.
  destruct (mon_step w (m1, l1) (EIns t m k tins)) as [[m2 l2]|] eqn:Es; [|discriminate].
  apply andb_true_iff in Hf. destruct Hf as [_ Hf].
  rewrite dups_fresh_app in Hf. rewrite mon_run_app in Hm.
  destruct (mon_run w (m2, l2) mid) as [[m3 l3]|] eqn:H3; [|discriminate].
  apply andb_true_iff in Hf. destruct Hf as [_ Hf]. cbn [dups_fresh fst] in Hf.
  apply andb_true_iff in Hf. destruct Hf as [Hf _].
  destruct (mon_step_key _ _ _ _ _ _ k Es) as [Hcall _].
  assert (Hk : calls_key k (EIns t m k tins) = true) by (unfold calls_key; simpl; apply N.eqb_refl).
  destruct (Hcall Hk) as [[Hd _]|[_ [_ Hl]]]; [discriminate|]. simpl in Hl.
  assert (H3' : alookup k m3 = None \/ alookup k m3 = Some (tins + w)).
  { eapply absent_or_same_gen; [exact H3|exact Hni|]. now right. }
  destruct e as [te me ke ne|te me ke ne|]; [reflexivity| |unfold calls_key in Hc; discriminate].
  exfalso. unfold calls_key in Hc. simpl in Hc. apply N.eqb_eq in Hc. subst ke.
  simpl in Hf, Ht. destruct H3' as [H3'|H3']; rewrite H3' in Hf; [discriminate|].
  apply Z.leb_le in Hf. lia.
Qed.

(** * the invariant of the timely system *)

Section TimedInv.
  Variables (w p d : Z) (c : tid) (t0 : Z).
  Hypothesis Hw : 0 <= w.
  Hypothesis Hd : 0 <= d <= p.
  Let B := p + d + d + d.

  Record TInv (ts : tstate) : Prop := {
    ti_lt : last_tick ts <= clock (base ts);
    ti_sw : swept_to ts <= clock (base ts);
    ti_tags : forall k e, In (k, e) (tags (base ts)) -> swept_to ts <= e;
    ti_pc : match thr (base ts) c with
            | TCleaner CWait =>
                swept_to ts = last_tick ts /\ clock (base ts) <= last_tick ts + p + d
            | TCleaner (CTicked T) | TCleaner (CLocked T) =>
                T = last_tick ts /\ swept_to ts <= T /\ T <= swept_to ts + p + d
                /\ clock (base ts) <= T + d + d
            | TCleaner (CSwept T) =>
                T = last_tick ts /\ swept_to ts = T /\ clock (base ts) <= T + d + d
            | TClient _ _ _ => False
            end;
    ti_fresh : dups_fresh w B ([], t0) (rev (trace (base ts))) = true
  }.

  (** bounded retention: whatever is remembered expired at most p + 3d ago *)
  Lemma tinv_bound ts : TInv ts -> forall k e, In (k, e) (tags (base ts)) -> clock (base ts) <= e + B.
  Proof.
    intros [Hlt Hsw Htags Hpc _] k e Hin. specialize (Htags k e Hin). unfold B.
    destruct (thr (base ts) c) as [|pc]; [contradiction|]. destruct pc as [|T|T|T]; lia.
  Qed.

  Lemma tinit_inv roles : roles c = RCleaner -> TInv (tinit t0 roles).
  Proof.
    intros Hc. constructor; simpl.
    - lia.
    - lia.
    - intros k e [].
    - rewrite Hc. simpl. lia.
    - reflexivity.
  Qed.

  Lemma fresh_snoc s x last :
    mon_run w ([], t0) (rev (trace s)) = Some (tags s, last) ->
    dups_fresh w B ([], t0) (rev (trace s)) = true ->
    dup_fresh B (tags s) x = true ->
    dups_fresh w B ([], t0) (rev (x :: trace s)) = true.
  Proof.
    intros Hm Hf Hx. simpl. rewrite dups_fresh_app, Hf, Hm. simpl.
    rewrite Hx. now destruct (mon_step w (tags s, last) x).
  Qed.

  Lemma tstep_inv ts l ts' :
    Inv w t0 (base ts) -> TInv ts -> tstep w p d c ts l = Some ts' -> TInv ts'.
  Proof.
    intros HI HT Hs. pose proof (tinv_bound ts HT) as Hbound.
    destruct HT as [Hlt Hsw Htags Hpc Hfresh].
    destruct HI as [_ _ _ _ [last [Hmon Hlast]] _ _].
    unfold tstep in Hs. destruct l as [t|t|c' T].
    - (* time passes, within the deadline *)
      destruct (match deadline p d c ts with Some D => _ | None => true end) eqn:Ed; [|discriminate].
      destruct (step w (base ts) (LAdv t)) as [s'|] eqn:Es; [|discriminate].
      inversion Hs; subst; clear Hs. apply step_adv_spec in Es. subst s'.
      constructor; simpl; try lia; try assumption.
      unfold deadline in Ed. destruct (thr (base ts) c) as [|pc]; [contradiction|].
      destruct pc as [|T|T|T]; apply Z.leb_le in Ed; intuition lia.
    - (* a thread steps *)
      destruct (step w (base ts) (LThr t)) as [s'|] eqn:Es; [|discriminate].
      inversion Hs; subst; clear Hs. simpl.
      destruct (step_thr_spec _ _ _ _ Es) as (Hclk & Hoth & Hspec).
      destruct (Nat.eq_dec t c) as [->|Hne].
      + (* the designated cleaner *)
        rewrite Nat.eqb_refl.
        destruct (thr (base ts) c) as [|pc] eqn:Ec; [contradiction|].
        destruct pc as [|T|T|T]; [contradiction| | |].
        * destruct Hspec as (Hthr & Htg & Htr). destruct Hpc as (HT1 & HT2 & HT3 & HT4).
          constructor; simpl; rewrite ?Hclk, ?Htg, ?Htr, ?Hthr.
          -- lia.
          -- lia.
          -- assumption.
          -- simpl. lia.
          -- assumption.
        * destruct Hspec as (Hthr & Htg & ks & Htr).
          destruct Hpc as (HT1 & HT2 & HT3 & HT4).
          constructor; simpl; rewrite ?Hclk, ?Htg, ?Hthr.
          -- lia.
          -- lia.
          -- intros k e Hin. apply filter_In in Hin. destruct Hin as [_ Hin].
             unfold expired in Hin. simpl in Hin. now apply negb_true_iff, Z.ltb_ge in Hin.
          -- simpl. lia.
          -- rewrite Htr. eapply fresh_snoc; eauto.
        * destruct Hspec as (Hthr & Htg & Htr). destruct Hpc as (HT1 & HT2 & HT3).
          constructor; simpl; rewrite ?Hclk, ?Htg, ?Htr, ?Hthr.
          -- lia.
          -- lia.
          -- assumption.
          -- simpl. lia.
          -- assumption.
      + (* another thread: the cleaner [c] does not move *)
        assert (Hsw' : (match thr (base ts) t with
                        | TCleaner (CLocked T) => if Nat.eqb t c then T else swept_to ts
                        | _ => swept_to ts end) = swept_to ts).
        { apply Nat.eqb_neq in Hne. rewrite Hne. destruct (thr (base ts) t) as [|pc]; [reflexivity|]. now destruct pc. }
        rewrite Hsw'. clear Hsw'.
        assert (Hc' : thr s' c = thr (base ts) c) by (apply Hoth; congruence).
        destruct (thr (base ts) t) as [todo pc res|pc] eqn:Et.
        * destruct Hspec as (_ & [(Htg & Htr)|[(m & k & e & Htg & Htr & Hl)|(m & k & Htg & Htr)]]).
          -- constructor; simpl; rewrite ?Hclk, ?Htg, ?Htr, ?Hc'; auto.
          -- constructor; simpl; rewrite ?Hclk, ?Htg, ?Hc'; auto.
             rewrite Htr. eapply fresh_snoc; eauto. simpl. rewrite Hl.
             apply Z.leb_le. apply Hbound with (k := k). now apply alookup_In.
          -- constructor; simpl; rewrite ?Hclk, ?Htg, ?Hc'; auto.
             ++ intros k' e' [Heq|Hin]; [inversion Heq; subst; lia|eauto].
             ++ rewrite Htr. eapply fresh_snoc; eauto.
        * destruct pc as [|T|T|T]; [contradiction| | |].
          -- destruct Hspec as (_ & Htg & Htr). constructor; simpl; rewrite ?Hclk, ?Htg, ?Htr, ?Hc'; auto.
          -- destruct Hspec as (_ & Htg & ks & Htr). constructor; simpl; rewrite ?Hclk, ?Htg, ?Hc'; auto.
             ++ intros k e Hin. apply filter_In in Hin. destruct Hin as [Hin _]. eauto.
             ++ rewrite Htr. eapply fresh_snoc; eauto.
          -- destruct Hspec as (_ & Htg & Htr). constructor; simpl; rewrite ?Hclk, ?Htg, ?Htr, ?Hc'; auto.
    - (* a tick *)
      destruct (Nat.eqb c' c) eqn:Ecc.
      + apply Nat.eqb_eq in Ecc. subst c'.
        destruct (last_tick ts + p <=? T) eqn:Ep; [|discriminate]. apply Z.leb_le in Ep.
        destruct (step w (base ts) (LTick c T)) as [s'|] eqn:Es; [|discriminate].
        inversion Hs; subst; clear Hs. destruct (step_tick_spec _ _ _ _ _ Es) as (Hw0 & HT & ->).
        rewrite Hw0 in Hpc. destruct Hpc as [Hp1 Hp2].
        constructor; unfold set_thr; simpl; try lia; try assumption.
        rewrite upd_same. lia.
      + destruct (step w (base ts) (LTick c' T)) as [s'|] eqn:Es; [|discriminate].
        inversion Hs; subst; clear Hs. destruct (step_tick_spec _ _ _ _ _ Es) as (Hw0 & HT & ->).
        apply Nat.eqb_neq in Ecc.
        constructor; unfold set_thr; simpl; try assumption.
        rewrite upd_other by congruence. assumption.
  Qed.

  Lemma trun_inv : forall sched ts,
    Inv w t0 (base ts) -> TInv ts ->
    Inv w t0 (base (trun w p d c ts sched)) /\ TInv (trun w p d c ts sched).
  Proof.
    induction sched as [|l sched IH]; intros ts HI HT; simpl; [auto|].
    destruct (tstep w p d c ts l) as [ts'|] eqn:E; [|now apply IH].
    apply IH.
    - eapply step_inv; [eapply tstep_step; exact E|exact HI].
    - eapply tstep_inv; eauto.
  Qed.

  Section Reach.
    Variables (roles : tid -> role) (sched : list label).
    Hypothesis Hc : roles c = RCleaner.
    Let ts := trun w p d c (tinit t0 roles) sched.

    Lemma treach : Inv w t0 (base ts) /\ TInv ts.
    Proof. apply trun_inv; [apply init_inv|now apply tinit_inv]. Qed.

    (** in the timely system nothing is remembered longer than p + 3d past its expiry *)
    Theorem bounded_retention k e :
      alookup k (tags (base ts)) = Some e -> clock (base ts) <= e + p + 3 * d.
    Proof.
      intros H. destruct treach as [_ HT]. pose proof (tinv_bound _ HT k e (alookup_In _ _ _ H)).
      unfold B in *. lia.
    Qed.

    Theorem timely_trace_fresh : tmon_ok w (p + 3 * d) t0 (rev (trace (base ts))) = true.
    Proof.
      destruct treach as [[_ _ _ _ [last [Hm _]] _ _] [_ _ _ _ Hf]]. unfold tmon_ok, mon_ok.
      replace (p + 3 * d) with (p + d + d + d) by lia. rewrite Hm. exact Hf.
    Qed.

    (** accepted again after it expired — with a bound: a call more than w + p + 3d after the
        last insertion of its key is answered "new" *)
    Theorem expired_key_reaccepted_timely pre t m k tins mid e rest :
      rev (trace (base ts)) = pre ++ EIns t m k tins :: mid ++ e :: rest ->
      forallb (fun y => negb (inserts k y)) mid = true ->
      calls_key k e = true -> tins + w + p + 3 * d < ev_time e ->
      is_dup e = false.
    Proof.
      intros E Hni Hck Ht. pose proof timely_trace_fresh as H. rewrite E in H.
      replace (pre ++ EIns t m k tins :: mid ++ e :: rest)
        with ((pre ++ EIns t m k tins :: mid ++ [e]) ++ rest) in H
        by (rewrite <- !app_assoc; simpl; rewrite <- !app_assoc; reflexivity).
      apply tmon_ok_prefix in H. eapply fresh_reaccepted; eauto. lia.
    Qed.

    (** the timely system is the old system with fewer schedules: all its states are reachable
        in [Model.run], so every safety theorem applies *)
    Theorem timely_refines : exists sched', base ts = run w (init t0 roles) sched'.
    Proof. unfold ts. destruct (trun_is_run w p d c sched (tinit t0 roles)) as [s' H]. eauto. Qed.
  End Reach.
End TimedInv.

(** the documented constants: period = half a window, latency at most a sixth of a window:
    a call two windows after the last insertion of its key is answered "new" *)
Theorem reaccepted_within_two_windows w p d c t0 roles sched pre t m k tins mid e rest :
  0 <= w -> 0 <= d <= p -> 2 * p <= w -> 6 * d <= w -> roles c = RCleaner ->
  rev (trace (base (trun w p d c (tinit t0 roles) sched))) = pre ++ EIns t m k tins :: mid ++ e :: rest ->
  forallb (fun y => negb (inserts k y)) mid = true ->
  calls_key k e = true -> tins + 2 * w < ev_time e ->
  is_dup e = false.
Proof.
  intros Hw Hd Hp Hd6 Hc E Hni Hck Ht.
  eapply expired_key_reaccepted_timely; eauto. lia.
Qed.

(** * towards time-lock freedom: the steps the urgency assumption asks for are always possible

    All of them are thread steps, which [tstep] never refuses when [step] takes them, and take
    no time.  (a) whoever holds the mutex releases it within three of its own steps; (b) with
    the mutex free, a cleaner that has its tick completes Lock / sweep / Unlock and waits for
    the next tick, leaving nothing behind that expired before the tick. *)
Lemma holder_releases w s t :
  holds (thr s t) = true ->
  exists n s', (n <= 3)%nat /\ replay w s (repeat (LThr t) n) = Some s' /\ owner s' = None
               /\ clock s' = clock s.
Proof.
  intros H. destruct (thr s t) as [todo pc res|pc] eqn:Et; destruct pc as [|a b|a b dup|a b]; try discriminate.
  - (* PLocked: lookup, (insert,) unlock *)
    destruct (alookup b (tags s)) as [e|] eqn:El.
    + exists 2%nat. eexists. split; [lia|]. simpl. rewrite Et. simpl. rewrite El. simpl.
      rewrite upd_same. simpl. repeat split; reflexivity.
    + exists 3%nat. eexists. split; [lia|]. simpl. rewrite Et. simpl. rewrite El. simpl.
      rewrite upd_same. simpl. rewrite upd_same. simpl. repeat split; reflexivity.
  - destruct dup.
    + exists 1%nat. eexists. split; [lia|]. simpl. rewrite Et. simpl. repeat split; reflexivity.
    + exists 2%nat. eexists. split; [lia|]. simpl. rewrite Et. simpl. rewrite upd_same. simpl.
      repeat split; reflexivity.
  - exists 1%nat. eexists. split; [lia|]. simpl. rewrite Et. simpl. repeat split; reflexivity.
  - (* cleaner CLocked *)
    exists 2%nat. eexists. split; [lia|]. simpl. rewrite Et. simpl. rewrite upd_same. simpl.
    repeat split; reflexivity.
  - exists 1%nat. eexists. split; [lia|]. simpl. rewrite Et. simpl. repeat split; reflexivity.
Qed.

Lemma cleaner_cycle_possible w s c T :
  thr s c = TCleaner (CTicked T) -> owner s = None ->
  exists s', replay w s [LThr c; LThr c; LThr c] = Some s'
             /\ thr s' c = TCleaner CWait /\ owner s' = None /\ clock s' = clock s
             /\ forall k e, alookup k (tags s') = Some e -> T <= e.
Proof.
  intros Ht Ho. eexists. simpl. rewrite Ht, Ho. simpl. rewrite upd_same. simpl. rewrite upd_same. simpl.
  repeat split; try reflexivity.
  - apply upd_same.
  - intros k e H. apply alookup_In in H. apply filter_In in H. destruct H as [_ H].
    unfold expired in H. simpl in H. now apply negb_true_iff, Z.ltb_ge in H.
Qed.
