(** Proofs about the transition system, the hashers and the middleware/decorator layer of
    Dedup/Model.v. *)
From WM Require Import Base.Prelude Dedup.Model Dedup.MonProofs.
Local Open Scope Z_scope.

(** * 1. Hashers *)

Lemma take_firstn : forall l n, 0 <= n -> take n l = firstn (Z.to_nat n) l.
Proof.
  induction l as [|x l IH]; intros n Hn; simpl.
  - now destruct (Z.to_nat n).
  - destruct (n <=? 0) eqn:E.
    + apply Z.leb_le in E. assert (n = 0) by lia. subst. reflexivity.
    + apply Z.leb_gt in E. replace (Z.to_nat n) with (S (Z.to_nat (n - 1))) by lia.
      simpl. f_equal. apply IH. lia.
Qed.

Lemma eff_limit_floor l : read_limit_min <= eff_limit l /\ (l <= eff_limit l)
  /\ (read_limit_min <= l -> eff_limit l = l) /\ (l < read_limit_min -> eff_limit l = read_limit_min).
Proof.
  unfold eff_limit. destruct (l <? read_limit_min) eqn:E.
  - apply Z.ltb_lt in E. unfold read_limit_min in *. lia.
  - apply Z.ltb_ge in E. unfold read_limit_min in *. lia.
Qed.

Lemma take_app_long : forall p s n, Z.of_nat (length p) >= n -> take n (p ++ s) = take n p.
Proof.
  induction p as [|x p IH]; intros s n Hn; simpl in *.
  - destruct s; simpl; [reflexivity|]. destruct (n <=? 0) eqn:E; [reflexivity|]. apply Z.leb_gt in E. lia.
  - destruct (n <=? 0); [reflexivity|]. f_equal. apply IH. lia.
Qed.

Section HashProofs.
  Variable H : list N -> list N.

  (** equal up to the (effective) read limit => equal keys; any hash function *)
  Lemma hasher_prefix limit p1 p2 :
    firstn (Z.to_nat (eff_limit limit)) p1 = firstn (Z.to_nat (eff_limit limit)) p2 ->
    hash_key H limit p1 = hash_key H limit p2.
  Proof.
    intros E. unfold hash_key. pose proof (eff_limit_floor limit) as [Hf _].
    unfold read_limit_min in Hf. rewrite !take_firstn by lia. now rewrite E.
  Qed.

  (** the same, in the form "a common prefix at least as long as the limit, any tails" *)
  Lemma hasher_ignores_tail limit p s1 s2 :
    Z.of_nat (length p) >= eff_limit limit ->
    hash_key H limit (p ++ s1) = hash_key H limit (p ++ s2).
  Proof. intros Hl. unfold hash_key. now rewrite !take_app_long. Qed.

  (** a limit below the minimum behaves exactly like the minimum *)
  Lemma hasher_limit_floor limit p :
    limit < read_limit_min -> hash_key H limit p = hash_key H read_limit_min p.
  Proof.
    intros Hl. unfold hash_key. destruct (eff_limit_floor limit) as [_ [_ [_ E]]].
    rewrite (E Hl). reflexivity.
  Qed.

  (** a payload no longer than the limit is hashed completely *)
  Lemma hasher_short_payload limit p :
    Z.of_nat (length p) <= eff_limit limit -> hash_key H limit p = H p.
  Proof.
    intros Hl. unfold hash_key. f_equal. pose proof (eff_limit_floor limit) as [Hf _].
    unfold read_limit_min in Hf. rewrite take_firstn by lia. apply firstn_all2. lia.
  Qed.

  (** SHA-256: under injectivity of the hash function, payloads that differ within the limit
      get different keys *)
  Hypothesis H_injective : forall a b, H a = H b -> a = b.
  Lemma sha256_distinguishes limit p1 p2 :
    firstn (Z.to_nat (eff_limit limit)) p1 <> firstn (Z.to_nat (eff_limit limit)) p2 ->
    hash_key H limit p1 <> hash_key H limit p2.
  Proof.
    intros Hne E. apply Hne. unfold hash_key in E. apply H_injective in E.
    pose proof (eff_limit_floor limit) as [Hf _]. unfold read_limit_min in Hf.
    now rewrite !take_firstn in E by lia.
  Qed.
End HashProofs.

Lemma meta_key_spec field uuid meta :
  (forall v, alookup field meta = Some v -> meta_key field uuid meta = HKey v)
  /\ (alookup field meta = None -> meta_key field uuid meta = HAbsent uuid field)
  /\ (forall k, meta_key field uuid meta = HKey k -> alookup field meta = Some k).
Proof.
  unfold meta_key. destruct (alookup field meta); repeat split; intros; congruence.
Qed.

(** * 2. The transition system *)

Record Inv (w t0 : Z) (s : state) : Prop := {
  inv_owner : forall t, holds (thr s t) = true -> owner s = Some t;
  inv_seen : forall t todo m k res,
      thr s t = TClient todo (PSeen m k false) res -> alookup k (tags s) = None;
  inv_nodup : NoDup (map fst (tags s));
  inv_tick : forall c T,
      (thr s c = TCleaner (CTicked T) \/ thr s c = TCleaner (CLocked T) \/ thr s c = TCleaner (CSwept T)) ->
      T <= clock s;
  inv_mon : exists last, mon_run w ([], t0) (rev (trace s)) = Some (tags s, last) /\ last <= clock s;
  inv_calls : forall t, calls_by t (trace s) = inflight (thr s t) ++ results_of (thr s t);
  inv_swept : forall t T, thr s t = TCleaner (CSwept T) ->
      forall k e, alookup k (tags s) = Some e -> T <= e
}.

Lemma init_inv w t0 roles : Inv w t0 (init t0 roles).
Proof.
  constructor; simpl.
  - intros t. destruct (roles t); discriminate.
  - intros t todo m k res. destruct (roles t); discriminate.
  - constructor.
  - intros c T. destruct (roles c); simpl; intros [H|[H|H]]; discriminate.
  - exists t0. split; [reflexivity|lia].
  - intros t. destruct (roles t); reflexivity.
  - intros t T. destruct (roles t); discriminate.
Qed.

Lemma mon_snoc w t0 tr e m last :
  mon_run w ([], t0) (rev tr) = Some (m, last) ->
  mon_run w ([], t0) (rev (e :: tr)) = mon_step w (m, last) e.
Proof.
  intros H. simpl. rewrite mon_run_app, H. simpl. now destruct (mon_step w (m, last) e).
Qed.

Lemma calls_by_other t t' m k now tr :
  t' <> t -> calls_by t' (EIns t m k now :: tr) = calls_by t' tr /\ calls_by t' (EDup t m k now :: tr) = calls_by t' tr.
Proof.
  intros Hne. simpl. assert (E : Nat.eqb t t' = false) by (apply Nat.eqb_neq; congruence).
  now rewrite E.
Qed.

Lemma step_inv w t0 s l s' : step w s l = Some s' -> Inv w t0 s -> Inv w t0 s'.
Proof.
  intros Hs [Ho Hseen Hnd Htick [last [Hmon Hlast]] Hcalls Hswept].
  destruct l as [t1|t|c T]; simpl in Hs.
  - (* time passes *)
    inversion Hs; subst; clear Hs. constructor; cbn [tags owner clock thr trace]; auto.
    + intros c T H. specialize (Htick c T H). lia.
    + exists last. split; [assumption|lia].
  - destruct (thr s t) as [todo p res|p] eqn:Et.
    + destruct p as [|m k|m k dup|m k].
      * (* Lock *)
        destruct todo as [|[m k] rest]; [discriminate|].
        destruct (owner s) eqn:Eo; [discriminate|]. inversion Hs; subst; clear Hs.
        constructor; cbn [tags owner clock thr trace].
        -- intros t' Hh. updt t t'; [reflexivity|]. apply Ho in Hh. congruence.
        -- intros t' todo' m' k' res' H. updt t t'; [discriminate|]. eauto.
        -- assumption.
        -- intros c T H. updt t c; [destruct H as [H|[H|H]]; discriminate|]. eauto.
        -- eauto.
        -- intros t'. updt t t'; [|apply Hcalls]. rewrite Hcalls, Et. reflexivity.
        -- intros t' T' H k' e' Hl. updt t t'; [try discriminate|]; eapply Hswept; eauto.
      * (* lookup *)
        destruct (alookup k (tags s)) as [e|] eqn:El; simpl in Hs; inversion Hs; subst; clear Hs.
        -- constructor; cbn [tags owner clock thr trace].
           ++ intros t' Hh. updt t t'; [|now apply Ho]. apply Ho. now rewrite Et.
           ++ intros t' todo' m' k' res' H. updt t t'; [discriminate|]. eauto.
           ++ assumption.
           ++ intros c T H. updt t c; [destruct H as [H|[H|H]]; discriminate|]. eauto.
           ++ exists (clock s). split; [|lia]. rewrite (mon_snoc _ _ _ _ _ _ Hmon).
              unfold mon_step. apply Z.leb_le in Hlast. now rewrite Hlast, El.
           ++ intros t'. updt t t'.
              ** simpl. rewrite Nat.eqb_refl. simpl. rewrite Hcalls, Et. reflexivity.
              ** destruct (calls_by_other t t' m k (clock s) (trace s)) as [_ E]; [assumption|].
                 rewrite E. apply Hcalls.
           ++ intros t' T' H k' e' Hl. updt t t'; [try discriminate|]; eapply Hswept; eauto.
        -- constructor; cbn [tags owner clock thr trace].
           ++ intros t' Hh. updt t t'; [|now apply Ho]. apply Ho. now rewrite Et.
           ++ intros t' todo' m' k' res' H. updt t t'; [inversion H; subst; assumption|]. eauto.
           ++ assumption.
           ++ intros c T H. updt t c; [destruct H as [H|[H|H]]; discriminate|]. eauto.
           ++ eauto.
           ++ intros t'. updt t t'; [|apply Hcalls]. rewrite Hcalls, Et. reflexivity.
           ++ intros t' T' H k' e' Hl. updt t t'; [try discriminate|]; eapply Hswept; eauto.
      * destruct dup.
        -- (* Unlock after a duplicate *)
           inversion Hs; subst; clear Hs.
           assert (Hot : owner s = Some t) by (apply Ho; now rewrite Et).
           constructor; cbn [tags owner clock thr trace].
           ++ intros t' Hh. updt t t'; [discriminate|]. apply Ho in Hh. congruence.
           ++ intros t' todo' m' k' res' H. updt t t'; [discriminate|]. eauto.
           ++ assumption.
           ++ intros c T H. updt t c; [destruct H as [H|[H|H]]; discriminate|]. eauto.
           ++ eauto.
           ++ intros t'. updt t t'; [|apply Hcalls]. rewrite Hcalls, Et. reflexivity.
           ++ intros t' T' H k' e' Hl. updt t t'; [try discriminate|]; eapply Hswept; eauto.
        -- (* insert *)
           inversion Hs; subst; clear Hs.
           assert (Hot : owner s = Some t) by (apply Ho; now rewrite Et).
           assert (Hk : alookup k (tags s) = None) by (eapply Hseen; exact Et).
           constructor; cbn [tags owner clock thr trace].
           ++ intros t' Hh. updt t t'; [assumption|]. now apply Ho.
           ++ intros t' todo' m' k' res' H. updt t t'; [discriminate|].
              assert (Hh : holds (thr s t') = true) by now rewrite H.
              apply Ho in Hh. congruence.
           ++ constructor; [now apply alookup_None_notin|assumption].
           ++ intros c T H. updt t c; [destruct H as [H|[H|H]]; discriminate|]. eauto.
           ++ exists (clock s). split; [|lia]. rewrite (mon_snoc _ _ _ _ _ _ Hmon).
              unfold mon_step. apply Z.leb_le in Hlast. now rewrite Hlast, Hk.
           ++ intros t'. updt t t'.
              ** simpl. rewrite Nat.eqb_refl. simpl. rewrite Hcalls, Et. reflexivity.
              ** destruct (calls_by_other t t' m k (clock s) (trace s)) as [E _]; [assumption|].
                 rewrite E. apply Hcalls.
           ++ intros t' T' H k' e' Hl. updt t t'; [discriminate|].
              assert (Hh : holds (thr s t') = true) by now rewrite H.
              apply Ho in Hh. congruence.
      * (* Unlock after an insert *)
        inversion Hs; subst; clear Hs.
        assert (Hot : owner s = Some t) by (apply Ho; now rewrite Et).
        constructor; cbn [tags owner clock thr trace].
        -- intros t' Hh. updt t t'; [discriminate|]. apply Ho in Hh. congruence.
        -- intros t' todo' m' k' res' H. updt t t'; [discriminate|]. eauto.
        -- assumption.
        -- intros c T H. updt t c; [destruct H as [H|[H|H]]; discriminate|]. eauto.
        -- eauto.
        -- intros t'. updt t t'; [|apply Hcalls]. rewrite Hcalls, Et. reflexivity.
        -- intros t' T' H k' e' Hl. updt t t'; [try discriminate|]; eapply Hswept; eauto.
    + destruct p as [|T|T|T].
      * discriminate.
      * (* cleaner: Lock *)
        destruct (owner s) eqn:Eo; [discriminate|]. inversion Hs; subst; clear Hs.
        constructor; cbn [tags owner clock thr trace].
        -- intros t' Hh. updt t t'; [reflexivity|]. apply Ho in Hh. congruence.
        -- intros t' todo' m' k' res' H. updt t t'; [discriminate|]. eauto.
        -- assumption.
        -- intros c T' H. updt t c; [|eauto]. apply (Htick t T'). rewrite Et.
           destruct H as [H|[H|H]]; inversion H; subst; auto.
        -- eauto.
        -- intros t'. updt t t'; [|apply Hcalls]. rewrite Hcalls, Et. reflexivity.
        -- intros t' T' H k' e' Hl. updt t t'; [try discriminate|]; eapply Hswept; eauto.
      * (* cleaner: the sweep *)
        inversion Hs; subst; clear Hs.
        assert (Hot : owner s = Some t) by (apply Ho; now rewrite Et).
        assert (HT : T <= clock s) by (apply (Htick t T); rewrite Et; auto).
        constructor; cbn [tags owner clock thr trace].
        -- intros t' Hh. updt t t'; [assumption|]. now apply Ho.
        -- intros t' todo' m' k' res' H. updt t t'; [discriminate|].
           assert (Hh : holds (thr s t') = true) by now rewrite H.
           apply Ho in Hh. congruence.
        -- now apply NoDup_keys_filter.
        -- intros c T' H. updt t c; [|eauto]. apply (Htick t T'). rewrite Et.
           destruct H as [H|[H|H]]; inversion H; subst; auto.
        -- exists (clock s). split; [|lia]. rewrite (mon_snoc _ _ _ _ _ _ Hmon).
           unfold mon_step. apply Z.leb_le in Hlast. apply Z.leb_le in HT. rewrite Hlast, HT. simpl.
           rewrite remove_keys_filter by assumption. now rewrite forallb_filter_negb.
        -- intros t'. simpl. updt t t'; [|apply Hcalls]. rewrite Hcalls, Et. reflexivity.
        -- intros t' T' H k' e' Hl. updt t t'.
           ++ inversion H; subst. apply alookup_In in Hl. apply filter_In in Hl. destruct Hl as [_ Hl].
              unfold expired in Hl. simpl in Hl. now apply negb_true_iff, Z.ltb_ge in Hl.
           ++ assert (Hh : holds (thr s t') = true) by now rewrite H.
              apply Ho in Hh. congruence.
      * (* cleaner: Unlock *)
        inversion Hs; subst; clear Hs.
        assert (Hot : owner s = Some t) by (apply Ho; now rewrite Et).
        constructor; cbn [tags owner clock thr trace].
        -- intros t' Hh. updt t t'; [discriminate|]. apply Ho in Hh. congruence.
        -- intros t' todo' m' k' res' H. updt t t'; [discriminate|]. eauto.
        -- assumption.
        -- intros c T' H. updt t c; [destruct H as [H|[H|H]]; discriminate|]. eauto.
        -- eauto.
        -- intros t'. updt t t'; [|apply Hcalls]. rewrite Hcalls, Et. reflexivity.
        -- intros t' T' H k' e' Hl. updt t t'; [try discriminate|]; eapply Hswept; eauto.
  - (* a tick arrives *)
    destruct (thr s c) as [|p] eqn:Ec; [discriminate|]. destruct p; try discriminate.
    destruct (T <=? clock s) eqn:ET; [|discriminate]. apply Z.leb_le in ET.
    inversion Hs; subst; clear Hs. unfold set_thr. constructor; cbn [tags owner clock thr trace].
    + intros t' Hh. updt c t'; [discriminate|]. now apply Ho.
    + intros t' todo' m' k' res' H. updt c t'; [discriminate|]. eauto.
    + assumption.
    + intros c' T' H. updt c c'; [|eauto]. destruct H as [H|[H|H]]; inversion H; subst; assumption.
    + eauto.
    + intros t'. updt c t'; [|apply Hcalls]. rewrite Hcalls, Ec. reflexivity.
    + intros t' T' H k' e' Hl. updt c t'; [try discriminate|]; eapply Hswept; eauto.
Qed.

Lemma run_inv w t0 : forall sched s, Inv w t0 s -> Inv w t0 (run w s sched).
Proof.
  induction sched as [|l sched IH]; intros s Hi; simpl; [exact Hi|].
  destruct (step w s l) eqn:Hs; [|now apply IH]. apply IH. eapply step_inv; eauto.
Qed.

Lemma reachable_inv w t0 roles sched : Inv w t0 (run w (init t0 roles) sched).
Proof. apply run_inv, init_inv. Qed.

(** ** consequences, for every window, thread population and schedule *)

Theorem mutual_exclusion w t0 roles sched :
  let s := run w (init t0 roles) sched in
  forall t1 t2, holds (thr s t1) = true -> holds (thr s t2) = true -> t1 = t2.
Proof.
  intros s t1 t2 H1 H2. destruct (reachable_inv w t0 roles sched) as [Ho _ _ _ _ _ _].
  apply Ho in H1. apply Ho in H2. fold s in H1, H2. congruence.
Qed.

(** whoever holds the lock can always take its next step: no path through IsDuplicate or
    cleanOut keeps the mutex (in ANY state, reachable or not) *)
Theorem holder_never_blocked w s t :
  holds (thr s t) = true -> step w s (LThr t) <> None.
Proof.
  unfold step. destruct (thr s t) as [todo p res|p]; destruct p as [| | |]; simpl; try discriminate.
  destruct dup; discriminate.
Qed.

Theorem trace_accepted w t0 roles sched :
  mon_ok w t0 (rev (trace (run w (init t0 roles) sched))) = true.
Proof.
  destruct (reachable_inv w t0 roles sched) as [_ _ _ _ [last [H _]] _ _].
  unfold mon_ok. now rewrite H.
Qed.

(** the specification's state IS the repository's map, and the map has no duplicate keys *)
Theorem tags_are_monitor_state w t0 roles sched :
  let s := run w (init t0 roles) sched in
  NoDup (map fst (tags s))
  /\ exists last, mon_run w ([], t0) (rev (trace s)) = Some (tags s, last) /\ last <= clock s.
Proof. intros s. destruct (reachable_inv w t0 roles sched) as [_ _ Hn _ Hm _ _]. split; assumption. Qed.

Theorem one_per_epoch w t0 roles sched k :
  forallb epoch_ok (epochs k (rev (trace (run w (init t0 roles) sched))) []) = true.
Proof. eapply accepted_one_per_epoch, trace_accepted. Qed.

(** prefixes of accepted traces are accepted *)
Lemma mon_ok_prefix w t0 a b : mon_ok w t0 (a ++ b) = true -> mon_ok w t0 a = true.
Proof.
  unfold mon_ok. rewrite mon_run_app. destruct (mon_run w ([], t0) a); [reflexivity|discriminate].
Qed.

Theorem dup_has_same_key_cause w t0 roles sched es t m k now rest :
  rev (trace (run w (init t0 roles) sched)) = es ++ EDup t m k now :: rest ->
  exists pre t' m' now' post,
    es = pre ++ EIns t' m' k now' :: post /\ now' <= now
    /\ forallb (fun x => negb (removes k x) && negb (inserts k x)) post = true.
Proof.
  intros E. pose proof (trace_accepted w t0 roles sched) as H. rewrite E in H.
  replace (es ++ EDup t m k now :: rest) with ((es ++ [EDup t m k now]) ++ rest) in H
    by (rewrite <- app_assoc; reflexivity).
  apply mon_ok_prefix in H. eapply accepted_dup_has_cause; eauto.
Qed.

Theorem retained_for_window w t0 roles sched pre t m k tins mid e rest :
  rev (trace (run w (init t0 roles) sched)) = pre ++ EIns t m k tins :: mid ++ e :: rest ->
  calls_key k e = true -> ev_time e <= tins + w ->
  is_dup e = true.
Proof.
  intros E. pose proof (trace_accepted w t0 roles sched) as H. rewrite E in H.
  replace (pre ++ EIns t m k tins :: mid ++ e :: rest)
    with ((pre ++ EIns t m k tins :: mid ++ [e]) ++ rest) in H
    by (rewrite <- !app_assoc; simpl; rewrite <- !app_assoc; reflexivity).
  apply mon_ok_prefix in H. eapply accepted_retained; eauto.
Qed.

Theorem removed_only_after_expiry w t0 roles sched es c T clk ks rest k :
  rev (trace (run w (init t0 roles) sched)) = es ++ ESweep c T clk ks :: rest -> In k ks ->
  exists pre t m now post,
    es = pre ++ EIns t m k now :: post /\ now + w < T /\ T <= clk
    /\ forallb (fun x => negb (removes k x) && negb (inserts k x)) post = true.
Proof.
  intros E. pose proof (trace_accepted w t0 roles sched) as H. rewrite E in H.
  replace (es ++ ESweep c T clk ks :: rest) with ((es ++ [ESweep c T clk ks]) ++ rest) in H
    by (rewrite <- app_assoc; reflexivity).
  apply mon_ok_prefix in H. eapply accepted_removed_was_expired; eauto.
Qed.

Theorem expired_key_reaccepted w t0 roles sched pre t m k tins mid c T clk ks post e rest :
  rev (trace (run w (init t0 roles) sched))
    = pre ++ EIns t m k tins :: mid ++ ESweep c T clk ks :: post ++ e :: rest ->
  tins + w < T ->
  forallb (fun y => negb (inserts k y)) (mid ++ post) = true ->
  calls_key k e = true ->
  is_dup e = false.
Proof.
  intros E. pose proof (trace_accepted w t0 roles sched) as H. rewrite E in H.
  replace (pre ++ EIns t m k tins :: mid ++ ESweep c T clk ks :: post ++ e :: rest)
    with ((pre ++ EIns t m k tins :: mid ++ ESweep c T clk ks :: post ++ [e]) ++ rest) in H.
  2:{ rewrite <- !app_assoc. simpl. rewrite <- !app_assoc. simpl. rewrite <- !app_assoc. reflexivity. }
  apply mon_ok_prefix in H. eapply accepted_reaccepted; eauto.
Qed.

(** right after a sweep carrying T, no remembered key has an expiry before T: every key whose
    window ended before T is accepted again by the next call *)
Theorem sweep_is_complete w t0 roles sched t T :
  let s := run w (init t0 roles) sched in
  thr s t = TCleaner (CSwept T) ->
  forall k e, alookup k (tags s) = Some e -> T <= e.
Proof. intros s. destruct (reachable_inv w t0 roles sched) as [_ _ _ _ _ _ H]. apply H. Qed.

(** two calls with the same key that were both answered "new": a sweep deleted the key in
    between and they are more than a window apart *)
Lemma present_stays_gen w k : forall mid m last m' last',
  mon_run w (m, last) mid = Some (m', last') ->
  forallb (fun x => negb (removes k x)) mid = true ->
  alookup k m <> None -> alookup k m' <> None.
Proof.
  induction mid as [|x mid IH]; simpl; intros m last m' last' H Hn Hp.
  - inversion H; subst. exact Hp.
  - destruct (mon_step w (m, last) x) as [[m1 l1]|] eqn:Es; [|discriminate].
    apply andb_true_iff in Hn. destruct Hn as [Hx Hn]. apply negb_true_iff in Hx.
    apply (IH _ _ _ _ H Hn).
    destruct (mon_step_key _ _ _ _ _ _ k Es) as [Hcall [_ Hoth]].
    destruct (calls_key k x) eqn:Ec.
    + destruct (Hcall eq_refl) as [[_ [_ Hl]]|[_ [_ Hl]]]; congruence.
    + now rewrite (Hoth eq_refl Hx).
Qed.

Lemma accepted_two_new w t0 a t1 m1 k n1 b t2 m2 n2 c :
  mon_ok w t0 (a ++ EIns t1 m1 k n1 :: b ++ EIns t2 m2 k n2 :: c) = true ->
  existsb (removes k) b = true /\ n1 + w < n2.
Proof.
  intros H.
  replace (a ++ EIns t1 m1 k n1 :: b ++ EIns t2 m2 k n2 :: c)
    with ((a ++ EIns t1 m1 k n1 :: b ++ [EIns t2 m2 k n2]) ++ c) in H
    by (rewrite <- !app_assoc; simpl; rewrite <- !app_assoc; reflexivity).
  apply mon_ok_prefix in H. split.
  - destruct (existsb (removes k) b) eqn:Ex; [reflexivity|]. exfalso.
    unfold mon_ok in H. rewrite mon_run_app in H.
    destruct (mon_run w ([], t0) a) as [[ma la]|]; [|discriminate].
    cbn [mon_run] in H.
    destruct (mon_step w (ma, la) (EIns t1 m1 k n1)) as [[mb lb]|] eqn:Es; [|discriminate].
    rewrite mon_run_app in H.
    destruct (mon_run w (mb, lb) b) as [[mc lc]|] eqn:Hb; [|discriminate].
    cbn [mon_run] in H.
    destruct (mon_step w (mc, lc) (EIns t2 m2 k n2)) as [[md ld]|] eqn:Es2; [|discriminate].
    assert (Hk : calls_key k (EIns t1 m1 k n1) = true) by (unfold calls_key; simpl; apply N.eqb_refl).
    destruct (mon_step_key _ _ _ _ _ _ k Es) as [Hcall _].
    destruct (Hcall Hk) as [[Hd _]|[_ [_ Hl]]]; [discriminate|].
    assert (Hp : alookup k mc <> None).
    { eapply present_stays_gen; [exact Hb| |congruence].
      apply forallb_forall. intros x Hx. apply negb_true_iff.
      destruct (removes k x) eqn:Er; [|reflexivity].
      assert (existsb (removes k) b = true) by (apply existsb_exists; eauto). congruence. }
    destruct (mon_step_key _ _ _ _ _ _ k Es2) as [Hcall2 _].
    destruct (Hcall2 Hk) as [[Hd _]|[_ [Hn _]]]; [discriminate|contradiction].
  - destruct (Z_lt_le_dec (n1 + w) n2) as [?|Hle]; [assumption|]. exfalso.
    assert (Hd : is_dup (EIns t2 m2 k n2) = true).
    { eapply accepted_retained; [exact H| |exact Hle]. unfold calls_key; simpl; apply N.eqb_refl. }
    discriminate.
Qed.

Theorem two_new_are_separated w t0 roles sched a t1 m1 k n1 b t2 m2 n2 c :
  rev (trace (run w (init t0 roles) sched)) = a ++ EIns t1 m1 k n1 :: b ++ EIns t2 m2 k n2 :: c ->
  existsb (removes k) b = true /\ n1 + w < n2.
Proof.
  intros E. pose proof (trace_accepted w t0 roles sched) as H. rewrite E in H.
  eapply accepted_two_new; eauto.
Qed.

(** the answers a thread recorded are exactly its linearisation events *)
Theorem results_are_trace_calls w t0 roles sched t :
  let s := run w (init t0 roles) sched in
  calls_by t (trace s) = inflight (thr s t) ++ results_of (thr s t).
Proof. intros s. destruct (reachable_inv w t0 roles sched) as [_ _ _ _ _ H _]. apply H. Qed.

(** * 3. Middleware and decorator *)

Lemma mw_drops_as_success it r :
  (mw_result (mw_run it r) = MDropped <-> exists k, it = IKey k /\ r = RDup)
  /\ (mw_result (mw_run it r) = MDropped -> mw_handler (mw_run it r) = false).
Proof.
  destruct it as [k|e]; destruct r; simpl; repeat split; try discriminate; eauto;
    intros [k' [H1 H2]]; congruence.
Qed.

Lemma mw_passes_through it r :
  (mw_handler (mw_run it r) = true <-> exists k, it = IKey k /\ r = RNew)
  /\ (mw_handler (mw_run it r) = true <-> mw_result (mw_run it r) = MPass)
  /\ (forall e, mw_result (mw_run it r) = MErr e ->
        mw_handler (mw_run it r) = false /\ (it = IErr e \/ exists k, it = IKey k /\ r = RFail e))
  /\ (forall e, it = IErr e -> mw_repo_key (mw_run it r) = None).
Proof.
  destruct it as [k|e]; destruct r; simpl; (split; [|split; [|split]]);
    try (split; intros H; try discriminate; try reflexivity; eauto;
         try (destruct H as [k' [H1 H2]]; congruence));
    try (intros e' H; try discriminate; inversion H; subst; eauto).
Qed.

(** answers of a client thread fed to the middleware: the handler runs iff the answer is "new" *)
Lemma mw_handler_iff_new k dup : mw_handler (mw_run (IKey k) (rres_of dup)) = negb dup.
Proof. now destruct dup. Qed.

Definition all_keys (ms : list (N * item * rres)) : Prop :=
  Forall (fun x => match x with (_, IKey _, r) => match r with RFail _ => False | _ => True end | _ => False end) ms.
Definition msgs_with (want : rres -> bool) (ms : list (N * item * rres)) : list N :=
  map (fun x => fst (fst x)) (filter (fun x => want (snd x)) ms).
Definition is_new (r : rres) : bool := match r with RNew => true | _ => false end.
Definition is_dupr (r : rres) : bool := match r with RDup => true | _ => false end.

Lemma dec_loop_ok : forall ms keys acked kept,
  all_keys ms ->
  dec_loop ms keys acked kept =
  DO (rev keys ++ flat_map (fun x => match snd (fst x) with IKey k => [k] | IErr _ => [] end) ms)
     (rev acked ++ msgs_with is_dupr ms)
     (Some (rev kept ++ msgs_with is_new ms)) DInner.
Proof.
  induction ms as [|[[m it] r] ms IH]; intros keys acked kept Ha; simpl.
  - unfold msgs_with. simpl. now rewrite !app_nil_r.
  - inversion Ha; subst. destruct it as [k|e]; [|contradiction]. destruct r; [| |contradiction].
    + rewrite IH by assumption. unfold msgs_with. simpl. rewrite <- !app_assoc. reflexivity.
    + rewrite IH by assumption. unfold msgs_with. simpl. rewrite <- !app_assoc. reflexivity.
Qed.

Lemma dec_loop_inner_none_iff : forall ms keys acked kept,
  (d_inner (dec_loop ms keys acked kept) = None <-> exists e, d_result (dec_loop ms keys acked kept) = DErr e)
  /\ (d_result (dec_loop ms keys acked kept) = DInner <-> all_keys ms).
Proof.
  induction ms as [|[[m it] r] ms IH]; intros keys acked kept; simpl.
  - repeat split; try discriminate; try constructor. intros [e H]; discriminate.
  - destruct it as [k|e].
    + destruct r.
      * destruct (IH (k :: keys) acked (m :: kept)) as [H1 H2]. split; [exact H1|].
        rewrite H2. split; intros H; [constructor; auto|now inversion H].
      * destruct (IH (k :: keys) (m :: acked) kept) as [H1 H2]. split; [exact H1|].
        rewrite H2. split; intros H; [constructor; auto|now inversion H].
      * simpl. repeat split; eauto; try discriminate. intros H; inversion H; contradiction.
    + simpl. repeat split; eauto; try discriminate. intros H; inversion H; contradiction.
Qed.

(** no failure: the inner publisher is called once, with exactly the messages answered "new",
    in order; exactly the duplicates are acked; the result is the inner publisher's own *)
Theorem decorator_filters_and_acks fixed ms :
  all_keys ms ->
  dec_run fixed ms =
  DO (flat_map (fun x => match snd (fst x) with IKey k => [k] | IErr _ => [] end) ms)
     (msgs_with is_dupr ms) (Some (msgs_with is_new ms)) DInner.
Proof.
  intros Ha. assert (Hn : first_hash_err ms = None).
  { induction ms as [|[[m it] r] ms IH]; [reflexivity|]. inversion Ha; subst.
    destruct it; [|contradiction]. simpl. now apply IH. }
  unfold dec_run. rewrite Hn. destruct fixed; now rewrite dec_loop_ok.
Qed.

(** a failure (hasher or repository): the inner publisher is not called *)
Theorem decorator_error_no_publish fixed ms e :
  d_result (dec_run fixed ms) = DErr e -> d_inner (dec_run fixed ms) = None.
Proof.
  unfold dec_run. destruct fixed.
  - destruct (first_hash_err ms); [reflexivity|]. intros H.
    apply (proj1 (dec_loop_inner_none_iff ms [] [] [])). eauto.
  - intros H. apply (proj1 (dec_loop_inner_none_iff ms [] [] [])). eauto.
Qed.

(** repaired decorator: a batch that contains a message the hasher rejects leaves the
    repository untouched *)
Theorem decorator_fixed_hash_error_records_nothing ms e :
  first_hash_err ms = Some e ->
  dec_run true ms = DO [] [] None (DErr e).
Proof. intros H. unfold dec_run. now rewrite H. Qed.

(** the behaviour before the repair: the key of the first message is recorded although the
    batch is then refused and never reaches the inner publisher *)
Theorem decorator_error_batch_refuted :
  exists ms k, d_repo_keys (dec_run false ms) = [k] /\ d_inner (dec_run false ms) = None
               /\ d_acked (dec_run false ms) = [].
Proof. exists [(1%N, IKey 7%N, RNew); (2%N, IErr 9%N, RNew)], 7%N. vm_compute. repeat split. Qed.
