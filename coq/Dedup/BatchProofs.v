(** The decorator's per-batch semantics for duplicates INSIDE one Publish call. *)
From WM Require Import Base.Prelude Dedup.Model Dedup.MonProofs Dedup.Proofs Dedup.Clients Dedup.ClientsProofs.
Local Open Scope Z_scope.

(** * sequentially, for any batch without failures: every message the repository answered
    "duplicate" is acked by the decorator, the inner publisher gets exactly the "new" ones, and
    (distinct message objects) a duplicate is not among them *)
Lemma NoDup_map_In_eq {A B} (f : A -> B) : forall l x y,
  NoDup (map f l) -> In x l -> In y l -> f x = f y -> x = y.
Proof.
  induction l as [|a l IH]; intros x y Hn Hx Hy Hf; [contradiction|].
  simpl in Hn. inversion Hn; subst. destruct Hx as [->|Hx], Hy as [->|Hy]; try reflexivity.
  - exfalso. apply H1. rewrite Hf. now apply in_map.
  - exfalso. apply H1. rewrite <- Hf. now apply in_map.
  - now apply IH.
Qed.

Theorem duplicate_in_batch_acked_seq fixed ms m it :
  all_keys ms -> In (m, it, RDup) ms ->
  In m (d_acked (dec_run fixed ms))
  /\ d_inner (dec_run fixed ms) = Some (msgs_with is_new ms)
  /\ (NoDup (map (fun x => fst (fst x)) ms) -> ~ In m (msgs_with is_new ms)).
Proof.
  intros Ha Hin. rewrite (decorator_filters_and_acks fixed ms Ha). simpl. split; [|split].
  - unfold msgs_with. apply in_map_iff. exists (m, it, RDup). split; [reflexivity|].
    apply filter_In. split; [assumption|reflexivity].
  - reflexivity.
  - intros Hnd Hm. unfold msgs_with in Hm. apply in_map_iff in Hm. destruct Hm as (x & Hx1 & Hx2).
    apply filter_In in Hx2. destruct Hx2 as [Hx2 Hx3].
    assert (x = (m, it, RDup)) by (eapply NoDup_map_In_eq; eauto). subst x. discriminate.
Qed.

(** * in the concurrent system: a goroutine publishes [m1; m2] with ONE key in one call.  If its
    repository step for m1 is answered "new" at n1 and the step for m2 happens no later than
    n1 + w, then — whatever all other goroutines and the cleaner do — the step for m2 is
    answered "duplicate", the decorator acks m2 and the inner publisher is given exactly [m1]. *)
Lemma calls_by_app t a b : calls_by t (a ++ b) = calls_by t a ++ calls_by t b.
Proof. unfold calls_by. apply flat_map_app. Qed.

Theorem duplicate_in_batch_acked w t0 roles sched t m1 m2 k res a n1 b e2 n2 c' :
  let s := run w (init t0 roles) sched in
  roles t = RClient (compile true [OpDEC [(m1, IKey k); (m2, IKey k)]]) ->
  thr s t = TClient [] PIdle res ->
  rev (trace s) = a ++ EIns t m1 k n1 :: b ++ e2 :: c' ->
  (e2 = EIns t m2 k n2 \/ e2 = EDup t m2 k n2) -> n2 <= n1 + w ->
  e2 = EDup t m2 k n2
  /\ let o := dec_run true (annotate [(m1, IKey k); (m2, IKey k)] (rev (map snd res))) in
     d_acked o = [m2] /\ d_inner o = Some [m1] /\ d_result o = DInner.
Proof.
  intros s Hr Hth E He2 Hn.
  assert (Hdup : is_dup e2 = true).
  { eapply (retained_for_window w t0 roles sched); [exact E| |].
    - destruct He2 as [->| ->]; unfold calls_key; simpl; apply N.eqb_refl.
    - destruct He2 as [->| ->]; simpl; assumption. }
  assert (He : e2 = EDup t m2 k n2) by (destruct He2 as [->| ->]; [discriminate|reflexivity]).
  split; [exact He|]. subst e2.
  pose proof (program_conserved w t0 roles sched t _ Hr) as Hp.
  pose proof (results_are_trace_calls w t0 roles sched t) as Hc. simpl in Hc. fold s in Hp, Hc.
  rewrite Hth in Hp, Hc. unfold prog_of in Hp. simpl in Hp, Hc. rewrite app_nil_r in Hp.
  assert (Hrev : calls_by t (rev (trace s)) = rev res) by (rewrite calls_by_rev, Hc; reflexivity).
  rewrite E in Hrev. rewrite calls_by_app in Hrev. simpl in Hrev. rewrite Nat.eqb_refl in Hrev.
  simpl in Hrev. rewrite calls_by_app in Hrev. simpl in Hrev. rewrite Nat.eqb_refl in Hrev. simpl in Hrev.
  assert (Hlen : length (rev res) = 2%nat).
  { rewrite rev_length, <- (map_length fst), <- rev_length, Hp. reflexivity. }
  rewrite <- Hrev in Hlen. rewrite !app_length in Hlen. simpl in Hlen. rewrite !app_length in Hlen. simpl in Hlen.
  assert (H1 : calls_by t a = []) by (apply length_zero_iff_nil; lia).
  assert (H2 : calls_by t b = []) by (apply length_zero_iff_nil; lia).
  assert (H3 : calls_by t c' = []) by (apply length_zero_iff_nil; lia).
  rewrite H1, H2, H3 in Hrev. simpl in Hrev.
  rewrite <- map_rev, <- Hrev. vm_compute. repeat split.
Qed.
