(** The API-level observation ([api_ok] of Dedup/Model.v): calls with conservative time stamps
    and no knowledge of the linearisation order.  Every observation that encloses the calls of
    an accepted trace — hence of every run of the transition system — satisfies [api_ok]. *)
From WM Require Import Base.Prelude Dedup.Model Dedup.MonProofs Dedup.Proofs.
Local Open Scope Z_scope.

Definition call_of (e : ev) : list (N * Z * bool) :=
  match e with
  | EIns _ _ k t => [(k, t, false)]
  | EDup _ _ k t => [(k, t, true)]
  | ESweep _ _ _ _ => []
  end.

Lemma trace_calls_cons e es : trace_calls (e :: es) = call_of e ++ trace_calls es.
Proof. unfold trace_calls. simpl. destruct e; reflexivity. Qed.

Lemma trace_calls_app a b : trace_calls (a ++ b) = trace_calls a ++ trace_calls b.
Proof. unfold trace_calls. apply flat_map_app. Qed.

(** a call in the call list comes from an event of the trace, splitting it accordingly *)
Lemma split_calls : forall es l1 c l2,
  trace_calls es = l1 ++ c :: l2 ->
  exists a e b, es = a ++ e :: b /\ trace_calls a = l1 /\ call_of e = [c] /\ trace_calls b = l2.
Proof.
  induction es as [|e0 es IH]; intros l1 c l2 H.
  - destruct l1; discriminate.
  - rewrite trace_calls_cons in H. destruct (call_of e0) as [|c0 [|]] eqn:Ec.
    + simpl in H. destruct (IH _ _ _ H) as (a & e & b & E1 & E2 & E3 & E4).
      exists (e0 :: a), e, b. repeat split; try assumption.
      * now rewrite E1.
      * rewrite trace_calls_cons, Ec. assumption.
    + simpl in H. destruct l1 as [|c1 l1].
      * simpl in H. inversion H; subst. exists [], e0, es. repeat split; assumption.
      * simpl in H. inversion H; subst.
        destruct (IH _ _ _ H2) as (a & e & b & E1 & E2 & E3 & E4).
        exists (e0 :: a), e, b. repeat split; try assumption.
        -- now rewrite E1.
        -- rewrite trace_calls_cons, Ec. simpl. now rewrite E2.
    + destruct e0; simpl in Ec; discriminate.
Qed.

Definition sep (w : Z) (c c' : N * Z * bool) : Prop :=
  let '(k, t, d) := c in let '(k', t', d') := c' in
  k = k' -> d = false -> d' = false -> t + w < t'.

Lemma calls_separated w t0 es l1 c l2 c' l3 :
  mon_ok w t0 es = true -> trace_calls es = l1 ++ c :: l2 ++ c' :: l3 -> sep w c c'.
Proof.
  intros Hok H. destruct c as [[k t] d]. destruct c' as [[k' t'] d']. simpl. intros -> -> ->.
  destruct (split_calls _ _ _ _ H) as (a & e & b & E1 & _ & E3 & E4).
  destruct (split_calls _ _ _ _ E4) as (a2 & e2 & b2 & F1 & _ & F3 & _).
  destruct e as [t1 m1 k1 n1| |]; simpl in E3; try discriminate. inversion E3; subst.
  destruct e2 as [t2 m2 k2 n2| |]; simpl in F3; try discriminate. inversion F3; subst.
  eapply accepted_two_new; eauto.
Qed.

Lemma dup_call_has_cause w t0 es l1 k t l3 :
  mon_ok w t0 es = true -> trace_calls es = l1 ++ (k, t, true) :: l3 ->
  exists t', In (k, t', false) l1 /\ t' <= t.
Proof.
  intros Hok H.
  destruct (split_calls _ _ _ _ H) as (a & e & b & E1 & E2 & E3 & _).
  destruct e as [|t1 m1 k1 n1|]; simpl in E3; try discriminate. inversion E3; subst.
  replace (a ++ EDup t1 m1 k t :: b) with ((a ++ [EDup t1 m1 k t]) ++ b) in Hok
    by (rewrite <- app_assoc; reflexivity).
  apply mon_ok_prefix in Hok.
  destruct (accepted_dup_has_cause _ _ _ _ _ _ _ Hok) as (pre & t' & m' & now' & post & F1 & F2 & _).
  exists now'. split; [|assumption]. subst a. rewrite trace_calls_app, trace_calls_cons. simpl.
  apply in_or_app. right. now left.
Qed.

Fixpoint sep_list (w : Z) (cs : list (N * Z * bool)) : Prop :=
  match cs with
  | [] => True
  | c :: r => Forall (sep w c) r /\ sep_list w r
  end.

Lemma sep_list_of_pairs w cs :
  (forall l1 c l2 c' l3, cs = l1 ++ c :: l2 ++ c' :: l3 -> sep w c c') ->
  forall rest l1, cs = l1 ++ rest -> sep_list w rest.
Proof.
  intros Hp rest. induction rest as [|c r IH]; intros l1 E; simpl; [exact I|]. split.
  - apply Forall_forall. intros c' Hin. apply in_split in Hin. destruct Hin as (l2 & l3 & ->).
    eapply Hp. exact E.
  - apply (IH (l1 ++ [c])). rewrite <- app_assoc. exact E.
Qed.

Lemma far_apart_of_sep w a b c c' :
  encloses a c -> encloses b c' -> sep w c c' -> far_apart w a b = true.
Proof.
  destruct c as [[k t] d]. destruct c' as [[k' t'] d']. simpl.
  intros (K1 & D1 & T1) (K2 & D2 & T2) Hs. unfold far_apart.
  destruct (N.eqb (ac_key a) (ac_key b)) eqn:Ek; simpl; [|reflexivity].
  destruct (ac_dup a) eqn:Da; simpl; [reflexivity|].
  destruct (ac_dup b) eqn:Db; simpl; [reflexivity|].
  apply N.eqb_eq in Ek. assert (t + w < t') by (apply Hs; congruence).
  assert (E : (ac_start a + w <? ac_end b) = true) by (apply Z.ltb_lt; lia).
  now rewrite E.
Qed.

Lemma pairwise_far_apart w : forall obs cs,
  Forall2 encloses obs cs -> sep_list w cs -> pairwise (far_apart w) obs = true.
Proof.
  intros obs cs H. induction H as [|a c obs cs Hac Hr IH]; intros Hs; [reflexivity|].
  simpl in *. destruct Hs as [Hf Hs]. apply andb_true_iff. split; [|now apply IH].
  clear IH Hs. induction Hr as [|b c' obs cs Hbc Hr IH2]; [reflexivity|].
  simpl. inversion Hf; subst. apply andb_true_iff. split; [|now apply IH2].
  eapply far_apart_of_sep; eauto.
Qed.

Lemma Forall2_In_l {A B} (R : A -> B -> Prop) l1 l2 x :
  Forall2 R l1 l2 -> In x l1 -> exists pre y post pre', l2 = pre ++ y :: post /\ R x y /\ Forall2 R pre' pre.
Proof.
  intros H. induction H as [|a b l1 l2 Hab Hr IH]; intros Hin; [contradiction|].
  destruct Hin as [->|Hin].
  - exists [], b, l2, []. repeat split; [assumption|constructor].
  - destruct (IH Hin) as (pre & y & post & pre' & E & Hy & Hp). subst l2.
    exists (b :: pre), y, post, (a :: pre'). repeat split; [assumption|now constructor].
Qed.

Lemma Forall2_In_r {A B} (R : A -> B -> Prop) l1 l2 y :
  Forall2 R l1 l2 -> In y l2 -> exists x, In x l1 /\ R x y.
Proof.
  intros H. induction H as [|a b l1 l2 Hab Hr IH]; intros Hin; [contradiction|].
  destruct Hin as [->|Hin]; [exists a; split; [now left|assumption]|].
  destruct (IH Hin) as (x & H1 & H2). exists x. split; [now right|assumption].
Qed.

Theorem api_sound w t0 es obs :
  mon_ok w t0 es = true -> Forall2 encloses obs (trace_calls es) -> api_ok w obs = true.
Proof.
  intros Hok Hobs. unfold api_ok. apply andb_true_iff. split.
  - eapply pairwise_far_apart; [exact Hobs|].
    apply (sep_list_of_pairs w (trace_calls es)) with (l1 := []); [|reflexivity].
    intros l1 c l2 c' l3 E. eapply calls_separated; eauto.
  - apply forallb_forall. intros b Hb. unfold has_cause.
    destruct (ac_dup b) eqn:Db; simpl; [|reflexivity].
    destruct (Forall2_In_l _ _ _ _ Hobs Hb) as (pre & c & post & pre' & E & Hbc & Hpre).
    destruct c as [[k t] d]. simpl in Hbc. destruct Hbc as (K & D & T).
    assert (d = true) by congruence. subst d. rewrite Db in E.
    destruct (dup_call_has_cause _ _ _ _ _ _ _ Hok E) as (t' & Hin & Ht).
    assert (Hin' : In (k, t', false) (trace_calls es)) by (rewrite E; apply in_or_app; now left).
    destruct (Forall2_In_r _ _ _ _ Hobs Hin') as (a & Ha & Hac). simpl in Hac.
    destruct Hac as (K' & D' & T').
    apply existsb_exists. exists a. split; [assumption|].
    rewrite K', K, N.eqb_refl, D'. simpl. apply Z.leb_le. lia.
Qed.

(** for every run of the transition system *)
Theorem api_observation_ok w t0 roles sched obs :
  Forall2 encloses obs (trace_calls (rev (trace (run w (init t0 roles) sched)))) ->
  api_ok w obs = true.
Proof. intros H. eapply api_sound; [apply trace_accepted|exact H]. Qed.
