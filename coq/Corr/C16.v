(** Comparators for C16 cases (no proofs).  A case carries the inputs, what the libraries
    (the oracles of Value/Codec.v) returned for them when the harness called them directly, and
    what the implementation returned.  [*_mismatch]: model vs implementation.
    [*_violates]: the property acceptor rejects what the implementation did. *)
From Coq Require Import Uint63.
From WM Require Import Base.Prelude Message.Model Value.Model Value.Codec Value.Json Value.Reuse Value.Scan Value.Sorted Value.JsonInt Value.Small Value.ProtoWire.

(** long byte strings arrive packed, 7 bytes per primitive 63-bit integer (little endian), the
    last word holding [tail] bytes: one cheap token per 7 bytes for Coq's parser.  Only the
    evaluation of generated cases uses this; no theorem depends on it. *)
Fixpoint word_bytes (k : nat) (w : Uint63.int) : list N :=
  match k with
  | O => []
  | S k' => Z.to_N (Uint63.to_Z (Uint63.land w 255%uint63)) :: word_bytes k' (Uint63.lsr w 8%uint63)
  end.
Fixpoint pk (ws : list Uint63.int) (tail : nat) : list N :=
  match ws with
  | [] => []
  | [w] => word_bytes tail w
  | w :: r => word_bytes 7 w ++ pk r tail
  end.

(** the variant of the model that corresponds to the repository as it is now
    (after the fix: commits for D1 and for the gogo Unmarshal fallback) *)
Definition repo_equals_fixed : bool := true.
Definition repo_gogo_fixed : bool := true.

Definition bytes_eqb : list N -> list N -> bool := list_eqb N.eqb.
Definition msg_obs_eqb (a b : msg) : bool :=
  str_eqb (uuid a) (uuid b) && option_eqb bytes_eqb (payload a) (payload b) && md_same_b (meta a) (meta b).
Definition errk_eqb (a b : errk) : bool :=
  match a, b with
  | EUnknownDest, EUnknownDest | EMarshalEnvelope, EMarshalEnvelope | EUnmarshalEnvelope, EUnmarshalEnvelope
  | EInvalidEnvelope, EInvalidEnvelope | ELibMarshal, ELibMarshal | ELibUnmarshal, ELibUnmarshal
  | ELibPanic, ELibPanic | ENoProto, ENoProto | EMarshalReply, EMarshalReply
  | EUnmarshalResult, EUnmarshalResult | EWrappedPublish, EWrappedPublish => true
  (* EOther equals nothing, not even itself: an unclassified error is always a mismatch *)
  | _, _ => false
  end.
Definition res_eqb {A} (eqb : A -> A -> bool) (x y : res A) : bool :=
  match x, y with
  | Ok a, Ok b => eqb a b
  | Err e, Err f => errk_eqb e f
  | _, _ => false
  end.
Definition is_ok {A} (x : res A) : bool := match x with Ok _ => true | Err _ => false end.

(** * Equals *)
Record eq_case := EqC { q_a : msg; q_b : msg; q_ab : bool; q_ba : bool }.
Definition eq_mismatch (c : eq_case) : bool :=
  negb (Bool.eqb (equals repo_equals_fixed (q_a c) (q_b c)) (q_ab c)
        && Bool.eqb (equals repo_equals_fixed (q_b c) (q_a c)) (q_ba c)).
Definition eq_violates (c : eq_case) : bool :=
  negb (Bool.eqb (same_value_b (q_a c) (q_b c)) (q_ab c) && Bool.eqb (same_value_b (q_b c) (q_a c)) (q_ba c)).
(** what the pinned model says, for the evidence (how many generated pairs separate the variants) *)
Definition eq_pinned_differs (c : eq_case) : bool :=
  negb (Bool.eqb (equals false (q_a c) (q_b c)) (equals true (q_a c) (q_b c))
        && Bool.eqb (equals false (q_b c) (q_a c)) (equals true (q_b c) (q_a c))).

(** * Object scripts (NewMessage / literal / Copy / Set / poke / Ack / Nack / Equals) *)
Record st_case := StC { s_ops : list vop; s_trace : list (vres * list oview) }.
Definition vres_eqb (a b : vres) : bool :=
  match a, b with
  | RObj n, RObj m => Nat.eqb n m
  | RUnit, RUnit | RPanicked, RPanicked | RInvalid, RInvalid => true
  | RB x, RB y => Bool.eqb x y
  | _, _ => false
  end.
Definition oview_eqb (a b : oview) : bool :=
  msg_obs_eqb (ov_val a) (ov_val b) && Bool.eqb (ov_acked a) (ov_acked b) && Bool.eqb (ov_nacked a) (ov_nacked b).
Definition tr_eqb (a b : list (vres * list oview)) : bool :=
  list_eqb (fun x y => vres_eqb (fst x) (fst y) && list_eqb oview_eqb (snd x) (snd y)) a b.
Definition st_mismatch (c : st_case) : bool :=
  negb (tr_eqb (vrun repo_equals_fixed empty_store (s_ops c)) (s_trace c)).
Definition st_violates (c : st_case) : bool :=
  negb (script_scoped 0 (s_ops c) && trace_ok [] (s_ops c) (s_trace c)).

(** * Envelope: wrap then unwrap *)
Record env_case := EnvC {
  c_dest : str; c_m : msg;
  c_libenc : option (list N);          (* json.Marshal of the envelope struct, called by the harness *)
  c_nu : str;                          (* the UUID the wrapped message got (normalised) *)
  c_wrap : res msg;                    (* implementation *)
  c_libdec : option envelope;          (* json.Unmarshal of the implementation's wrapped payload, called by the harness *)
  c_unwrap : res (str * msg);          (* implementation; meaningful when wrap succeeded *)
  c_valid : bool                       (* Go's utf8.ValidString on destination, UUID, every metadata key and value *)
}.
Definition pair_eqb (x y : str * msg) : bool := str_eqb (fst x) (fst y) && msg_obs_eqb (snd x) (snd y).
Definition env_inputs_utf8 (dest : str) (m : msg) : bool :=
  utf8_valid dest && utf8_valid (uuid m) && md_utf8 (meta m).
Definition env_mismatch (c : env_case) : bool :=
  let w := wrap (fun _ => c_libenc c) (c_nu c) (c_dest c) (c_m c) in
  negb (res_eqb msg_obs_eqb w (c_wrap c)
        && Bool.eqb (env_inputs_utf8 (c_dest c) (c_m c)) (c_valid c)      (* the Gallina validator is Go's *)
        && match c_wrap c with
           | Ok wi => res_eqb pair_eqb (unwrap (fun _ => c_libdec c) wi) (c_unwrap c)
           | Err _ => true
           end).
Definition env_violates (c : env_case) : bool :=
  if str_eqb (c_dest c) [] then is_ok (c_wrap c)                 (* an empty destination must be refused *)
  else if env_inputs_utf8 (c_dest c) (c_m c)
       then negb (is_ok (c_wrap c) && envelope_rt_ok (c_dest c) (c_m c) (c_unwrap c))
       else false.                                                (* outside the property's quantifier *)
(** did encoding/json keep its side of the bargain on this case (reported separately) *)
Definition envelope_eqb (e f : envelope) : bool :=
  str_eqb (e_dest e) (e_dest f) && str_eqb (e_uuid e) (e_uuid f)
  && option_eqb bytes_eqb (e_payload e) (e_payload f) && md_same_b (e_meta e) (e_meta f).
Definition env_law_fails (c : env_case) : bool :=
  env_inputs_utf8 (c_dest c) (c_m c) && is_ok (c_wrap c)
  && negb (option_eqb envelope_eqb (c_libdec c) (Some (Env (c_dest c) (uuid (c_m c)) (payload (c_m c)) (meta (c_m c))))).

(** unwrap alone, on arbitrary bytes *)
Record unw_case := UnwC { u_payload : option (list N); u_libdec : option envelope; u_got : res (str * msg) }.
Definition unw_mismatch (c : unw_case) : bool :=
  negb (res_eqb pair_eqb (unwrap (fun _ => u_libdec c) (Msg [] (u_payload c) (Some []))) (u_got c)).
Definition unw_violates (c : unw_case) : bool :=
  match u_got c with Ok (d, _) => str_eqb d [] | Err _ => false end.

(** forwarder.Publisher with a recording publisher behind it *)
Record pub_case := PubC {
  p_cfg : str; p_inner_ok : bool; p_dest : str; p_ms : list msg;
  p_libencs : list (option (list N));          (* per message *)
  p_got : res (str * list msg);                (* topic + envelopes seen by the wrapped publisher (UUIDs normalised) *)
  p_libdecs : list (option envelope);          (* per envelope seen *)
  p_unwrapped : list (res (str * msg))         (* implementation's unwrap of each envelope seen *)
}.
Fixpoint assoc {A B} (eqb : A -> A -> bool) (l : list (A * B)) (a : A) : option B :=
  match l with [] => None | (x, y) :: l' => if eqb x a then Some y else assoc eqb l' a end.
Definition env_exact_eqb (e f : envelope) : bool :=
  str_eqb (e_dest e) (e_dest f) && str_eqb (e_uuid e) (e_uuid f)
  && option_eqb bytes_eqb (e_payload e) (e_payload f)
  && option_eqb (list_eqb (fun x y => str_eqb (fst x) (fst y) && str_eqb (snd x) (snd y))) (e_meta e) (e_meta f).
Definition pub_jenc (c : pub_case) (e : envelope) : option (list N) :=
  match assoc env_exact_eqb (combine (map (fun m => Env (p_dest c) (uuid m) (payload m) (meta m)) (p_ms c)) (p_libencs c)) e with
  | Some r => r | None => None end.
Definition pub_jdec (c : pub_case) (b : list N) : option envelope :=
  match p_got c with
  | Ok (_, ws) => match assoc bytes_eqb (combine (map (fun w => pl_bytes (payload w)) ws) (p_libdecs c)) b with Some r => r | None => None end
  | Err _ => None
  end.
Definition nu_norm : str := [85]%N.
Definition pub_mismatch (c : pub_case) : bool :=
  let r := fwd_publish (pub_jenc c) nu_norm (p_cfg c) (p_inner_ok c) (p_dest c) (p_ms c) in
  negb (res_eqb (fun x y => str_eqb (fst x) (fst y) && list_eqb msg_obs_eqb (snd x) (snd y)) r (p_got c)
        && match p_got c with
           | Ok (_, ws) => list_eqb (res_eqb pair_eqb) (map (unwrap (pub_jdec c)) ws) (p_unwrapped c)
           | Err _ => true
           end).
Definition pub_violates (c : pub_case) : bool :=
  if str_eqb (p_dest c) [] then (match p_ms c with [] => false | _ => is_ok (p_got c) end)
  else if forallb (env_inputs_utf8 (p_dest c)) (p_ms c) && p_inner_ok c
       then negb (match p_got c with
                  | Ok (ft, ws) =>
                      str_eqb ft (if str_eqb (p_cfg c) [] then default_forwarder_topic else p_cfg c)
                      && Nat.eqb (length ws) (length (p_ms c))
                      && Nat.eqb (length (p_unwrapped c)) (length (p_ms c))
                      && forallb (fun mu => envelope_rt_ok (p_dest c) (fst mu) (snd mu)) (combine (p_ms c) (p_unwrapped c))
                  | Err _ => false
                  end)
       else false.

(** * CQRS marshalers.  Values are their canonical rendering (bytes). *)
Record cq_case := CqC {
  k_kind : nat;                           (* 0 JSONMarshaler, 1 ProtoMarshaler, 2 ProtobufMarshaler (gogo) *)
  k_nofb : bool;                          (* DisableStdProtoFallback *)
  k_ts : str;                             (* %T of the value passed *)
  k_gen : option str;                     (* GenerateName configured: what it returns for the value *)
  k_cfguuid : option str;                 (* NewUUID configured: what it returns *)
  k_v : str;                              (* the value *)
  k_ismsg : bool; k_isgogo : bool;
  k_venc : option (option (list N));      (* json.Marshal / std proto.Marshal of the value *)
  k_genc : lib (option (list N));         (* gogo proto.Marshal of the value *)
  k_marshal : res msg;                    (* implementation; generated UUID normalised *)
  k_name : str;                           (* implementation: Name(v) *)
  k_name_other : str;                     (* implementation: Name of the pointer resp. of the pointee *)
  k_nfm : str;                            (* implementation: NameFromMessage(marshalled) *)
  k_vdec : option str;                    (* std library on the marshalled payload *)
  k_gdec : lib str;                       (* gogo library on the marshalled payload *)
  k_unmarshal : res str                   (* implementation *)
}.
Definition cq_gen (c : cq_case) : option (str -> str) := option_map (fun g (_ : str) => g) (k_gen c).
Definition cq_marshal (c : cq_case) : res msg :=
  let ts := fun _ : str => k_ts c in
  match k_kind c with
  | 0 => json_marshal str ts (cq_gen c) (k_cfguuid c) nu_norm (fun _ => k_venc c) (k_v c)
  | 1 => proto_marshal str ts (cq_gen c) (k_cfguuid c) nu_norm (k_ismsg c) (fun _ => k_venc c) (k_v c)
  | _ => gogo_marshal str ts (cq_gen c) (k_cfguuid c) nu_norm (k_ismsg c) (fun _ => k_venc c) (k_isgogo c) (fun _ => k_genc c) (k_nofb c) (k_v c)
  end.
Definition cq_unmarshal (c : cq_case) (m : msg) : res str :=
  match k_kind c with
  | 0 => json_unmarshal str (fun _ => k_vdec c) m
  | 1 => proto_unmarshal str (k_ismsg c) (fun _ => k_vdec c) m
  | _ => gogo_unmarshal str (k_ismsg c) (fun _ => k_vdec c) (k_isgogo c) (fun _ => k_gdec c) (k_nofb c) repo_gogo_fixed m
  end.
Definition cq_name (c : cq_case) : str := name_of str (fun _ => k_ts c) (cq_gen c) (k_v c).
Definition cq_mismatch (c : cq_case) : bool :=
  negb (res_eqb msg_obs_eqb (cq_marshal c) (k_marshal c)
        && str_eqb (cq_name c) (k_name c)
        && match k_marshal c with
           | Ok m => str_eqb (name_from_message m) (k_nfm c) && res_eqb str_eqb (cq_unmarshal c m) (k_unmarshal c)
           | Err _ => true
           end).
(** the library laws the round-trip theorem assumes, evaluated on this case *)
Definition lib_str_eqb (x y : lib str) : bool :=
  match x, y with LOk a, LOk b => str_eqb a b | LErr, LErr | LPanic, LPanic => true | _, _ => false end.
Definition cq_laws (c : cq_case) : bool :=
  match k_kind c with
  | 0 | 1 => option_eqb str_eqb (k_vdec c) (Some (k_v c))
  | _ =>
      if k_isgogo c && (match k_genc c with LOk _ => true | _ => false end)
      then lib_str_eqb (k_gdec c) (LOk (k_v c))               (* gogo wrote the bytes: gogo must read them back *)
      else option_eqb str_eqb (k_vdec c) (Some (k_v c))       (* the fallback wrote them: it must read them back, *)
           && match k_gdec c with LOk v' => str_eqb v' (k_v c) | _ => true end   (* and gogo fails or agrees *)
  end.
Definition cq_violates (c : cq_case) : bool :=
  (* Name ignores pointer-ness when no GenerateName is configured *)
  (match k_gen c with None => negb (str_eqb (k_name c) (k_name_other c)) | Some _ => false end)
  || (is_ok (k_marshal c) && cq_laws c
      && negb (cqrs_rt_ok str (fun _ => k_ts c) (cq_gen c) str_eqb (k_v c) (k_marshal c) (k_nfm c) (k_unmarshal c))).

(** NameFromMessage on arbitrary messages: Metadata.Get("name") *)
Record nfm_case := NfmC { n_m : msg; n_got : str }.
Definition nfm_mismatch (c : nfm_case) : bool := negb (str_eqb (name_from_message (n_m c)) (n_got c)).

(** * Request-reply *)
Record rp_case := RpC {
  y_res : str; y_err : option str;
  y_renc : option (option (list N));
  y_marshal : res msg;
  y_rdec : option str;
  y_unmarshal : res (str * option str)
}.
Definition reply_obs_eqb (x y : str * option str) : bool := str_eqb (fst x) (fst y) && option_eqb str_eqb (snd x) (snd y).
Definition rp_of (r : res (reply str)) : res (str * option str) :=
  match r with Ok rp => Ok (r_result str rp, r_err str rp) | Err e => Err e end.
Definition rp_mismatch (c : rp_case) : bool :=
  negb (res_eqb msg_obs_eqb (marshal_reply str (fun _ => y_renc c) nu_norm (RP str (y_res c) (y_err c))) (y_marshal c)
        && match y_marshal c with
           | Ok m => res_eqb reply_obs_eqb (rp_of (unmarshal_reply str (fun _ => y_rdec c) m)) (y_unmarshal c)
           | Err _ => true
           end).
Definition rp_violates (c : rp_case) : bool :=
  is_ok (y_marshal c) && option_eqb str_eqb (y_rdec c) (Some (y_res c))
  && negb (reply_rt_ok str str_eqb (RP str (y_res c) (y_err c)) (y_marshal c)
             (match y_unmarshal c with Ok (r, e) => Ok (Rep str r e) | Err e => Err e end)).

(** UnmarshalReply alone, on arbitrary messages *)
Record ru_case := RuC { z_m : msg; z_rdec : option str; z_got : res (str * option str) }.
Definition ru_mismatch (c : ru_case) : bool :=
  negb (res_eqb reply_obs_eqb (rp_of (unmarshal_reply str (fun _ => z_rdec c) (z_m c))) (z_got c)).

(** the Gallina UTF-8 validator against Go's utf8.Valid *)
Record u8_case := U8C { w_s : str; w_valid : bool }.
Definition u8_mismatch (c : u8_case) : bool := negb (Bool.eqb (utf8_valid (w_s c)) (w_valid c)).
Definition u8_mismatches (cs : list u8_case) := positions (map u8_mismatch cs).

(** * round "proofs": the Gallina JSON string codec, base64 and envelope text against Go *)
Record js_case := JsC { j_s : str; j_enc : list N; j_lit : list N; j_dec : option (list N) }.
Definition js_mismatch (c : js_case) : bool :=
  negb (bytes_eqb (enc_str (j_s c)) (j_enc c) && option_eqb bytes_eqb (dec_str (j_lit c)) (j_dec c)).
Record b64_case := B64C { b_b : list N; b_enc : list N; b_in : list N; b_dec : option (list N) }.
Definition b64_mismatch (c : b64_case) : bool :=
  negb (bytes_eqb (b64enc (b_b c)) (b_enc c) && option_eqb bytes_eqb (b64dec (b_in c)) (b_dec c)).

(** the envelope text: the model writes the very bytes the implementation wrote, and reads any
    payload the way the implementation does, given only the member split of the objects involved *)
Record jw_case := JwC {
  jw_wrap : option (str * msg);                 (* wrap cases: destination and message *)
  jw_valid : bool;
  jw_p : option (list N);                       (* payload of the envelope message *)
  jw_frames : list (list N * option (list (list N * list N)));   (* the unframe oracle, tabulated by the harness *)
  jw_got : res (str * msg)                      (* real unwrapMessageFromEnvelope *)
}.
Definition unframe_tbl (c : jw_case) (b : list N) : option (list (list N * list N)) :=
  match assoc bytes_eqb (jw_frames c) b with Some r => r | None => None end.
(** round "proofs 2": the Gallina scanner [unframe_std] answers first; only where it declines (numbers,
    arrays, deeper nesting: outside the shapes it is proved on) the harness' splitter is consulted —
    and wherever both answer they must agree; on what wrapMessageInEnvelope wrote it must answer *)
Definition members_eqb (x y : list (list N * list N)) : bool :=
  list_eqb (fun a b => bytes_eqb (fst a) (fst b) && bytes_eqb (snd a) (snd b)) x y.
Definition unframe_mix (c : jw_case) (b : list N) : option (list (list N * list N)) :=
  match unframe_std b with Some ms => Some ms | None => unframe_tbl c b end.
Definition frames_agree (c : jw_case) : bool :=
  forallb (fun f => match unframe_std (fst f) with
                    | Some ms => option_eqb members_eqb (snd f) (Some ms)
                    | None => true
                    end) (jw_frames c).
Definition jw_mismatch (c : jw_case) : bool :=
  (match jw_wrap c with
   | Some (d, m) => negb (option_eqb bytes_eqb (jenc_sorted (env_of d m)) (jw_p c))   (* metadata arrives UNsorted; the model sorts as Go does *)
                    || negb (res_eqb pair_eqb (unwrap (jdec_env unframe_std) (Msg [] (jw_p c) (Some []))) (jw_got c))
   | None => false
   end)
  || negb (frames_agree c)
  || negb (res_eqb pair_eqb (unwrap (jdec_env (unframe_mix c)) (Msg [] (jw_p c) (Some []))) (jw_got c)).
Definition jw_violates (c : jw_case) : bool :=
  match jw_wrap c with
  | Some (d, m) => jw_valid c && negb (envelope_rt_ok d m (jw_got c))
  | None => match jw_got c with Ok (d, _) => str_eqb d [] | Err _ => false end
  end.
(** message context through the envelope: the model's wrap_c / unwrap_c against the observed contexts *)
Record ctx_case := CtxC { x_in : N; x_delivered : N; x_wrapped : N; x_unwrapped : N; x_copy : N; x_orig_after : N }.
Definition ctx_mismatch (c : ctx_case) : bool :=
  let m0 := Msg [] None None in
  match wrap_c (fun _ => Some []) [85]%N [116]%N (m0, x_in c) with
  | Ok w =>
      negb (N.eqb (snd w) (x_wrapped c)
            && match unwrap_c (fun _ => Some (env_of [116]%N m0)) (fst w, x_delivered c) with
               | Ok (_, (_, cu)) => N.eqb cu (x_unwrapped c)
               | Err _ => false
               end
            (* Copy() of the message: no context on the copy, the original keeps its own *)
            && N.eqb (snd (copy_c (set_context (m0, 0%N) (x_in c)))) (x_copy c)
            && N.eqb (snd (set_context (m0, 0%N) (x_in c))) (x_orig_after c))
  | Err _ => true
  end.
Definition ctx_mismatches (cs : list ctx_case) := positions (map ctx_mismatch cs).

(** different marshalers on the two sides *)
Record cc_case := CcC { y_c : cq_case; y_kind_u : nat; y_nofb_u : bool }.
Definition cc_unmarshal (x : cc_case) (m : msg) : res str :=
  let c := y_c x in
  match y_kind_u x with
  | 1 => proto_unmarshal str (k_ismsg c) (fun _ => k_vdec c) m
  | _ => gogo_unmarshal str (k_ismsg c) (fun _ => k_vdec c) (k_isgogo c) (fun _ => k_gdec c) (y_nofb_u x) repo_gogo_fixed m
  end.
Definition cc_mismatch (x : cc_case) : bool :=
  let c := y_c x in
  negb (res_eqb msg_obs_eqb (cq_marshal c) (k_marshal c)
        && match k_marshal c with
           | Ok m => res_eqb str_eqb (cc_unmarshal x m) (k_unmarshal c)
           | Err _ => true
           end).
Definition cc_mismatches (cs : list cc_case) := positions (map cc_mismatch cs).

(** round "seeds 3": one Unmarshal into a target that already holds [t_prev]; the library oracles
    are what the documented calls return on an independent copy of that target ([*into]) and on
    a fresh one ([*fresh]) *)
Record tg_case := TgC {
  t_kind : nat; t_nofb : bool; t_ismsg : bool; t_isgogo : bool;
  t_v : option str;                      (* the value that was marshalled (None: payload not from Marshal) *)
  t_payload : option (list N);
  t_prev : str;
  t_vinto : option str; t_vfresh : option str;
  t_ginto : lib str; t_gleft : str; t_gfresh : lib str;
  t_got : res str                        (* implementation: error kind, or what the target holds afterwards *)
}.
Definition tg_model (c : tg_case) (into : bool) : res str :=
  let m := Msg [] (t_payload c) None in
  let vd := fun (_ : str) (_ : list N) => if into then t_vinto c else t_vfresh c in
  let gd := fun (_ : str) (_ : list N) => (if into then t_ginto c else t_gfresh c, t_gleft c) in
  match t_kind c with
  | 0 => json_unmarshal_into str vd (t_prev c) m
  | 1 => proto_unmarshal_into str vd (t_ismsg c) (t_prev c) m
  | _ => gogo_unmarshal_into str vd (t_ismsg c) (t_isgogo c) gd (t_nofb c) repo_gogo_fixed (t_prev c) m
  end.
Definition tg_mismatch (c : tg_case) : bool := negb (res_eqb str_eqb (tg_model c true) (t_got c)).
(** verdict only where the libraries keep their side (read the value back, into this target as
    into a fresh one): then the target must hold exactly the value that was marshalled *)
Definition tg_laws (c : tg_case) : bool :=
  match t_v c with
  | Some v => res_eqb str_eqb (tg_model c true) (Ok v) && res_eqb str_eqb (tg_model c false) (Ok v)
  | None => false
  end.
Definition tg_violates (c : tg_case) : bool :=
  match t_v c with
  | Some v => tg_laws c && negb (res_eqb str_eqb (t_got c) (Ok v))
  | None => false
  end.
Definition tg_mismatches (cs : list tg_case) := positions (map tg_mismatch cs).
Definition tg_violations (cs : list tg_case) := positions (map tg_violates cs).
Definition tg_law_failures (cs : list tg_case) :=
  positions (map (fun c => match t_v c with Some _ => negb (tg_laws c) | None => false end) cs).

(** integers as JSON text against json.Marshal(int64) / json.Unmarshal(.., &int64) *)
Record ji_case := JiC { i_z : Z; i_enc : list N; i_in : list N; i_dec : option Z }.
Definition ji_mismatch (c : ji_case) : bool :=
  negb (bytes_eqb (enc_int (i_z c)) (i_enc c) && option_eqb Z.eqb (dec_int (i_in c)) (i_dec c)).
Definition ji_mismatches (cs : list ji_case) := positions (map ji_mismatch cs).

(** round "proofs 3": Messages.IDs, LogFields.Add / Copy, identifier formats *)
Inductive sm_case :=
| SmIds (ms : list msg) (got : list str)
| SmAdd (l new : option metadata) (got : metadata) (unchanged : bool)
| SmCopy (l : option metadata) (got : metadata) (unchanged : bool)
| SmId (kind : nat) (s : str).
Definition sm_mismatch (c : sm_case) : bool :=
  match c with
  | SmIds ms got => negb (list_eqb str_eqb (ids ms) got)
  | SmAdd l new got u => negb (md_same_b (Some (lf_add l new)) (Some got) && u)
  | SmCopy l got u => negb (md_same_b (Some (lf_copy l)) (Some got) && u)
  | SmId k s => negb (match k with 0 => uuid4_format s | 1 => shortuuid_format s | _ => ulid_format s end)
  end.
Definition sm_mismatches (cs : list sm_case) := positions (map sm_mismatch cs).

(** protobuf wire bytes of the wrapper messages *)
Inductive pw_val := PwBytes (b : list N) | PwInt (z : Z) | PwBool (b : bool).
Definition pw_val_eqb (x y : pw_val) : bool :=
  match x, y with
  | PwBytes a, PwBytes b => bytes_eqb a b
  | PwInt a, PwInt b => Z.eqb a b
  | PwBool a, PwBool b => Bool.eqb a b
  | _, _ => false
  end.
Record pw_case := PwC { w_kind : nat; w_v : pw_val; w_enc : option (list N); w_in : list N; w_mustfail : bool; w_dec : option pw_val }.
Definition pw_enc (k : nat) (v : pw_val) : option (list N) :=
  match k, v with
  | 0, PwBytes s => enc_string_msg s
  | 1, PwBytes s => Some (enc_len_msg s)
  | 2, PwInt z => Some (enc_int64_msg z)
  | 3, PwBool b => Some (enc_bool_msg b)
  | _, _ => None
  end.
Definition pw_dec (k : nat) (b : list N) : option pw_val :=
  match k with
  | 0 => option_map PwBytes (dec_string_msg b)
  | 1 => option_map PwBytes (dec_len_msg b)
  | 2 => option_map PwInt (dec_int64_msg b)
  | _ => option_map PwBool (dec_bool_msg b)
  end.
(** the model writes the library's bytes; where the model's decoder answers, the library gives the
    same value; what must be refused is refused by both *)
Definition pw_mismatch (c : pw_case) : bool :=
  negb (option_eqb bytes_eqb (pw_enc (w_kind c) (w_v c)) (w_enc c)
        && match pw_dec (w_kind c) (w_in c) with
           | Some v => option_eqb pw_val_eqb (w_dec c) (Some v)
           | None => true
           end
        && (if w_mustfail c then match pw_dec (w_kind c) (w_in c), w_dec c with None, None => true | _, _ => false end else true)).
Definition pw_mismatches (cs : list pw_case) := positions (map pw_mismatch cs).

Definition js_mismatches (cs : list js_case) := positions (map js_mismatch cs).
Definition b64_mismatches (cs : list b64_case) := positions (map b64_mismatch cs).
Definition jw_mismatches (cs : list jw_case) := positions (map jw_mismatch cs).
Definition jw_violations (cs : list jw_case) := positions (map jw_violates cs).

Definition eq_mismatches (cs : list eq_case) := positions (map eq_mismatch cs).
Definition eq_violations (cs : list eq_case) := positions (map eq_violates cs).
Definition eq_pinned_diffs (cs : list eq_case) := positions (map eq_pinned_differs cs).
Definition st_mismatches (cs : list st_case) := positions (map st_mismatch cs).
Definition st_violations (cs : list st_case) := positions (map st_violates cs).
Definition env_mismatches (cs : list env_case) := positions (map env_mismatch cs).
Definition env_violations (cs : list env_case) := positions (map env_violates cs).
Definition env_law_failures (cs : list env_case) := positions (map env_law_fails cs).
Definition unw_mismatches (cs : list unw_case) := positions (map unw_mismatch cs).
Definition unw_violations (cs : list unw_case) := positions (map unw_violates cs).
Definition pub_mismatches (cs : list pub_case) := positions (map pub_mismatch cs).
Definition pub_violations (cs : list pub_case) := positions (map pub_violates cs).
Definition cq_mismatches (cs : list cq_case) := positions (map cq_mismatch cs).
Definition cq_violations (cs : list cq_case) := positions (map cq_violates cs).
Definition cq_law_failures (cs : list cq_case) := positions (map (fun c => is_ok (k_marshal c) && negb (cq_laws c)) cs).
Definition nfm_mismatches (cs : list nfm_case) := positions (map nfm_mismatch cs).
Definition rp_mismatches (cs : list rp_case) := positions (map rp_mismatch cs).
Definition rp_violations (cs : list rp_case) := positions (map rp_violates cs).
Definition ru_mismatches (cs : list ru_case) := positions (map ru_mismatch cs).
