(** Comparators for the C10 scenarios: strict schedule replay of the mapped hook log on
    RouterLife/Model.v with the observations the stamps carry, and the property monitor on the
    implementation's API history.  No proofs. *)
From WM Require Import Base.Prelude RouterLife.Model RouterLife.Monitor.

Scheme Equality for stopres.
Definition opt_eqb := opt_nat_eqb.
Definition aev_eqb (a b : aev) : bool :=
  match a, b with
  | AAdd h p, AAdd h' p' => Nat.eqb h h' && opt_eqb p p'
  | ARunCall t, ARunCall t' => Nat.eqb t t'
  | ARunRet t ok, ARunRet t' ok' => Nat.eqb t t' && Bool.eqb ok ok'
  | ARunningObs, ARunningObs => true
  | ASubscribe h ok, ASubscribe h' ok' => Nat.eqb h h' && Bool.eqb ok ok'
  | ARHCall t, ARHCall t' => Nat.eqb t t'
  | ARHRet t ok, ARHRet t' ok' => Nat.eqb t t' && Bool.eqb ok ok'
  | AStartedObs h, AStartedObs h' => Nat.eqb h h'
  | AStopCall t h, AStopCall t' h' => Nat.eqb t t' && Nat.eqb h h'
  | AStopRet t r, AStopRet t' r' => Nat.eqb t t' && stopres_beq r r'
  | AStoppedGet h b, AStoppedGet h' b' => Nat.eqb h h' && Bool.eqb b b'
  | AStoppedObs h, AStoppedObs h' => Nat.eqb h h'
  | ACancel, ACancel => true
  | ACloseCall t, ACloseCall t' => Nat.eqb t t'
  | ACloseRet t ok, ACloseRet t' ok' => Nat.eqb t t' && Bool.eqb ok ok'
  | ASubEnd h, ASubEnd h' => Nat.eqb h h'
  | AProcessed h ok, AProcessed h' ok' => Nat.eqb h h' && Bool.eqb ok ok'
  | APubClose p, APubClose p' => Nat.eqb p p'
  | AWeak, AWeak => true
  | AProbeStuck h, AProbeStuck h' => Nat.eqb h h'
  | ARunHung, ARunHung => true
  | _, _ => false
  end.

(** a label with what the implementation showed at that step (None = not compared) *)
Definition xlabel := (label * option (list aev))%type.

Definition check (e : option (list aev)) (evs : list aev) : bool :=
  match e with None => true | Some es => list_eqb aev_eqb es evs end.

(** 0 = accepted; n+1 = the n-th label (0-based) was not enabled or its events differ *)
Fixpoint replay (s : rstate) (ls : list xlabel) (i : nat) : nat * rstate :=
  match ls with
  | [] => (0, s)
  | (l, e) :: ls' =>
      match step s l with
      | Some (s', evs) => if check e evs then replay s' ls' (S i) else (S i, s)
      | None => (S i, s)
      end
  end.

Record l_case := LC { l_fix4 : bool; l_fix14 : bool; l_fix15 : bool; l_fix16 : bool; l_labels : list xlabel; l_hist : list aev }.

Definition rpc_code (p : rpc) : nat :=
  match p with RNone => 0 | RWatch => 1 | RRH _ => 2 | RCloseRunning => 3 | RWaitClosing => 4
             | RWaitClosed => 5 | RDone true => 6 | RDone false => 7 end.

(** result of a case:
    (first rejected label or 0, model panicked, main Run pc code, successful Subscribes per handler,
     closed publishers among 0..7, monitor: None or (position, code) on the IMPLEMENTATION history) *)
Definition l_run (c : l_case) :=
  let '(r, s) := replay (rinit (l_fix4 c) (l_fix14 c) (l_fix15 c) (l_fix16 c)) (l_labels c) 0 in
  (r, panicked s, rpc_code (mainp s),
   map (fun h => h_subs (hs s h)) (seq 0 (nexth s)),
   map (pubClosed s) (seq 0 8),
   match first_bad minit (l_hist c) 0 with None => (0, 0) | Some (i, code) => (S i, code) end).

Definition l_results (cs : list l_case) := map l_run cs.
