(** Comparators for C02 cases (no proofs).  Messages are numbers: 0 = the consumed object
    itself, i = the i-th fresh message of the handler, 50+p = the message appended by the
    middleware at position p; +1000 = content differs from what was produced. *)
From WM Require Import Base.Prelude Message.Model Handler.RouterHandle Handler.RouterFrom.

Record c02_case := C02 {
  k_init : settle;                      (* settlement of the message when the subscriber handed it over
                                           (a subscriber / subscriber decorator may have settled it already) *)
  k_pk : pubkind; k_pb : pubbeh; k_mws : list (mw N);
  k_r : chain_result N;                 (* what the scripted handler itself does *)
  k_tr : list (hevent N); k_final : settle
}.

Definition hevent_eqb (a b : hevent N) : bool :=
  match a, b with
  | HCall, HCall => true
  | HPreSettle a1 r1, HPreSettle a2 r2 => Bool.eqb a1 a2 && Bool.eqb r1 r2
  | HPublish o1 s1, HPublish o2 s2 => list_eqb N.eqb o1 o2 && settle_eqb s1 s2
  | HPublishRet a1, HPublishRet a2 => Bool.eqb a1 a2
  | HPublishPanic, HPublishPanic => true
  | HSettle a1 _, HSettle a2 _ => Bool.eqb a1 a2     (* the Router ignores the return value; not observable *)
  | _, _ => false
  end.

Definition c02_chain (c : c02_case) : chain_result N := mws_apply (k_mws c) (k_r c).

Definition arrived (w : settle) : mstate :=
  match w with
  | Unsettled => init CtorNew
  | Acked => fst (step (init CtorNew) OpAck)
  | Nacked => fst (step (init CtorNew) OpNack)
  end.
Definition c02_mismatch (c : c02_case) : bool :=
  let '(m, tr) := handle_from (arrived (k_init c)) (k_pk c) (k_pb c) (c02_chain c) in
  negb (list_eqb hevent_eqb tr (k_tr c) && settle_eqb (st m) (k_final c)).
(** the verdict: the acceptor [c02_monitor_from] with the arrival settlement of the case
    (Props/C02.v: C02_from_model_accepted — every model run from every reachable arrival state
    passes it; for an unsettled arrival it is [c02_monitor], C02_monitor_from_unsettled_is_monitor).
    For a message that arrives already settled it demands: the chain is still invoked exactly
    once, the Router still makes its one settle call, last (which cannot change anything: first
    wins, C03), the final settlement is that of arrival, inside Publish the message shows the
    arrival settlement, outputs are published as for any other message.  (It subsumes the
    acceptor [arrived_settled_monitor] of the earlier rounds: every conjunct of that one is a
    conjunct of this one.) *)
Definition c02_violates (c : c02_case) : bool :=
  negb (c02_monitor_from N.eqb (k_init c) (k_pk c) (k_pb c) (c02_chain c) (k_tr c) (k_final c)).

Definition c02_mismatches (cs : list c02_case) : list nat := positions (map c02_mismatch cs).
Definition c02_violations (cs : list c02_case) : list nat := positions (map c02_violates cs).
