(** Comparators for C20 cases (no proofs): model vs implementation ([*_mismatch]) and the
    property acceptors of Decor/Monitor.v on what the implementation did ([*_violates]). *)
From WM Require Import Base.Prelude Message.Model Handler.RouterHandle Decor.Model Decor.Heap Decor.Monitor Decor.RouterMetrics Decor.MwStack.

(** * publisher stacks *)
Record pub_case := PubCase {
  pk_st : list pdec; pk_heap : list pmsg; pk_script : list (option N); pk_calls : list pcall;
  pk_obs : list pobs;                   (* the calls as observed, in (linearised) order *)
  pk_tab : list (plabel * nat);         (* publish_time_seconds sample counts, gathered at the end *)
  pk_final : list pmsg;                 (* all message objects at the end *)
  pk_close : nat * list (option N * option N)  (* Close called 1-3 times: calls seen by the wrapped publisher; per call its answer and what Close returned *)
}.

(** the in-place model (Decor/Heap.v): also right when a batch holds the same object twice *)
Fixpoint pcmp (stk : list pdec) (s : pstate) (calls : list pcall) (obs : list pobs) : bool :=
  match calls, obs with
  | [], [] => true
  | c :: cs, o :: os =>
      let r := publish_h stk (ps_script s) (pc_topic c) (pc_batch c) (ps_heap s) in
      N.eqb (pc_topic c) (c_topic o)
      && list_eqb pmsg_eqb (hreads (ps_heap s) (pc_batch c)) (c_before o)
      && list_eqb pevent_eqb (ho_ev r) (c_ev o)
      && optN_eqb (ho_res r) (c_res o)
      && list_eqb pmsg_eqb (hreads (ho_heap r) (pc_batch c)) (c_after o)
      && optN_eqb (hd None (ps_script s)) (c_answer o)
      && pcmp stk (pstep_h stk s c) cs os
  | _, _ => false
  end.

(** by-value model = in-place model on the case (a theorem when no batch repeats an object) *)
Definition pstate_eqb (a b : pstate) : bool :=
  list_eqb pmsg_eqb (ps_heap a) (ps_heap b) && list_eqb optN_eqb (ps_script a) (ps_script b)
  && list_eqb pevent_eqb (ps_ev a) (ps_ev b) && list_eqb plabel_eqb (ps_obs a) (ps_obs b)
  && list_eqb optN_eqb (ps_res a) (ps_res b).
Definition nodup_nat (l : list nat) : bool := nodupb (map N.of_nat l).

Definition close_eqb (a b : nat * option N) : bool := Nat.eqb (fst a) (fst b) && optN_eqb (snd a) (snd b).

Definition pub_mismatch (c : pub_case) : bool :=
  let s := prun_h (pk_st c) (pk_heap c) (pk_script c) (pk_calls c) in
  negb (pcmp (pk_st c) (PS (pk_heap c) (pk_script c) [] [] []) (pk_calls c) (pk_obs c)
        && list_eqb pmsg_eqb (ps_heap s) (pk_final c)
        && counts_agree plabel_eqb (pk_tab c) (ps_obs s)
        && forallb (fun x => close_eqb (pclose (pk_st c) (fst x)) (1%nat, snd x)) (snd (pk_close c))
        && Nat.eqb (fst (pk_close c)) (length (snd (pk_close c)))).

(** [pk_heap] holds objects that were never handed to a metrics-decorated publisher: none of them
    may carry the publish mark (whatever else they have been through) *)
Definition pub_violates (c : pub_case) : bool :=
  negb (forallb (fun m => negb (pm_mark m)) (pk_heap c)
        && pub_monitor_full (pk_st c) (pk_obs c) (pk_tab c)
        && forallb (fun x => optN_eqb (fst x) (snd x)) (snd (pk_close c))   (* every Close call returns the wrapped answer of THAT call *)
        && Nat.eqb (fst (pk_close c)) (length (snd (pk_close c)))).         (* and reaches the wrapped publisher: once per call *)

(** * subscriber stacks *)
Record sub_case := SubCase {
  sk_st : list sdec; sk_heap : list smsg; sk_ops : list sop;
  sk_seen : sseen;
  sk_rets : list bool                   (* what the consumer's Ack/Nack calls returned *)
}.

Definition res_true (r : res) : bool := match r with RBool b => b | _ => false end.

Definition sub_mismatch (c : sub_case) : bool :=
  let w := srun (sk_st c) (sk_heap c) (sk_ops c) in
  let o := sk_seen c in
  negb (list_eqb (fun a b => Nat.eqb (fst (fst a)) (fst (fst b)) && N.eqb (snd (fst a)) (snd (fst b))
                             && list_eqb N.eqb (snd a) (snd b))
                 (map (fun x => (fst x, sm_rest (snd x), sm_trail (snd x))) (sw_out w)) (s_out o)
        && list_eqb settle_eqb (map (fun m => st (sm_st m)) (sw_heap w)) (s_final o)
        && Nat.eqb (sw_closes w) (s_closes o)
        && forallb (fun x => optN_eqb (snd (pclose (sk_st c) (fst x))) (snd x)) (s_close_rets o)
        && list_eqb Bool.eqb (map res_true (sw_rets w)) (sk_rets c)
        && counts_agree slabel_eqb (s_tab o) (map sobs_label (sw_obs w))).

(** the acceptor on the MODEL's own run of the case (the list-level acceptance of the subscriber
    acceptor is not a theorem; it is evaluated on every generated case instead) *)
Definition sub_model_rejected (c : sub_case) : bool :=
  let w := srun (sk_st c) (sk_heap c) (sk_ops c) in
  negb (sub_monitor (sk_st c) (sk_heap c) (sk_ops c)
          (SSeen (map (fun x => (fst x, sm_rest (snd x), sm_trail (snd x))) (sw_out w))
                 (map (fun m => st (sm_st m)) (sw_heap w)) (sw_closes w)
                 (map (fun x => (fst x, snd (pclose (sk_st c) (fst x)))) (s_close_rets (sk_seen c)))
                 (map (fun o => (sobs_label o, 1)) (sw_obs w)))).

Definition sub_violates (c : sub_case) : bool :=
  negb (sub_monitor (sk_st c) (sk_heap c) (sk_ops c) (sk_seen c)).

(** * handler middleware, alone or through a Router with AddPrometheusRouterMetrics *)
Record mw_case := MwCase {
  mk_layers : nat;                      (* how often the middleware / the whole metrics set was applied *)
  mk_router : bool;                     (* through a real Router (handler, subscriber and publisher metrics) *)
  mk_hname : N; mk_sname : N; mk_pname : N;
  mk_msgs : list rmsg;
  mk_htab : list (hlabel * nat);        (* handler_execution_time_seconds sample counts *)
  mk_stab : list (slabel * nat);        (* subscriber_messages_received_total *)
  mk_ptab : list (plabel * nat)         (* publish_time_seconds *)
}.

Definition mw_calls (c : mw_case) : list (N * hout) := map (fun m => (mk_hname c, rm_out m)) (mk_msgs c).

(** what the Router does with each message (C02 model) decides the subscriber and publisher metrics *)
Definition router_sobs (c : mw_case) : list slabel :=
  if mk_router c && negb (Nat.eqb (mk_layers c) 0) then
    flat_map (rm_sobs (mk_hname c) (mk_sname c)) (mk_msgs c)
  else [].
Definition router_pobs (c : mw_case) : list plabel :=
  if mk_router c && negb (Nat.eqb (mk_layers c) 0) then
    flat_map (rm_pobs (mk_hname c) (mk_pname c)) (mk_msgs c)
  else [].

(** mismatch against the model variant [fixed] (panic = failure) / [dedup] (an application inside
    another one does not observe: k >= 1 applications count like one) *)
Definition mw_mismatch (fixed dedup : bool) (c : mw_case) : bool :=
  negb (counts_agree hlabel_eqb (mk_htab c)
          (run_mw fixed (if dedup then Nat.min 1 (mk_layers c) else mk_layers c) (mw_calls c))
        && counts_agree slabel_eqb (mk_stab c) (router_sobs c)
        && counts_agree plabel_eqb (mk_ptab c) (router_pobs c)).

Definition mw_violates (c : mw_case) : bool :=
  negb (mw_monitor (mw_calls c) (mk_htab c)
        && counts_agree slabel_eqb (mk_stab c) (router_sobs c)
        && counts_agree plabel_eqb (mk_ptab c) (router_pobs c)).

(** * delay.For / delay.Until against the clock *)
Record delay_case := DelayCase {
  dk_until : bool;                      (* Until(t) or For(d) *)
  dk_arg : Z;                           (* d in ns, or t in ns since the epoch *)
  dk_now : Z;                           (* the clock reading the constructor used (time - duration) *)
  dk_t0 : Z; dk_t1 : Z;                 (* clock readings taken just before / after the call *)
  dk_got : delay
}.
Definition saturated (c : delay_case) : bool :=
  dk_until c && negb (Z.eqb (sat (dk_arg c - dk_now c)) (dk_arg c - dk_now c)).
Definition delay_mismatch (c : delay_case) : bool :=
  negb (delay_eqb (if dk_until c then mk_until (dk_now c) (dk_arg c) else mk_for (dk_now c) (dk_arg c)) (dk_got c)
        && (saturated c || (Z.leb (dk_t0 c) (dk_now c) && Z.leb (dk_now c) (dk_t1 c)))).
Definition delay_violates (c : delay_case) : bool :=
  negb (saturated c || agree_within (dk_t0 c) (dk_t1 c) (dk_got c)).

Definition c20_pub_mismatches (cs : list pub_case) : list nat := positions (map pub_mismatch cs).
Definition c20_pub_violations (cs : list pub_case) : list nat := positions (map pub_violates cs).
Definition c20_sub_mismatches (cs : list sub_case) : list nat := positions (map sub_mismatch cs).
Definition c20_sub_violations (cs : list sub_case) : list nat := positions (map sub_violates cs).
Definition c20_sub_model_rejected (cs : list sub_case) : list nat := positions (map sub_model_rejected cs).
Definition c20_mw_mismatches (fixed dedup : bool) (cs : list mw_case) : list nat := positions (map (mw_mismatch fixed dedup) cs).
Definition c20_mw_violations (cs : list mw_case) : list nat := positions (map mw_violates cs).
Definition c20_delay_mismatches (cs : list delay_case) : list nat := positions (map delay_mismatch cs).
Definition c20_delay_violations (cs : list delay_case) : list nat := positions (map delay_violates cs).

(** * the middleware in handler chains with Retry (Decor/MwStack.v) *)
Record mwstack_case := MwStackCase {
  ms_st : list hlayer; ms_h : N; ms_top : nat; ms_script : list hout;
  ms_tab : list (hlabel * nat)
}.
Definition mwstack_mismatch (dedup : bool) (c : mwstack_case) : bool :=
  negb (counts_agree hlabel_eqb (ms_tab c) (hrun dedup (ms_st c) (ms_h c) (ms_top c) (ms_script c))).
(** the property: counts as if the middleware had been applied once (inner applications removed) *)
Definition mwstack_violates (c : mwstack_case) : bool :=
  negb (counts_agree hlabel_eqb (ms_tab c)
          (hrun false (erase_inner false (ms_st c)) (ms_h c) (ms_top c) (ms_script c))).
Definition c20_mwstack_mismatches (dedup : bool) (cs : list mwstack_case) : list nat := positions (map (mwstack_mismatch dedup) cs).
Definition c20_mwstack_violations (cs : list mwstack_case) : list nat := positions (map mwstack_violates cs).

(** * overlapping invocations of a chain (gates between the applications only schedule; the mark of the
    repaired middleware lives in the invocation's own message context, so the invocations are
    independent: the log of a concurrent run is an interleaving of the per-invocation logs) *)
Record mwconc_case := MwConcCase {
  mc_st : list hlayer; mc_scripts : list (list hout); mc_tab : list (hlabel * nat)
}.
Definition mwconc_logs (dedup : bool) (st : list hlayer) (scripts : list (list hout)) : list (list hlabel) :=
  map (fun s => snd (heval dedup st false 0%N s)) scripts.
Definition mwconc_mismatch (c : mwconc_case) : bool :=
  negb (counts_agree hlabel_eqb (mc_tab c) (concat (mwconc_logs true (mc_st c) (mc_scripts c)))).
Definition mwconc_violates (c : mwconc_case) : bool :=
  negb (counts_agree hlabel_eqb (mc_tab c) (concat (mwconc_logs false (erase_inner false (mc_st c)) (mc_scripts c)))).
Definition c20_mwconc_mismatches (cs : list mwconc_case) : list nat := positions (map mwconc_mismatch cs).
Definition c20_mwconc_violations (cs : list mwconc_case) : list nat := positions (map mwconc_violates cs).
