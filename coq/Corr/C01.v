(** Comparators for C01 cases (no proofs).  A message is (lineage, path): the number of the
    source message it descends from and the output index taken at every stage so far (the
    harness carries both in the metadata of the real messages).  The handler of stage s
    returns [fan s lineage] outputs; output j of (l, p) is (l, p ++ [j]). *)
From WM Require Import Base.Prelude Message.Model Handler.RouterHandle Pipeline.Model Pipeline.ImmModel Pipeline.CtxModel.
From WM Require Router.Wiring Router.WiringSpec.

Definition cm := (N * list N)%type.
Definition cm_eqb (a b : cm) : bool := N.eqb (fst a) (fst b) && list_eqb N.eqb (snd a) (snd b).

(** fan-out table: row s = stage s, column = lineage mod (length of the row); default 1 *)
Definition cfan (fans : list (list nat)) (s : nat) (l : N) : nat :=
  match nth s fans [] with
  | [] => 1
  | row => nth (N.to_nat l mod length row) row 1
  end.
(** fan-out 9 marks a PASSTHROUGH handler: it returns the consumed message object itself *)
Definition chf (fans : list (list nat)) (s : nat) (m : cm) : list cm :=
  let n := cfan fans s (fst m) in
  if Nat.eqb n 9 then [m]
  else map (fun j => (fst m, snd m ++ [N.of_nat j])) (seq 0 n).

Record c01_case := C01 {
  q_k : nat;
  q_fans : list (list nat);
  q_script : list (list fault);
  q_srcs : list cm;                  (* source messages whose Publish returned nil *)
  q_log : list (delivery cm);        (* what the implementation did, in order of handler entry *)
  q_sink : list cm;                  (* arrivals at the final topic *)
  q_quiet : bool;                    (* the implementation became quiescent (nothing pending) *)
  q_ctx : list (list bool);          (* per stage and call: the delivered copy's context was live at handler entry *)
  (* per delivery attempt: the middleware registrations of the stage's Router (in registration
     order), the name of the stage's handler, the ids of the middlewares that were entered *)
  q_mws : list (list Wiring.mwreg * N * list N)
}.

Definition hevent_eqb (a b : hevent cm) : bool :=
  match a, b with
  | HCall, HCall => true
  | HPreSettle a1 r1, HPreSettle a2 r2 => Bool.eqb a1 a2 && Bool.eqb r1 r2
  | HPublish o1 s1, HPublish o2 s2 => list_eqb cm_eqb o1 o2 && settle_eqb s1 s2
  | HPublishRet a1, HPublishRet a2 => Bool.eqb a1 a2
  | HPublishPanic, HPublishPanic => true
  | HSettle a1 _, HSettle a2 _ => Bool.eqb a1 a2     (* the Router ignores the return value *)
  | _, _ => false
  end.
Definition fault_eqb (a b : fault) : bool :=
  match a, b with
  | FNone, FNone | FErr, FErr | FPanic, FPanic => true
  | FPub j1 p1, FPub j2 p2 => Nat.eqb j1 j2 && Bool.eqb p1 p2
  | _, _ => false
  end.
Definition delivery_eqb (a b : delivery cm) : bool :=
  Nat.eqb (d_stage a) (d_stage b) && Nat.eqb (d_call a) (d_call b) && cm_eqb (d_msg a) (d_msg b)
  && fault_eqb (d_fault a) (d_fault b) && list_eqb hevent_eqb (d_tr a) (d_tr b)
  && list_eqb cm_eqb (d_fwd a) (d_fwd b) && settle_eqb (d_final a) (d_final b).

(** multiset equality *)
Fixpoint bag_eqb (a b : list cm) : bool :=
  match a with
  | [] => match b with [] => true | _ => false end
  | x :: a' => match remove_first cm_eqb x b with Some b' => bag_eqb a' b' | None => false end
  end.

Definition c01_model (c : c01_case) : option (pstate cm) :=
  preplay_imm (chf (q_fans c)) cm_eqb rt_handle (q_k c) (sc_ctx (cl_of (q_ctx c)) (sc_of (q_script c))) (pinit (q_srcs c))
          (map (fun d => (d_stage d, d_msg d)) (q_log c)).

(** 0 = agrees; 1 = an observed delivery is not enabled in the model; 2 = the logs differ;
    3 = the final topic differs (as a multiset); 4 = quiescence differs *)
Definition c01_mismatch (c : c01_case) : nat :=
  match c01_model c with
  | None => 1
  | Some st =>
      if negb (list_eqb delivery_eqb (dlog st) (q_log c)) then 2
      else if negb (bag_eqb (topic st (q_k c)) (q_sink c)) then 3
      else if negb (Bool.eqb (quiescentb (q_k c) st) (q_quiet c)) then 4
      else 0
  end.

(** the monitors of the theorems, on what the implementation did *)
Definition c01_log_bad (c : c01_case) : bool :=
  negb (log_ok (chf (q_fans c)) cm_eqb (q_log c)).
Definition c01_invented (c : c01_case) : bool :=
  negb (sink_sound (chf (q_fans c)) cm_eqb (q_k c) (q_srcs c) (q_sink c)).
Definition c01_lost (c : c01_case) : bool :=
  negb (q_quiet c && sink_complete (chf (q_fans c)) cm_eqb (q_k c) (q_srcs c) (q_sink c)).

(** a Nacked attempt was never followed up although the implementation says nothing is pending *)
Definition c01_not_redelivered (c : c01_case) : bool :=
  q_quiet c && negb (redelivery_ok cm_eqb (q_log c)).

(** the redelivery after a Nack was not immediate: another message reached the stage in between *)
Definition c01_not_immediate (c : c01_case) : bool := negb (immediate_ok cm_eqb (q_log c)).

(** a copy was delivered with a context that was already done (C04 / [C01_delivery_context_is_live]
    say: never, for a subscription that is not closing) - for a context-aware stage that is a fault *)
Definition c01_dead_ctx (c : c01_case) : bool := negb (all_live (q_ctx c)).

(** middleware ownership (C09): a stage's call runs exactly the router-level middlewares and the
    stage's OWN handler-level middlewares, in registration order ([WiringSpec.effective], the
    function of [C09_chain_membership] / [C09_nesting]) - never those of another handler of the
    same Router, whatever that handler's name is (the empty name included) *)
Definition mw_own_ok (e : list Wiring.mwreg * N * list N) : bool :=
  let '(regs, name, ran) := e in
  list_eqb N.eqb ran (map Wiring.r_id (WiringSpec.effective name regs)).
Definition c01_foreign_mw (c : c01_case) : bool := negb (forallb mw_own_ok (q_mws c)).

Definition c01_mismatches (cs : list c01_case) : list (nat * nat) :=
  filter (fun p => negb (Nat.eqb (snd p) 0)) (combine (seq 0 (length cs)) (map c01_mismatch cs)).
Definition c01_log_violations (cs : list c01_case) : list nat := positions (map c01_log_bad cs).
Definition c01_invented_violations (cs : list c01_case) : list nat := positions (map c01_invented cs).
Definition c01_lost_violations (cs : list c01_case) : list nat := positions (map c01_lost cs).
Definition c01_immediate_violations (cs : list c01_case) : list nat := positions (map c01_not_immediate cs).
Definition c01_dead_ctx_violations (cs : list c01_case) : list nat := positions (map c01_dead_ctx cs).
Definition c01_foreign_mw_violations (cs : list c01_case) : list nat := positions (map c01_foreign_mw cs).
Definition c01_redelivery_violations (cs : list c01_case) : list nat := positions (map c01_not_redelivered cs).
(** first logged delivery the monitor rejects (for the report) *)
Definition c01_first_bad (c : c01_case) : list nat :=
  positions (map (fun d => negb (delivery_ok (chf (q_fans c)) cm_eqb d)) (q_log c)).
