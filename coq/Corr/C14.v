(** Comparators evaluated on the cases the harness produced for C14 (no proofs). *)
From WM Require Import Base.Prelude Dedup.Model Dedup.Timed Dedup.Glue.
From WM Require Export Dedup.Clients.
Local Open Scope Z_scope.

(** * hashers *)

(** the oracle: the stdlib digest of prefixes of the payload, computed by the harness with
    hash.Write + Sum on its own, for every length anyone could plausibly have read (all, none,
    64 +-1, the limit as given +-1, random ones); [(n, d)] = digest d of the first n bytes.  A
    digest (and a key returned by the real hasher) is written as ONE number: its bytes behind
    a leading 1, big-endian — an injective encoding, so equality of keys is equality of
    numbers.  A prefix that is not in the table has the digest [[]], which is no key. *)
Definition tabH (p : list N) (tab : list (N * N)) : list N -> list N :=
  fun bs => if list_eqb N.eqb bs (firstn (length bs) p)
            then match alookup (N.of_nat (length bs)) tab with Some d => [d] | None => [] end
            else [].

Record hash_case := HC {
  hc_sha : bool;
  hc_limit : Z;
  hc_p1 : list N; hc_p2 : list N;
  hc_k1 : option (list N); hc_k2 : option (list N);     (* None: the hasher returned an error *)
  hc_tab1 : list (N * N); hc_tab2 : list (N * N)
}.

Definition okey_eqb (a b : option (list N)) : bool := option_eqb (list_eqb N.eqb) a b.

Definition hash_mismatch (c : hash_case) : bool :=
  negb (okey_eqb (hc_k1 c) (Some (hash_key (tabH (hc_p1 c) (hc_tab1 c)) (hc_limit c) (hc_p1 c)))
        && okey_eqb (hc_k2 c) (Some (hash_key (tabH (hc_p2 c) (hc_tab2 c)) (hc_limit c) (hc_p2 c)))).

(** the property, as in C14_hasher_prefix / C14_sha256_distinguishes_within_limit *)
Definition hash_violates (c : hash_case) : bool :=
  let n := eff_limit (hc_limit c) in          (* [take n] = [firstn (Z.to_nat n)]: Proofs.take_firstn *)
  match hc_k1 c, hc_k2 c with
  | Some k1, Some k2 =>
      if list_eqb N.eqb (take n (hc_p1 c)) (take n (hc_p2 c))
      then negb (list_eqb N.eqb k1 k2)
      else hc_sha c && list_eqb N.eqb k1 k2
  | _, _ => true
  end.

Definition hash_mismatches (cs : list hash_case) : list nat := positions (map hash_mismatch cs).
Definition hash_violations (cs : list hash_case) : list nat := positions (map hash_violates cs).

Record meta_case := MC {
  mc_field : N; mc_uuid : N; mc_meta : list (N * N);
  mc_key : option N;             (* what the real hasher returned; None = error *)
  mc_err_names : bool;           (* the error names the message and the field; key "" *)
}.
Definition meta_mismatch (c : meta_case) : bool :=
  match meta_key (mc_field c) (mc_uuid c) (mc_meta c), mc_key c with
  | HKey k, Some k' => negb (N.eqb k k')
  | HAbsent _ _, None => negb (mc_err_names c)
  | _, _ => true
  end.
Definition meta_mismatches (cs : list meta_case) : list nat := positions (map meta_mismatch cs).

(** * middleware / decorator with scripted collaborators *)

Inductive obs :=
| ObsMW (handler : list N) (settle : N) (ret : option mw_ret)
| ObsDEC (settle : list N) (inner : list (list N)) (ret : option dec_ret).

Definition mw_ret_eqb (a b : mw_ret) : bool :=
  match a, b with
  | MErr x, MErr y => N.eqb x y
  | MDropped, MDropped | MPass, MPass => true
  | _, _ => false
  end.
Definition dec_ret_eqb (a b : dec_ret) : bool :=
  match a, b with
  | DErr x, DErr y => N.eqb x y
  | DInner, DInner => true
  | _, _ => false
  end.
Definition nlist_eqb := list_eqb N.eqb.

Definition mem (x : N) (l : list N) : bool := existsb (N.eqb x) l.

(** what the model expects to observe of one middleware call / one Publish *)
Definition expect_mw (m : N) (it : item) (r : rres) : obs :=
  let o := mw_run it r in
  ObsMW (if mw_handler o then [m] else []) 0%N (Some (mw_result o)).
Definition expect_dec (fixed : bool) (ms : list (N * item * rres)) : obs :=
  let o := dec_run fixed ms in
  ObsDEC (map (fun x => if mem (fst (fst x)) (d_acked o) then 1%N else 0%N) ms)
         (match d_inner o with Some l => [l] | None => [] end)
         (Some (d_result o)).

Definition obs_eqb (a b : obs) : bool :=
  match a, b with
  | ObsMW h s r, ObsMW h' s' r' => nlist_eqb h h' && N.eqb s s' && option_eqb mw_ret_eqb r r'
  | ObsDEC s i r, ObsDEC s' i' r' =>
      nlist_eqb s s' && list_eqb nlist_eqb i i' && option_eqb dec_ret_eqb r r'
  | _, _ => false
  end.

Record seq_case := SC {
  sc_dec : bool; sc_fixed : bool;
  sc_msgs : list (N * item * rres);
  sc_keys : list N;              (* keys the scripted repository was asked about *)
  sc_obs : obs
}.
Definition seq_mismatch (c : seq_case) : bool :=
  if sc_dec c then
    negb (nlist_eqb (sc_keys c) (d_repo_keys (dec_run (sc_fixed c) (sc_msgs c)))
          && obs_eqb (sc_obs c) (expect_dec (sc_fixed c) (sc_msgs c)))
  else
    match sc_msgs c with
    | [(m, it, r)] =>
        negb (nlist_eqb (sc_keys c) (match mw_repo_key (mw_run it r) with Some k => [k] | None => [] end)
              && obs_eqb (sc_obs c) (expect_mw m it r))
    | _ => true
    end.
Definition seq_mismatches (cs : list seq_case) : list nat := positions (map seq_mismatch cs).

(** * concurrent cases: schedule replay, outcomes, monitor *)

(** [opspec], [has_err], [compile], [delivered]: Dedup/Clients.v *)

(** attach the repository's answers (in call order) to the messages of a batch; [stop] = the
    loop has hit a hasher error, nothing after it is asked.  Returns the annotated batch, the
    (message, key) pairs asked, and the unused answers; [None] = ran out of answers *)
Fixpoint assign (ms : list (N * item)) (ans : list bool) (stop : bool)
  : option (list (N * item * rres) * list (N * N) * list bool) :=
  match ms with
  | [] => Some ([], [], ans)
  | (m, IErr e) :: r =>
      match assign r ans true with
      | Some (a, c, rest) => Some ((m, IErr e, RNew) :: a, c, rest)
      | None => None
      end
  | (m, IKey k) :: r =>
      if stop then
        match assign r ans true with
        | Some (a, c, rest) => Some ((m, IKey k, RNew) :: a, c, rest)
        | None => None
        end
      else
        match ans with
        | [] => None
        | b :: ans' =>
            match assign r ans' false with
            | Some (a, c, rest) => Some ((m, IKey k, rres_of b) :: a, (m, k) :: c, rest)
            | None => None
            end
        end
  end.

(** one thread: expected observations, repository program, messages answered "new" with
    whether they were delivered *)
Fixpoint thread_expect (fixed : bool) (ops : list opspec) (ans : list bool)
  : option (list obs * list (N * N) * list bool) :=
  match ops with
  | [] => Some ([], [], ans)
  | OpMW m it :: r =>
      match assign [(m, it)] ans false with
      | Some ([(_, _, rr)], calls, rest) =>
          match thread_expect fixed r rest with
          | Some (os, cs, rest') => Some (expect_mw m it rr :: os, calls ++ cs, rest')
          | None => None
          end
      | _ => None
      end
  | OpDEC ms :: r =>
      match assign ms ans (fixed && has_err ms) with
      | Some (a, calls, rest) =>
          match thread_expect fixed r rest with
          | Some (os, cs, rest') => Some (expect_dec fixed a :: os, calls ++ cs, rest')
          | None => None
          end
      | None => None
      end
  end.

Record conc_case := CC {
  cc_w : Z; cc_t0 : Z; cc_fixed : bool;
  cc_threads : list (list opspec);
  cc_sched : list label;
  cc_answers : list (list bool);     (* per thread: what IsDuplicate returned, in call order *)
  cc_events : list ev;               (* the stamped log as linearisation events (message id 0) *)
  cc_obs : list (list obs);          (* per thread and call: what the harness observed *)
  cc_len_end : nat                   (* Len() of the repository at the end *)
}.

Definition erase (e : ev) : ev :=
  match e with
  | EIns t _ k n => EIns t 0%N k n
  | EDup t _ k n => EDup t 0%N k n
  | ESweep t T c ks => ESweep t T c ks
  end.
Definition same_set (a b : list N) : bool :=
  Nat.eqb (length a) (length b) && forallb (fun x => mem x b) a && forallb (fun x => mem x a) b.
Definition ev_eqb (a b : ev) : bool :=
  match a, b with
  | EIns t m k n, EIns t' m' k' n' => Nat.eqb t t' && N.eqb m m' && N.eqb k k' && Z.eqb n n'
  | EDup t m k n, EDup t' m' k' n' => Nat.eqb t t' && N.eqb m m' && N.eqb k k' && Z.eqb n n'
  | ESweep t T c ks, ESweep t' T' c' ks' => Nat.eqb t t' && Z.eqb T T' && Z.eqb c c' && same_set ks ks'
  | _, _ => false
  end.

Definition expects (c : conc_case) : list (option (list obs * list (N * N) * list bool)) :=
  map (fun p => thread_expect (cc_fixed c) (fst p) (snd p)) (combine (cc_threads c) (cc_answers c)).

Definition roles_of (progs : list (list (N * N))) : tid -> role :=
  fun t => if Nat.ltb t (length progs) then RClient (nth t progs [])
           else if Nat.eqb t (length progs) then RCleaner else RClient [].

(** codes: 1 the model rejects the recorded schedule (a label not enabled); 2 a client is left
    unfinished; 3 a thread's answers differ; 4 the model's events differ from the stamped ones;
    5 an observed outcome differs from mw_run / dec_run; 6 answers do not fit the calls the
    model expects; 7 thread counts differ; 8 Len() at the end differs *)
Definition conc_replay (c : conc_case) : list nat :=
  let ex := expects c in
  if negb (Nat.eqb (length (cc_threads c)) (length (cc_answers c))
           && Nat.eqb (length (cc_threads c)) (length (cc_obs c))) then [7%nat]
  else if negb (forallb (fun o => match o with Some (_, _, []) => true | _ => false end) ex) then [6%nat]
  else
    let progs := map (fun o => match o with Some (_, p, _) => p | None => [] end) ex in
    (* the client programs and deliveries the theorems C14_delivered_iff_new / C14_program_conserved
       talk about: [compile] must be the program the replay uses (9), [delivered] on the observed
       answers must be what the handler / inner publisher were given (10) *)
    (if list_eqb (list_eqb (fun a b => N.eqb (fst a) (fst b) && N.eqb (snd a) (snd b)))
          (map (compile (cc_fixed c)) (cc_threads c)) progs then [] else [9%nat]) ++
    (if list_eqb nlist_eqb
          (map (fun p => delivered (cc_fixed c) (fst p) (snd p)) (combine (cc_threads c) (cc_answers c)))
          (map (fun os => flat_map (fun o => match o with ObsMW h _ _ => h | ObsDEC _ i _ => concat i end) os) (cc_obs c))
     then [] else [10%nat]) ++
    let exobs := map (fun o => match o with Some (os, _, _) => os | None => [] end) ex in
    (if list_eqb (list_eqb obs_eqb) exobs (cc_obs c) then [] else [5%nat]) ++
    match replay (cc_w c) (init (cc_t0 c) (roles_of progs)) (cc_sched c) with
    | None => [1%nat]
    | Some s =>
        let n := length progs in
        (if forallb (fun t => match thr s t with TClient [] PIdle _ => true | _ => false end) (seq 0 n)
         then [] else [2%nat]) ++
        (if list_eqb (list_eqb Bool.eqb)
              (map (fun t => rev (map snd (results_of (thr s t)))) (seq 0 n)) (cc_answers c)
         then [] else [3%nat]) ++
        (if list_eqb ev_eqb (map erase (rev (trace s))) (cc_events c) then [] else [4%nat]) ++
        (if Nat.eqb (length (tags s)) (cc_len_end c) then [] else [8%nat])
    end.

(** the property on what the implementation did: the stamped events are accepted by the
    timed-set specification (20), and every message answered "new" reached the handler / the
    inner publisher while no duplicate did (21) *)
(** the delivery rule: what the handlers / the inner publisher were given, in order, is what
    [Clients.delivered] computes from the answers — the function C14_delivered_iff_new proves to
    be, in every run of the model, exactly the thread's repository steps answered "new" *)
Definition delivered_ok (fixed : bool) (ops : list opspec) (ans : list bool) (os : list obs) : bool :=
  nlist_eqb (delivered fixed ops ans)
            (flat_map (fun o => match o with ObsMW h _ _ => h | ObsDEC _ i _ => concat i end) os).

(** slack of the freshness verdict on the implementation, in windows past the expiry
    (C14_timely_trace_fresh proves p + 3d for the timely model; the documentation says 1/2) *)
Definition fresh_slack : Z := 7.

Definition conc_violation (c : conc_case) : list nat :=
  (if mon_ok (cc_w c) (cc_t0 c) (cc_events c) then [] else [20%nat]) ++
  (if dups_fresh (cc_w c) (fresh_slack * cc_w c) ([], cc_t0 c) (cc_events c) then [] else [22%nat]) ++
  (if forallb (fun p => delivered_ok (cc_fixed c) (fst (fst p)) (snd (fst p)) (snd p))
        (combine (combine (cc_threads c) (cc_answers c)) (cc_obs c)) then [] else [21%nat]).

Definition conc_mismatches (cs : list conc_case) : list (nat * list nat) :=
  flat_map (fun p => match conc_replay (snd p) with [] => [] | k => [(fst p, k)] end)
           (combine (seq 0 (length cs)) cs).
Definition conc_violations (cs : list conc_case) : list (nat * list nat) :=
  flat_map (fun p => match conc_violation (snd p) with [] => [] | k => [(fst p, k)] end)
           (combine (seq 0 (length cs)) cs).

(** measured non-triviality: number of "new" answers that follow a deletion of the same key
    (re-acceptance), number of "duplicate" answers, number of keys deleted *)
Definition conc_stats (c : conc_case) : nat * nat * nat :=
  let es := cc_events c in
  let keys := flat_map (fun e => match e with EIns _ _ k _ => [k] | _ => [] end) es in
  (length (filter (fun k => Nat.ltb 1 (length (epochs k es []))) (nodup N.eq_dec keys)),
   length (filter is_dup es),
   length (flat_map (fun e => match e with ESweep _ _ _ ks => ks | _ => [] end) es)).

(** the API-level history (call intervals measured by the harness, answers read off the
    outcomes; no hook involved) against [api_ok] *)
Definition api_violations (cs : list (Z * list acall)) : list nat :=
  positions (map (fun c => negb (api_ok (fst c) (snd c))) cs).

(** "accepted again after it expired", judged from outside with slack S (in windows): a call
    answered "duplicate" is STALE when it has a possible cause (a "new" call with its key that
    started no later than the duplicate ended) but EVERY possible cause had ended at least S
    windows before the duplicate started — the key was still remembered S - 1 windows after
    its expiry.  By C14_expired_key_reaccepted_partial (contrapositive) this means that no
    sweep carrying a time later than the key's expiry ran in all that time: the theorem's
    oracle premise failed for S - 1 windows, where the documentation promises 1/2.  Only
    clock readings of the driver are used (start/end of its own calls).  Returns the keys. *)
Definition stale_dup (S w : Z) (cs : list acall) (b : acall) : bool :=
  let causes := filter (fun a => N.eqb (ac_key a) (ac_key b) && negb (ac_dup a) && (ac_start a <=? ac_end b)) cs in
  ac_dup b && negb (Nat.eqb (length causes) 0)
  && forallb (fun a => ac_end a + S * w <=? ac_start b) causes.
Definition stale_keys (S w : Z) (cs : list acall) : list N :=
  nodup N.eq_dec (map ac_key (filter (stale_dup S w cs) cs)).
Definition api_stale (S : Z) (cs : list (Z * list acall)) : list (nat * list N) :=
  flat_map (fun p => match stale_keys S (fst (snd p)) (snd (snd p)) with [] => [] | ks => [(fst p, ks)] end)
           (combine (seq 0 (length cs)) cs).

(** * model-side search (used when the replay rejects a label but no acceptor rejects anything)

    The recorded schedule made a step the model does not have (typically: a Lock while another
    thread is between Lock and Unlock).  [pstep] is the model with exactly that liberty — a
    label that is refused is retried with the mutex forced free — and [conc_search] looks, by
    iterative deepening over the steps of the threads involved (the thread of the rejected
    label and the lock holder), from the last agreeing state, for the SHORTEST continuation
    whose trace the timed-set specification rejects.  By C14_trace_accepted no such
    continuation exists without the liberty; with it, the result is the schedule that would
    turn the observed deviation into a property violation (it is a prediction about the
    implementation, reported in the replay file, not a failing input). *)
Definition pstep (w : Z) (s : state) (l : label) : option state :=
  match step w s l with
  | Some s' => Some s'
  | None => step w (ST (tags s) None (clock s) (thr s) (trace s)) l
  end.

Fixpoint replay_upto (w : Z) (s : state) (sched : list label) : state * list label :=
  match sched with
  | [] => (s, [])
  | l :: sched' => match step w s l with Some s' => replay_upto w s' sched' | None => (s, sched) end
  end.

Fixpoint dfs (w t0 : Z) (cands : list tid) (fuel : nat) (s : state) : option (list tid) :=
  if negb (mon_ok w t0 (rev (trace s))) then Some [] else
  match fuel with
  | O => None
  | S f =>
      (fix try (cs : list tid) : option (list tid) :=
         match cs with
         | [] => None
         | t :: cs' =>
             match pstep w s (LThr t) with
             | Some s' => match dfs w t0 cands f s' with Some l => Some (t :: l) | None => try cs' end
             | None => try cs'
             end
         end) cands
  end.

Definition first_some {A} (l : list (option A)) : option A :=
  fold_right (fun o acc => match o with Some x => Some x | None => acc end) None l.

(** (index of the rejected label, 1 + its thread or 0, the shortest violating continuation) *)
Definition conc_search (depth : nat) (c : conc_case) : nat * nat * list tid :=
  let ex := expects c in
  let progs := map (fun o => match o with Some (_, p, _) => p | None => [] end) ex in
  let '(s, rest) := replay_upto (cc_w c) (init (cc_t0 c) (roles_of progs)) (cc_sched c) in
  let idx := (length (cc_sched c) - length rest)%nat in
  match rest with
  | LThr t :: _ =>
      let cands := nodup Nat.eq_dec (t :: match owner s with Some o => [o] | None => [] end) in
      (idx, S t,
       match first_some (map (fun n => dfs (cc_w c) (cc_t0 c) cands n s) (seq 1 depth)) with
       | Some l => l | None => [] end)
  | _ => (idx, O, [])
  end.

(** * glue: the repository's deadline and the window validation

    [tc_lo] = min over the repository calls of (deadline - clock read by the driver before the
    call), [tc_hi] = max of (deadline - clock read inside the repository call): the deadline is
    (some instant in between) + eff_timeout, so  tc_hi <= eff_timeout <= tc_lo. *)
Record timeout_case := TC { tc_timeout : Z; tc_has_deadline : bool; tc_lo : Z; tc_hi : Z }.
Definition timeout_mismatch (c : timeout_case) : bool :=
  negb (tc_has_deadline c && (eff_timeout (tc_timeout c) <=? tc_lo c) && (tc_hi c <=? eff_timeout (tc_timeout c))).
Definition timeout_mismatches (cs : list timeout_case) : list nat := positions (map timeout_mismatch cs).

(** (window, NewMapExpiringKeyRepository returned an error) *)
Definition window_mismatches (cs : list (Z * bool)) : list nat :=
  positions (map (fun c => Bool.eqb (window_ok (fst c)) (snd c)) cs).
