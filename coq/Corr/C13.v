(** Comparators for C13 cases (no proofs).  Produced messages are numbers as in Corr/C02.v:
    0 = the consumed object itself, i = the i-th fresh message of the handler.  A case is the
    script (configuration, message, Router context values, handler script, poison publisher and
    Router publisher behaviour, the interned text of the handler's error) plus what the
    implementation did. *)
From WM Require Import Base.Prelude Message.Model Handler.RouterHandle Handler.Poison.

Record c13_case := K13 {
  q_router : bool;                       (* run inside a Router / the middleware called directly *)
  q_topic : N; q_filter : option pfilter; q_pp : ppub;
  q_ctx : rctx; q_msg : pmsg; q_h : hscript N;
  q_pk : pubkind; q_pb : pubbeh;
  q_reason : N;                          (* err.Error() of the handler's error, interned *)
  (* observed *)
  q_tr : list (rpevent N); q_final : settle; q_res : mwres N; q_mf : pmsg
}.

Definition q_cfg (c : c13_case) : pcfg := PC (q_topic c) (option_map filter_sem (q_filter c)).
Definition q_txt (c : c13_case) : err -> N := fun _ => q_reason c.

Definition pevent_eqb (a b : pevent) : bool :=
  match a, b with
  | PFilter x, PFilter y => err_eqb x y
  | PPublish t1 m1 s1, PPublish t2 m2 s2 => N.eqb t1 t2 && pmsg_eqb m1 m2 && settle_eqb s1 s2
  | PPublishRet x, PPublishRet y => Bool.eqb x y
  | PPublishPanic, PPublishPanic => true
  | _, _ => false
  end.

Definition hevent_eqb (a b : hevent N) : bool :=
  match a, b with
  | HCall, HCall => true
  | HPreSettle a1 r1, HPreSettle a2 r2 => Bool.eqb a1 a2 && Bool.eqb r1 r2
  | HPublish o1 s1, HPublish o2 s2 => list_eqb N.eqb o1 o2 && settle_eqb s1 s2
  | HPublishRet a1, HPublishRet a2 => Bool.eqb a1 a2
  | HPublishPanic, HPublishPanic => true
  | HSettle a1 _, HSettle a2 _ => Bool.eqb a1 a2     (* the Router ignores the return value *)
  | _, _ => false
  end.

Definition rpevent_eqb (a b : rpevent N) : bool :=
  match a, b with
  | RH x, RH y => hevent_eqb x y
  | RP x, RP y => pevent_eqb x y
  | _, _ => false
  end.

Definition mwres_eqb (a b : mwres N) : bool :=
  match a, b with
  | MRet o1 e1, MRet o2 e2 => list_eqb N.eqb o1 o2 && option_eqb err_eqb e1 e2
  | MPanic, MPanic => true
  | _, _ => false
  end.

(** model vs implementation: everything observed must be equal *)
Definition c13_mismatch (c : c13_case) : bool :=
  if q_router c then
    let '(ms, tr, r, mf) := in_router (q_txt c) (q_cfg c) (q_ctx c) (q_msg c) (q_h c) (q_pp c) (q_pk c) (q_pb c) in
    negb (list_eqb rpevent_eqb tr (q_tr c) && settle_eqb (st ms) (q_final c)
          && mwres_eqb r (q_res c) && pmsg_eqb mf (q_mf c))
  else
    let '(r, ev, mf) := poison (q_txt c) (q_cfg c) (q_ctx c) (q_msg c) (seen_after (M:=N) (hs_pre (q_h c))) (q_h c) (q_pp c) in
    negb (list_eqb pevent_eqb ev (pproj (q_tr c))
          && list_eqb hevent_eqb (hproj (q_tr c)) (HCall :: snd (do_pre (init CtorNew) (hs_pre (q_h c))))
          && mwres_eqb r (q_res c) && pmsg_eqb mf (q_mf c)).

(** the property's acceptor on what the implementation did *)
Definition c13_violates (c : c13_case) : bool :=
  if q_router c then
    negb (c13_monitor (q_txt c) N.eqb (q_cfg c) (q_ctx c) (q_msg c) (q_h c) (q_pp c) (q_pk c) (q_pb c)
                      (q_tr c) (q_final c) (q_res c) (q_mf c))
  else
    negb (mw_monitor (q_txt c) N.eqb (q_cfg c) (q_ctx c) (q_msg c) (q_h c) (q_pp c)
                     (q_res c) (pproj (q_tr c)) (q_mf c)
          && Nat.eqb (count_calls (hproj (q_tr c))) 1).

Definition c13_mismatches (cs : list c13_case) : list nat := positions (map c13_mismatch cs).
Definition c13_violations (cs : list c13_case) : list nat := positions (map c13_violates cs).

(** the constructors: a middleware exists iff the topic is non-empty *)
Definition c13_ctor_mismatch (topic : N) (with_filter : bool) (got_mw : bool) : bool :=
  negb (Bool.eqb got_mw
          (match mk_poison topic (if with_filter then Some (filter_sem (FConst true)) else None) with
           | Some _ => true | None => false end)).
