(** Comparators for the Duplicator / RandomFail / RandomPanic cases of C19 (no proofs). *)
From WM Require Import Base.Prelude Simple.Model Simple.Monitor Simple.Extra Corr.C19.

(** one X decision per invocation (the draw of RandomFail / RandomPanic) *)
Record x_case := XC { x_pre : list mw; x_xs : list xmw; x_post : list mw; x_script : script;
                      x_init : mstate; x_invs : list inv_obs }.

Fixpoint model_xinvs (v : variant) (pre post : list mw) (s : script) (xs : list xmw) (w : world) : list inv_obs :=
  match xs with
  | [] => []
  | x :: xr => let '(w1, r) := xstack v pre x post s (W (w_msg w) (w_calls w) []) in
               Inv (w_trace w1) r (view (w_msg w1)) :: model_xinvs v pre post s xr w1
  end.
Definition x_model (v : variant) (c : x_case) : list inv_obs :=
  model_xinvs v (x_pre c) (x_post c) (x_script c) (x_xs c) (init_world (x_init c)).
Definition x_mismatch (v : variant) (c : x_case) : bool := negb (list_eqb inv_eqb (x_model v c) (x_invs c)).

Fixpoint x_accept_invs (pre post : list mw) (s : script) (xs : list xmw) (w0 : world) (l : list inv_obs) : bool :=
  match xs, l with
  | [], [] => true
  | x :: xr, i :: l' =>
      x_accept pre x post s w0 (i_trace i) (i_res i) (i_after i)
      && x_accept_invs pre post s xr (W (unview (i_after i)) (w_calls w0 + ncalls (i_trace i)) []) l'
  | _, _ => false
  end.
Definition x_violates (c : x_case) : bool :=
  negb (x_accept_invs (x_pre c) (x_post c) (x_script c) (x_xs c) (init_world (x_init c)) (x_invs c)).
Definition x_mismatches (v : variant) (cs : list x_case) : list nat := positions (map (x_mismatch v) cs).
Definition x_violations (cs : list x_case) : list nat := positions (map x_violates cs).
