(** Comparators for C03 world cases: a program over several real messages (NewMessage, zero
    values, Copy(), settle calls, metadata, contexts) and what every operation returned.  No proofs. *)
From WM Require Import Base.Prelude Message.Model Message.World.

Definition world_case := (list wop * list wres)%type.

Definition wres_eqb (a b : wres) : bool :=
  match a, b with
  | WId i, WId j => Nat.eqb i j
  | WRes r, WRes r' => res_eqb r r'
  | WUnit, WUnit | WPanic, WPanic | WBad, WBad => true
  | WVal v, WVal v' => N.eqb v v'
  | WCont u p, WCont u' p' => N.eqb u u' && list_eqb N.eqb p p'
  | _, _ => false
  end.

Definition world_mismatch (c : world_case) : bool :=
  negb (list_eqb wres_eqb (snd (wrun wempty (fst c))) (snd c)).
(** the verdict: [world_monitor] (Props/C03.v: C03_world_model_accepted) *)
Definition world_violates (c : world_case) : bool := negb (world_monitor (fst c) (snd c)).

Definition world_mismatches (cs : list world_case) : list nat := positions (map world_mismatch cs).
Definition world_violations (cs : list world_case) : list nat := positions (map world_violates cs).
