(** Comparators for C17 cases (no proofs).  Strings are interned numbers; the library oracles
    (json.Unmarshal of the consumed payload, strconv.Atoi / Itoa on the strings of the case,
    what json.Marshal does to a string) come with each case as finite tables. *)
From WM Require Import Base.Prelude Message.Model Handler.RouterHandle Relay.Model.
Open Scope N_scope.

(** GeneratePublishTopic functions the harness installs *)
Inductive tgen := GConst (t : N) | GMeta (k : N) | GFail.
Definition tgen_fn (g : tgen) (m : msg) : option N :=
  match g with
  | GConst t => Some t
  | GMeta k => let v := get_str k (mmeta m) in if v =? 0 then None else Some v
  | GFail => None
  end.

Inductive kcomp := KForwarder (ab : bool) | KFanIn (t : N) | KRequeuer (g : tgen) (delay : Z).
Definition comp_of (k : kcomp) : comp :=
  match k with
  | KForwarder ab => CForwarder ab
  | KFanIn t => CFanIn t
  | KRequeuer g d => CRequeuer (tgen_fn g) d
  end.

Definition unknown_string : N := 4294967295.
Fixpoint lookupN {A} (tab : list (N * A)) (k : N) : option A :=
  match tab with [] => None | (k', v) :: tab' => if k' =? k then Some v else lookupN tab' k end.
Fixpoint lookupZ (tab : list (Z * N)) (z : Z) : N :=
  match tab with [] => unknown_string | (z', v) :: tab' => if (z' =? z)%Z then v else lookupZ tab' z end.
Definition san_of (tab : list (N * N)) (s : N) : N :=
  match lookupN tab s with Some x => x | None => s end.

(** nil-sensitive, order-insensitive equality *)
Definition ometa_eqb (a b : option meta) : bool :=
  match a, b with
  | None, None => true
  | Some x, Some y => meta_eqb x y
  | _, _ => false
  end.
Definition msg_eqb (a b : msg) : bool :=
  (uuid a =? uuid b) && (payload a =? payload b) && ometa_eqb (mmeta a) (mmeta b).
(** same content (a nil map reads like an empty one) *)
Definition msg_content_eqb (a b : msg) : bool :=
  (uuid a =? uuid b) && (payload a =? payload b) && meta_eqb (content (mmeta a)) (content (mmeta b)).
Definition env_eqb (a b : envelope) : bool :=
  (e_topic a =? e_topic b) && (e_uuid a =? e_uuid b) && (e_payload a =? e_payload b)
  && ometa_eqb (e_meta a) (e_meta b).

Definition ev_eqb (a b : ev) : bool :=
  match a, b with
  | ECall, ECall => true
  | EDelay x, EDelay y => (x =? y)%Z
  | EPub t ms s, EPub t' ms' s' => (t =? t') && list_eqb msg_eqb ms ms' && settle_eqb s s'
  | EPubRet x, EPubRet y => Bool.eqb x y
  | EPubPanic, EPubPanic => true
  | ESettle x, ESettle y => Bool.eqb x y
  | _, _ => false
  end.

(** ** one consumed message through Forwarder / FanIn / Requeuer on a real Router *)
Record relay_case := RC {
  r_comp : kcomp; r_src : N; r_msg : msg; r_ctxdone : bool; r_pb : pubbeh;
  r_dec : option envelope;       (* json.Unmarshal of the consumed payload into the envelope struct *)
  r_atoi : list (N * Z);         (* strconv.Atoi on the strings of this case; absent = error *)
  r_itoa : list (Z * N);         (* strconv.Itoa as far as its results occur in this case *)
  r_rk : N;                      (* requeuer.RetriesKey *)
  r_orig : option (N * msg);     (* forwarder: (topic, message) given to forwarder.Publisher.Publish *)
  r_tr : list ev; r_final : settle
}.

Definition rc_input (c : relay_case) : input := Inp (r_src c) (r_msg c) (r_ctxdone c) (r_pb c).
Definition rc_dec (c : relay_case) : N -> option envelope := fun _ => r_dec c.

Definition relay_mismatch (c : relay_case) : bool :=
  let '(f, tr) := run (rc_dec c) (lookupN (r_atoi c)) (lookupZ (r_itoa c)) (r_rk c) (comp_of (r_comp c)) (rc_input c) in
  negb (list_eqb ev_eqb tr (r_tr c) && settle_eqb f (r_final c)).

Definition relay_violates (c : relay_case) : bool :=
  negb (relay_monitor (rc_dec c) (lookupN (r_atoi c)) (r_rk c) (comp_of (r_comp c)) (rc_input c) (r_tr c) (r_final c)).

(** published through forwarder.Publisher: the forwarder must hand exactly that message to
    exactly that topic *)
Definition e2e_violates (c : relay_case) : bool :=
  match r_orig c with
  | None => false
  | Some (t, m) =>
      negb match pubs (r_tr c) with
           | [(t', [m'], _)] => (t =? t') && msg_content_eqb m m'
           | _ => false
           end
  end.

Definition relay_mismatches (cs : list relay_case) : list nat := positions (map relay_mismatch cs).
Definition relay_violations (cs : list relay_case) : list nat := positions (map relay_violates cs).
Definition e2e_violations (cs : list relay_case) : list nat := positions (map e2e_violates cs).

(** ** forwarder.Publisher.Publish on a scripted publisher *)
Record fpub_case := FC {
  f_dflt : N; f_cfg : N; f_t : N; f_ms : list msg; f_pb : pubbeh;
  f_san : list (N * N);                              (* json.Marshal on the strings of this case *)
  f_calls : list (N * list (option envelope));       (* calls on the wrapped publisher, payloads decoded *)
  f_ok : bool                                        (* Publish returned nil *)
}.
Definition fpub_enc (c : fpub_case) (e : envelope) : option envelope := Some (san_env (san_of (f_san c)) e).
Definition fpub_mismatch (c : fpub_case) : bool :=
  let expected := match fpub_publish (fpub_enc c) (f_dflt c) (f_cfg c) (f_t c) (f_ms c) with
                  | Some call => [call] | None => [] end in
  negb (list_eqb (fun a b => (fst a =? fst b) && list_eqb (option_eqb env_eqb) (snd a) (snd b)) expected (f_calls c)
        && Bool.eqb (fpub_ok (fpub_enc c) (f_dflt c) (f_cfg c) (f_t c) (f_ms c) (f_pb c)) (f_ok c)).
Definition fpub_mismatches (cs : list fpub_case) : list nat := positions (map fpub_mismatch cs).

(** ** FanOut: real GoChannel inside *)
Record fanout_case := FO {
  o_src : N; o_msg : msg; o_nsubs : nat; o_closed : bool;
  o_got : list (N * msg); o_seen : list settle; o_final : settle
}.
Definition fanout_mismatch (c : fanout_case) : bool :=
  let none := fun _ : N => @None envelope in
  let '(f, tr) := run none (fun _ => None) (fun _ => 0) 0 CFanOut (Inp (o_src c) (o_msg c) false (fanout_pb (o_closed c))) in
  let seen := if o_closed c then [] else map (fun x => snd x) (pubs tr) in   (* a closed GoChannel returns before its snapshot point *)
  negb (settle_eqb f (o_final c)
        && list_eqb settle_eqb seen (o_seen c)
        && list_eqb (fun a b => (fst a =? fst b) && msg_eqb (snd a) (snd b))
                    (map (pair (o_src c)) (fanout_deliver (o_nsubs c) (o_closed c) (o_msg c))) (o_got c)).
Definition fanout_violates (c : fanout_case) : bool :=
  negb (fanout_monitor (o_src c) (o_msg c) (o_nsubs c) (o_closed c) (o_got c) (o_seen c) (o_final c)).
Definition fanout_mismatches (cs : list fanout_case) : list nat := positions (map fanout_mismatch cs).
Definition fanout_violations (cs : list fanout_case) : list nat := positions (map fanout_violates cs).

(** ** constructors: NewFanIn, NewRequeuer (0 ok, 1 error, 2 panic) *)
Definition ctor_code (r : ctor_res) : N := match r with NewOk => 0 | NewErr => 1 | NewPanic => 2 end.
Record fanin_cfg_case := FIC { c_sub : bool; c_pub : bool; c_sources : list N; c_target : N; c_res : N }.
Definition fanin_cfg_mismatch (c : fanin_cfg_case) : bool :=
  negb (ctor_code (fanin_new (c_sub c) (c_pub c) (c_sources c) (c_target c)) =? c_res c).
Definition fanin_cfg_mismatches (cs : list fanin_cfg_case) : list nat := positions (map fanin_cfg_mismatch cs).
Record requeuer_cfg_case := RQC { q_sub : bool; q_topic : bool; q_pub : bool; q_gen : bool; q_res : N }.
Definition requeuer_cfg_mismatch (c : requeuer_cfg_case) : bool :=
  negb (ctor_code (requeuer_new (q_sub c) (q_topic c) (q_pub c) (q_gen c)) =? q_res c).
Definition requeuer_cfg_mismatches (cs : list requeuer_cfg_case) : list nat := positions (map requeuer_cfg_mismatch cs).

(** ** round "proofs": redelivery from a real GoChannel source *)
From WM Require Import Relay.Redelivery.

Record redeliv_case := RD {
  d_comp : kcomp; d_src : N; d_msg : msg;          (* the original handed to the source GoChannel *)
  d_beh : list attempt;                            (* what the destination does per attempt *)
  d_dec : option envelope; d_atoi : list (N * Z); d_itoa : list (Z * N); d_rk : N;
  d_obs : list (settle * list ev);                 (* the attempts the implementation made *)
  d_after : msg                                    (* the original afterwards *)
}.
Definition res_eqb (a b : settle * list ev) : bool :=
  settle_eqb (fst a) (fst b) && list_eqb ev_eqb (snd a) (snd b).
Definition redeliv_mismatch (c : redeliv_case) : bool :=
  let '(rs, o) := redeliver (fun _ => d_dec c) (lookupN (d_atoi c)) (lookupZ (d_itoa c)) (d_rk c)
                            FreshCopy (comp_of (d_comp c)) (d_src c) (d_msg c) (d_beh c) in
  negb (list_eqb res_eqb rs (d_obs c) && msg_eqb o (d_after c)).
Definition redeliv_violates (c : redeliv_case) : bool :=
  negb (redelivery_monitor (fun _ => d_dec c) (lookupN (d_atoi c)) (d_rk c)
                           (comp_of (d_comp c)) (d_src c) (d_msg c) (d_beh c) (d_obs c) (d_after c)).
Definition redeliv_mismatches (cs : list redeliv_case) : list nat := positions (map redeliv_mismatch cs).
Definition redeliv_violations (cs : list redeliv_case) : list nat := positions (map redeliv_violates cs).

(** forwarder.Publisher -> GoChannel -> Forwarder -> GoChannel (blocking) -> a subscriber that nacks
    the first k copies: it must see k+1 intact copies on the topic published to, and nothing else.
    (the fan-out acceptor with "k+1 deliveries" in the place of "n subscribers") *)
Record chain_case := CH { h_topic : N; h_msg : msg; h_nacks : nat; h_got : list (N * msg); h_final : settle }.
Definition chain_violates (c : chain_case) : bool :=
  negb (fanout_monitor (h_topic c) (h_msg c) (S (h_nacks c)) false (h_got c) [] (h_final c)).
Definition chain_violations (cs : list chain_case) : list nat := positions (map chain_violates cs).

(** ** round "proofs 3": Forwarder / Publisher configuration *)
From WM Require Import Relay.Config.
Record fwdcfg_case := FWC {
  w_dflt : N; w_topic : N; w_timeout : Z;
  w_obs_topic : N; w_obs_timeout : Z;          (* Config after setDefaults *)
  w_valid_raw : bool; w_valid_after : bool;     (* Config.Validate before / after *)
  w_new_ok : bool; w_sub_topic : option N;      (* NewForwarder; topic subscribed to when run *)
  w_pub_topic : N; w_pub_valid_raw : bool; w_pub_send : N
}.
Definition fwdcfg_mismatch (c : fwdcfg_case) : bool :=
  let raw := FCfg (w_topic c) (w_timeout c) in
  let d := fwd_set_defaults (w_dflt c) raw in
  negb ((fc_topic d =? w_obs_topic c) && (fc_timeout d =? w_obs_timeout c)%Z
        && Bool.eqb (fwd_validate raw) (w_valid_raw c) && Bool.eqb (fwd_validate d) (w_valid_after c)
        && Bool.eqb (match fst (forwarder_new (w_dflt c) raw) with NewOk => true | _ => false end) (w_new_ok c)
        && match w_sub_topic c with Some t => snd (forwarder_new (w_dflt c) raw) =? t | None => true end
        && (publisher_topic (w_dflt c) (w_topic c) =? w_pub_topic c)
        && Bool.eqb (fwd_validate raw) (w_pub_valid_raw c)
        && (publisher_topic (w_dflt c) (w_topic c) =? w_pub_send c)).
Definition fwdcfg_mismatches (cs : list fwdcfg_case) : list nat := positions (map fwdcfg_mismatch cs).
