(** Comparators for C18 cases (no proofs).

    Listener case: the notifications offered to one listener (in arrival order), the schedule
    reconstructed from the hook stamps of that listener and the harness's caller stamps, and what
    was observed at the end (when the listener was finished or provably parked).
    Delivery case: one delivery of a command to the request-reply handler inside a Router. *)
From WM Require Import Base.Prelude Message.Model Handler.RouterHandle ReqReply.Listen ReqReply.Processed.

Definition tab_lookup (t : list (N * option N)) (k : N) : option N :=
  match find (fun kv => N.eqb (fst kv) k) t with Some (_, v) => v | None => None end.

Record c18_listen_case := LC {
  lc_cfg : cfg;
  lc_dec : list (N * option N);     (* json.Unmarshal of each payload, computed by the harness *)
  lc_stream : list notif;
  lc_sched : list label;
  lc_obs : obs;
  lc_done : bool                    (* implementation: the listener goroutine finished *)
}.

(** strict replay returning the index of the first label the model refuses *)
Fixpoint replay_idx (dec : notif -> option (N * option N)) (c : cfg) (s : lstate) (ls : list label) (k : nat) : lstate + nat :=
  match ls with
  | [] => inl s
  | l :: ls' => match lstep dec c s l with Some s' => replay_idx dec c s' ls' (S k) | None => inr k end
  end.

Definition replies_eqb := list_eqb reply_eqb.
Definition pc_done (p : lpc) : bool := match p with PDone => true | _ => false end.

(** 0 = agree; 1000+k = the model refuses the k-th label; otherwise a bit set:
    1 replies read, 2 buffered rest, 4 consumed/acked, 8 channel closed, 16 hook count,
    32 finished-or-not, 64 the model's listener can still move where the implementation is parked *)
Definition c18_listen_code (k : c18_listen_case) : nat :=
  let dec := unm_json (tab_lookup (lc_dec k)) in
  match replay_idx dec (lc_cfg k) (linit (lc_stream k)) (lc_sched k) 0 with
  | inr i => 1000 + i
  | inl s =>
      let o := obs_of s in let o' := lc_obs k in
      (if replies_eqb (o_got o) (o_got o') then 0 else 1)
      + (if replies_eqb (o_rest o) (o_rest o') then 0 else 2)
      + (if Nat.eqb (o_consumed o) (o_consumed o') && list_eqb N.eqb (o_acked o) (o_acked o') then 0 else 4)
      + (if Bool.eqb (o_closed o) (o_closed o') then 0 else 8)
      + (if Nat.eqb (o_hooks o) (o_hooks o') then 0 else 16)
      + (if Bool.eqb (pc_done (pc s)) (lc_done k) then 0 else 32)
      + (if quiescent dec (lc_cfg k) s then 0 else 64)
  end.

(** 0 = accepted; 1 = safety clause rejected; 2 = liveness clause rejected; 3 = both *)
Definition c18_listen_verdict (k : c18_listen_case) : nat :=
  let dec := unm_json (tab_lookup (lc_dec k)) in
  (if safe_ok dec (lc_cfg k) (lc_stream k) (lc_obs k) then 0 else 1)
  + (if live_ok (lc_cfg k) (lc_obs k) then 0 else 2).

Fixpoint nonzero_from (n : nat) (l : list nat) : list (nat * nat) :=
  match l with
  | [] => []
  | x :: l' => (match x with 0 => [] | _ => [(n, x)] end) ++ nonzero_from (S n) l'
  end.

Definition c18_listen_mismatches (ks : list c18_listen_case) : list (nat * nat) :=
  nonzero_from 0 (map c18_listen_code ks).
Definition c18_listen_violations (ks : list c18_listen_case) : list (nat * nat) :=
  nonzero_from 0 (map c18_listen_verdict ks).

(** ** deliveries *)
Record c18_proc_case := PC {
  pk_cfg : pcfg;
  pk_in : pinput;
  pk_enc : list (N * option N);     (* json.Marshal of the result, computed by the harness *)
  pk_tr : list tevent;
  pk_final : settle
}.

Definition pevent_eqb (a b : pevent) : bool :=
  match a, b with
  | PCall, PCall => true
  | PPublish n1, PPublish n2 => notif_eqb n1 n2
  | PPublishRet a1, PPublishRet a2 => Bool.eqb a1 a2
  | PErrHandler a1, PErrHandler a2 => Bool.eqb a1 a2
  | _, _ => false
  end.
Definition tevent_eqb (a b : tevent) : bool :=
  match a, b with
  | TP x, TP y => pevent_eqb x y
  | TR (HSettle a1 _), TR (HSettle a2 _) => Bool.eqb a1 a2    (* the Router ignores the return value *)
  | _, _ => false
  end.

Definition c18_proc_mismatch (k : c18_proc_case) : bool :=
  let '(tr, fin) := process (tab_lookup (pk_enc k)) (pk_cfg k) (pk_in k) in
  negb (list_eqb tevent_eqb tr (pk_tr k) && settle_eqb fin (pk_final k)).
Definition c18_proc_violates (k : c18_proc_case) : bool :=
  negb (processed_ok (tab_lookup (pk_enc k)) (pk_cfg k) (pk_in k) (pk_tr k) (pk_final k)).

Definition c18_proc_mismatches (ks : list c18_proc_case) : list nat := positions (map c18_proc_mismatch ks).
Definition c18_proc_violations (ks : list c18_proc_case) : list nat := positions (map c18_proc_violates ks).

(** ** direct calls of the wrapped cqrs handler (every branch of handler.go / OnCommandProcessed /
    MarshalReply): compared with [on_processed]; judged by [processed_ok] after composing the
    observed handler behaviour with the Router model of C02 *)
Record c18_onproc_case := OPC {
  oc_cfg : pcfg; oc_in : pinput; oc_enc : list (N * option N);
  oc_evs : list pevent; oc_failed : bool
}.
Definition c18_onproc_mismatch (k : c18_onproc_case) : bool :=
  let '(evs, f) := on_processed (tab_lookup (oc_enc k)) (oc_cfg k) (oc_in k) in
  negb (list_eqb pevent_eqb evs (oc_evs k) && Bool.eqb f (oc_failed k)).
Definition c18_onproc_violates (k : c18_onproc_case) : bool :=
  let '(m, hev) := handle PubDisabled PubAccept (chain_of (oc_failed k)) in
  negb (processed_ok (tab_lookup (oc_enc k)) (oc_cfg k) (oc_in k)
          (map TP (oc_evs k) ++ map TR (filter (fun e => match e with HCall => false | _ => true end) hev)) (st m)).
Definition c18_onproc_mismatches (ks : list c18_onproc_case) : list nat := positions (map c18_onproc_mismatch ks).
Definition c18_onproc_violations (ks : list c18_onproc_case) : list nat := positions (map c18_onproc_violates ks).

(** ** the caller thread (ReqReply/Caller.v): the composed schedule of one request is replayed
    strictly; the caller must end where the implementation's caller ended (0 = the user owns the
    channel, 1 = SendWithReply returned the reply it read, 2 = "context closed", 3 = send error)
    and the listener part must agree with the observation as in [c18_listen_code] *)
From WM Require Import ReqReply.Caller.

Record c18_caller_case := CC {
  cc_listen : c18_listen_case;
  cc_api : api;
  cc_sched : list clabel;
  cc_end : nat
}.

Fixpoint creplay_idx (dec : notif -> option (N * option N)) (c : cfg) (a : api) (s : cstate) (ls : list clabel) (k : nat) : cstate + nat :=
  match ls with
  | [] => inl s
  | l :: ls' => match cstep dec c a s l with Some s' => creplay_idx dec c a s' ls' (S k) | None => inr k end
  end.

Definition kp_code (dec : notif -> option (N * option N)) (s : cstate) : nat :=
  match kp s with
  | KUser => 0
  | KReturned (OReply r) => match got (lsys s) with [r'] => if reply_eqb r r' then 1 else 9 | _ => 9 end
  | KReturned OCtxErr => 2
  | KReturned OSendErr => 3
  | _ => 8
  end.

(** 0 = agree; 1000+k = the composed model refuses the k-th label; 500 = the caller ended
    differently; otherwise the bit set of [c18_listen_code] for the listener part *)
Definition c18_caller_code (k : c18_caller_case) : nat :=
  let lc := cc_listen k in
  let dec := unm_json (tab_lookup (lc_dec lc)) in
  match creplay_idx dec (lc_cfg lc) (cc_api k) (cinit (lc_stream lc)) (cc_sched k) 0 with
  | inr i => 1000 + i
  | inl s =>
      if negb (Nat.eqb (kp_code dec s) (cc_end k)) then 500 else
      let o := obs_of (lsys s) in let o' := lc_obs lc in
      (if replies_eqb (o_got o) (o_got o') then 0 else 1)
      + (if replies_eqb (o_rest o) (o_rest o') then 0 else 2)
      + (if Nat.eqb (o_consumed o) (o_consumed o') && list_eqb N.eqb (o_acked o) (o_acked o') then 0 else 4)
      + (if Bool.eqb (o_closed o) (o_closed o') then 0 else 8)
      + (if Nat.eqb (o_hooks o) (o_hooks o') then 0 else 16)
      + (if Bool.eqb (pc_done (pc (lsys s))) (lc_done lc) then 0 else 32)
      + (if quiescent dec (lc_cfg lc) (lsys s) then 0 else 64)
  end.

Definition c18_caller_mismatches (ks : list c18_caller_case) : list (nat * nat) :=
  nonzero_from 0 (map c18_caller_code ks).

(** ** API glue (ReqReply/Api.v): configuration validation and the exits of SendWithReplies before /
    right after the listener starts; verdicts C18/api:... *)
From WM Require Import ReqReply.Api.
Inductive c18_api_case :=
| AV (v : vcfg) (accepted : bool)
| AL (has_hook : bool) (i : listen_in) (o : api_obs).
Definition c18_api_violates (k : c18_api_case) : bool :=
  match k with
  | AV v a => negb (validate_ok v a)
  | AL h i o => negb (api_ok h i o)
  end.
Definition c18_api_violations (ks : list c18_api_case) : list nat := positions (map c18_api_violates ks).
