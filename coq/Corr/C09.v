(** Comparators for C09 cases: the same case record and model comparison as C08 (Corr/C08.v); the
    acceptor is the order projection [c09_monitor]. No proofs. *)
From WM Require Import Base.Prelude Message.Model Handler.RouterHandle Router.Wiring Router.WiringSpec.
From WM Require Export Corr.C08.

Definition c09_violates (c : wcase) : bool :=
  negb (c09_monitor_st (w_ops c) (w_obs c)) || (plain (w_ops c) && negb (c09_monitor (w_ops c) (w_obs c))).
Definition c09_violations (cs : list wcase) : list nat := positions (map c09_violates cs).

Definition c09_lviolates (c : lcase) : bool := c09_violates (lc_wc c).
Definition c09_lviolations (cs : list lcase) : list nat := positions (map c09_lviolates cs).
