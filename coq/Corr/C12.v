(** Comparators for C12 cases (no proofs).  A case = configuration + handler script + what the
    real Retry middleware was observed to do for ONE message.  [c12_mismatches]: the model, run on
    the same configuration and script with the oracles read off the observation (which delays
    were reported, where the call gave up), must produce the same events and result.
    [c12_violations]: the property monitor rejects the observation. *)
From WM Require Import Base.Prelude Message.Model Handler.RouterHandle Handler.Retry Handler.RetryMonitor Handler.RetryRouter.
From Coq Require Import QArith Qround.
Open Scope Z_scope.

Record c12_case := C12 {
  k_cfg : cfg;
  k_script : list outcome;      (* k-th invocation returns the k-th entry, the last repeats *)
  k_obs : obs
}.

Definition script_fn (l : list outcome) : nat -> outcome := nth_last ([], 1%N) l.

(** wall-clock slack: 0.2 ms on lower bounds, 200 ms / 1 s on "should have given up" *)
(** retries tolerated after cancel() had returned (each one a select race lost to a ready timer,
    probability <= 1/2: a false alarm has probability <= 2^-40 per case) *)
Definition race_bound : nat := 40.
Definition impl_slack : slack := Slack 200000 200000000 1000000000 1.

(** the delay reported after each retry attempt (k >= 1), None when not observable *)
Fixpoint delays_of (tr : list event) : list (option Z) :=
  match tr with
  | ECall (S _) _ _ :: rest =>
    match rest with
    | ELog _ d _ :: _ => Some d
    | EHook _ d :: _ => Some d
    | _ => None
    end :: delays_of rest
  | _ :: rest => delays_of rest
  | [] => []
  end.

(** a random number that makes getRandomValueFromInterval return [d] (clamped into the interval) *)
Definition rnd_for (rf : Q) (cur d : Z) : Q :=
  let mn := rv_min rf cur in
  let mx := rv_max rf cur in
  (* truncation is toward zero: d >= 0 is the image of [d, d+1), d < 0 of (d-1, d] *)
  let cand := (if 0 <=? d then inject_Z d else inject_Z d - (1#2))%Q in
  let x0 := if Qle_bool cand mn then mn else cand in                   (* trunc x0 = d if d is reachable *)
  let x := if Qle_bool (mx + 1) x0 then mn else x0 in                  (* outside [mn, mx+1): any value, the model will differ *)
  (x - mn) / (mx - mn + 1).

Definition sel_timer (elapsed : Z) (rnd : Q) : sel := Sel 0 elapsed rnd false 0 0.
Definition sel_exit : sel := Sel 0 0 0 true 0 0.

Fixpoint mk_sels (c : cfg) (cur : Z) (ds : list (option Z)) : list sel :=
  match ds with
  | [] => []
  | Some d :: ds' =>
    if d =? STOP then sel_timer (max_elapsed c + 1) 0 :: mk_sels c cur ds'
    else sel_timer 0 (rnd_for (rfac c) cur d) :: mk_sels c (incr_interval c cur) ds'
  | None :: ds' => sel_timer 0 0 :: mk_sels c (incr_interval c cur) ds'
  end.

Definition mk_env (c : cfg) (o : obs) : env :=
  let sels := mk_sels c (initial c) (delays_of (o_trace o)) in
  Env 0 0 0 0 (o_cpre o) None (fun k => nth (pred k) sels sel_exit).

Definition event_eqb (exact : bool) (a b : event) : bool :=
  let deq x y := if exact then x =? y else (Z.abs (x - y) <=? 1) in
  match a, b with
  | ECall k _ _, ECall k' _ _ => (k =? k')%nat
  | ELog n d m, ELog n' d' m' => (n =? n') && deq d d' && (m =? m')
  | EHook n d, EHook n' d' => (n =? n') && deq d d'
  | _, _ => false
  end.

Definition c12_mismatch (k : c12_case) : bool :=
  let c := k_cfg k in
  let r := retry c (script_fn (k_script k)) (mk_env c (k_obs k)) in
  let exact := Qeq_bool (rfac c) 0 in
  negb (list_eqb (event_eqb exact) (r_trace r) (o_trace (k_obs k))
        && outcome_eqb (r_out r) (o_out (k_obs k))).

Definition c12_violates (k : c12_case) : bool :=
  negb (retry_monitor (k_cfg k) impl_slack (script_fn (k_script k)) (k_obs k)
        && late_ok race_bound (k_obs k)).

Definition c12_mismatches (cs : list c12_case) : list nat := positions (map c12_mismatch cs).
Definition c12_violations (cs : list c12_case) : list nat := positions (map c12_violates cs).

(** the back-off schedule of a configuration (no Stop): currentInterval before retries 1..n;
    printed into the evidence and compared with the delays reported when rf = 0 *)
Definition schedule (c : cfg) (n : nat) : list Z := map (fun k => cur_at c (S k)) (seq 0 n).

(** Retry inside a real Router (handler with a real publisher that accepts or fails): the
    settlement of the consumed message and the Publish calls must be what C02's [handle] does
    with the result of the model's run of Retry *)
Record c12_router_case := C12R {
  rk_case : c12_case; rk_pub : pubbeh; rk_settle : settle; rk_published : list (list N)
}.
Definition c12_router_mismatch (k : c12_router_case) : bool :=
  let c := k_cfg (rk_case k) in
  let r := retry c (script_fn (k_script (rk_case k))) (mk_env c (k_obs (rk_case k))) in
  let '(m, tr) := handle PubReal (rk_pub k) (chain_of (r_out r)) in
  negb (settle_eqb (st m) (rk_settle k)
        && list_eqb (list_eqb N.eqb) (publishes tr) (rk_published k)).
Definition c12_router_mismatches (cs : list c12_router_case) : list nat :=
  positions (map c12_router_mismatch cs).

(** the errors the scripted LoggerAdapter was handed, in order, against the model's [log_errs] *)
Record c12_log_case := C12L { lk_case : c12_case; lk_errs : list N }.
Definition c12_log_mismatch (k : c12_log_case) : bool :=
  let c := k_cfg (lk_case k) in
  let h := script_fn (k_script (lk_case k)) in
  let r := retry c h (mk_env c (k_obs (lk_case k))) in
  negb (list_eqb N.eqb (log_errs h (r_trace r)) (lk_errs k)).
Definition c12_log_mismatches (cs : list c12_log_case) : list nat := positions (map c12_log_mismatch cs).
