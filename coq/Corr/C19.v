(** Comparators for C19 cases (no proofs).  A case = one chain of middlewares around one scripted
    handler, invoked [length k_invs] times on the same message object; per invocation the events
    the handler recorded, what the chain returned and the message right afterwards. *)
From WM Require Import Base.Prelude Simple.Model Simple.Monitor Simple.Throttle Simple.Deadline.

Record inv_obs := Inv { i_trace : list event; i_res : outcome; i_after : vstate }.
Record c19_case := C19 { k_mws : list mw; k_script : script; k_init : mstate; k_invs : list inv_obs }.

Definition vstate_eqb (a b : vstate) : bool :=
  meta_equiv (v_meta a) (v_meta b) && Bool.eqb (v_same a) (v_same b) && Bool.eqb (v_done a) (v_done b)
  && optZ_eqb (v_deadline a) (v_deadline b) && settle_eqb (v_settle a) (v_settle b).
Definition event_eqb (a b : event) : bool :=
  match a, b with
  | ECall j v, ECall k w => Nat.eqb j k && vstate_eqb v w
  | ERetryHook m, ERetryHook n => Z.eqb m n
  | _, _ => false
  end.
Definition out_eqb (a b : out) : bool :=
  match a, b with
  | OSelf, OSelf => true
  | OMsg a, OMsg b => N.eqb (o_id a) (o_id b) && N.eqb (o_uuid a) (o_uuid b)
                      && N.eqb (o_payload a) (o_payload b) && meta_equiv (o_meta a) (o_meta b)
  | _, _ => false
  end.
Definition outcome_eqb (a b : outcome) : bool :=
  K_eqb (rkind a) (rkind b) && list_eqb out_eqb (outs_of a) (outs_of b).
Definition inv_eqb (a b : inv_obs) : bool :=
  list_eqb event_eqb (i_trace a) (i_trace b) && outcome_eqb (i_res a) (i_res b)
  && vstate_eqb (i_after a) (i_after b).

Fixpoint model_invs (h : handler) (n : nat) (w : world) : list inv_obs :=
  match n with
  | O => []
  | S n' => let '(w1, r) := h (W (w_msg w) (w_calls w) []) in
            Inv (w_trace w1) r (view (w_msg w1)) :: model_invs h n' w1
  end.

Definition c19_model (v : variant) (c : c19_case) : list inv_obs :=
  model_invs (stack v (k_mws c) (scripted (k_script c))) (length (k_invs c)) (init_world (k_init c)).
Definition c19_mismatch (v : variant) (c : c19_case) : bool :=
  negb (list_eqb inv_eqb (c19_model v c) (k_invs c)).

(** the acceptor on every invocation, each judged from the message as it was observed before it *)
Fixpoint accept_invs (mws : list mw) (s : script) (w0 : world) (l : list inv_obs) : bool :=
  match l with
  | [] => true
  | i :: l' => accept mws s w0 (i_trace i) (i_res i) (i_after i)
               && accept_invs mws s (W (unview (i_after i)) (w_calls w0 + ncalls (i_trace i)) []) l'
  end.
Definition c19_violates (c : c19_case) : bool :=
  negb (accept_invs (k_mws c) (k_script c) (init_world (k_init c)) (k_invs c)).

(** which clauses fail, at the first rejected invocation: 100*i + 10*(retry chain) + clause *)
Fixpoint reasons_invs (n : nat) (mws : list mw) (s : script) (w0 : world) (l : list inv_obs) : list nat :=
  match l with
  | [] => []
  | i :: l' =>
      let '(rt, cl) := clauses mws s w0 (i_trace i) (i_res i) (i_after i) in
      if all_true cl then reasons_invs (S n) mws s (W (unview (i_after i)) (w_calls w0 + ncalls (i_trace i)) []) l'
      else map (fun k => 100 * n + (if rt then 10 else 0) + k) (positions (map negb cl))
  end.
Definition c19_reasons (c : c19_case) : list nat :=
  reasons_invs 0 (k_mws c) (k_script c) (init_world (k_init c)) (k_invs c).

Definition c19_mismatches (v : variant) (cs : list c19_case) : list nat := positions (map (c19_mismatch v) cs).
Definition c19_violations (cs : list c19_case) : list nat := positions (map c19_violates cs).

(** Throttle: observed handler start times (ns) through one Throttle value *)
Record thr_case := Thr { th_p : Z; th_slack : Z; th_starts : list Z }.
Definition thr_violates (c : thr_case) : bool := negb (spaced (th_p c) (th_slack c) (th_starts c)).
Definition thr_violations (cs : list thr_case) : list nat := positions (map thr_violates cs).
(** n handler starts, all between [a] (before the first call entered the middleware) and [b] (the last
    recorded start): n-2 periods fit (C19_throttle_window), no slack needed *)
Definition thr_count_violates (p n a b : Z) : bool := negb (Z.leb ((n - 2) * p) (b - a)).

(** the model's own starts for the same arrivals pass with slack 0 (sanity of the encoding) *)
Definition thr_model_ok (p : Z) (arr : list Z) : bool :=
  spaced p 0 (throttle_run p (new_ticker 0 p) 0 arr).

(** a handler blocking on Done() under small Timeouts: observed Done() times (ns since just before the
    chain was called), judged by the predicate of C19_deadline_attempts *)
Record dl_case := DL { dl_dmin : Z; dl_slack : Z; dl_dones : list Z; dl_want : nat }.
Definition dl_violates (c : dl_case) : bool :=
  negb (block_ok 0 (dl_dmin c) (dl_slack c) (dl_dones c) && Nat.eqb (length (dl_dones c)) (dl_want c)).
Definition dl_violations (cs : list dl_case) : list nat := positions (map dl_violates cs).
(** the model's own times for the same chain (zero latencies) pass with slack 0 *)
Definition dl_model_ok (c : tchain) (n : nat) (dmin : Z) : bool :=
  block_ok 0 dmin 0 (attempts n 0 c [] [] []).
