(** Comparators for the PoisonQueue(Retry(h)) cases (no proofs).  The real Retry middleware runs
    with a live context and MaxElapsedTime = 0, so its select can only take the timer: the
    environment handed to C12's model never takes [ctx.Done()]; timing plays no role in what
    Retry returns.  Error ids are interned texts of errors.New sentinels: [errof = EBase] and
    the text of [EBase i] is [i]. *)
From WM Require Import Base.Prelude Message.Model Handler.RouterHandle Handler.Poison Handler.PoisonRetry Handler.PoisonRetryObs Corr.C13.
From WM Require Handler.Retry.
From Coq Require Import QArith.

Record c13r_case := K13R {
  rq_router : bool; rq_topic : N; rq_filter : option pfilter; rq_pp : ppub;
  rq_ctx : rctx; rq_msg : pmsg; rq_maxretries : Z; rq_script : list Retry.outcome; rq_pb : pubbeh;
  (* observed *)
  rq_calls : nat; rq_tr : list (rpevent N); rq_final : settle; rq_res : mwres N; rq_mf : pmsg
}.

Definition rq_cfg (c : c13r_case) : pcfg := PC (rq_topic c) (option_map filter_sem (rq_filter c)).
Definition rq_txt : err -> N := fun e => match e with EBase i => i | _ => 0%N end.
Definition rq_script_fn (c : c13r_case) : nat -> Retry.outcome := nth_last ([], 1%N) (rq_script c).
Definition rq_rc (c : c13r_case) : Retry.cfg :=
  Retry.Cfg (rq_maxretries c) 200000 1000000 1 0 0 false false.
Definition rq_env : Retry.env :=
  Retry.Env 0 0 0 0 None None (fun _ => Retry.Sel 0 0 0 false 0 0).

(** model vs implementation: number of handler invocations, trace, chain result, settlement,
    the consumed object afterwards *)
Definition c13r_mismatch (c : c13r_case) : bool :=
  negb (Nat.eqb (attempts_made (rq_rc c) (rq_script_fn c) rq_env) (rq_calls c))
  || (if rq_router c then
        let '(ms, tr, r, mf) := poison_retry_in_router rq_txt EBase (rq_cfg c) (rq_ctx c) (rq_msg c) PreNone []
                                  (rq_rc c) (rq_script_fn c) rq_env (rq_pp c) PubReal (rq_pb c) in
        negb (list_eqb rpevent_eqb tr (rq_tr c) && settle_eqb (st ms) (rq_final c)
              && mwres_eqb r (rq_res c) && pmsg_eqb mf (rq_mf c))
      else
        let '(r, ev, mf) := poison_retry rq_txt EBase (rq_cfg c) (rq_ctx c) (rq_msg c) Unsettled PreNone []
                              (rq_rc c) (rq_script_fn c) rq_env (rq_pp c) in
        negb (list_eqb pevent_eqb ev (pproj (rq_tr c)) && mwres_eqb r (rq_res c) && pmsg_eqb mf (rq_mf c))).

(** the property's acceptor, independent of C12's model: what the poison queue's "handler"
    (= Retry around h) did is read off the OBSERVATION - the last invocation made decides: it
    succeeded (its outputs are the result) or it failed (Retry hands on its error; which outputs
    it hands on is Retry's business, taken from the observed chain result) *)
Definition rq_obs_h (c : c13r_case) : hscript N :=
  obs_h EBase (rq_script_fn c) (rq_calls c) [] (rq_res c).   (* PoisonRetryObs.obs_h: C13_retry_acceptor_model_accepted *)

Definition c13r_violates (c : c13r_case) : bool :=
  (* every invocation before the last one failed (else Retry went on after a success) *)
  negb (forallb (fun k => negb (Retry.is_ok (rq_script_fn c k))) (seq 0 (pred (rq_calls c))))
  || Nat.eqb (rq_calls c) 0
  || (if rq_router c then
        negb (c13_monitor rq_txt N.eqb (rq_cfg c) (rq_ctx c) (rq_msg c) (rq_obs_h c) (rq_pp c) PubReal (rq_pb c)
                          (rq_tr c) (rq_final c) (rq_res c) (rq_mf c))
      else
        negb (mw_monitor rq_txt N.eqb (rq_cfg c) (rq_ctx c) (rq_msg c) (rq_obs_h c) (rq_pp c)
                         (rq_res c) (pproj (rq_tr c)) (rq_mf c))).

Definition c13r_mismatches (cs : list c13r_case) : list nat := positions (map c13r_mismatch cs).
Definition c13r_violations (cs : list c13r_case) : list nat := positions (map c13r_violates cs).
