(** Comparator for the subscriber-decorator scenarios of C07: replay of the stamped pump / Close
    log on Decorator/Pump.v.  No proofs. *)
From WM Require Import Base.Prelude Decorator.Pump.

Record p_case := PC { p_fixed : bool; p_labels : list plabel;
                      p_delivered : list msg;      (* what the consumer received, in order *)
                      p_close_returned : bool; p_out_closed : bool }.

(** (first rejected label (1-based) or 0, model panicked, delivered differs, Close-returned differs, out-closed differs) *)
Definition p_run (c : p_case) : nat * bool * bool * bool * bool :=
  let '(r, s) := preplay (pinit (p_fixed c)) (p_labels c) 0 in
  (r, panicked s,
   negb (list_eqb Nat.eqb (delivered s) (p_delivered c)),
   negb (Bool.eqb (match closer s with CDone => true | _ => false end) (p_close_returned c)),
   negb (Bool.eqb (out_closed s) (p_out_closed c))).
Definition p_results (cs : list p_case) := map p_run cs.
