(** Comparators for the GoChannel scenarios (C04, C05, C07, C11): schedule replay on the two
    layers with the observations the hooks carry, and API-level acceptors. No proofs. *)
From WM Require Import Base.Prelude Message.Model GoChannel.Sub GoChannel.Reg.

(** ** Layer A: one subscription *)
(** a label with what the implementation observed at that point: for a receive, which
    publication the received copy belongs to *)
Definition alabel := (label * option pubid)%type.

Definition a_check (s : sstate) (l : alabel) : bool :=
  match l with
  | (LRecv, Some p) => match Sub.buf s with c :: _ => Nat.eqb (c_pub (Sub.copies s c)) p | [] => false end
  | (LHandoff t, Some p) => match Sub.thr s t with SSend p' _ => Nat.eqb p p' | _ => false end
  | _ => true
  end.

(** 0 = accepted; n+1 = the n-th label (0-based) was not enabled or its observation differs *)
Fixpoint a_replay (s : sstate) (ls : list alabel) (i : nat) : nat * sstate :=
  match ls with
  | [] => (0, s)
  | l :: ls' =>
      if a_check s l then
        match sstep s (fst l) with
        | Some s' => a_replay s' ls' (S i)
        | None => (S i, s)
        end
      else (S i, s)
  end.

Record a_case := AC { a_cap : nat; a_fixed : bool; a_labels : list alabel }.

(** result: (first rejected label or 0, panicked in the model, max number of copies in flight
    seen at any point is not computed here: by the theorem it is <= 1 whenever accepted) *)
Definition a_run (c : a_case) : nat * bool :=
  let '(r, s) := a_replay (sinit (a_cap c) (a_fixed c)) (a_labels c) 0 in (r, Sub.panicked s).

Definition a_results (cs : list a_case) : list (nat * bool) := map a_run cs.

(** ** Layer B: the registry *)
Inductive gexpect :=
| ENone
| ESnap (xs : list subid)          (* the subscriber snapshot sendMessage took *)
| EReplay (ps : list pubid)        (* the persisted messages the replay goroutine read *)
| EClosed (b : bool)               (* what isClosed() returned *)
| ERet (ok : bool)                 (* Publish returned nil / did not panic *)
| ESendEnd.                        (* the silent end of the send loop; absent when Publish panicked earlier *)

Definition list_nat_eqb := list_eqb Nat.eqb.

Definition g_check_pre (s : gstate) (l : glabel) (e : gexpect) : bool :=
  match e, l with
  | ESnap xs, GT t => match Reg.thr s t with PSend k (_ :: _) => list_nat_eqb (subs s k) xs | _ => false end
  | EReplay ps, GS_ x => match Reg.sb s x with SReplay k => list_nat_eqb (persist_get s k) ps | _ => false end
  | EClosed b, GT t => match Reg.thr s t with PCheck _ _ => Bool.eqb (closed s) b | _ => false end
  | _, _ => true
  end.
Definition g_check_post (s : gstate) (l : glabel) (e : gexpect) : bool :=
  match e, l with
  | ERet ok, GT t => match Reg.thr s t with PDone ok' => Bool.eqb ok ok' | _ => false end
  | _, _ => true
  end.

Fixpoint g_replay (s : gstate) (ls : list (glabel * gexpect)) (i : nat) : nat * gstate :=
  match ls with
  | [] => (0, s)
  | (GT t, ESendEnd) :: ls' =>
      match Reg.thr s t with
      | PSend _ [] => match gstep s (GT t) with Some s' => g_replay s' ls' (S i) | None => (S i, s) end
      | _ => g_replay s ls' (S i)
      end
  | (l, e) :: ls' =>
      if g_check_pre s l e then
        match gstep s l with
        | Some s' => if g_check_post s' l e then g_replay s' ls' (S i) else (S i, s)
        | None => (S i, s)
        end
      else (S i, s)
  end.

Record g_case := GC { g_pers : bool; g_blk : bool; g_fix7 : bool; g_labels : list (glabel * gexpect) }.

Definition g_run (c : g_case) : nat * bool :=
  let '(r, s) := g_replay (ginit (g_pers c) (g_blk c) (g_fix7 c)) (g_labels c) 0 in (r, Reg.panicked s).
Definition g_results (cs : list g_case) : list (nat * bool) := map g_run cs.
