(** Comparators for C15 cases (no proofs).

    Instance of CQRS/Model.v used on generated cases: Go values are (type id, content id),
    types and payloads are interned numbers.  The marshaler's functions are finite tables the
    harness fills by calling the REAL marshaler directly (Name on every value and on every
    handler's zero value, Marshal on every value sent, Unmarshal of every payload into every
    handler type of the scenario) — independently of the bus / processor run that is compared. *)
From WM Require Import Base.Prelude Message.Model Handler.RouterHandle CQRS.Model CQRS.Reg CQRS.Calls CQRS.Own CQRS.Names CQRS.Accept.

Definition val := (N * N)%type.        (* Go type, canonical content *)
Definition val_eqb (a b : val) : bool := N.eqb (fst a) (fst b) && N.eqb (snd a) (snd b).

Record codec_tab := Tab {
  ct_name : list (val * N);            (* Marshaler.Name(v) *)
  ct_enc : list (val * N);             (* payload of Marshaler.Marshal(v); absent = error *)
  ct_dec : list ((N * N) * N);         (* (payload, type) -> content of Unmarshal; absent = error *)
  ct_zero : list (N * N)               (* type -> content of *new(T) *)
}.

Fixpoint lookup {A B} (eqb : A -> A -> bool) (k : A) (l : list (A * B)) : option B :=
  match l with
  | [] => None
  | (k', v) :: l' => if eqb k k' then Some v else lookup eqb k l'
  end.
Definition pair_eqb (a b : N * N) : bool := N.eqb (fst a) (fst b) && N.eqb (snd a) (snd b).

Definition t_name (t : codec_tab) (v : val) : N :=
  match lookup val_eqb v (ct_name t) with Some n => n | None => 0%N end.
Definition t_enc (t : codec_tab) (v : val) : option N := lookup val_eqb v (ct_enc t).
Definition t_dec (t : codec_tab) (p : N) (ty : N) : option val :=
  match lookup pair_eqb (p, ty) (ct_dec t) with Some c => Some (ty, c) | None => None end.
Definition t_zero (t : codec_tab) (ty : N) : val :=
  (ty, match lookup N.eqb ty (ct_zero t) with Some c => c | None => 0%N end).

(** the round-trip hypothesis of C15_value_equal, measured on the tabulated marshaler *)
Definition tab_roundtrip (t : codec_tab) : bool :=
  forallb (fun e => match e with
                    | (v, p) => option_eqb val_eqb (t_dec t p (fst v)) (Some v) end) (ct_enc t).

Definition msgN := wmsg N.
Definition wmsg_eqb (a b : msgN) : bool :=
  N.eqb (w_obj a) (w_obj b) && N.eqb (w_uuid a) (w_uuid b) && N.eqb (w_payload a) (w_payload b)
  && list_eqb pair_eqb (w_meta a) (w_meta b)
  && N.eqb (ctx_value CKTag (w_ctx a)) (ctx_value CKTag (w_ctx b))
  && N.eqb (original_from_ctx (w_ctx a)) (original_from_ctx (w_ctx b)).

(** ** processor deliveries *)
Record c15_case := C15 {
  k_tab : codec_tab;
  k_cfg : pcfg;
  k_msg : msgN;
  k_del : @delivery N;
  k_tr : list (pevent val);                 (* observed processor-level trace *)
  k_settles : list bool;                    (* observed Router settle calls (true = Ack) *)
  k_final : settle
}.

Definition pevent_eqb (a b : pevent val) : bool :=
  match a, b with
  | POnHandle h1 n1 v1 o1 t1, POnHandle h2 n2 v2 o2 t2 =>
      N.eqb h1 h2 && N.eqb n1 n2 && val_eqb v1 v2 && N.eqb o1 o2 && N.eqb t1 t2
  | PHandle h1 v1 o1 t1, PHandle h2 v2 o2 t2 => N.eqb h1 h2 && val_eqb v1 v2 && N.eqb o1 o2 && N.eqb t1 t2
  | PPre h1 a1 r1, PPre h2 a2 r2 => N.eqb h1 h2 && Bool.eqb a1 a2 && Bool.eqb r1 r2
  | _, _ => false
  end.

Definition run_case (c : c15_case) :=
  let t := k_tab c in
  process (t_name t) (t_dec t) (t_zero t) (k_cfg c) (k_msg c) (k_del c).

Definition router_settles (rtr : list (hevent nomsg)) : list bool :=
  flat_map (fun e => match e with HSettle a _ => [a] | _ => [] end) rtr.

(** the Router-level trace the harness can observe: one chain call (the closure ran), the
    Router's settle calls, no Publish (scripted subscriber, no publisher) *)
Definition observed_rtr (c : c15_case) : list (hevent nomsg) :=
  HCall :: map (fun a => HSettle a true) (k_settles c).

Definition c15_mismatch (c : c15_case) : bool :=
  let '(m, tr, rtr) := run_case c in
  negb (list_eqb pevent_eqb tr (k_tr c)
        && list_eqb Bool.eqb (router_settles rtr) (k_settles c)
        && settle_eqb (st m) (k_final c)).
Definition c15_violates (c : c15_case) : bool :=
  let t := k_tab c in
  negb (c15_monitor (t_name t) (t_dec t) (t_zero t) val_eqb (k_cfg c) (k_msg c) (k_del c)
                    (k_tr c) (observed_rtr c) (k_final c)).

Definition c15_mismatches (cs : list c15_case) : list nat := positions (map c15_mismatch cs).
Definition c15_violations (cs : list c15_case) : list nat := positions (map c15_violates cs).
Definition c15_tab_failures (ts : list codec_tab) : list nat :=
  positions (map (fun t => negb (tab_roundtrip t)) ts).

(** ** bus calls *)
Record bus_case := BusC {
  b_tab : codec_tab;
  b_topic : @tres;                          (* what the scripted GeneratePublishTopic returns *)
  b_hook : option (hook N);
  b_modify : option (hook N);
  b_pub : pubbeh;
  b_uuid : N; b_tag : N;
  b_val : val;
  b_tr : list (bevent val N);
  b_res : bres
}.

Definition bevent_eqb (a b : bevent val N) : bool :=
  match a, b with
  | BTopicCall n1 v1, BTopicCall n2 v2 => N.eqb n1 n2 && val_eqb v1 v2
  | BHookCall n1 v1 m1, BHookCall n2 v2 m2 => N.eqb n1 n2 && val_eqb v1 v2 && wmsg_eqb m1 m2
  | BModifyCall m1, BModifyCall m2 => wmsg_eqb m1 m2
  | BPublish t1 m1, BPublish t2 m2 => N.eqb t1 t2 && wmsg_eqb m1 m2
  | _, _ => false
  end.
Definition berr_eqb (a b : berr) : bool :=
  match a, b with
  | EMarshal, EMarshal | ETopic, ETopic | EHook, EHook | EModify, EModify | EPublish, EPublish => true
  | _, _ => false
  end.
Definition bres_eqb (a b : bres) : bool :=
  match a, b with
  | BOk, BOk | BPanicked, BPanicked => true
  | BErr x, BErr y => berr_eqb x y
  | _, _ => false
  end.

Definition bus_cfg_of (c : bus_case) : bus_cfg val N := BusCfg (fun _ _ => b_topic c) (b_hook c).
Definition bus_ctx (c : bus_case) : cctx := [(CKTag, b_tag c)].

Definition bus_mismatch (c : bus_case) : bool :=
  let t := b_tab c in
  let '(tr, r) := bus_send (t_name t) (t_enc t) (bus_cfg_of c) (b_uuid c) 1%N (bus_ctx c) (b_val c)
                           (b_modify c) (b_pub c) in
  negb (list_eqb bevent_eqb tr (b_tr c) && bres_eqb r (b_res c)).
Definition bus_violates (c : bus_case) : bool :=
  let t := b_tab c in
  negb (bus_monitor (t_name t) (t_enc t) val_eqb N.eqb (bus_cfg_of c) (bus_ctx c) (b_val c) (b_modify c)
                    (b_tr c) (b_res c)).
Definition bus_mismatches (cs : list bus_case) : list nat := positions (map bus_mismatch cs).
Definition bus_violations (cs : list bus_case) : list nat := positions (map bus_violates cs).

(** ** registration: AddHandlers on a command processor (duplicate test, all or nothing) and on
    an event processor (no test) *)
Record reg_case := RegC {
  r_tab : codec_tab;
  r_cmd : bool;                             (* command processor (true) / event processor *)
  r_hs : list (handler N);
  r_dup : option N;                         (* observed DuplicateCommandHandlerError.CommandName *)
  r_tr : list revent
}.
Definition revent_eqb (a b : revent) : bool :=
  match a, b with
  | RTopic n1 h1, RTopic n2 h2 | RSub n1 h1, RSub n2 h2 => N.eqb n1 n2 && N.eqb h1 h2
  | _, _ => false
  end.
Definition reg_mismatch (c : reg_case) : bool :=
  let t := r_tab c in
  let '(dup, tr) := if r_cmd c then cmd_add_handlers_trace (t_name t) (t_zero t) (r_hs c)
                    else (None, register_handlers (t_name t) (t_zero t) (r_hs c)) in
  negb (option_eqb N.eqb dup (r_dup c) && list_eqb revent_eqb tr (r_tr c)).
Definition reg_mismatches (cs : list reg_case) : list nat := positions (map reg_mismatch cs).

(** ** registration scripts (round "proofs"): a sequence of AddHandlers / AddHandler /
    AddHandlersToRouter / AddHandlersGroup calls on one processor and one Router *)
Record regs_case := RegS {
  g_tab : codec_tab;
  g_evt : bool; g_depr : bool;
  g_calls : list (rcall N);
  g_obs : list (list gevent * rres);        (* observed callback / router calls and result per call *)
  g_router : list rhandler;                 (* observed Router handlers in order of appearance *)
  g_hids : list N                           (* observed processor.Handlers() *)
}.
Definition regs_mismatch (c : regs_case) : bool :=
  let t := g_tab c in
  let '(s, obs) := reg_run (t_name t) (t_zero t) (g_evt c) (g_depr c) rinit (g_calls c) in
  negb (list_eqb obs_eqb obs (g_obs c) && list_eqb rh_eqb (r_router s) (g_router c)
        && list_eqb N.eqb (map (fun x => rs_id x) (r_handlers s)) (g_hids c)).
Definition regs_violates (c : regs_case) : bool :=
  let t := g_tab c in
  negb (reg_monitor (t_name t) (t_zero t) (g_evt c) (g_depr c) (g_calls c) (g_obs c) (g_router c) (g_hids c)).
Definition regs_mismatches (cs : list regs_case) : list nat := positions (map regs_mismatch cs).
Definition regs_violations (cs : list regs_case) : list nat := positions (map regs_violates cs).

(** ** marshaler call discipline (round "proofs"): observed call sequences, aligned with [cases]
    / [buscases]; None = the scenario used the bare marshaler *)
Definition mevent_eqb (a b : mevent val) : bool :=
  match a, b with
  | MMarshal v1, MMarshal v2 | MName v1, MName v2 => val_eqb v1 v2
  | MNameFrom, MNameFrom => true
  | MUnmarshal t1 o1 f1 k1, MUnmarshal t2 o2 f2 k2 => N.eqb t1 t2 && N.eqb o1 o2 && Bool.eqb f1 f2 && Bool.eqb k1 k2
  | MHandle h1 o1, MHandle h2 o2 => N.eqb h1 h2 && N.eqb o1 o2
  | _, _ => false
  end.
Definition mc_mismatch (c : c15_case) (mt : option (list (mevent val))) : bool :=
  match mt with
  | None => false
  | Some tr =>
      let t := k_tab c in
      negb (list_eqb mevent_eqb (proc_mcalls (t_name t) (t_dec t) (t_zero t) (k_cfg c) (k_msg c) (k_del c)) tr)
  end.
Definition mc_violates (c : c15_case) (mt : option (list (mevent val))) : bool :=
  match mt with
  | None => false
  | Some tr =>
      let t := k_tab c in
      negb (mc_monitor (k_msg c) (k_tr c) tr)
  end.
Fixpoint zip_with {A B} (f : A -> B -> bool) (a : list A) (b : list B) : list bool :=
  match a, b with x :: a', y :: b' => f x y :: zip_with f a' b' | _, _ => [] end.
Definition mc_mismatches cs mts : list nat := positions (zip_with mc_mismatch cs mts).
Definition mc_violations cs mts : list nat := positions (zip_with mc_violates cs mts).

Definition bmc_mismatch (c : bus_case) (mt : option (list (mevent val))) : bool :=
  match mt with
  | None => false
  | Some tr => negb (list_eqb mevent_eqb (bus_mcalls (t_enc (b_tab c)) (b_val c)) tr)
  end.
Definition bmc_violates (c : bus_case) (mt : option (list (mevent val))) : bool :=
  match mt with
  | None => false
  | Some tr => negb (bus_mcalls_ok (t_enc (b_tab c)) val_eqb (b_val c) tr)
  end.
Definition bmc_mismatches cs mts : list nat := positions (zip_with bmc_mismatch cs mts).
Definition bmc_violations cs mts : list nat := positions (zip_with bmc_violates cs mts).

(** ** ownership (round "seeds 3"): the payload of every published message re-read AFTER all
    calls of its bus scenario (None = nothing was published), aligned with [buscases]; and for
    deliveries of messages that were sent through a real bus and consumed late: the value sent *)
Definition own_call (c : bus_case) : @hcall val N :=
  let t := b_tab c in
  bus_own_call (t_name t) (t_enc t) (bus_cfg_of c) (b_uuid c) 1%N (bus_ctx c) (b_val c) (b_modify c) (b_pub c).
Definition own_violates (c : bus_case) (reread : option N) : bool :=
  negb (own_monitor (t_enc (b_tab c)) N.eqb [own_call c] [reread]).
Definition own_violations cs rs : list nat := positions (zip_with own_violates cs rs).

(** a message that came out of a bus unmodified carries the name and the encoding of the value
    sent, whenever it is consumed *)
Definition sent_violates (c : c15_case) (sent : option val) : bool :=
  match sent with
  | None => false
  | Some v =>
      let t := k_tab c in
      negb (sent_monitor (t_name t) (t_enc t) N.eqb (k_msg c) v)
  end.
Definition sent_violations cs ss : list nat := positions (zip_with sent_violates cs ss).

(** ** name.go (round "seeds 4"): direct calls of the real name functions on values of every
    harness type passed through 0..3 pointers; strings are character codes *)
Record name_case := NameC {
  n_gen : namegen; n_depth : nat; n_base : list N; n_own : option (list N); n_obs : list N
}.
Definition name_violates (c : name_case) : bool :=
  negb (name_monitor (n_gen c) (n_depth c) (n_base c) (n_own c) (n_obs c)).
Definition name_violations (cs : list name_case) : list nat := positions (map name_violates cs).
