(** Comparators for C08 / C09 cases (no proofs).  One case = one registration program run on a real
    Router + what the harness observed for each of its deliveries: per copy, the name under which the
    invoked handler function was registered and the ordered list of events.
    Produced messages are numbers: 0 = the consumed object itself, k = the k-th fresh message of the
    handler function, 100+w = the message appended by middleware w; +1000 = content differs from
    what was produced; 9000+ = a message that does not belong to this copy at all. *)
From WM Require Import Base.Prelude Message.Model Handler.RouterHandle Router.Wiring Router.WiringSpec.

Record wcase := WC { w_ops : list op; w_obs : list (list (N * list ev)) }.

Definition obs_eqb (a b : N * list ev) : bool :=
  N.eqb (fst a) (fst b) && list_eqb ev_eqb (snd a) (snd b).
Fixpoint remove_first (x : N * list ev) (l : list (N * list ev)) : option (list (N * list ev)) :=
  match l with
  | [] => None
  | y :: l' => if obs_eqb x y then Some l'
               else match remove_first x l' with Some r => Some (y :: r) | None => None end
  end.
(** the copies of one delivery are handled concurrently: compare as multisets *)
Fixpoint perm_eqb (a b : list (N * list ev)) : bool :=
  match a with
  | [] => match b with [] => true | _ => false end
  | x :: a' => match remove_first x b with Some b' => perm_eqb a' b' | None => false end
  end.

(** model (Router/Wiring.v, the code-shaped state machine and loops) vs implementation *)
Definition w_mismatch (c : wcase) : bool := negb (list_eqb perm_eqb (run rinit (w_ops c)) (w_obs c)).
Definition w_mismatches (cs : list wcase) : list nat := positions (map w_mismatch cs).

(** the implementation's behaviour judged by the property acceptors *)
(** every program is judged by the state-based acceptor; a plain one also by the declarative reading *)
Definition c08_violates (c : wcase) : bool :=
  negb (c08_monitor_st (w_ops c) (w_obs c)) || (plain (w_ops c) && negb (c08_monitor (w_ops c) (w_obs c))).
Definition c08_violations (cs : list wcase) : list nat := positions (map c08_violates cs).

(** for the replay file: number (0-based, among the ODeliver ops) of the first delivery the acceptor
    rejects / the model disagrees on; the length of the list when there is none *)
Fixpoint first_bad (same : list ev -> list ev -> bool) (st : rstate) (ops : list op)
         (obss : list (list (N * list ev))) (k : nat) : nat :=
  match ops with
  | [] => k
  | ODeliver d :: r =>
      match obss with
      | obs :: obss' => if obs_ok_st same st d obs then first_bad same st r obss' (S k) else k
      | [] => k
      end
  | o :: r => first_bad same (step st o) r obss k
  end.
Definition c08_first_bad (c : wcase) : nat := first_bad c08_same rinit (w_ops c) (w_obs c) 0.
Definition c09_first_bad (c : wcase) : nat := first_bad c09_same rinit (w_ops c) (w_obs c) 0.
Fixpoint first_diff (a b : list (list (N * list ev))) (k : nat) : nat :=
  match a, b with
  | x :: a', y :: b' => if perm_eqb x y then first_diff a' b' (S k) else k
  | _, _ => k
  end.
Definition w_first_diff (c : wcase) : nat := first_diff (run rinit (w_ops c)) (w_obs c) 0.

(** ** Router programs with plugins and Handlers() calls (Router/Life.v) *)
From WM Require Import Router.Life.
Record lcase := LC { l_pops : list pop; l_obs : list pobs }.

Fixpoint nremove (x : N) (l : list N) : option (list N) :=
  match l with
  | [] => None
  | y :: l' => if N.eqb x y then Some l' else match nremove x l' with Some r => Some (y :: r) | None => None end
  end.
Fixpoint nperm_eqb (a b : list N) : bool :=
  match a with
  | [] => match b with [] => true | _ => false end
  | x :: a' => match nremove x b with Some b' => nperm_eqb a' b' | None => false end
  end.
Definition pobs_eqb (a b : pobs) : bool :=
  match a, b with
  | PDel x, PDel y => perm_eqb x y
  | PPlug i o, PPlug j p => list_eqb N.eqb i j && Bool.eqb o p
  | PNames x, PNames y => nperm_eqb x y
  | _, _ => false
  end.
(** model ([prun]: Run with its plugin loop, Handlers(), the registration machine) vs implementation *)
Definition l_mismatch (c : lcase) : bool := negb (list_eqb pobs_eqb (prun pinit (l_pops c)) (l_obs c)).
Definition l_mismatches (cs : list lcase) : list nat := positions (map l_mismatch cs).
(** the Wiring case a Router program amounts to (theorem life_is_wiring) *)
Definition lc_wc (c : lcase) : wcase := WC (effective_ops (l_pops c)) (del_obs (l_obs c)).
(** plugins: called once, by Run, in order, up to the first error; Handlers(): the names held *)
Definition life_violates (c : lcase) : bool :=
  negb (list_eqb pobs_eqb (plug_obs (l_obs c)) (spec_plug [] (l_pops c)))
  || negb (list_eqb nperm_eqb (name_obs (l_obs c)) (spec_views [] (l_pops c))).
Definition c08_lviolates (c : lcase) : bool := c08_violates (lc_wc c) || life_violates c.
Definition c08_lviolations (cs : list lcase) : list nat := positions (map c08_lviolates cs).
