(** Comparators evaluated on the cases the harness produced for C03 (no proofs). *)
From WM Require Import Base.Prelude Message.Model Message.Conc Message.Monitor.

(** ** sequential *)
Definition seq_case := (ctor * list (op * res))%type.

Definition seq_mismatch (c : seq_case) : bool :=
  negb (list_eqb res_eqb (map snd (snd c)) (run_from (fst c) (map fst (snd c)))).
Definition seq_violates (c : seq_case) : bool := negb (seq_monitor (snd c)).

Definition seq_mismatches (cs : list seq_case) : list nat := positions (map seq_mismatch cs).
Definition seq_violations (cs : list seq_case) : list nat := positions (map seq_violates cs).

(** exhaustive sweep, model side: all operation sequences of length <= n in canonical order,
    each result list packed into one number (base 5, first result least significant,
    prefixed by a 1 so that the length is kept) *)
Definition all_ops := [OpAck; OpNack; OpReadAcked; OpReadNacked].
Fixpoint seqs_of_len (n : nat) : list (list op) :=
  match n with
  | O => [[]]
  | S n' => flat_map (fun o => map (cons o) (seqs_of_len n')) all_ops
  end.
Definition seqs_upto (n : nat) : list (list op) := flat_map seqs_of_len (seq 0 (S n)).

Definition res_code (r : res) : N :=
  match r with RBool false => 0 | RBool true => 1 | RClosed => 2 | RBlocks => 3 | RPanic => 4 end%N.
Fixpoint pack (rs : list res) : N :=
  match rs with
  | [] => 1%N
  | r :: rs' => (res_code r + 5 * pack rs')%N
  end.
Definition sweep (c : ctor) (n : nat) : list N :=
  map (fun ops => pack (run_from c ops)) (seqs_upto n).

(** ** concurrent: schedule replay + thread results + linearizability oracle *)
Record conc_case := CC {
  cc_ctor : ctor;
  cc_progs : list (list op);           (* thread t runs the t-th program *)
  cc_sched : list tid;                 (* model labels derived from the hook stamps *)
  cc_results : list (list res);        (* what each thread's calls returned, in program order *)
  cc_calls : list call                 (* the stamped call history *)
}.

Definition progs_of (l : list (list op)) : tid -> list op := fun t => nth t l [].

Definition thread_results (t : tid) (h : list event) : list res :=
  flat_map (fun e => match e with ERet t' _ r => if Nat.eqb t' t then [r] else [] | _ => [] end)
           (rev h).

(** 0 = agrees; 1 = the model rejects the schedule (a label not enabled);
    2 = some thread is left with unfinished calls; 3 = results differ *)
Definition conc_replay (c : conc_case) : nat :=
  match creplay (cinit (cc_ctor c) (progs_of (cc_progs c))) (cc_sched c) with
  | None => 1
  | Some s =>
      if negb (forallb (fun t => match tpc (thr s t), prog (thr s t) with PIdle, [] => true | _, _ => false end)
                       (seq 0 (length (cc_progs c)))) then 2
      else if list_eqb (list_eqb res_eqb)
                (map (fun t => thread_results t (hist s)) (seq 0 (length (cc_progs c))))
                (cc_results c) then 0 else 3
  end.

Definition conc_mismatches (cs : list conc_case) : list (nat * nat) :=
  flat_map (fun p => match conc_replay (snd p) with O => [] | k => [(fst p, k)] end)
           (combine (seq 0 (length cs)) cs).
Definition conc_violations (cs : list conc_case) : list nat :=
  positions (map (fun c => negb (lin_ok (cc_calls c))) cs).
