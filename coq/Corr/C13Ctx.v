(** Comparators for the context-derivation cases (no proofs): Handler/PoisonCtx.v vs
    message/router.go addHandlerContext + message/router_context.go readers. *)
From WM Require Import Base.Prelude Handler.Poison Handler.PoisonCtx.

Record c13x_case := K13X {
  x_via : option hcfg; x_b : hcfg;
  x_seen : rvals;                 (* the five readers, called inside handler B *)
  x_reason : N; x_md : meta;      (* text of B's error; metadata when B's handler ran *)
  x_pub : option meta             (* metadata of the one message published to the poison topic *)
}.

Definition rvals_eqb (a b : rvals) : bool :=
  N.eqb (v_handler a) (v_handler b) && N.eqb (v_publisher a) (v_publisher b) && N.eqb (v_subscriber a) (v_subscriber b)
  && N.eqb (v_sub_topic a) (v_sub_topic b) && N.eqb (v_pub_topic a) (v_pub_topic b).

(** model vs implementation: the five values and the published metadata *)
Definition c13x_mismatch (c : c13x_case) : bool :=
  let v := consumed_ctx true (x_via c) (x_b c) in
  negb (rvals_eqb v (x_seen c)
        && option_eqb meta_eqb (x_pub c) (Some (stamp (poison_view v) (x_reason c) (x_md c)))).

(** the property: the published metadata names reason, topic, handler and subscriber AS THE
    MESSAGE'S CONTEXT SAYS (the readers' answers), everything else untouched *)
Definition c13x_violates (c : c13x_case) : bool :=
  negb (option_eqb meta_eqb (x_pub c) (Some (stamp (poison_view (x_seen c)) (x_reason c) (x_md c)))).

Definition c13x_mismatches (cs : list c13x_case) : list nat := positions (map c13x_mismatch cs).
Definition c13x_violations (cs : list c13x_case) : list nat := positions (map c13x_violates cs).
