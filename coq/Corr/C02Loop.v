(** Comparators for the interleaved log of one handler's run loop (C02, no proofs).
    One case = one real Router handler that processed [lc_msgs] (in the order its run loop
    received them; ids = positions) with 1..8 of them in flight at a time; [lc_log] is the ONE
    totally ordered log of all loop / handleMessage / publisher events, oldest first. *)
From WM Require Import Base.Prelude Message.Model Handler.RouterHandle Handler.RouterFrom
  Handler.RouterLoop Corr.C02.

Record loop_case := LC {
  lc_pk : pubkind;
  lc_msgs : list (lmsg N);
  lc_finals : list settle;           (* the settlement each message was observed with in the end *)
  lc_log : list (gevent N)           (* oldest first *)
}.

Definition gevent_eqb (a b : gevent N) : bool :=
  match a, b with
  | GRecv i, GRecv j => Nat.eqb i j
  | GEv i e, GEv j f => Nat.eqb i j && hevent_eqb e f
  | GDone i, GDone j => Nat.eqb i j
  | GClose, GClose => true
  | _, _ => false
  end.

(** the schedule an observed log stands for *)
Definition label_of (g : gevent N) : label :=
  match g with
  | GRecv _ => LRecv
  | GEv i _ => LStep i
  | GDone i => LStep i
  | GClose => LClose
  end.

(** 0 = the model, run strictly under the observed schedule, produces the observed log and
    final settlements; 1 = the model rejects the schedule (a label not enabled: an event of a
    message that was not received, after its Done, a receive after the close ...);
    2 = some handleMessage thread unfinished / not all messages received; 3 = logs differ;
    4 = final settlements differ *)
Definition loop_replay (c : loop_case) : nat :=
  match lreplay (lc_pk c) (linit (lc_msgs c)) (map label_of (lc_log c)) with
  | None => 1
  | Some s =>
      if negb (all_done s && Nat.eqb (length (l_msgs s)) (length (lc_msgs c))) then 2
      else if negb (list_eqb gevent_eqb (rev (l_log s)) (lc_log c)) then 3
      else if negb (list_eqb settle_eqb (map (model_finals (lc_pk c) s) (seq 0 (length (lc_msgs c))))
                             (lc_finals c)) then 4
      else 0
  end.

(** the verdict: [loop_monitor] (Props/C02.v: C02_loop_model_accepted) on the observed log *)
Definition loop_violates (c : loop_case) : bool :=
  negb (loop_monitor (lc_pk c) N.eqb (lc_msgs c) (fun i => nth i (lc_finals c) Unsettled)
                     (rev (lc_log c))).

Definition loop_mismatches (cs : list loop_case) : list (nat * nat) :=
  flat_map (fun p => match loop_replay (snd p) with O => [] | k => [(fst p, k)] end)
           (combine (seq 0 (length cs)) cs).
Definition loop_violations (cs : list loop_case) : list nat := positions (map loop_violates cs).
