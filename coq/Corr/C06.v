(** Comparators for C06: schedule replay of the stamped hook log on Router/Close.v with the
    observations the hooks carry, and the API-level acceptor of Router/CloseMonitor.v on the
    implementation's history.  No proofs. *)
From WM Require Import Base.Prelude Router.Close Router.CloseMonitor.

Inductive obs :=
| ONone
| OClosed (b : bool)             (* what Close read in r.closed *)
| OClosing (b : bool)            (* what handleClose's poll of routersCloseCh saw (fix6) *)
| ORet (c : cid) (r : res).      (* what the Close call returned *)

Definition check_pre (s : state) (l : label) (o : obs) : bool :=
  match o, l with
  | OClosed b, LClose c => match cp s c with CLocked => Bool.eqb (closed s) b | _ => false end
  | OClosing b, LHc h => match hc s h with HCCheck => Bool.eqb (closingCh s) b | _ => false end
  | _, _ => true
  end.
Definition check_post (s : state) (o : obs) : bool :=
  match o with
  | ORet c r => returned s c r
  | _ => true
  end.

(** 0 = accepted; n+1 = the n-th label (0-based) was not enabled or its observation differs *)
Fixpoint o_replay (s : state) (ls : list (label * obs)) (i : nat) : nat * state :=
  match ls with
  | [] => (0, s)
  | (l, o) :: ls' =>
      if check_pre s l o then
        match step s l with
        | Some s' => if check_post s' o then o_replay s' ls' (S i) else (S i, s)
        | None => (S i, s)
        end
      else (S i, s)
  end.

Record r_case := RC {
  r_nh : nat; r_unstarted : nat; r_honour : list bool; r_fix5 : bool; r_fix6 : bool; r_fix12 : bool; r_fix16 : bool;
  r_labels : list (label * obs)
}.

Definition r_init (c : r_case) : state :=
  init_u (r_nh c) (r_unstarted c) (fun h => nth h (r_honour c) false) (r_fix5 c) (r_fix6 c) (r_fix12 c) (r_fix16 c).

(** (first rejected label or 0, the model panicked, the model's API trace judged by the acceptor
    has a safety rejection) *)
Definition r_run (c : r_case) : nat * bool * bool :=
  let '(r, s) := o_replay (r_init c) (r_labels c) 0 in
  (r, panicked s,
   existsb (fun ic => safety_code (snd ic)) (mon_run (r_nh c) (fun _ => true) (trace (r_init c) (map fst (r_labels c))))).
Definition r_results (cs : list r_case) : list (nat * bool * bool) := map r_run cs.

(** the acceptor on an implementation history *)
Record m_case := MC { m_nh : nat; m_haspub : list bool; m_events : list aev }.
Definition m_run (c : m_case) : list (nat * nat) :=
  mon_run (m_nh c) (fun h => nth h (m_haspub c) false) (m_events c).
Definition m_results (cs : list m_case) : list (list (nat * nat)) := map m_run cs.
