(** API-level acceptor for property C06 (Router.Close is graceful).  It sees only what a user of
    the Router can see: messages taken from the subscriber, handler function start/end,
    settlement, Close calls and their results, Run returning, Close() calls on the handlers'
    subscribers and publishers - plus two markers used only to CLASSIFY a rejection (which
    known defect it is), never to decide it: [ASignal] (Close signalled) and [ACancel] (the user
    cancelled Run's context).

    [emit] gives the events a step of the model (Router/Close.v) produces; CloseProofs.v proves
    that every trace of the repaired model is accepted ([mon_accepts_model]); the harness
    evaluates the same [mon_run] on the implementation's history.  No proofs here. *)
From WM Require Import Base.Prelude Router.Close.

Inductive aev :=
| ATaken (m : mid)                 (* the handler loop received m (a message the decorator gives up before is never seen) *)
| AStart (m : mid)                 (* handler function entered *)
| AEnd (m : mid)                   (* handler function returned *)
| ASettle (m : mid)                (* Ack or Nack *)
| ACloseCall (c : cid)
| ACloseRet (c : cid) (r : res)
| ARunRet
| ASubClose (h : hid)              (* Close() called on handler h's subscriber *)
| APubClose (h : hid)               (* the publisher's Close() has returned *)
| ASignal                          (* marker: close(closingInProgressCh) *)
| ACancel                          (* marker: the user cancelled Run's context *)
| ASubEnd (h : hid)                (* marker: handler h's subscription ended by itself (its loop ends, its own context with it) *)
| AQuiescent.                      (* the driver saw everything at rest *)

Definition mem (x : nat) (l : list nat) : bool := existsb (Nat.eqb x) l.

Record mstate := MS {
  m_taken : list mid; m_started : list mid; m_ended : list mid; m_settled : list mid;
  m_subclosed : list hid; m_pubclosed : list hid;
  m_nil : bool;             (* some Close call returned nil *)
  m_err : bool;             (* some Close call returned an error *)
  m_anyret : bool;
  m_signalled : bool;
  m_early : bool;           (* ACancel before ASignal *)
  m_runret : bool;
  m_rundirty : bool;        (* a handler was in progress when Run returned, or started after *)
  m_susp : bool             (* a Close call returned an error with an empty pipeline while some subscriber had not been asked to close *)
}.

Definition minit := MS [] [] [] [] [] [] false false false false false false false false.

(** a handler invocation has started and is not finished-and-settled *)
Definition busy (s : mstate) (m : mid) : bool := mem m (m_started s) && negb (mem m (m_ended s) && mem m (m_settled s)).
Definition any_busy (s : mstate) : bool := existsb (busy s) (m_started s).
(** something is in the pipeline: taken and not yet handled to completion and settled *)
Definition pending (s : mstate) (m : mid) : bool := negb (mem m (m_ended s) && mem m (m_settled s)).
Definition any_pending (s : mstate) : bool := existsb (pending s) (m_taken s).
Definition unstarted_settled (s : mstate) : bool :=
  existsb (fun m => negb (mem m (m_started s))) (m_settled s).

(** violation codes
     1  a handler started after a Close call had returned nil
     2  Close returned nil while a handler invocation was in progress / its message unsettled
     3  Close returned nil with a message settled that was never handled
     4  at rest after Close: Close() was never called on some handler's subscriber
     5  at rest after a nil Close: some handler's publisher was not closed
     6  a Close call returned an error although nothing was in the pipeline, and some handler's subscriber was never
        asked to close (reported at rest, together with 4)
     7  = 4 when the user had cancelled Run's context before Close signalled
     8  = 6 when the user had cancelled Run's context before Close signalled
    11  a message was settled after a Close call had returned nil
    12  a Close returned nil although a handler was in progress when Run returned (or started after)
    16  a Close call returned nil while some handler's publisher had not been closed: its Close() had not
        completed or had not even been called ([APubClose] = the publisher's Close() returned)
    14  = 1, 2 or 11 when an earlier Close call had returned an error (timeout): a later call returned nil
        while handlers still run *)
Definition mon_step (nh : nat) (haspub : hid -> bool) (s : mstate) (e : aev) : mstate * list nat :=
  match e with
  | ATaken m => (MS (m :: m_taken s) (m_started s) (m_ended s) (m_settled s) (m_subclosed s) (m_pubclosed s)
                    (m_nil s) (m_err s) (m_anyret s) (m_signalled s) (m_early s) (m_runret s) (m_rundirty s) (m_susp s), [])
  | AStart m => (MS (m_taken s) (m :: m_started s) (m_ended s) (m_settled s) (m_subclosed s) (m_pubclosed s)
                    (m_nil s) (m_err s) (m_anyret s) (m_signalled s) (m_early s) (m_runret s) (m_rundirty s || m_runret s) (m_susp s),
                 if m_nil s then (if m_err s then [14] else [1]) else [])
  | AEnd m => (MS (m_taken s) (m_started s) (m :: m_ended s) (m_settled s) (m_subclosed s) (m_pubclosed s)
                  (m_nil s) (m_err s) (m_anyret s) (m_signalled s) (m_early s) (m_runret s) (m_rundirty s) (m_susp s), [])
  | ASettle m => (MS (m_taken s) (m_started s) (m_ended s) (m :: m_settled s) (m_subclosed s) (m_pubclosed s)
                     (m_nil s) (m_err s) (m_anyret s) (m_signalled s) (m_early s) (m_runret s) (m_rundirty s) (m_susp s),
                  if m_nil s then (if m_err s then [14] else [11]) else [])
  | ACloseCall c => (s, [])
  | ACloseRet c RNil =>
      (MS (m_taken s) (m_started s) (m_ended s) (m_settled s) (m_subclosed s) (m_pubclosed s)
          true (m_err s) true (m_signalled s) (m_early s) (m_runret s) (m_rundirty s) (m_susp s),
       (if any_busy s then (if m_err s then [14] else [2]) else []) ++
       (if unstarted_settled s then [3] else []) ++
       (if m_rundirty s && negb (m_err s) then [12] else []) ++
       (if forallb (fun h => negb (haspub h) || mem h (m_pubclosed s)) (seq 0 nh) then [] else [16]))
  | ACloseRet c RErr =>
      (MS (m_taken s) (m_started s) (m_ended s) (m_settled s) (m_subclosed s) (m_pubclosed s)
          (m_nil s) true true (m_signalled s) (m_early s) (m_runret s) (m_rundirty s)
          (m_susp s || (negb (any_pending s) && negb (forallb (fun h => mem h (m_subclosed s)) (seq 0 nh)))), [])
  | ARunRet => (MS (m_taken s) (m_started s) (m_ended s) (m_settled s) (m_subclosed s) (m_pubclosed s)
                   (m_nil s) (m_err s) (m_anyret s) (m_signalled s) (m_early s) true (m_rundirty s || any_busy s) (m_susp s), [])
  | ASubClose h => (MS (m_taken s) (m_started s) (m_ended s) (m_settled s) (h :: m_subclosed s) (m_pubclosed s)
                       (m_nil s) (m_err s) (m_anyret s) (m_signalled s) (m_early s) (m_runret s) (m_rundirty s) (m_susp s), [])
  | APubClose h => (MS (m_taken s) (m_started s) (m_ended s) (m_settled s) (m_subclosed s) (h :: m_pubclosed s)
                       (m_nil s) (m_err s) (m_anyret s) (m_signalled s) (m_early s) (m_runret s) (m_rundirty s) (m_susp s), [])
  | ASignal => (MS (m_taken s) (m_started s) (m_ended s) (m_settled s) (m_subclosed s) (m_pubclosed s)
                   (m_nil s) (m_err s) (m_anyret s) true (m_early s) (m_runret s) (m_rundirty s) (m_susp s), [])
  | ACancel => (MS (m_taken s) (m_started s) (m_ended s) (m_settled s) (m_subclosed s) (m_pubclosed s)
                   (m_nil s) (m_err s) (m_anyret s) (m_signalled s) (m_early s || negb (m_signalled s)) (m_runret s) (m_rundirty s) (m_susp s), [])
  | ASubEnd h => (MS (m_taken s) (m_started s) (m_ended s) (m_settled s) (m_subclosed s) (m_pubclosed s)
                     (m_nil s) (m_err s) (m_anyret s) (m_signalled s) (m_early s || negb (m_signalled s)) (m_runret s) (m_rundirty s) (m_susp s), [])
  | AQuiescent =>
      (s,
       if m_anyret s then
         (if forallb (fun h => mem h (m_subclosed s)) (seq 0 nh) then []
          else (if m_early s then [7] else [4]) ++ (if m_susp s then (if m_early s then [8] else [6]) else [])) ++
         (if m_nil s && negb (forallb (fun h => negb (haspub h) || mem h (m_pubclosed s)) (seq 0 nh)) then [5] else [])
       else [])
  end.

(** (position of the rejected event, code) for every rejection *)
Fixpoint mon_run_from (nh : nat) (haspub : hid -> bool) (s : mstate) (i : nat) (es : list aev) : list (nat * nat) :=
  match es with
  | [] => []
  | e :: es' =>
      let '(s', codes) := mon_step nh haspub s e in
      map (fun c => (i, c)) codes ++ mon_run_from nh haspub s' (S i) es'
  end.
Definition mon_run (nh : nat) (haspub : hid -> bool) (es : list aev) : list (nat * nat) :=
  mon_run_from nh haspub minit 0 es.

(** the safety codes the repaired model is proved never to produce (the others concern the
    closing of subscribers/publishers and are judged on the implementation only) *)
Definition safety_code (c : nat) : bool :=
  match c with 1 | 2 | 3 | 11 | 12 | 14 | 16 => true | _ => false end.

(** events a step of the model produces *)
Definition emit (s : state) (l : label) : list aev :=
  match step s l with
  | None => []
  | Some _ =>
      match l with
      | LDeliver h => match pp s h with PSend m => [ATaken m] | _ => [] end
      | LMsg m =>
          match mp s m with
          | MSpawned => [AStart m]
          | MSettling => [ASettle m]
          | _ => []
          end
      | LFinish m => [AEnd m]
      | LFail m => [AEnd m]
      | LCall c => [ACloseCall c]
      | LClose c =>
          match cp s c with
          | CUnlock r => [ACloseRet c r]
          | CSignal => [ASignal]
          | _ => []
          end
      | LRun => match run s with RWaitClosed => [ARunRet] | _ => [] end
      | LEnvCancel => [ACancel]
      | LSubEnd h => [ASubEnd h]
      | LHc h => match hc s h with HCSubClose => [ASubClose h] | _ => [] end
      | LLoop h => match lp s h with LPubClose => [APubClose h] | _ => [] end
      | _ => []
      end
  end.

Fixpoint trace (s : state) (ls : list label) : list aev :=
  match ls with
  | [] => []
  | l :: ls' => match step s l with Some s' => emit s l ++ trace s' ls' | None => trace s ls' end
  end.
