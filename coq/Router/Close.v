(** The Router close protocol as a thread-level transition system (property C06).

    Anchors (watermill, message/router.go unless noted):
      Router.Close            l.545-572   closer threads  [cpc]
      Router.waitForHandlers  l.574-591   the two waiter goroutines [w1] (handlersWg) and [w2]
                                          (runningHandlersWgLock + runningHandlersWg);
                                          pubsub/sync/waitgroup.go WaitGroupTimeout is folded into
                                          the closer's select {all waiters done | timeout}
      Router.Run (tail)       l.390-401   [run]: <-closingInProgressCh; cancel(); <-closedCh; return
      RunHandlers' goroutine + handler.run  l.453-472, l.643-662   loop threads [lpc]
      handler.handleClose     l.772-785   [hcpc]
      handler.handleMessage   l.787-823   one thread per message [mpc] (C02 abstracted to
                                          start -> handler returns -> publish returns -> settle -> wg.Done)
      message/decorator.go                the context decorator's pump goroutine [ppc] (after the D8
                                          repair: select { out <- msg | <-ctx.Done() | <-t.closing },
                                          the two give-up branches drop the held message) and its
                                          Close (inner Close, close(t.closing), subscribeWg.Wait)
    Environment: the subscriber emitting messages / closing its channel (after Close() was
    called on it, or - when it honours the Subscribe context - after that context was
    cancelled), handlers finishing (any time, or never), callers of Close (any number, any
    time), the user cancelling Run's context, time (the CloseTimeout may fire whenever the
    closer waits), and the subscriber's own Close() returning to handleClose (any time, or never:
    a subscriber may block in Close() until its in-flight message is settled, or for ever).

    Scope: every handler that was added has been started (RunHandlers is C10's); AddHandler /
    what RunHandlers starts and Handler.Stop during or after Close are not modelled (C10).  Both
    locks of Close are modelled: closedLock, then handlersLock, both held for its whole body;
    handlersLock is also taken by RunHandlers calls ([rp], any number, any time).  The handler
    goroutine's short section under handlersLock after handlersWg.Done (delete from r.handlers)
    holds no other lock and requests none; it is folded into that step.

    Variant flags (constant during a run):
      [fix5]  D5 repair: wait for the loops first, then lock and wait for the running handlers
              ([false] = the two waits run concurrently, as at the pinned commit)
      [fix6]  D6 repair: handleClose's ctx.Done branch still closes the subscriber when
              routersCloseCh is closed
      [fix12] D12 repair: a Close call that finds the router closed returns the remembered
              result of the closing call instead of nil
    No proofs here. *)
From WM Require Import Base.Prelude Base.CountClose.
From RecordUpdate Require Import RecordUpdate.

Definition hid := nat.    (* handler *)
Definition mid := nat.    (* message, numbered in order of emission *)
Definition cid := nat.    (* Close call *)

(** result of a Close call *)
Inductive res := RNil | RErr.

(** handler loop: the goroutine RunHandlers starts (h.run, then handlersWg.Done) *)
Inductive lpc :=
| LNone
| LRecv                   (* at [for msg := range h.messagesCh] *)
| LGot (m : mid)          (* received m, before runningHandlersWgLock.Lock() *)
| LLocked (m : mid)       (* holds the lock, before Add(1); Unlock(); go handleMessage *)
| LPubClose               (* channel observed closed, before h.publisher.Close() *)
| LWgDone                 (* before r.handlersWg.Done() *)
| LEnd.

(** handleClose goroutine *)
Inductive hcpc :=
| HCNone
| HCSelect                (* select { <-routersCloseCh | <-ctx.Done() } *)
| HCCheck                 (* fix6 only: ctx.Done taken, polling routersCloseCh *)
| HCSubClose              (* before h.subscriber.Close() (decorator: inner Close ...) *)
| HCInSubClose            (* ... inside the subscriber's own Close(): it returns when the ENVIRONMENT says so - at once,
                             after the in-flight message is settled, after CloseTimeout, or never *)
| HCDecSignal             (* ... inner Close returned, before close(t.closing) (D8 repair) ... *)
| HCWaitPump              (* ... then subscribeWg.Wait() *)
| HCStop                  (* before h.stopFn() *)
| HCDone.

(** the context decorator's pump goroutine *)
Inductive ppc :=
| PNone
| PRecv                   (* at [for msg := range in] *)
| PSend (m : mid)         (* at [select { out <- msg | <-ctx.Done() | <-t.closing }] *)
| PWgDone                 (* in closed: close(out) done, before subscribeWg.Done() *)
| PDone.

(** one message on its way through a handler *)
Inductive mpc :=
| MNone                   (* not emitted (yet) *)
| MPump (h : hid)         (* taken from the subscriber by the pump *)
| MLoop (h : hid)         (* received by the loop, not yet dispatched *)
| MSpawned                (* Add(1) done, goroutine created, handler function not started *)
| MRunning                (* inside the handler function *)
| MPublishing             (* handler returned, publishing *)
| MSettling               (* before Ack/Nack *)
| MSettled                (* settled, before the deferred runningHandlersWg.Done() *)
| MDone
| MDropped.               (* given up by the decorator's pump (D8 repair): never handled, never settled *)

Inductive cpc :=
| CNone
| CWant                   (* before closedLock.Lock() *)
| CHWant                  (* holds closedLock, before handlersLock.Lock() *)
| CLocked                 (* holds closedLock and handlersLock, before [if r.closed] *)
| CSignal                 (* r.closed = true, before close(closingInProgressCh) *)
| CWait                   (* in waitForHandlers: select {waiters done | time.After} *)
| CClosedCh (r : res)     (* result decided, before the deferred close(closedCh) *)
| CUnlock (r : res)       (* before the deferred unlocks *)
| CRet (r : res).

(** a RunHandlers call, as far as the locks are concerned (what it starts is C10's): it takes
    handlersLock for its whole body.  [rh_isclosed] is the variant in which it also asks
    IsClosed() - i.e. takes closedLock - while it holds handlersLock. *)
Inductive rhpc := RHNone | RHWant | RHLocked | RHCWant | RHChecked | RHDone.
Inductive hlowner := HOCloser (c : cid) | HORh (r : nat).

Inductive w1pc := W1None | W1Wait | W1Done.
Inductive w2pc := W2None | W2Pre | W2Want | W2Locked | W2Unlock | W2Done.
Inductive rpc := RWaitClosing | RCancel | RWaitClosed | RDone.
Inductive owner := OLoop (h : hid) | OWaiter.

Record state := ST {
  (* configuration *)
  nh : nat;                        (* handlers 0..nh-1 exist and are started *)
  honour : hid -> bool;            (* the subscriber closes its channel when the Subscribe ctx ends *)
  fix5 : bool; fix6 : bool; fix12 : bool;
  fix16 : bool;                    (* D16 repair: Close releases handlersWg for handlers that were added but never started *)
  unstarted : nat;                 (* handlers that were added (handlersWg.Add(1) in AddHandler) but never started with
                                      RunHandlers, and that handlersWg still counts *)
  (* router *)
  rh_isclosed : bool;              (* variant (not the code): RunHandlers calls IsClosed() under handlersLock *)
  closedLock : option cid;
  handlersLock : option hlowner;
  rp : nat -> rhpc;                (* RunHandlers calls *)
  closed : bool;
  closingCh : bool;                (* closingInProgressCh is closed *)
  closedCh : bool;
  close_res : option res;          (* what waitForHandlers told the closing call *)
  handlersWg : nat;
  runningWg : nat;
  runningLock : option owner;
  w1 : w1pc; w2 : w2pc;
  run : rpc;
  ctx_done : bool;                 (* Run's context is cancelled *)
  early_cancel : bool;             (* ghost: Run's context was cancelled by the user, or a handler's own context ended
                                      (its loop goroutine finished), before Close signalled *)
  (* per handler *)
  lp : hid -> lpc;
  hc : hid -> hcpc;
  pp : hid -> ppc;
  sub_open : hid -> bool;          (* the subscriber's channel is not closed *)
  sub_closing : hid -> bool;       (* Close() has been called on the subscriber *)
  dec_closing : hid -> bool;       (* the decorator's closing channel is closed *)
  sub_closes : hid -> nat;
  pub_closes : hid -> nat;
  out_closed : hid -> bool;        (* the decorator's out channel (= h.messagesCh) is closed *)
  hstop : hid -> bool;             (* the handler's own context is cancelled (stopFn) *)
  (* messages *)
  mp : mid -> mpc;
  nextm : nat;
  (* Close callers *)
  cp : cid -> cpc;
  panicked : bool
}.

#[export] Instance eta_state : Settable _ := settable! ST
  <nh; honour; fix5; fix6; fix12; fix16; unstarted; rh_isclosed; closedLock; handlersLock; rp; closed; closingCh; closedCh; close_res; handlersWg;
   runningWg; runningLock; w1; w2; run; ctx_done; early_cancel; lp; hc; pp; sub_open; sub_closing; dec_closing;
   sub_closes; pub_closes; out_closed; hstop; mp; nextm; cp; panicked>.

Inductive label :=
(* environment *)
| LCall (c : cid)            (* somebody calls Close *)
| LEnvCancel                 (* the user cancels Run's context *)
| LEmit (h : hid)            (* the subscriber hands its next message to the pump *)
| LChanClose (h : hid)       (* the subscriber closes its channel *)
| LSubEnd (h : hid)          (* the subscription ends by itself (the broker closes it): the channel closes although nobody
                                called Close() and the context is live *)
| LFinish (m : mid)          (* the handler function returns (nil error): produced messages are published next *)
| LFail (m : mid)            (* the handler function returns an error or panics (recovered by handleMessage):
                                nothing is published, the message is Nacked next *)
| LTimeout (c : cid)         (* time.After(CloseTimeout) fires *)
| LRhCall (r : nat)          (* somebody calls RunHandlers (Run itself at start, or the user after AddHandler) *)
| LSubCloseRet (h : hid)     (* the subscriber's Close() returns to handleClose *)
(* the code *)
| LClose (c : cid)           (* next step of Close call c *)
| LWaitDone (c : cid)        (* select: all waiters done *)
| LRh (r : nat)              (* next step of RunHandlers call r *)
| LW1                        (* next step of the handlersWg waiter *)
| LW2                        (* next step of the runningHandlersWg waiter *)
| LRun                       (* next step of Run *)
| LLoop (h : hid)            (* next step of the handler loop *)
| LDeliver (h : hid)         (* pump -> loop hand-off on h.messagesCh *)
| LPump (h : hid)            (* next step of the pump (other than the hand-offs) *)
| LPumpDropCtx (h : hid)     (* pump select: <-ctx.Done(): the held message is given up *)
| LPumpDropClosing (h : hid) (* pump select: <-t.closing: the held message is given up *)
| LHcClosing (h : hid)       (* handleClose select: <-routersCloseCh *)
| LHcCtx (h : hid)           (* handleClose select: <-ctx.Done() *)
| LHc (h : hid)              (* next step of handleClose *)
| LMsg (m : mid).            (* next step of handleMessage(m) (other than the handler returning) *)

Definition loop_alive (p : lpc) : bool :=
  match p with LRecv | LGot _ | LLocked _ | LPubClose | LWgDone => true | _ => false end.
Definition in_progress (p : mpc) : bool :=
  match p with MSpawned | MRunning | MPublishing | MSettling | MSettled => true | _ => false end.

(** [u] handlers have been added but not started (AddHandler after Run without RunHandlers, or a
    router that was never run): handlersWg counts them, no goroutine stands for them *)
Definition init_u (n u : nat) (hon : hid -> bool) (f5 f6 f12 f16 : bool) : state :=
  let live := fun h => Nat.ltb h n in
  ST n hon f5 f6 f12 f16 u false None None (fun _ => RHNone) false false false None (n + u) 0 None W1None W2None RWaitClosing false false
     (fun h => if live h then LRecv else LNone)
     (fun h => if live h then HCSelect else HCNone)
     (fun h => if live h then PRecv else PNone)
     live (fun _ => false) (fun _ => false) (fun _ => 0) (fun _ => 0) (fun _ => false) (fun _ => false)
     (fun _ => MNone) 0 (fun _ => CNone) false.

(** every added handler has been started (and the repair of D16 is in place) *)
Definition init (n : nat) (hon : hid -> bool) (f5 f6 f12 : bool) : state := init_u n 0 hon f5 f6 f12 true.
(** the variant in which RunHandlers asks IsClosed() while it holds handlersLock *)
Definition init_rh_isclosed (n : nat) (hon : hid -> bool) : state :=
  init_u n 0 hon true true true true <| rh_isclosed := true |>.

(** the handler's subscription context is done *)
Definition hctx_done (s : state) (h : hid) : bool := ctx_done s || hstop s h.

Definition step (s : state) (l : label) : option state :=
  match l with
  | LCall c =>
      match cp s c with
      | CNone => Some (s <| cp := upd (cp s) c CWant |>)
      | _ => None
      end
  | LEnvCancel =>
      Some (s <| ctx_done := true |> <| early_cancel := early_cancel s || negb (closingCh s) |>)
  | LEmit h =>
      match pp s h with
      | PRecv =>
          if sub_open s h then
            let m := nextm s in
            Some (s <| pp := upd (pp s) h (PSend m) |> <| mp := upd (mp s) m (MPump h) |> <| nextm := S m |>)
          else None
      | _ => None
      end
  | LChanClose h =>
      if sub_open s h && (sub_closing s h || (honour s h && hctx_done s h))
      then Some (s <| sub_open := upd (sub_open s) h false |>)
      else None
  | LSubEnd h =>
      if sub_open s h then Some (s <| sub_open := upd (sub_open s) h false |>) else None
  | LFinish m =>
      match mp s m with
      | MRunning => Some (s <| mp := upd (mp s) m MPublishing |>)
      | _ => None
      end
  | LFail m =>
      match mp s m with
      | MRunning => Some (s <| mp := upd (mp s) m MSettling |>)
      | _ => None
      end
  | LTimeout c =>
      match cp s c with
      | CWait => Some (s <| cp := upd (cp s) c (CClosedCh RErr) |> <| close_res := Some RErr |>)
      | _ => None
      end
  | LSubCloseRet h =>
      match hc s h with
      | HCInSubClose => Some (s <| hc := upd (hc s) h HCDecSignal |>)
      | _ => None
      end
  | LClose c =>
      match cp s c with
      | CWant =>
          match closedLock s with
          | None => Some (s <| cp := upd (cp s) c CHWant |> <| closedLock := Some c |>)
          | Some _ => None
          end
      | CHWant =>
          match handlersLock s with
          | None => Some (s <| cp := upd (cp s) c CLocked |> <| handlersLock := Some (HOCloser c) |>)
          | Some _ => None
          end
      | CLocked =>
          if closed s
          then Some (s <| cp := upd (cp s) c
                              (CUnlock (if fix12 s then match close_res s with Some r => r | None => RNil end
                                        else RNil)) |>)
          else if fix16 s
               then (* r.closed = true; for every handler that was never started: handlersWg.Done(), delete *)
                    Some (s <| cp := upd (cp s) c CSignal |> <| closed := true |>
                            <| handlersWg := handlersWg s - unstarted s |> <| unstarted := 0 |>)
               else Some (s <| cp := upd (cp s) c CSignal |> <| closed := true |>)
      | CSignal =>
          (* close(closingInProgressCh); go waiter(s); select *)
          Some (s <| cp := upd (cp s) c CWait |> <| closingCh := true |>
                  <| panicked := panicked s || closingCh s |>
                  <| w1 := W1Wait |> <| w2 := if fix5 s then W2Pre else W2Want |>)
      | CClosedCh r =>
          Some (s <| cp := upd (cp s) c (CUnlock r) |> <| closedCh := true |>
                  <| panicked := panicked s || closedCh s |>)
      | CUnlock r =>
          Some (s <| cp := upd (cp s) c (CRet r) |> <| closedLock := None |> <| handlersLock := None |>)
      | _ => None
      end
  | LRhCall r =>
      match rp s r with
      | RHNone => Some (s <| rp := upd (rp s) r RHWant |>)
      | _ => None
      end
  | LRh r =>
      match rp s r with
      | RHWant =>
          match handlersLock s with
          | None => Some (s <| rp := upd (rp s) r RHLocked |> <| handlersLock := Some (HORh r) |>)
          | Some _ => None
          end
      | RHLocked =>
          if rh_isclosed s then Some (s <| rp := upd (rp s) r RHCWant |>)
          else Some (s <| rp := upd (rp s) r RHDone |> <| handlersLock := None |>)
      | RHCWant =>                       (* IsClosed(): closedLock.Lock(); read; Unlock() *)
          match closedLock s with
          | None => Some (s <| rp := upd (rp s) r RHChecked |>)
          | Some _ => None
          end
      | RHChecked => Some (s <| rp := upd (rp s) r RHDone |> <| handlersLock := None |>)
      | _ => None
      end
  | LWaitDone c =>
      match cp s c, w1 s, w2 s with
      | CWait, W1Done, W2Done =>
          Some (s <| cp := upd (cp s) c (CClosedCh RNil) |> <| close_res := Some RNil |>)
      | _, _, _ => None
      end
  | LW1 =>
      match w1 s with
      | W1Wait =>
          if Nat.eqb (handlersWg s) 0
          then Some (s <| w1 := W1Done |> <| w2 := match w2 s with W2Pre => W2Want | x => x end |>)
          else None
      | _ => None
      end
  | LW2 =>
      match w2 s with
      | W2Want =>
          match runningLock s with
          | None => Some (s <| w2 := W2Locked |> <| runningLock := Some OWaiter |>)
          | Some _ => None
          end
      | W2Locked =>
          if Nat.eqb (runningWg s) 0 then Some (s <| w2 := W2Unlock |>) else None
      | W2Unlock => Some (s <| w2 := W2Done |> <| runningLock := None |>)
      | _ => None
      end
  | LRun =>
      match run s with
      | RWaitClosing => if closingCh s then Some (s <| run := RCancel |>) else None
      | RCancel => Some (s <| run := RWaitClosed |> <| ctx_done := true |>)
      | RWaitClosed => if closedCh s then Some (s <| run := RDone |>) else None
      | RDone => None
      end
  | LLoop h =>
      match lp s h with
      | LRecv =>
          if out_closed s h then Some (s <| lp := upd (lp s) h LPubClose |>) else None
      | LGot m =>
          match runningLock s with
          | None => Some (s <| lp := upd (lp s) h (LLocked m) |> <| runningLock := Some (OLoop h) |>)
          | Some _ => None
          end
      | LLocked m =>
          Some (s <| lp := upd (lp s) h LRecv |> <| runningLock := None |>
                  <| runningWg := S (runningWg s) |> <| mp := upd (mp s) m MSpawned |>)
      | LPubClose =>
          Some (s <| lp := upd (lp s) h LWgDone |> <| pub_closes := upd (pub_closes s) h (S (pub_closes s h)) |>)
      | LWgDone =>
          (* handlersWg.Done(); ...; the goroutine ends: its deferred cancel() ends the handler's own context
             (folded into this step; really it runs after the short handlersLock section) *)
          Some (s <| lp := upd (lp s) h LEnd |> <| handlersWg := pred (handlersWg s) |>
                  <| panicked := panicked s || Nat.eqb (handlersWg s) 0 |>
                  <| hstop := upd (hstop s) h true |>
                  <| early_cancel := early_cancel s || negb (closingCh s) |>)
      | _ => None
      end
  | LDeliver h =>
      match pp s h, lp s h with
      | PSend m, LRecv =>
          Some (s <| pp := upd (pp s) h PRecv |> <| lp := upd (lp s) h (LGot m) |> <| mp := upd (mp s) m (MLoop h) |>)
      | _, _ => None
      end
  | LPump h =>
      match pp s h with
      | PRecv =>
          if sub_open s h then None
          else Some (s <| pp := upd (pp s) h PWgDone |> <| out_closed := upd (out_closed s) h true |>
                       <| panicked := panicked s || out_closed s h |>)
      | PWgDone => Some (s <| pp := upd (pp s) h PDone |>)
      | _ => None
      end
  | LPumpDropCtx h =>
      match pp s h with
      | PSend m =>
          if hctx_done s h
          then Some (s <| pp := upd (pp s) h PRecv |> <| mp := upd (mp s) m MDropped |>)
          else None
      | _ => None
      end
  | LPumpDropClosing h =>
      match pp s h with
      | PSend m =>
          if dec_closing s h
          then Some (s <| pp := upd (pp s) h PRecv |> <| mp := upd (mp s) m MDropped |>)
          else None
      | _ => None
      end
  | LHcClosing h =>
      match hc s h with
      | HCSelect => if closingCh s then Some (s <| hc := upd (hc s) h HCSubClose |>) else None
      | _ => None
      end
  | LHcCtx h =>
      match hc s h with
      | HCSelect =>
          if hctx_done s h
          then Some (s <| hc := upd (hc s) h (if fix6 s then HCCheck else HCStop) |>)
          else None
      | _ => None
      end
  | LHc h =>
      match hc s h with
      | HCCheck => Some (s <| hc := upd (hc s) h (if closingCh s then HCSubClose else HCStop) |>)
      | HCSubClose =>
          Some (s <| hc := upd (hc s) h HCInSubClose |> <| sub_closing := upd (sub_closing s) h true |>
                  <| sub_closes := upd (sub_closes s) h (S (sub_closes s h)) |>)
      | HCDecSignal =>
          Some (s <| hc := upd (hc s) h HCWaitPump |> <| dec_closing := upd (dec_closing s) h true |>)
      | HCWaitPump =>
          match pp s h with
          | PDone => Some (s <| hc := upd (hc s) h HCStop |>)
          | _ => None
          end
      | HCStop => Some (s <| hc := upd (hc s) h HCDone |> <| hstop := upd (hstop s) h true |>)
      | _ => None
      end
  | LMsg m =>
      match mp s m with
      | MSpawned => Some (s <| mp := upd (mp s) m MRunning |>)
      | MPublishing => Some (s <| mp := upd (mp s) m MSettling |>)
      | MSettling => Some (s <| mp := upd (mp s) m MSettled |>)
      | MSettled =>
          Some (s <| mp := upd (mp s) m MDone |> <| runningWg := pred (runningWg s) |>
                  <| panicked := panicked s || Nat.eqb (runningWg s) 0 |>)
      | _ => None
      end
  end.

(** run a schedule, skipping labels that are not enabled *)
Fixpoint exec (s : state) (ls : list label) : state :=
  match ls with
  | [] => s
  | l :: ls' => match step s l with Some s' => exec s' ls' | None => exec s ls' end
  end.

(** strict replay: every label must be enabled *)
Fixpoint replay (s : state) (ls : list label) : option state :=
  match ls with
  | [] => Some s
  | l :: ls' => match step s l with Some s' => replay s' ls' | None => None end
  end.

(** ** Observations the theorems and the comparators talk about *)

Definition res_eqb (a b : res) : bool :=
  match a, b with RNil, RNil | RErr, RErr => true | _, _ => false end.

Definition returned (s : state) (c : cid) (r : res) : bool :=
  match cp s c with CRet r' => res_eqb r r' | _ => false end.

(** a handler invocation exists that has been dispatched and has not finished *)
Definition msg_idle (p : mpc) : bool := match p with MNone | MDone | MDropped => true | _ => false end.
Definition loop_over (p : lpc) : bool := match p with LNone | LEnd => true | _ => false end.

(** executable quiescence test over the allocated messages and handlers *)
Definition quiescent_b (s : state) : bool :=
  forallb (fun m => msg_idle (mp s m)) (seq 0 (nextm s)) &&
  forallb (fun h => loop_over (lp s h)) (seq 0 (nh s)).

(** labels by which the system (not the environment, not the clock) can move; used for the
    stuck-state characterisation.  [LChanClose] counts as a system step: a subscriber closes its
    channel after Close() / after its context ended (subscriber contract, assumed). *)
Definition sys_labels (s : state) (ncl : nat) : list label :=
  [LW1; LW2; LRun] ++
  flat_map (fun c => [LClose c; LWaitDone c; LRh c]) (seq 0 ncl) ++
  flat_map (fun h => [LLoop h; LDeliver h; LPump h; LPumpDropCtx h; LPumpDropClosing h; LHcClosing h; LHcCtx h; LHc h; LChanClose h]) (seq 0 (nh s)) ++
  map LMsg (seq 0 (nextm s)).

Definition enabled (s : state) (l : label) : bool :=
  match step s l with Some _ => true | None => false end.

Definition sys_enabled (s : state) (ncl : nat) : list label := filter (enabled s) (sys_labels s ncl).

(** some handler function is executing (only the environment decides when it returns) *)
Definition handler_running_b (s : state) : bool :=
  existsb (fun m => match mp s m with MRunning => true | _ => false end) (seq 0 (nextm s)).
