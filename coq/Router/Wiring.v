(** Model of the Router's REGISTRATION STATE and DISPATCH (message/router.go):
    AddHandler / AddNoPublisherHandler (l.272-354), Router.AddMiddleware / addRouterLevelMiddleware /
    addHandlerLevelMiddleware / Handler.AddMiddleware (l.184-212, l.673-681), AddPublisherDecorators /
    AddSubscriberDecorators (l.226-238), Run / RunHandlers (l.366-475: every handler that is not started
    yet gets its publisher and subscriber decorated with the decorator lists of THAT moment, subscribes,
    and its goroutine snapshots r.middlewares), handler.run (l.627-651: the reverse wrapping loop with the
    filter IsRouterLevel || HandlerName == h.name), decorateHandlerPublisher (reverse loop) /
    decorateHandlerSubscriber (context decorator first, then a forward loop) (l.706-746),
    addHandlerContext (l.749-770), handleMessage / publishProducedMessages
    (l.787-848) and message/router_context.go (the five accessors; a key that is not set reads as "").

    The per-message settlement is NOT re-modelled: it is [handle] of Handler/RouterHandle.v (C02).

    Executable; no proofs in this file.  Identifiers are interned strings (N, 0 = ""). *)
From WM Require Import Base.Prelude Message.Model Handler.RouterHandle.

(** produced messages are numbers: 0 = the consumed object itself, k = the k-th fresh message of the
    handler function, 100+w = the message appended by middleware w (see Corr/C08.v) *)
Definition M := N.

(** ** router_context.go: the five values a message context carries *)
Record ctxv := CX { c_handler : N; c_pubname : N; c_subname : N; c_subtopic : N; c_pubtopic : N }.
Definition cx0 : ctxv := CX 0 0 0 0 0.            (* a context without any router key *)

(** everything ELSE a message context carries: user values (one interned tag stands for them) and
    whether the context is cancelled.  The Router must hand it on untouched. *)
Definition uctx := (N * bool)%type.

(** ** configuration of one handler, as passed to AddHandler *)
Inductive pubref :=
| PReal (id : N) (ty : N)       (* a publisher object [id] whose internal.StructName is [ty] *)
| PDisabled                     (* AddNoPublisherHandler: disabledPublisher{} *)
| PNil.                         (* AddHandler(..., nil, ...) *)
(** interned by the harness as fixed numbers *)
Definition ty_disabled : N := 1.   (* "message.disabledPublisher" *)
Definition ty_nil : N := 2.        (* "<nil>" = fmt.Sprintf("%T", nil) *)

Record hcfg := HC {
  h_name : N; h_sub : N (* subscriber object *); h_subty : N (* its StructName *); h_subtopic : N;
  h_pub : pubref; h_pubtopic : N; h_fn : N (* identity of the handler function *) }.

Definition pub_ty (p : pubref) : N :=
  match p with PReal _ ty => ty | PDisabled => ty_disabled | PNil => ty_nil end.
Definition pub_kind (p : pubref) : pubkind :=
  match p with PReal _ _ => PubReal | PDisabled => PubDisabled | PNil => PubNil end.

(** one entry of r.middlewares *)
Record mwreg := MR { r_router : bool; r_hname : N; r_id : N; r_app : option M }.

(** what a handler froze when it was started *)
Record started := ST { s_chain : list mwreg (* snapshot of r.middlewares, unfiltered *);
                       s_pubdecs : list N; s_subdecs : list N }.
Record hstate := HS { hs_cfg : hcfg; hs_started : option started }.

(** [pfails]: decorator constructors that still return an error: (decorator id, how many more times);
    [residue]: publisher decorators that a FAILED RunHandlers attempt left applied on a handler's
    publisher (decorateHandlerPublisher assigns h.publisher before decorateHandlerSubscriber runs,
    l.716), keyed by handler name, first = outermost *)
Record rstate := RS { handlers : list hstate (* in AddHandler order *); mws : list mwreg;
                      pubdecs : list N; subdecs : list N;
                      pfails : list (N * nat); residue : list (N * list N);
                      pending : list (N * (list N * list N)) }.
Definition rinit : rstate := RS [] [] [] [] [] [] [].

(** one message handed to the subscriber environment: every subscription made on subscriber object
    [d_sub] for topic [d_topic] receives its own copy; [d_ctx] = router keys the message context
    carries already, [d_uctx] = its user value / cancellation; [d_out] = what the handler function
    does with it; [d_pb] = how the handler's real publisher answers *)
Record delivery := DL { d_sub : N; d_topic : N; d_ctx : ctxv; d_uctx : uctx; d_out : outcome M; d_pb : pubbeh }.

Inductive op :=
| OAddHandler (h : hcfg)
| OAddMw (id : N) (app : option M)               (* Router.AddMiddleware *)
| OAddHMw (name : N) (id : N) (app : option M)   (* Handler.AddMiddleware of handler [name] *)
| OAddPubDec (d : N) (fails : nat)               (* a decorator whose constructor returns an error the first [fails] times it is called *)
| OAddSubDec (d : N) (fails : nat)
| OStart                                         (* Run / RunHandlers, and every started handler's goroutine has copied r.middlewares *)
| OStartAsync                                    (* RunHandlers returned; the new handlers' goroutines have NOT yet reached their copy *)
| OSnap (name : N)                               (* handler [name]'s goroutine copies r.middlewares (under middlewaresLock) *)
| OStop (name : N)                               (* Handler.Stop of a started handler, until it is removed from r.handlers *)
| ODeliver (d : delivery).

Definition name_is (n : N) (hs : hstate) : bool := N.eqb (h_name (hs_cfg hs)) n.
Definition find_handler (n : N) (st : rstate) : option hstate := find (name_is n) (handlers st).

Definition budget (st : rstate) (d : N) : nat :=
  match find (fun p => N.eqb (fst p) d) (pfails st) with Some p => snd p | None => 0 end.
(** the first decorator, in the order the constructors are called, that still fails *)
Definition first_failing (st : rstate) (order : list N) : option N :=
  find (fun d => negb (Nat.eqb (budget st d) 0)) order.
Definition spend (pf : list (N * nat)) (d : N) : list (N * nat) :=
  map (fun p => if N.eqb (fst p) d then (fst p, pred (snd p)) else p) pf.
Definition residue_of (st : rstate) (n : N) : list N :=
  match find (fun p => N.eqb (fst p) n) (residue st) with Some p => snd p | None => [] end.
Definition unstarted (hs : hstate) : bool := match hs_started hs with None => true | Some _ => false end.
(** a handler RunHandlers has started (h.started = true) but whose goroutine has not copied
    r.middlewares yet is kept with [hs_started = None] (it cannot handle a message yet) and an entry in
    [pending] that holds the decorator lists it froze when it was started *)
Definition pending_of (st : rstate) (n : N) : option (list N * list N) :=
  match find (fun p => N.eqb (fst p) n) (pending st) with Some p => Some (snd p) | None => None end.
Definition is_pending (st : rstate) (n : N) : bool :=
  match pending_of st n with Some _ => true | None => false end.
(** waiting to be started by the next RunHandlers: h.started = false *)
Definition waiting (st : rstate) (hs : hstate) : bool :=
  unstarted hs && negb (is_pending st (h_name (hs_cfg hs))).
(** the handler RunHandlers processes first.  Go iterates r.handlers in map order; the model takes
    registration order; since a failed attempt leaves nothing behind (repaired) it makes no difference. *)
Definition first_unstarted (st : rstate) : option hstate := find (waiting st) (handlers st).
Definition add_fail (pf : list (N * nat)) (d : N) (fails : nat) : list (N * nat) :=
  match fails with O => pf | S _ => pf ++ [(d, fails)] end.

Definition frozen_decs (st : rstate) (hs : hstate) : list N * list N :=
  (pubdecs st ++ residue_of st (h_name (hs_cfg hs)), subdecs st).
Definition start_one (st : rstate) (hs : hstate) : hstate :=
  if waiting st hs                                                   (* if h.started { continue } *)
  then HS (hs_cfg hs) (Some (ST (mws st) (fst (frozen_decs st hs)) (snd (frozen_decs st hs))))
  else hs.
Definition snap_one (st : rstate) (n : N) (decs : list N * list N) (hs : hstate) : hstate :=
  if name_is n hs && unstarted hs then HS (hs_cfg hs) (Some (ST (mws st) (fst decs) (snd decs))) else hs.

(** [pinned = true]: the behaviour before the fix "a RunHandlers that cannot decorate the subscriber puts
    the undecorated publisher back": the publisher decorators stayed applied ([residue]) and acted a
    second time after the retry.  The code under test is [step] = [step_gen false]. *)
Definition step_gen (pinned : bool) (st : rstate) (o : op) : rstate :=
  match o with
  | OAddHandler h =>
      match find_handler (h_name h) st with
      | Some _ => st                                                (* panic(DuplicateHandlerNameError), nothing changed *)
      | None => RS (handlers st ++ [HS h None]) (mws st) (pubdecs st) (subdecs st) (pfails st) (residue st) (pending st)
      end
  | OAddMw id app => RS (handlers st) (mws st ++ [MR true 0 id app]) (pubdecs st) (subdecs st) (pfails st) (residue st) (pending st)
  | OAddHMw n id app => RS (handlers st) (mws st ++ [MR false n id app]) (pubdecs st) (subdecs st) (pfails st) (residue st) (pending st)
  | OAddPubDec d f => RS (handlers st) (mws st) (pubdecs st ++ [d]) (subdecs st) (add_fail (pfails st) d f) (residue st) (pending st)
  | OAddSubDec d f => RS (handlers st) (mws st) (pubdecs st) (subdecs st ++ [d]) (add_fail (pfails st) d f) (residue st) (pending st)
  | OStart | OStartAsync =>
      match first_unstarted st with
      | None => st                                                  (* nothing to start: no decorator is called *)
      | Some hs0 =>
          (* decorateHandlerPublisher of the first handler: constructors called last-added first *)
          match first_failing st (rev (pubdecs st)) with
          | Some d => RS (handlers st) (mws st) (pubdecs st) (subdecs st) (spend (pfails st) d) (residue st) (pending st)
          | None =>
              (* its publisher is decorated now; decorateHandlerSubscriber: constructors in the order added;
                 on an error the undecorated publisher is put back (repaired) *)
              match first_failing st (subdecs st) with
              | Some d =>
                  let n0 := h_name (hs_cfg hs0) in
                  RS (handlers st) (mws st) (pubdecs st) (subdecs st) (spend (pfails st) d)
                     (if pinned then (n0, pubdecs st ++ residue_of st n0) :: residue st else residue st) (pending st)
              | None =>
                  (* no constructor fails any more: every waiting handler is decorated, subscribed and started *)
                  match o with
                  | OStart =>
                      (* ... and its goroutine has taken its copy of r.middlewares *)
                      RS (map (start_one st) (handlers st)) (mws st) (pubdecs st) (subdecs st) (pfails st) [] (pending st)
                  | _ =>
                      RS (handlers st) (mws st) (pubdecs st) (subdecs st) (pfails st) []
                         (pending st ++ map (fun hs => (h_name (hs_cfg hs), frozen_decs st hs))
                                            (filter (waiting st) (handlers st)))
                  end
              end
          end
      end
  | OSnap n =>
      match pending_of st n with
      | Some decs =>
          (* THE linearisation point of the start of handler n with respect to registrations:
             middlewares := append([]middleware{}, r.middlewares...) under middlewaresLock (l.476-478) *)
          RS (map (snap_one st n decs) (handlers st)) (mws st) (pubdecs st) (subdecs st) (pfails st) (residue st)
             (filter (fun p => negb (N.eqb (fst p) n)) (pending st))
      | None => st
      end
  | OStop n =>
      match find_handler n st with
      | Some (HS _ (Some _)) =>
          (* its run loop ends, delete(r.handlers, name): the name is free again; what was registered
             for that NAME in r.middlewares stays *)
          RS (filter (fun hs => negb (name_is n hs)) (handlers st)) (mws st) (pubdecs st) (subdecs st) (pfails st) (residue st) (pending st)
      | _ => st                                                     (* panic("handler is not started") / no such handler;
                                                                       Stop of a handler whose copy is still pending is not modelled *)
      end
  | ODeliver _ => st
  end.
Definition step := step_gen false.
Definition exec (st : rstate) (ops : list op) : rstate := fold_left step ops st.
Definition exec_pinned (st : rstate) (ops : list op) : rstate := fold_left (step_gen true) ops st.

(** ** observable events of one message copy in one handler, in order *)
Definition omsg := (M * ctxv * uctx)%type.
Inductive ev :=
| ESubDec (d : N) (seen : ctxv)                    (* subscriber decorator d passes the incoming message on *)
| EEnter (w : N)                                   (* middleware w entered *)
| EExit (w : N)                                    (* ... and left (the inner handler returned) *)
| EFn (f : N) (seen : ctxv)                        (* handler function f invoked; context values it reads *)
| EPubDec (d : N) (topic : N) (outs : list M)      (* publisher decorator d sees the outgoing batch *)
| EPublish (p : N) (topic : N) (outs : list omsg)  (* Publish on publisher object p; each message with its context values *)
| ESettle (ack : bool).                            (* final settlement of the consumed copy *)

(** addHandlerContext.  REPAIRED behaviour (fix commit on message/router.go): all five keys are set
    unconditionally, so whatever router keys the message context carried before are shadowed. *)
Definition ctx_of (h : hcfg) : ctxv :=
  CX (h_name h) (pub_ty (h_pub h)) (h_subty h) (h_subtopic h) (h_pubtopic h).
Definition overlay (c : ctxv) (h : hcfg) : ctxv := ctx_of h.

(** PINNED behaviour (before the fix): a key was set only when the handler's value is non-empty, so
    for an empty value (publish topic of a no-publisher handler, empty names/topics) a value already
    present on a re-delivered object survived.  Kept for the refutation witness in Props/C08.v. *)
Definition ov (old new : N) : N := if N.eqb new 0 then old else new.
Definition overlay_pinned (c : ctxv) (h : hcfg) : ctxv :=
  CX (ov (c_handler c) (h_name h)) (ov (c_pubname c) (pub_ty (h_pub h))) (ov (c_subname c) (h_subty h))
     (ov (c_subtopic c) (h_subtopic h)) (ov (c_pubtopic c) (h_pubtopic h)).

(** ** subscriber side: a message with context values c passes through *)
Definition sfun := ctxv -> list ev * ctxv.
Definition base_sub : sfun := fun c => ([], c).
Definition ctx_dec (h : hcfg) (s : sfun) : sfun :=
  fun c => let '(tr, c') := s c in (tr, overlay c' h).
Definition sdec_sem (d : N) (s : sfun) : sfun :=
  fun c => let '(tr, c') := s c in (tr ++ [ESubDec d c'], c').
(** decorateHandlerSubscriber: sub = ctxdec(sub); for _, d := range decs { sub = d(sub) } *)
Definition decorate_sub (h : hcfg) (decs : list N) : sfun :=
  fold_left (fun s d => sdec_sem d s) decs (ctx_dec h base_sub).

(** ** the handler chain *)
Definition hres := (list ev * outcome M)%type.
Definition hfun := ctxv -> hres.
(** a tagging middleware: records entry, calls the inner handler, records exit when it returned
    (no defer: a panic passes through), optionally appends one message to a successful result *)
Definition mw_sem (r : mwreg) (inner : hfun) : hfun :=
  fun c =>
    let '(tr, o) := inner c in
    match o with
    | Panic => (EEnter (r_id r) :: tr, Panic)
    | Fail outs => (EEnter (r_id r) :: tr ++ [EExit (r_id r)], Fail outs)
    | Ret outs => (EEnter (r_id r) :: tr ++ [EExit (r_id r)],
                   Ret (outs ++ match r_app r with Some x => [x] | None => [] end))
    end.
Definition applies (name : N) (r : mwreg) : bool := r_router r || N.eqb (r_hname r) name.
(** handler.run l.633-641: for i := len-1 .. 0 { if applies { h = mw(h) } } *)
Definition build (snap : list mwreg) (name : N) (f : hfun) : hfun :=
  fold_right (fun r acc => if applies name r then mw_sem r acc else acc) f snap.

(** AddNoPublisherHandler's adapter drops whatever the function could return *)
Definition fn_outcome (h : hcfg) (o : outcome M) : outcome M :=
  match h_pub h, o with
  | PDisabled, Ret _ => Ret []
  | PDisabled, Fail _ => Fail []
  | _, _ => o
  end.

(** ** publisher side *)
Definition pfun := N -> list omsg -> list ev * option bool.     (* Some ok | None = panicked *)
Definition base_pub (h : hcfg) (pb : pubbeh) : pfun :=
  match h_pub h with
  | PReal id _ => fun t outs => ([EPublish id t outs],
                                 match pb with PubAccept => Some true | PubError => Some false | PubPanic => None end)
  | PDisabled => fun _ _ => ([], Some false)          (* ErrOutputInNoPublisherHandler *)
  | PNil => fun _ _ => ([], Some false)               (* AddHandler stored disabledPublisher{} for the nil publisher (repaired) *)
  end.
Definition pdec_sem (d : N) (p : pfun) : pfun :=
  fun t outs => let '(tr, r) := p t outs in (EPubDec d t (map (fun o => fst (fst o)) outs) :: tr, r).
(** decorateHandlerPublisher: for i := len-1 .. 0 { pub = decs[i](pub) } *)
Definition decorate_pub (decs : list N) (p : pfun) : pfun := fold_right pdec_sem p decs.

Definition out_ctx (h : hcfg) (cin : ctxv) (m : M) : ctxv :=
  overlay (if N.eqb m 0 then cin else cx0) h.
(** the context a produced message was given by whoever produced it (harness convention, see
    Corr/C08.v): the consumed object keeps the arriving one; message m carries the user value m and
    is cancelled iff m is even.  addHandlerContext derives each message's new context from ITS OWN
    (context.WithValue(msg.Context(), ...)), so this part is untouched. *)
Definition own_ctx (d : delivery) (m : M) : uctx :=
  if N.eqb m 0 then d_uctx d else (m, N.even m).

(** publishProducedMessages *)
Definition publish_outs (h : hcfg) (s : started) (d : delivery) (cin : ctxv) (outs : list M)
  : list ev * option bool :=
  match outs with
  | [] => ([], Some true)
  | _ =>
      decorate_pub (s_pubdecs s) (base_pub h (d_pb d)) (h_pubtopic h)
                   (map (fun m => (m, out_ctx h cin m, own_ctx d m)) outs)
  end.

(** handler.run when its loop ends: if h.publisher != nil { h.publisher.Close() }.
    [pinned = true] (before the fix "a handler added with a nil publisher gets the no-publisher stand-in"):
    with a publisher decorator registered h.publisher was the decorator around nil; a decorator that embeds
    its publisher (the library's MessageTransformPublisherDecorator) forwards Close to nil: the handler
    goroutine panics and nobody recovers.  (For one message the two variants look alike: the decorators see
    the batch, then Publish on nil panicked and was recovered => Nack / the stand-in returns
    ErrOutputInNoPublisherHandler => Nack.) *)
Definition publisher_close_panics (pinned : bool) (h : hcfg) (s : started) : bool :=
  match h_pub h, s_pubdecs s with
  | PNil, _ :: _ => pinned
  | _, _ => false
  end.

(** the whole life of one copy in handler h *)
Definition dispatch (h : hcfg) (s : started) (d : delivery) : list ev :=
  let '(tin, cin) := decorate_sub h (s_subdecs s) (d_ctx d) in
  let fn : hfun := fun c => ([EFn (h_fn h) c], fn_outcome h (d_out d)) in
  let '(tch, oc) := build (s_chain s) (h_name h) fn cin in
  match oc with
  | Ret outs =>
      let '(tp, r) := publish_outs h s d cin outs in
      tin ++ tch ++ tp ++ [ESettle match r with Some true => true | _ => false end]
  | _ => tin ++ tch ++ [ESettle false]
  end.

Definition receives (d : delivery) (hs : hstate) : bool :=
  match hs_started hs with
  | Some _ => N.eqb (h_sub (hs_cfg hs)) (d_sub d) && N.eqb (h_subtopic (hs_cfg hs)) (d_topic d)
  | None => false
  end.
(** every started handler subscribed on (subscriber, topic) gets a copy: (handler name, trace) *)
Definition deliver (st : rstate) (d : delivery) : list (N * list ev) :=
  flat_map (fun hs => match hs_started hs with
                      | Some s => if receives d hs then [(h_name (hs_cfg hs), dispatch (hs_cfg hs) s d)] else []
                      | None => [] end) (handlers st).

(** a whole program: the observations of its deliveries, in order *)
Fixpoint run (st : rstate) (ops : list op) : list (list (N * list ev)) :=
  match ops with
  | [] => []
  | ODeliver d :: r => deliver st d :: run st r
  | o :: r => run (step st o) r
  end.
