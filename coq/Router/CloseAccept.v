(** The acceptor is linked to the model for EVERYTHING it judges: besides the safety events
    (CloseRefine.v) also its verdict at rest ([AQuiescent]: Close() was called on every handler's
    subscriber, every publisher is closed after a nil Close).  [mon_adv] is the acceptor's state
    after a list of events; [RelQ] relates its subscriber/publisher/marker fields to the model.
    No axioms. *)
From WM Require Import Base.Prelude Base.CountClose Router.Close Router.CloseMonitor Router.CloseProofs
  Router.CloseTheorems Router.CloseRefine Router.CloseStuck.
From RecordUpdate Require Import RecordUpdate.

Definition mon_adv (nh : nat) (hp : hid -> bool) (ms : mstate) (es : list aev) : mstate :=
  fold_left (fun m e => fst (mon_step nh hp m e)) es ms.

Lemma mon_run_from_app nh hp a : forall ms i b,
  mon_run_from nh hp ms i (a ++ b) =
  mon_run_from nh hp ms i a ++ mon_run_from nh hp (mon_adv nh hp ms a) (i + length a) b.
Proof.
  induction a as [|e a IH]; intros ms i b; simpl.
  - rewrite Nat.add_0_r. reflexivity.
  - destruct (mon_step nh hp ms e) as [ms' codes] eqn:E. simpl. rewrite IH. rewrite <- app_assoc.
    replace (S i + length a) with (i + S (length a)) by lia. reflexivity.
Qed.

Lemma mon_adv_app nh hp ms a b : mon_adv nh hp ms (a ++ b) = mon_adv nh hp (mon_adv nh hp ms a) b.
Proof. unfold mon_adv. apply fold_left_app. Qed.

(** the safety part again, now also giving the acceptor's state at the end of the run *)
Lemma mon_accepts_adv nh hp ls : forall s ms i,
  Inv s -> fix5 s = true -> fix12 s = true -> nh = Close.nh s -> RelM s ms ->
  mon_run_from nh hp ms i (trace s ls) = [] /\ RelM (exec s ls) (mon_adv nh hp ms (trace s ls)).
Proof.
  induction ls as [|l ls IH]; intros s ms i I F5 F12 Hnh R; simpl; [split; [reflexivity | assumption]|].
  destruct (step s l) as [s0|] eqn:E; [|apply IH; assumption].
  destruct (flags_step s l s0 E) as (G5 & _ & G12 & Gn).
  pose proof (Inv_step s l s0 I E) as I0.
  destruct (sim_step nh hp s l s0 ms I F5 F12 Hnh E R) as [[He R0]|(e & ms' & He & Hm & R0)]; rewrite He.
  - simpl. apply IH; congruence.
  - rewrite mon_run_from_app, mon_adv_app. simpl. rewrite Hm. simpl.
    destruct (IH s0 ms' (i + 1) I0) as [H1 H2]; try congruence. split; assumption.
Qed.

(** ** the fields judged at rest *)
Record RelQ (s : state) (ms : mstate) : Prop := {
  q_sub : forall h, mem h (m_subclosed ms) = Nat.leb 1 (sub_closes s h);
  q_pub : forall h, mem h (m_pubclosed ms) = Nat.leb 1 (pub_closes s h)
}.

Lemma RelQ_init_u n u hon f5 f6 f12 f16 : RelQ (init_u n u hon f5 f6 f12 f16) minit.
Proof. constructor; simpl; intros; reflexivity. Qed.

Lemma simq_step nh hp s l s' ms :
  step s l = Some s' -> RelQ s ms -> RelQ s' (mon_adv nh hp ms (emit s l)).
Proof.
  intros H [Qs Qp]. unfold emit. rewrite H.
  destruct l; step_cases H; simpl.
  all: try match goal with |- context [match ?r with RNil => _ | RErr => _ end] => destruct r end; simpl.
  all: constructor; simpl; intros;
       first [ apply (mem_cons_cnt _ _ _ Qs) | apply (mem_cons_cnt _ _ _ Qp) | apply Qs | apply Qp | assumption
             | reflexivity | congruence | solve [rew_pcs; congruence] | idtac ].
Qed.

Lemma simq_exec nh hp ls : forall s ms, RelQ s ms -> RelQ (exec s ls) (mon_adv nh hp ms (trace s ls)).
Proof.
  induction ls as [|l ls IH]; intros s ms Q; simpl; [assumption|].
  destruct (step s l) as [s0|] eqn:E; [|apply IH; assumption].
  rewrite mon_adv_app. apply IH. apply simq_step; assumption.
Qed.

(** at rest (every handleClose goroutine has decided) and without an early context cancel the
    acceptor's verdict is "accepted" too: every subscriber was asked to close, and after a nil
    Close every publisher is closed *)
Theorem model_accepted_at_rest n hon ls hp :
  let s0 := init n hon true true true in
  let s := exec s0 ls in
  early_cancel s = false ->
  (forall h, h < n -> hc_decided (hc s h) = true) ->
  mon_run n hp (trace s0 ls ++ [AQuiescent]) = [].
Proof.
  intros s0 s He Hd. unfold mon_run. rewrite mon_run_from_app.
  destruct (mon_accepts_adv n hp ls s0 minit 0 (Inv_init n hon true true true) eq_refl eq_refl eq_refl (RelM_init n hon true true true)) as [Hacc R].
  pose proof (simq_exec n hp ls s0 minit (RelQ_init_u n 0 hon true true true true)) as Q.
  fold s in R, Q. rewrite Hacc. simpl.
  set (ms := mon_adv n hp minit (trace s0 ls)) in *.
  pose proof (Inv_reach n hon true true true ls) as I. fold s0 in I. fold s in I.
  destruct (flags_exec s0 ls) as (F5 & F6 & _ & Fn). fold s in F5, F6, Fn. simpl in F5, F6, Fn.
  assert (Hsubs : forallb (fun h => mem h (m_subclosed ms)) (seq 0 n) = true).
  { apply forallb_forall. intros h Hin. apply in_seq in Hin. rewrite (q_sub s ms Q).
    apply Nat.leb_le. apply (h_5 s (i_h s I) h F6 He). apply Hd. lia. }
  rewrite Hsubs. simpl.
  destruct (m_anyret ms); [|reflexivity].
  destruct (m_nil ms) eqn:En; [|reflexivity]. simpl.
  assert (Hq : quiescent s) by (apply quiescent_of_nil_result; [assumption | assumption | apply (r_nil s ms R En)]).
  assert (Hpubs : forallb (fun h => negb (hp h) || mem h (m_pubclosed ms)) (seq 0 n) = true).
  { apply forallb_forall. intros h Hin. apply in_seq in Hin. rewrite (q_pub s ms Q).
    assert (1 <= pub_closes s h) as Hp by (apply all_pubs_closed; [assumption | assumption | lia]).
    apply Nat.leb_le in Hp. rewrite Hp. apply orb_true_r. }
  rewrite Hpubs. reflexivity.
Qed.

(** every run of the repaired model (any never-started handlers, with or without the D6/D16
    repairs) is accepted event by event *)
Theorem mon_accepts_model_u hp n u hon f6 f16 ls :
  mon_run n hp (trace (init_u n u hon true f6 true f16) ls) = [].
Proof.
  unfold mon_run. apply mon_accepts_from; [apply Inv_init_u | reflexivity | reflexivity | reflexivity | apply RelM_init_u].
Qed.
