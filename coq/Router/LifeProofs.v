(** Proofs about Router/Life.v: a Router program with plugins amounts to a Wiring program. *)
From WM Require Import Base.Prelude Message.Model Handler.RouterHandle Router.Wiring Router.WiringSpec
  Router.WiringProofs Router.Life.

Lemma run_nondeliver st o r : (forall d, o <> ODeliver d) -> run st (o :: r) = run (step st o) r.
Proof. intros H. destruct o; try reflexivity. exfalso. now apply (H d). Qed.

Lemma pexec_cons ps po r : pexec ps (po :: r) = pexec (fst (pstep ps po)) r.
Proof. reflexivity. Qed.

Lemma prun_cons ps po r : prun ps (po :: r) = snd (pstep ps po) ++ prun (fst (pstep ps po)) r.
Proof. simpl. now destruct (pstep ps po). Qed.

Lemma pstep_running c P o :
  pstep (PS c P true) (PCore o) =
  match o with
  | ODeliver d => (PS c P true, [PDel (deliver c d)])
  | _ => (PS (step c o) P true, [])
  end.
Proof. unfold pstep. simpl. rewrite andb_false_r. now destruct o. Qed.

Lemma running_is_wiring pops : forall c P,
  core (pexec (PS c P true) pops) = exec c (core_ops pops)
  /\ del_obs (prun (PS c P true) pops) = run c (core_ops pops)
  /\ plug_obs (prun (PS c P true) pops) = [].
Proof.
  induction pops as [|po r IH]; intros c P; [repeat split; reflexivity|].
  rewrite pexec_cons, prun_cons. destruct po as [id f| |o].
  - exact (IH c (P ++ [(id, f)])).
  - exact (IH c P).
  - rewrite pstep_running.
    destruct o as [h|id app|hn id app|dd ff|dd ff| | |pn|sn|d];
      try (match goal with |- context [step c ?o] => exact (IH (step c o) P) end).
    destruct (IH c P) as (A & B & C). repeat split; [exact A| |exact C].
    change (deliver c d :: del_obs (prun (PS c P true) r) = deliver c d :: run c (core_ops r)). now rewrite B.
Qed.

Lemma pstep_first c P o : is_startlike o = true ->
  pstep (PS c P false) (PCore o) =
  if snd (upto_fail P) then (PS c P true, [PPlug (fst (upto_fail P)) false])
  else (PS (step c o) P true, [PPlug (fst (upto_fail P)) true]).
Proof. intros H. unfold pstep. simpl. rewrite H. simpl. destruct (upto_fail P) as [cl f]. now destruct f. Qed.
Lemma pstep_notyet c P o : is_startlike o = false ->
  pstep (PS c P false) (PCore o) =
  match o with
  | ODeliver d => (PS c P false, [PDel (deliver c d)])
  | _ => (PS (step c o) P false, [])
  end.
Proof. intros H. unfold pstep. simpl. rewrite H. simpl. now destruct o. Qed.

Lemma not_running_is_eff pops : forall c P,
  core (pexec (PS c P false) pops) = exec c (eff P pops)
  /\ del_obs (prun (PS c P false) pops) = run c (eff P pops)
  /\ plug_obs (prun (PS c P false) pops) = spec_plug P pops.
Proof.
  induction pops as [|po r IH]; intros c P; [repeat split; reflexivity|].
  rewrite pexec_cons, prun_cons. destruct po as [id f| |o].
  - exact (IH c (P ++ [(id, f)])).
  - exact (IH c P).
  - cbn [eff spec_plug]. destruct (is_startlike o) eqn:Es.
    + rewrite (pstep_first c P o Es). destruct (snd (upto_fail P)) eqn:Ef.
      * destruct (running_is_wiring r c P) as (A & B & C). cbn [fst snd negb]. repeat split; [exact A|exact B|].
        change (PPlug (fst (upto_fail P)) false :: plug_obs (prun (PS c P true) r) = [PPlug (fst (upto_fail P)) false]).
        now rewrite C.
      * destruct (running_is_wiring r (step c o) P) as (A & B & C). cbn [fst snd negb]. repeat split.
        -- exact A.
        -- destruct o; try discriminate; exact B.
        -- change (PPlug (fst (upto_fail P)) true :: plug_obs (prun (PS (step c o) P true) r) = [PPlug (fst (upto_fail P)) true]).
           now rewrite C.
    + rewrite (pstep_notyet c P o Es).
      destruct o as [h|id app|hn id app|dd ff|dd ff| | |pn|sn|d]; try discriminate;
        try (match goal with |- context [step c ?o] => exact (IH (step c o) P) end).
      destruct (IH c P) as (A & B & C). repeat split; [exact A| |exact C].
      change (deliver c d :: del_obs (prun (PS c P false) r) = deliver c d :: run c (eff P r)). now rewrite B.
Qed.

(** a Router program amounts to the Wiring program [effective_ops] *)
Theorem life_is_wiring pops :
  core (pexec pinit pops) = exec rinit (effective_ops pops)
  /\ del_obs (prun pinit pops) = run rinit (effective_ops pops)
  /\ plug_obs (prun pinit pops) = spec_plug [] pops.
Proof. exact (not_running_is_eff pops rinit []). Qed.

(** plugins are called by one operation at most (Run), never again *)
Lemma spec_plug_once pops : forall P, length (spec_plug P pops) <= 1.
Proof.
  induction pops as [|po r IH]; intros P; simpl; [lia|]. destruct po as [id f| |o]; try apply IH.
  destruct (is_startlike o); [simpl; lia|apply IH].
Qed.
Theorem plugins_once pops : length (plug_obs (prun pinit pops)) <= 1.
Proof. destruct (life_is_wiring pops) as (_ & _ & ->). apply spec_plug_once. Qed.

(** a plugin error aborts Run: the start-like operation changes nothing but isRunning *)
Theorem plugin_error_aborts c P o : is_startlike o = true -> snd (upto_fail P) = true ->
  core (fst (pstep (PS c P false) (PCore o))) = c /\ isrun (fst (pstep (PS c P false) (PCore o))) = true.
Proof. intros Hs Hf. rewrite (pstep_first c P o Hs), Hf. split; reflexivity. Qed.

(** plugins run BEFORE any handler: a Wiring program without start-like operation has started nobody *)
Lemma nostart_step st o : is_startlike o = false ->
  Forall (fun hs => hs_started hs = None) (handlers st) -> pending st = [] ->
  Forall (fun hs => hs_started hs = None) (handlers (step st o)) /\ pending (step st o) = [].
Proof.
  intros Hs Hh Hp. destruct o as [h|id app|hn id app|dd ff|dd ff| | |pn|sn|d]; try discriminate; simpl;
    try (split; assumption).
  - destruct (find_handler (h_name h) st); [split; assumption|]. simpl. split; [|assumption].
    apply Forall_app. split; [assumption|]. now constructor.
  - unfold pending_of. rewrite Hp. simpl. split; assumption.
  - destruct (find_handler sn st) as [[c [s|]]|] eqn:F; try (split; assumption).
    apply find_some in F as [Hin _]. rewrite Forall_forall in Hh. specialize (Hh _ Hin). discriminate.
Qed.
Lemma nostart_exec ops : forallb (fun o => negb (is_startlike o)) ops = true ->
  Forall (fun hs => hs_started hs = None) (handlers (exec rinit ops)) /\ pending (exec rinit ops) = [].
Proof.
  induction ops as [|o ops IH] using rev_ind; intros H; [split; [constructor|reflexivity]|].
  rewrite forallb_app in H. apply andb_true_iff in H as [H1 H2]. simpl in H2. rewrite andb_true_r in H2.
  apply negb_true_iff in H2. rewrite exec_snoc. destruct (IH H1) as [A B]. now apply nostart_step.
Qed.
Lemma eff_nostart pre : forall P, forallb (fun o => negb (is_startlike o)) (core_ops pre) = true ->
  eff P pre = core_ops pre.
Proof.
  induction pre as [|po r IH]; intros P H; [reflexivity|]. destruct po as [id f| |o]; simpl in *; try now apply IH.
  apply andb_true_iff in H as [H1 H2]. apply negb_true_iff in H1. rewrite H1. f_equal. now apply IH.
Qed.
Theorem plugins_before_handlers pre :
  forallb (fun o => negb (is_startlike o)) (core_ops pre) = true ->
  Forall (fun hs => hs_started hs = None) (handlers (core (pexec pinit pre))).
Proof.
  intros H. destruct (life_is_wiring pre) as (-> & _ & _). unfold effective_ops. rewrite eff_nostart by assumption.
  now apply nostart_exec.
Qed.

(** Handlers(): the names the registration machine holds at that moment *)
Lemma pexec_snoc ps pre po : pexec ps (pre ++ [po]) = fst (pstep (pexec ps pre) po).
Proof. unfold pexec. now rewrite fold_left_app. Qed.
Lemma prun_views pops : forall pre, name_obs (prun (pexec pinit pre) pops) = spec_views pre pops.
Proof.
  induction pops as [|po r IH]; intros pre; [reflexivity|].
  specialize (IH (pre ++ [po])). rewrite pexec_snoc in IH.
  cbn [prun]. destruct (pstep (pexec pinit pre) po) as [ps' obs] eqn:E. cbn [fst] in IH.
  unfold name_obs in *. rewrite flat_map_app. rewrite IH. destruct po as [id f| |o].
  - simpl in E. injection E as <- <-. reflexivity.
  - simpl in E. injection E as <- <-. simpl. destruct (life_is_wiring pre) as (-> & _ & _). reflexivity.
  - simpl in E. destruct (is_startlike o && negb (isrun (pexec pinit pre))).
    + destruct (upto_fail (plugins (pexec pinit pre))) as [c f]. destruct f; injection E as <- <-; reflexivity.
    + destruct o; injection E as <- <-; reflexivity.
Qed.
Theorem views_spec pops : name_obs (prun pinit pops) = spec_views [] pops.
Proof. exact (prun_views pops []). Qed.
(** ... they are pairwise different, and each was added by an AddHandler of the program *)
Theorem view_names ops :
  let ns := map (fun hs => h_name (hs_cfg hs)) (handlers (exec rinit ops)) in
  NoDup ns /\ forall n, In n ns -> exists h, In (OAddHandler h) ops /\ h_name h = n.
Proof.
  split; [exact (names_nodup_all ops)|]. intros n Hin. apply in_map_iff in Hin as (hs & <- & Hin).
  destruct (pinv_all ops) as [Hh _ _ _ _ _]. rewrite Forall_forall in Hh. destruct (Hh _ Hin) as [Ha _].
  exists (hs_cfg hs). split; [assumption|reflexivity].
Qed.
