(** Router.Run / AddPlugin / Handlers() around the registration machine of Router/Wiring.v
    (message/router.go: AddPlugin l.228-232, Run l.377-425: isRunning, the plugin loop, RunHandlers;
    Handlers() l.250-258).  A program is a list of [pop]: plugin registrations, Handlers() calls and the
    operations of Wiring.v.  The FIRST start-like operation is Run: it sets isRunning and calls the
    plugins in registration order; the first plugin that returns an error makes Run return (RunHandlers is
    not called: no handler is started by it) — isRunning stays true, so every later start-like operation
    is a RunHandlers and plugins are never called again.  Executable; no proofs. *)
From WM Require Import Base.Prelude Message.Model Handler.RouterHandle Router.Wiring.

Record pstate := PS { core : rstate; plugins : list (N * bool) (* id, returns an error *); isrun : bool }.
Definition pinit : pstate := PS rinit [] false.

Inductive pop :=
| PAddPlugin (id : N) (fails : bool)
| PView                                  (* Router.Handlers() *)
| PCore (o : op).

Inductive pobs :=
| PDel (o : list (N * list ev))          (* the copies of one delivery *)
| PPlug (ids : list N) (ok : bool)       (* Run called these plugins, in this order; ok = none returned an error *)
| PNames (ns : list N).                  (* the handler names Handlers() reports (a map: compared as a set) *)

Definition is_startlike (o : op) : bool := match o with OStart | OStartAsync => true | _ => false end.

(** the plugin loop of Run: for _, plugin := range r.plugins { if err := plugin(r); err != nil { return } } *)
Fixpoint upto_fail (ps : list (N * bool)) : list N * bool :=
  match ps with
  | [] => ([], false)
  | (id, f) :: r => if f then ([id], true) else let '(c, b) := upto_fail r in (id :: c, b)
  end.

Definition pstep (ps : pstate) (po : pop) : pstate * list pobs :=
  match po with
  | PAddPlugin id f => (PS (core ps) (plugins ps ++ [(id, f)]) (isrun ps), [])
  | PView => (ps, [PNames (map (fun hs => h_name (hs_cfg hs)) (handlers (core ps)))])
  | PCore o =>
      if is_startlike o && negb (isrun ps) then
        (* Run *)
        let '(called, failed) := upto_fail (plugins ps) in
        if failed then (PS (core ps) (plugins ps) true, [PPlug called false])
        else (PS (step (core ps) o) (plugins ps) true, [PPlug called true])
      else
        match o with
        | ODeliver d => (ps, [PDel (deliver (core ps) d)])
        | _ => (PS (step (core ps) o) (plugins ps) (isrun ps), [])
        end
  end.

Fixpoint prun (ps : pstate) (pops : list pop) : list pobs :=
  match pops with
  | [] => []
  | po :: r => let '(ps', obs) := pstep ps po in obs ++ prun ps' r
  end.
Definition pexec (ps : pstate) (pops : list pop) : pstate := fold_left (fun s po => fst (pstep s po)) pops ps.

(** ** the declarative reading *)
Definition core_ops (pops : list pop) : list op :=
  flat_map (fun po => match po with PCore o => [o] | _ => [] end) pops.
(** the Wiring program a Router program amounts to: all its Wiring operations, except that the first
    start-like one (Run) is dropped when a plugin registered before it returns an error *)
Fixpoint eff (P : list (N * bool)) (pops : list pop) : list op :=
  match pops with
  | [] => []
  | PAddPlugin id f :: r => eff (P ++ [(id, f)]) r
  | PView :: r => eff P r
  | PCore o :: r =>
      if is_startlike o then (if snd (upto_fail P) then core_ops r else o :: core_ops r)
      else o :: eff P r
  end.
Definition effective_ops (pops : list pop) : list op := eff [] pops.

(** what Run calls: the plugins registered before the first start-like operation, in order, up to and
    including the first that fails; later start-like operations call none *)
Fixpoint spec_plug (P : list (N * bool)) (pops : list pop) : list pobs :=
  match pops with
  | [] => []
  | PAddPlugin id f :: r => spec_plug (P ++ [(id, f)]) r
  | PView :: r => spec_plug P r
  | PCore o :: r => if is_startlike o then [PPlug (fst (upto_fail P)) (negb (snd (upto_fail P)))] else spec_plug P r
  end.

Definition plug_obs (l : list pobs) : list pobs :=
  filter (fun o => match o with PPlug _ _ => true | _ => false end) l.
Definition del_obs (l : list pobs) : list (list (N * list ev)) :=
  flat_map (fun o => match o with PDel x => [x] | _ => [] end) l.
Definition name_obs (l : list pobs) : list (list N) :=
  flat_map (fun o => match o with PNames x => [x] | _ => [] end) l.

(** Handlers() declaratively: after the prefix before the call, the names the registration machine holds *)
Fixpoint spec_views (pre : list pop) (pops : list pop) : list (list N) :=
  match pops with
  | [] => []
  | PView :: r => map (fun hs => h_name (hs_cfg hs)) (handlers (exec rinit (effective_ops pre))) :: spec_views (pre ++ [PView]) r
  | po :: r => spec_views (pre ++ [po]) r
  end.
