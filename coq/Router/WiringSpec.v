(** The properties C08 / C09 as DECLARATIVE, executable functions of a registration program
    (no state machine, no wrapping loops: filters, maps and list reversal only), and the acceptors
    that judge implementation observations with them.  No proofs in this file; Router/WiringProofs.v
    proves that the code-shaped model of Router/Wiring.v satisfies them for ALL programs. *)
From WM Require Import Base.Prelude Message.Model Handler.RouterHandle Router.Wiring.

(** ** what a program registered, read off the operation list *)
Definition regs_of (ops : list op) : list mwreg :=
  flat_map (fun o => match o with
                     | OAddMw id a => [MR true 0 id a]
                     | OAddHMw n id a => [MR false n id a]
                     | _ => [] end) ops.
Definition pdecs_of (ops : list op) : list N :=
  flat_map (fun o => match o with OAddPubDec d _ => [d] | _ => [] end) ops.
Definition sdecs_of (ops : list op) : list N :=
  flat_map (fun o => match o with OAddSubDec d _ => [d] | _ => [] end) ops.

Definition is_add (n : N) (o : op) : bool :=
  match o with OAddHandler h => N.eqb (h_name h) n | _ => false end.
Definition is_start (o : op) : bool := match o with OStart => true | _ => false end.

(** the wiring of handler [n]: that of the FIRST AddHandler call with this name (later ones panic) *)
Definition spec_cfg (n : N) (ops : list op) : option hcfg :=
  match find (is_add n) ops with Some (OAddHandler h) => Some h | _ => None end.

(** the operations that precede the first Run/RunHandlers that follows the AddHandler of [n] *)
Fixpoint scan (n : N) (added : bool) (ops : list op) : option (list op) :=
  match ops with
  | [] => None
  | o :: r => if is_start o && added then Some []
              else option_map (cons o) (scan n (added || is_add n o) r)
  end.
(** ... and what the handler froze at that moment: everything registered before it, nothing after *)
Definition spec_started (n : N) (ops : list op) : option started :=
  match scan n false ops with
  | Some pre => Some (ST (regs_of pre) (pdecs_of pre) (sdecs_of pre))
  | None => None
  end.

(** ** the trace the property prescribes for one copy in handler h *)
Definition app_of (r : mwreg) : list M := match r_app r with Some x => [x] | None => [] end.
Definition add_apps (apps : list M) (o : outcome M) : outcome M :=
  match o with Ret outs => Ret (outs ++ apps) | _ => o end.
Definition exits (ids : list N) (o : outcome M) : list ev :=
  match o with Panic => [] | _ => map EExit (rev ids) end.
Definition accepts (pb : pubbeh) : bool := match pb with PubAccept => true | _ => false end.

(** the middlewares of handler [n]: router-level ones and its own, in registration order *)
Definition effective (n : N) (chain : list mwreg) : list mwreg := filter (applies n) chain.

(** what the whole chain hands to the Router: the function's result, plus what the handler's OWN
    effective middlewares appended (innermost first) *)
Definition chain_outcome (h : hcfg) (s : started) (d : delivery) : outcome M :=
  add_apps (flat_map app_of (rev (effective (h_name h) (s_chain s)))) (fn_outcome h (d_out d)).

Definition spec_trace (h : hcfg) (s : started) (d : delivery) : list ev :=
  let cin := overlay (d_ctx d) h in
  let ids := map r_id (effective (h_name h) (s_chain s)) in
  let o := chain_outcome h s d in
  map (fun x => ESubDec x cin) (s_subdecs s)
  ++ (map EEnter ids ++ [EFn (h_fn h) cin] ++ exits ids o)
  ++ match o with
     | Ret [] => [ESettle true]
     | Ret outs =>
         let t := h_pubtopic h in
         map (fun x => EPubDec x t outs) (s_pubdecs s)
         ++ match h_pub h with
            | PReal id _ => [EPublish id t (map (fun m => (m, out_ctx h cin m, own_ctx d m)) outs); ESettle (accepts (d_pb d))]
            | _ => [ESettle false]
            end
     | _ => [ESettle false]
     end.

(** the trace prescribed for handler [n] when [d] is delivered after [ops]; None = must not receive it *)
Definition expected_for (ops : list op) (d : delivery) (n : N) : option (list ev) :=
  match spec_cfg n ops, spec_started n ops with
  | Some h, Some s =>
      if N.eqb (h_sub h) (d_sub d) && N.eqb (h_subtopic h) (d_topic d) then Some (spec_trace h s d) else None
  | _, _ => None
  end.

Definition added_names (ops : list op) : list N :=
  flat_map (fun o => match o with OAddHandler h => [h_name h] | _ => [] end) ops.
Definition count_name (n : N) (obs : list (N * list ev)) : nat :=
  length (filter (fun p => N.eqb (fst p) n) obs).

(** generic acceptor of one delivery's observations [(handler name, trace)]: [same impl spec] compares
    the projection of the traces the property is about *)
Definition obs_ok (same : list ev -> list ev -> bool) (ops : list op) (d : delivery)
           (obs : list (N * list ev)) : bool :=
  forallb (fun p => match expected_for ops d (fst p) with
                    | Some tr => same (snd p) tr
                    | None => false end) obs
  && forallb (fun n => Nat.eqb (count_name n obs)
                               (match expected_for ops d n with Some _ => 1 | None => 0 end))
             (added_names ops).

(** a whole program: the k-th ODeliver is judged against the operations before it *)
Fixpoint prog_ok (same : list ev -> list ev -> bool) (pre ops : list op)
         (obss : list (list (N * list ev))) : bool :=
  match ops with
  | [] => match obss with [] => true | _ => false end
  | ODeliver d :: r =>
      match obss with
      | obs :: obss' => obs_ok same pre d obs && prog_ok same (pre ++ [ODeliver d]) r obss'
      | [] => false
      end
  | o :: r => prog_ok same (pre ++ [o]) r obss
  end.

(** ** programs with Handler.Stop / re-added names / decorators whose constructors fail
    The wiring the Router holds is then the state of the registration machine [exec] (its laws are
    theorems: registrations are never removed, a started handler is frozen until it is stopped, a
    failing RunHandlers starts nobody, ...); the prescribed TRACE of a copy stays the declarative
    [spec_trace].  For programs without those operations ([plain]) the state is the declarative
    reading above (theorem [exec_inv]). *)
Definition plain_op (o : op) : bool :=
  match o with
  | OStop _ | OStartAsync | OSnap _ => false
  | OAddPubDec _ (S _) | OAddSubDec _ (S _) => false
  | _ => true
  end.
Definition plain (ops : list op) : bool := forallb plain_op ops.

Definition expected_st (st : rstate) (d : delivery) (n : N) : option (list ev) :=
  match find_handler n st with
  | Some (HS h (Some s)) =>
      if N.eqb (h_sub h) (d_sub d) && N.eqb (h_subtopic h) (d_topic d) then Some (spec_trace h s d) else None
  | _ => None
  end.
Definition obs_ok_st (same : list ev -> list ev -> bool) (st : rstate) (d : delivery)
           (obs : list (N * list ev)) : bool :=
  forallb (fun p => match expected_st st d (fst p) with
                    | Some tr => same (snd p) tr
                    | None => false end) obs
  && forallb (fun n => Nat.eqb (count_name n obs)
                               (match expected_st st d n with Some _ => 1 | None => 0 end))
             (map (fun hs => h_name (hs_cfg hs)) (handlers st)).
Fixpoint prog_ok_st (same : list ev -> list ev -> bool) (st : rstate) (ops : list op)
         (obss : list (list (N * list ev))) : bool :=
  match ops with
  | [] => match obss with [] => true | _ => false end
  | ODeliver d :: r =>
      match obss with
      | obs :: obss' => obs_ok_st same st d obs && prog_ok_st same st r obss'
      | [] => false
      end
  | o :: r => prog_ok_st same (step st o) r obss
  end.

(** ** equality of events *)
Definition ctx_eqb (a b : ctxv) : bool :=
  N.eqb (c_handler a) (c_handler b) && N.eqb (c_pubname a) (c_pubname b) && N.eqb (c_subname a) (c_subname b)
  && N.eqb (c_subtopic a) (c_subtopic b) && N.eqb (c_pubtopic a) (c_pubtopic b).
Definition uctx_eqb (a b : uctx) : bool := N.eqb (fst a) (fst b) && Bool.eqb (snd a) (snd b).
Definition omsg_eqb (a b : omsg) : bool :=
  N.eqb (fst (fst a)) (fst (fst b)) && ctx_eqb (snd (fst a)) (snd (fst b)) && uctx_eqb (snd a) (snd b).
Definition ev_eqb (a b : ev) : bool :=
  match a, b with
  | ESubDec d1 c1, ESubDec d2 c2 => N.eqb d1 d2 && ctx_eqb c1 c2
  | EEnter w1, EEnter w2 => N.eqb w1 w2
  | EExit w1, EExit w2 => N.eqb w1 w2
  | EFn f1 c1, EFn f2 c2 => N.eqb f1 f2 && ctx_eqb c1 c2
  | EPubDec d1 t1 o1, EPubDec d2 t2 o2 => N.eqb d1 d2 && N.eqb t1 t2 && list_eqb N.eqb o1 o2
  | EPublish p1 t1 o1, EPublish p2 t2 o2 => N.eqb p1 p2 && N.eqb t1 t2 && list_eqb omsg_eqb o1 o2
  | ESettle a1, ESettle a2 => Bool.eqb a1 a2
  | _, _ => false
  end.

(** ** C08: which function ran with which context values, every Publish call with all its arguments
    (publisher object, topic, messages with their context values), the settlement *)
Definition c08_keep (e : ev) : bool :=
  match e with EFn _ _ | EPublish _ _ _ | ESettle _ => true | _ => false end.
Definition c08_same (impl spec : list ev) : bool :=
  list_eqb ev_eqb (filter c08_keep impl) (filter c08_keep spec).
Definition c08_monitor := prog_ok c08_same [].            (* plain programs: judged by the declarative reading *)
Definition c08_monitor_st := prog_ok_st c08_same rinit.   (* all programs *)

(** ** C09: the ORDER in which subscriber decorators (with the context values they see: they come after the
    Router's context decorator), middlewares (entry and exit), the handler
    function, publisher decorators and the publisher act on one message *)
Inductive oev := OSub (d : N) (seen : ctxv) | OEnter (w : N) | OExit (w : N) | OFn | OPubDec (d : N) | OPub.
Definition c09_proj (tr : list ev) : list oev :=
  flat_map (fun e => match e with
                     | ESubDec d c => [OSub d c] | EEnter w => [OEnter w] | EExit w => [OExit w]
                     | EFn _ _ => [OFn] | EPubDec d _ _ => [OPubDec d] | EPublish _ _ _ => [OPub]
                     | ESettle _ => [] end) tr.
Definition oev_eqb (a b : oev) : bool :=
  match a, b with
  | OSub x c, OSub y c' => N.eqb x y && ctx_eqb c c'
  | OEnter x, OEnter y | OExit x, OExit y | OPubDec x, OPubDec y => N.eqb x y
  | OFn, OFn | OPub, OPub => true
  | _, _ => false
  end.
Definition c09_same (impl spec : list ev) : bool := list_eqb oev_eqb (c09_proj impl) (c09_proj spec).
Definition c09_monitor := prog_ok c09_same [].
Definition c09_monitor_st := prog_ok_st c09_same rinit.

(** projections used by the theorem statements *)
Definition fn_calls (tr : list ev) : list (N * ctxv) :=
  flat_map (fun e => match e with EFn f c => [(f, c)] | _ => [] end) tr.
Definition publish_calls (tr : list ev) : list (N * N * list omsg) :=
  flat_map (fun e => match e with EPublish p t o => [(p, t, o)] | _ => [] end) tr.
Definition settles (tr : list ev) : list bool :=
  flat_map (fun e => match e with ESettle b => [b] | _ => [] end) tr.
Definition mw_marks (tr : list ev) : list ev :=
  filter (fun e => match e with EEnter _ | EExit _ | EFn _ _ => true | _ => false end) tr.
