(** Generation-aware declarative reading: programs with Handler.Stop and names added again (no failing
    decorator constructors, no asynchronous starts).  Per handler NAME, one left-to-right scan of the
    program, independent of all other handlers: the AddHandler of the current generation, and the prefix of
    the program before the first Run/RunHandlers that follows it. *)
From WM Require Import Base.Prelude Message.Model Handler.RouterHandle Router.Wiring Router.WiringSpec Router.WiringProofs.

Definition gstate := (option hcfg * option (list op) * list op)%type.   (* current cfg, start prefix, ops so far *)
Definition gstep (n : N) (g : gstate) (o : op) : gstate :=
  let '(cur, st, pre) := g in
  let pre' := pre ++ [o] in
  match o with
  | OAddHandler h =>
      if N.eqb (h_name h) n then match cur with None => (Some h, None, pre') | Some _ => (cur, st, pre') end
      else (cur, st, pre')
  | OStart =>
      match cur, st with
      | Some _, None => (cur, Some pre, pre')            (* started by THIS Run/RunHandlers: it froze [pre] *)
      | _, _ => (cur, st, pre')
      end
  | OStop m =>
      if N.eqb m n then match st with Some _ => (None, None, pre') | None => (cur, st, pre') end   (* the name is free again *)
      else (cur, st, pre')
  | _ => (cur, st, pre')
  end.
Definition gscan (n : N) (ops : list op) : gstate := fold_left (gstep n) ops (None, None, []).
Definition mkST (pre : list op) : started := ST (regs_of pre) (pdecs_of pre) (sdecs_of pre).
Definition gspec (n : N) (ops : list op) : option hstate :=
  match gscan n ops with
  | (Some h, s, _) => Some (HS h (option_map mkST s))
  | (None, _, _) => None
  end.

(** programs this reading covers *)
Definition splain_op (o : op) : bool :=
  match o with
  | OStartAsync | OSnap _ => false
  | OAddPubDec _ (S _) | OAddSubDec _ (S _) => false
  | _ => true
  end.
Definition splain (ops : list op) : bool := forallb splain_op ops.

Lemma gscan_snoc n ops o : gscan n (ops ++ [o]) = gstep n (gscan n ops) o.
Proof. unfold gscan. now rewrite fold_left_app. Qed.
Lemma gscan_pre n ops : snd (gscan n ops) = ops.
Proof.
  induction ops as [|o ops IH] using rev_ind; [reflexivity|]. rewrite gscan_snoc.
  destruct (gscan n ops) as [[cur st] pre]. simpl in IH. subst pre. unfold gstep.
  destruct o; try reflexivity.
  - destruct (N.eqb (h_name h) n); [destruct cur|]; reflexivity.
  - destruct cur, st; reflexivity.
  - destruct (N.eqb name n); [destruct st|]; reflexivity.
Qed.

Record sinv (ops : list op) (st : rstate) : Prop := {
  si_find : forall n, find_handler n st = gspec n ops;
  si_pf : pfails st = [];
  si_pend : pending st = [] }.

Lemma find_filter_self n l : find (name_is n) (filter (fun hs => negb (name_is n hs)) l) = None.
Proof.
  induction l as [|a l IH]; simpl; [reflexivity|]. destruct (name_is n a) eqn:E; simpl; [assumption|]. now rewrite E.
Qed.

Ltac fin := simpl; try assumption; try discriminate.

Lemma sinv_step ops st o : splain_op o = true -> st = exec rinit ops -> sinv ops st -> sinv (ops ++ [o]) (step st o).
Proof.
  intros Hp Est [Hf Hpf Hpend].
  destruct (pinv_all ops) as [_ _ Hm Hpd Hsd Hr]. rewrite <- Est in Hm, Hpd, Hsd, Hr.
  assert (Hwait : forall x, waiting st x = unstarted x).
  { intros x. unfold waiting, is_pending, pending_of. rewrite Hpend. simpl. apply andb_true_r. }
  assert (Hg : forall n, gspec n (ops ++ [o]) =
                match gstep n (gscan n ops) o with (Some h, s, _) => Some (HS h (option_map mkST s)) | (None, _, _) => None end).
  { intros n. unfold gspec. now rewrite gscan_snoc. }
  assert (Hpre : forall n, snd (gscan n ops) = ops) by (intros; apply gscan_pre).
  split.
  2:{ destruct o as [h|id app|hn id app|dd ff|dd ff| | |pn|sn|dl]; simpl;
      [ destruct (find_handler (h_name h) st); fin | fin | fin | destruct ff; fin | destruct ff; fin
      | rewrite !first_failing_none by assumption; destruct (first_unstarted st); fin | fin | fin
      | destruct (find_handler sn st) as [[c [s|]]|]; fin | fin ]. }
  2:{ destruct o as [h|id app|hn id app|dd ff|dd ff| | |pn|sn|dl]; simpl;
      [ destruct (find_handler (h_name h) st); fin | fin | fin | fin | fin
      | rewrite !first_failing_none by assumption; destruct (first_unstarted st); fin | fin | fin
      | destruct (find_handler sn st) as [[c [s|]]|]; fin | fin ]. }
  intros n. rewrite Hg. specialize (Hf n) as Hn. unfold gspec in Hn. specialize (Hpre n).
  destruct (gscan n ops) as [[cur s] pre]. simpl in Hpre. subst pre.
  destruct o as [h|id app|hn id app|dd ff|dd ff| | |pn|sn|dl]; try discriminate; simpl;
    try (destruct cur; exact Hn).
  - (* AddHandler *)
    destruct (find_handler (h_name h) st) eqn:F.
    + destruct (N.eqb (h_name h) n) eqn:E; [|destruct cur; exact Hn].
      apply N.eqb_eq in E. subst n. destruct cur; [exact Hn|]. rewrite Hn in F. discriminate.
    + unfold find_handler. simpl. rewrite find_snoc. fold (find_handler n st). rewrite Hn.
      unfold name_is. simpl. destruct (N.eqb (h_name h) n) eqn:E.
      * apply N.eqb_eq in E. subst n. destruct cur; [rewrite Hn in F; discriminate|reflexivity].
      * now destruct cur.
  - (* Start *)
    rewrite !first_failing_none by assumption.
    destruct (first_unstarted st) as [hs0|] eqn:Fu.
    + unfold find_handler. simpl. rewrite find_map_inv.
      2:{ intros x. unfold name_is, start_one. now destruct (waiting st x). }
      fold (find_handler n st). rewrite Hn. destruct cur as [h|]; [|reflexivity]. simpl.
      unfold start_one. rewrite Hwait. unfold unstarted. simpl. destruct s; [reflexivity|]. simpl.
      unfold mkST, residue_of. rewrite Hr. simpl. now rewrite app_nil_r, Hm, Hpd, Hsd.
    + rewrite Hn. destruct cur as [h|]; [|reflexivity]. destruct s; [reflexivity|]. exfalso.
      unfold find_handler in Hn. simpl in Hn. apply find_some in Hn as [Hin _].
      unfold first_unstarted in Fu. apply (find_none _ _ Fu) in Hin. rewrite Hwait in Hin. discriminate.
  - (* Stop *)
    destruct (N.eqb sn n) eqn:E.
    + apply N.eqb_eq in E. subst sn. rewrite Hn. destruct cur as [h|].
      * destruct s; simpl.
        -- unfold find_handler. simpl. apply find_filter_self.
        -- exact Hn.
      * destruct s; simpl; exact Hn.
    + destruct (find_handler sn st) as [[c [s'|]]|] eqn:Fs; try (destruct cur; exact Hn).
      unfold find_handler. simpl. rewrite find_filter_other.
      * fold (find_handler n st). destruct cur; exact Hn.
      * intros x Hx. unfold name_is in *. apply N.eqb_eq in Hx. apply negb_true_iff, N.eqb_neq.
        apply N.eqb_neq in E. congruence.
Qed.

Theorem gspec_all ops : splain ops = true -> sinv ops (exec rinit ops).
Proof.
  induction ops as [|o ops IH] using rev_ind; intros Hp.
  - split; try reflexivity.
  - unfold splain in Hp. rewrite forallb_app in Hp. apply andb_true_iff in Hp as [H1 H2].
    simpl in H2. rewrite andb_true_r in H2. rewrite exec_snoc. apply sinv_step; [assumption|reflexivity|now apply IH].
Qed.

(** exported: for every program with Stop / re-added names (no failing constructor, no asynchronous
    start), what the Router holds under a name is the generation-aware scan of the program *)
Theorem wiring_is_generation_scan ops n : splain ops = true -> find_handler n (exec rinit ops) = gspec n ops.
Proof. intros Hp. now destruct (gspec_all ops Hp) as [Hf _ _]. Qed.
