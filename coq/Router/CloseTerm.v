(** Termination of the close protocol in the closed system: a natural-number measure over all
    threads (Close calls, RunHandlers calls, the two waiters, Run, per handler: subscription,
    pump, handleClose, loop; per message) that EVERY system label strictly decreases.  Hence every
    run of system labels is finite (bounded by the measure), and a maximal one ends with every
    Close call returned, or waiting legitimately (CloseStuck.v) - where the timeout is enabled.
    No fairness assumption, no axioms. *)
From WM Require Import Base.Prelude Base.CountClose Router.Close Router.CloseProofs Router.CloseTheorems Router.CloseStuck.
From RecordUpdate Require Import RecordUpdate.

Section Sum.
  Context {A : Type}.
  Variable g : A -> nat.
  Fixpoint sumf (f : nat -> A) (n : nat) : nat :=
    match n with O => O | S n' => g (f n') + sumf f n' end.
  Lemma sumf_upd_out f n k v : n <= k -> sumf (upd f k v) n = sumf f n.
  Proof.
    induction n as [|n IH]; intros Hk; simpl; [reflexivity|].
    rewrite upd_other by lia. rewrite IH by lia. reflexivity.
  Qed.
  Lemma sumf_upd_in f n k v : k < n -> sumf (upd f k v) n + g (f k) = sumf f n + g v.
  Proof.
    induction n as [|n IH]; intros Hk; [lia|]. simpl.
    destruct (Nat.eq_dec k n) as [->|Hne].
    - rewrite upd_same. rewrite sumf_upd_out by lia. lia.
    - rewrite upd_other by lia. assert (k < n) as Hlt by lia. specialize (IH Hlt). lia.
  Qed.
  Lemma sumf_S_new f n v : sumf (upd f n v) (S n) = g v + sumf f n.
  Proof. simpl. rewrite upd_same. rewrite sumf_upd_out by lia. reflexivity. Qed.
End Sum.

Definition rhrank (p : rhpc) : nat :=
  match p with RHNone => 5 | RHWant => 4 | RHLocked => 3 | RHCWant => 2 | RHChecked => 1 | RHDone => 0 end.
Definition w1rank (p : w1pc) : nat := match p with W1None => 2 | W1Wait => 1 | W1Done => 0 end.
Definition w2rank (p : w2pc) : nat :=
  match p with W2None => 5 | W2Pre => 4 | W2Want => 3 | W2Locked => 2 | W2Unlock => 1 | W2Done => 0 end.
Definition runrank (p : rpc) : nat := match p with RWaitClosing => 3 | RCancel => 2 | RWaitClosed => 1 | RDone => 0 end.
Definition prank (p : ppc) : nat := match p with PSend _ => 3 | PRecv => 2 | PWgDone => 1 | _ => 0 end.
Definition hcrank (p : hcpc) : nat :=
  match p with HCNone => 0 | HCSelect => 8 | HCCheck => 7 | HCSubClose => 6 | HCInSubClose => 5 | HCDecSignal => 4
             | HCWaitPump => 3 | HCStop => 2 | HCDone => 1 end.
Definition lrank (p : lpc) : nat :=
  match p with LNone => 0 | LRecv => 5 | LGot _ => 4 | LLocked _ => 3 | LPubClose => 2 | LWgDone => 1 | LEnd => 0 end.
Definition mrank (p : mpc) : nat :=
  match p with MNone => 0 | MPump _ => 13 | MLoop _ => 12 | MSpawned => 8 | MRunning => 7 | MPublishing => 6
             | MSettling => 5 | MSettled => 4 | MDone => 0 | MDropped => 0 end.
Definition brank (b : bool) : nat := if b then 1 else 0.

(** [K] bounds the identifiers of the Close and RunHandlers calls made so far *)
Definition mu (K : nat) (s : state) : nat :=
  sumf crank (cp s) K + sumf rhrank (rp s) K + w1rank (w1 s) + w2rank (w2 s) + runrank (run s) +
  sumf brank (sub_open s) (nh s) + sumf prank (pp s) (nh s) + sumf hcrank (hc s) (nh s) + sumf lrank (lp s) (nh s) +
  sumf mrank (mp s) (nextm s).

Definition bounded (K : nat) (s : state) : Prop :=
  forall i, K <= i -> cp s i = CNone /\ rp s i = RHNone.

(** handler-indexed threads exist only below [nh] *)
Definition hbounded (s : state) : Prop :=
  forall h, nh s <= h -> hc s h = HCNone /\ sub_open s h = false.
Lemma hbounded_init_u n u hon f5 f6 f12 f16 : hbounded (init_u n u hon f5 f6 f12 f16).
Proof. intros h Hh. simpl in *. destruct (Nat.ltb_spec h n); [lia|]. auto. Qed.
Lemma hbounded_step s l s' : hbounded s -> step s l = Some s' -> hbounded s'.
Proof.
  intros B H. unfold hbounded in *. destruct l; step_cases H; simpl; intros h0 Hh; try (apply B; assumption).
  all: upd_all; try (apply B; assumption).
  all: destruct (B _ Hh) as [B1 B2]; try congruence; try (split; congruence).
Qed.

Ltac solve_lt HB HH Ahb1 Amb :=
  match goal with
  | |- ?k < ?n =>
      let Hlt := fresh in let Hge := fresh in
      destruct (Nat.lt_ge_cases k n) as [Hlt|Hge];
      [exact Hlt | exfalso;
       first [ destruct (HB k Hge); congruence | destruct (HH k Hge); congruence
             | destruct (Ahb1 k Hge); congruence | pose proof (Amb k Hge); congruence ] ]
  end.

Ltac pose_sums HB HH Ahb1 Amb :=
  repeat match goal with
  | |- context [sumf ?g (upd ?F ?k ?v) ?n] =>
      let H := fresh "Hs" in
      assert (H : sumf g (upd F k v) n + g (F k) = sumf g F n + g v) by (apply sumf_upd_in; solve_lt HB HH Ahb1 Amb);
      generalize dependent (sumf g (upd F k v) n); intros
  end.

Lemma mu_decreases K s l s' :
  Inv s -> hbounded s -> bounded K s -> sys_label l = true -> step s l = Some s' -> mu K s' < mu K s.
Proof.
  intros I HH HB Hsys H.
  pose proof (a_base s (i_a s I)) as IA. pose proof (a_pump2 s (i_a s I)) as Apump2.
  pose proof (a_hb1 s IA) as Ahb1. pose proof (a_mb s IA) as Amb.
  unfold mu.
  destruct l; simpl in Hsys; try discriminate; step_cases H; simpl.
  all: try match goal with Hp : pp _ ?h = PSend ?m |- _ => pose proof (Apump2 h m Hp) as Hmp end.
  all: try match goal with Hl : lp _ ?h = LLocked ?m |- _ =>
         assert (Hmp : mp s m = MLoop h) by (apply (a_loop2 s IA); rewrite Hl; simpl; apply Nat.eqb_refl) end.
  all: try match goal with Hb : andb _ _ = true |- _ => apply andb_true_iff in Hb; destruct Hb end.
  all: try match goal with Hc : cp _ ?c = CSignal |- _ =>
         destruct (c_sig s (i_c s I) c Hc) as [_ Hncl]; destruct (c_closing0 s (i_c s I) Hncl) as (_ & _ & Hw1 & Hw2) end.
  all: pose_sums HB HH Ahb1 Amb.
  all: rew_pcs; simpl in *; lia.
Qed.

(** ** the bound [K] exists: the identifiers used by the schedule so far *)
Definition label_id (l : label) : nat :=
  match l with LCall c => S c | LRhCall r => S r | _ => 0 end.
Definition ids_bound (ls : list label) : nat := fold_right (fun l acc => Nat.max (label_id l) acc) 0 ls.

Lemma bounded_step K s l s' : bounded K s -> label_id l <= K -> step s l = Some s' -> bounded K s'.
Proof.
  intros B Hid H. unfold bounded in *. destruct l; simpl in Hid; step_cases H; simpl; intros i Hi; try (apply B; assumption).
  all: upd_all; try (apply B; assumption); try lia.
  all: destruct (B _ Hi) as [B1 B2]; congruence.
Qed.
Lemma bounded_mono K K' s : bounded K s -> K <= K' -> bounded K' s.
Proof. intros B Hle i Hi. apply B. lia. Qed.
Lemma bounded_exec K s ls : bounded K s -> ids_bound ls <= K -> bounded K (exec s ls).
Proof.
  revert s. induction ls as [|l ls IH]; intros s B Hb; [assumption|].
  change (Nat.max (label_id l) (ids_bound ls) <= K) in Hb.
  pose proof (Nat.le_max_l (label_id l) (ids_bound ls)) as H1.
  pose proof (Nat.le_max_r (label_id l) (ids_bound ls)) as H2.
  simpl. destruct (step s l) eqn:E; [|apply IH; [assumption|lia]].
  apply IH; [|lia]. apply bounded_step with (s := s) (l := l); [assumption | lia | assumption].
Qed.
Lemma bounded_init_u n u hon f5 f6 f12 f16 : bounded 0 (init_u n u hon f5 f6 f12 f16).
Proof. intros i _. simpl. auto. Qed.
Lemma hbounded_exec s ls : hbounded s -> hbounded (exec s ls).
Proof.
  revert s. induction ls as [|l ls IH]; intros s B; simpl; [assumption|].
  destruct (step s l) eqn:E; [apply IH; eapply hbounded_step; eassumption | apply IH; assumption].
Qed.

(** ** every run of system labels is finite: its length is bounded by the measure *)
Lemma sys_label_id l : sys_label l = true -> label_id l = 0.
Proof. destruct l; simpl; intros H; try reflexivity; discriminate. Qed.

Lemma system_run_bounded K ls : forall s s',
  Inv s -> hbounded s -> bounded K s ->
  Forall (fun l => sys_label l = true) ls -> replay s ls = Some s' ->
  length ls + mu K s' <= mu K s /\ Inv s' /\ hbounded s' /\ bounded K s'.
Proof.
  induction ls as [|l ls IH]; intros s s' I HH HB Hall Hr; simpl in *.
  - inversion Hr; subst. split; [lia|]. split; [assumption|]. split; assumption.
  - inversion Hall as [|? ? Hl Hrest]; subst.
    destruct (step s l) as [s1|] eqn:E; [|discriminate].
    pose proof (mu_decreases K s l s1 I HH HB Hl E) as Hd.
    assert (I1 : Inv s1) by (eapply Inv_step; eassumption).
    assert (HH1 : hbounded s1) by (eapply hbounded_step; eassumption).
    assert (HB1 : bounded K s1) by (eapply bounded_step; [eassumption | rewrite (sys_label_id l Hl); lia | eassumption]).
    destruct (IH s1 s' I1 HH1 HB1 Hrest Hr) as (Hlen & R). split; [lia | exact R].
Qed.

(** ** where a maximal system run ends *)
Definition sys_maximal (s : state) : Prop := forall l, sys_label l = true -> step s l = None.

Lemma holdsH_holds p : holdsH p = true -> holds p = true.
Proof. destruct p; simpl; congruence. Qed.

Ltac enabled_contra2 Hmax l :=
  exfalso; let Hx := fresh "Hx" in
  pose proof (Hmax l eq_refl) as Hx; unfold step in Hx; rew_pcs; simpl in Hx;
  repeat match type of Hx with context [if ?b then _ else _] => destruct b end; try discriminate.

(** a call that holds closedLock and is not waiting for the handlers can move *)
Lemma holder_not_waiting_moves s c :
  InvC s -> rh_plain s -> rh_isclosed s = false -> sys_maximal s ->
  holds (cp s c) = true -> cp s c = CWait.
Proof.
  intros IC P Hf Hmax Hh.
  destruct (cp s c) eqn:E; simpl in Hh; try discriminate; try reflexivity.
  - (* CHWant *)
    destruct (handlersLock s) as [[c'|r]|] eqn:EL.
    + pose proof (c_hl1 s IC c' EL) as H1. pose proof (c_lock2 s IC c' (holdsH_holds _ H1)) as H2.
      assert (H3 : closedLock s = Some c) by (apply (c_lock2 s IC c); rewrite E; reflexivity).
      assert (c' = c) by congruence. subst. rewrite E in H1. discriminate.
    + pose proof (c_hl3 s IC r EL) as Hr. destruct (P Hf r) as [P1 P2].
      destruct (rp s r) eqn:Er; simpl in Hr; try discriminate; try congruence.
      enabled_contra2 Hmax (LRh r).
    + enabled_contra2 Hmax (LClose c).
  - enabled_contra2 Hmax (LClose c).
  - enabled_contra2 Hmax (LClose c).
  - enabled_contra2 Hmax (LClose c).
  - enabled_contra2 Hmax (LClose c).
Qed.

Definition legitimately_held (s : state) : Prop :=
  (exists m, mp s m = MRunning) \/ (exists h, hc s h = HCInSubClose) \/ early_cancel s = true.

Theorem maximal_state s :
  Inv s -> InvS s -> rh_plain s -> rh_isclosed s = false ->
  fix5 s = true -> fix6 s = true -> fix16 s = true ->
  sys_maximal s ->
  forall c,
    cp s c = CNone \/ (exists r, cp s c = CRet r) \/
    (cp s c = CWait /\ legitimately_held s) \/
    (cp s c = CWant /\ exists c', cp s c' = CWait /\ legitimately_held s).
Proof.
  intros I J P Hf F5 F6 F16 Hmax c. pose proof (i_c s I) as IC.
  assert (Hwait : forall c0, cp s c0 = CWait -> legitimately_held s).
  { intros c0 Hc0. apply (stuck_characterisation s c0 I J F5 F6 F16 Hc0 Hmax). }
  destruct (cp s c) eqn:E.
  - left. reflexivity.
  - (* CWant *)
    destruct (closedLock s) as [c'|] eqn:EL; [|enabled_contra2 Hmax (LClose c)].
    pose proof (holder_not_waiting_moves s c' IC P Hf Hmax (c_lock1 s IC c' EL)) as Hw.
    right. right. right. split; [reflexivity|]. exists c'. split; [assumption | apply (Hwait c' Hw)].
  - pose proof (holder_not_waiting_moves s c IC P Hf Hmax) as Hw. rewrite E in Hw. specialize (Hw eq_refl). discriminate.
  - pose proof (holder_not_waiting_moves s c IC P Hf Hmax) as Hw. rewrite E in Hw. specialize (Hw eq_refl). discriminate.
  - pose proof (holder_not_waiting_moves s c IC P Hf Hmax) as Hw. rewrite E in Hw. specialize (Hw eq_refl). discriminate.
  - right. right. left. split; [reflexivity | apply (Hwait c E)].
  - pose proof (holder_not_waiting_moves s c IC P Hf Hmax) as Hw. rewrite E in Hw. specialize (Hw eq_refl). discriminate.
  - pose proof (holder_not_waiting_moves s c IC P Hf Hmax) as Hw. rewrite E in Hw. specialize (Hw eq_refl). discriminate.
  - right. left. exists r. reflexivity.
Qed.

(** ** the termination statement for every reachable state *)
Lemma replay_is_exec s ls s' : replay s ls = Some s' -> s' = exec s ls.
Proof.
  revert s. induction ls as [|l ls IH]; intros s H; simpl in *; [congruence|].
  destruct (step s l) eqn:E; [apply IH; assumption | discriminate].
Qed.

Theorem every_close_returns n u hon f12 sched :
  let s := exec (init_u n u hon true true f12 true) sched in
  let K := ids_bound sched in
  (* every run of system labels from s is finite: at most [mu K s] steps *)
  (forall ls s', Forall (fun l => sys_label l = true) ls -> replay s ls = Some s' -> length ls <= mu K s) /\
  (* and a maximal one ends with every Close call returned, or waiting legitimately *)
  (forall ls s', Forall (fun l => sys_label l = true) ls -> replay s ls = Some s' -> sys_maximal s' ->
     forall c,
       cp s' c = CNone \/ (exists r, cp s' c = CRet r) \/
       (cp s' c = CWait /\ legitimately_held s') \/
       (cp s' c = CWant /\ exists c', cp s' c' = CWait /\ legitimately_held s')).
Proof.
  intros s K.
  assert (I : Inv s) by apply Inv_reach_u.
  assert (HH : hbounded s) by (apply hbounded_exec, hbounded_init_u).
  assert (HB : bounded K s).
  { apply bounded_exec; [|apply le_n]. apply bounded_mono with (K := 0); [apply bounded_init_u | lia]. }
  split.
  - intros ls s' Hall Hr. destruct (system_run_bounded K ls s s' I HH HB Hall Hr) as (Hlen & _). lia.
  - intros ls s' Hall Hr Hmax.
    pose proof (replay_is_exec s ls s' Hr) as Es. unfold s in Es. rewrite <- exec_app in Es.
    set (s0 := init_u n u hon true true f12 true) in *.
    destruct (flags_exec s0 (sched ++ ls)) as (F5 & F6 & _). rewrite <- Es in F5, F6. simpl in F5, F6.
    apply maximal_state; try assumption.
    + rewrite Es. apply Inv_reach_u.
    + rewrite Es. apply InvS_exec; [apply Inv_init_u | apply InvS_init_u].
    + rewrite Es. apply rh_plain_exec, rh_plain_init_u.
    + rewrite Es, rh_isclosed_exec. reflexivity.
    + rewrite Es, fix16_exec. reflexivity.
Qed.
