(** The acceptor accepts the repaired model: every API trace the model (fix5 = fix12 = true)
    produces - for any number of handlers, any subscribers, any schedule - is accepted by
    [mon_run], the executable acceptor the check evaluates on implementation histories.
    Simulation relation [RelM] between model state and acceptor state, preserved by every label
    with no rejection code emitted.  No axioms. *)
From WM Require Import Base.Prelude Base.CountClose Router.Close Router.CloseMonitor Router.CloseProofs Router.CloseTheorems.
From RecordUpdate Require Import RecordUpdate.

Definition st_started (p : mpc) : bool :=
  match p with MRunning | MPublishing | MSettling | MSettled | MDone => true | _ => false end.
Definition st_ended (p : mpc) : bool :=
  match p with MPublishing | MSettling | MSettled | MDone => true | _ => false end.
Definition st_settled (p : mpc) : bool :=
  match p with MSettled | MDone => true | _ => false end.

Record RelM (s : state) (ms : mstate) : Prop := {
  r_started : forall m, mem m (m_started ms) = st_started (mp s m);
  r_ended : forall m, mem m (m_ended ms) = st_ended (mp s m);
  r_settled : forall m, mem m (m_settled ms) = st_settled (mp s m);
  r_pub : forall h, mem h (m_pubclosed ms) = Nat.leb 1 (pub_closes s h);
  r_nil : m_nil ms = true -> close_res s = Some RNil;
  r_dirty : m_rundirty ms = true -> close_res s = Some RErr;
  r_runret : m_runret ms = true -> run s = RDone
}.

Lemma RelM_init_u n u hon f5 f6 f12 f16 : RelM (init_u n u hon f5 f6 f12 f16) minit.
Proof. constructor; simpl; intros; try reflexivity; discriminate. Qed.
Lemma RelM_init n hon f5 f6 f12 : RelM (init n hon f5 f6 f12) minit.
Proof. apply RelM_init_u. Qed.

Lemma mem_cons_upd (f : mpc -> bool) (g : mid -> mpc) l m v :
  (forall x, mem x l = f (g x)) -> f v = true -> forall x, mem x (m :: l) = f (upd g m v x).
Proof.
  intros H Hv x. unfold mem in *. simpl. destruct (Nat.eq_dec x m) as [->|Hne].
  - rewrite Nat.eqb_refl, upd_same. simpl. congruence.
  - rewrite upd_other by assumption. apply Nat.eqb_neq in Hne. rewrite Hne. simpl. apply H.
Qed.
Lemma mem_same_upd (f : mpc -> bool) (g : mid -> mpc) l m v :
  (forall x, mem x l = f (g x)) -> f v = f (g m) -> forall x, mem x l = f (upd g m v x).
Proof.
  intros H Hv x. destruct (Nat.eq_dec x m) as [->|Hne].
  - rewrite upd_same. rewrite H. congruence.
  - rewrite upd_other by assumption. apply H.
Qed.

(** what quiescence means for the acceptor's sets *)
Lemma not_busy_of_quiescent s ms : RelM s ms -> quiescent s -> any_busy ms = false.
Proof.
  intros R [Hq _]. unfold any_busy. apply not_true_is_false. intros Hex.
  apply existsb_exists in Hex. destruct Hex as (m & _ & Hb). unfold busy in Hb.
  rewrite (r_started s ms R), (r_ended s ms R), (r_settled s ms R) in Hb.
  specialize (Hq m). destruct (mp s m); simpl in *; discriminate.
Qed.
Lemma no_unstarted_settled s ms : RelM s ms -> unstarted_settled ms = false.
Proof.
  intros R. unfold unstarted_settled. apply not_true_is_false. intros Hex.
  apply existsb_exists in Hex. destruct Hex as (m & Hin & Hb).
  assert (Hm : mem m (m_settled ms) = true) by (unfold mem; apply existsb_exists; exists m; split; [assumption | apply Nat.eqb_refl]).
  rewrite (r_settled s ms R) in Hm. rewrite (r_started s ms R) in Hb.
  destruct (mp s m); simpl in *; discriminate.
Qed.

Lemma mem_cons_cnt (g : hid -> nat) l h :
  (forall x, mem x l = Nat.leb 1 (g x)) -> forall x, mem x (h :: l) = Nat.leb 1 (upd g h (S (g h)) x).
Proof.
  intros H x. unfold mem in *. simpl. destruct (Nat.eq_dec x h) as [->|Hne].
  - rewrite Nat.eqb_refl, upd_same. reflexivity.
  - rewrite upd_other by assumption. apply Nat.eqb_neq in Hne. rewrite Hne. simpl. apply H.
Qed.

Lemma all_pubs_closed s : Inv s -> quiescent s -> forall h, h < nh s -> 1 <= pub_closes s h.
Proof.
  intros I [_ Hq] h Hlt. pose proof (a_base s (i_a s I)) as IA.
  apply (a_pub s IA h). specialize (Hq h).
  destruct (lp s h) eqn:E; simpl in *; try discriminate; [|reflexivity].
  exfalso. apply (a_hb2 s IA h); assumption.
Qed.

Lemma pubs_closed_b s ms hp : Inv s -> RelM s ms -> quiescent s ->
  forallb (fun h : hid => negb (hp h) || mem h (m_pubclosed ms)) (seq 0 (nh s)) = true.
Proof.
  intros I R Hq. apply forallb_forall. intros h Hin. apply in_seq in Hin. rewrite (r_pub s ms R).
  assert (1 <= pub_closes s h) as Hp by (apply all_pubs_closed; [assumption | assumption | lia]).
  apply Nat.leb_le in Hp. rewrite Hp. apply orb_true_r.
Qed.

Definition accepted_step (nh : nat) (hp : hid -> bool) (s : state) (l : label) (s' : state) (ms : mstate) : Prop :=
  (emit s l = [] /\ RelM s' ms) \/
  (exists e ms', emit s l = [e] /\ mon_step nh hp ms e = (ms', []) /\ RelM s' ms').

Lemma idle_contra s m : quiescent s -> msg_idle (mp s m) = false -> False.
Proof. intros [Hq _] H. rewrite Hq in H. discriminate. Qed.

Lemma res_cases s : Inv s -> fix5 s = true -> closedCh s = true ->
  close_res s = Some RErr \/ (close_res s = Some RNil /\ quiescent s).
Proof.
  intros I F5 Hc. destruct (close_res s) as [[|]|] eqn:E.
  - right. split; [reflexivity|]. apply quiescent_of_nil_result; assumption.
  - left. reflexivity.
  - apply (c_res s (i_c s I)) in E. congruence.
Qed.

Ltac set_clause Rx :=
  first [ apply (mem_cons_upd _ _ _ _ _ Rx); reflexivity
        | apply (mem_same_upd _ _ _ _ _ Rx); rew_pcs; reflexivity
        | apply Rx ].

Ltac relm_same Rs Re Rt Rn Rd Rr :=
  constructor; simpl; intros; first [set_clause Rs | set_clause Re | set_clause Rt | match goal with Hp : context [m_pubclosed] |- mem _ _ = _ => first [apply (mem_cons_cnt _ _ _ Hp) | apply Hp] end | solve [auto] | solve [rew_pcs; auto] | congruence].

Lemma sim_step nh hp s l s' ms :
  Inv s -> fix5 s = true -> fix12 s = true -> nh = Close.nh s -> step s l = Some s' -> RelM s ms -> accepted_step nh hp s l s' ms.
Proof.
  intros I F5 F12 Hnh H R. unfold accepted_step, emit. rewrite H.
  pose proof R as [Rs Re Rt Rp Rn Rd Rr].
  pose proof (i_c s I) as IC. pose proof (a_base s (i_a s I)) as IA. pose proof (a_pump2 s (i_a s I)) as Apump2.
  assert (Hnew : mp s (nextm s) = MNone) by (apply (a_mb s IA); lia).
  assert (Hnilq : m_nil ms = true -> quiescent s) by (intros Hn; apply quiescent_of_nil_result; auto).
  destruct l; step_cases H; simpl.
  (* facts about the message whose program counter moves *)
  all: try match goal with Hp : pp _ ?h = PSend ?m |- _ => pose proof (Apump2 h m Hp) as Hmp end.
  all: try match goal with Hl : lp _ ?h = LLocked ?m |- _ =>
         assert (Hmp : mp s m = MLoop h) by (apply (a_loop2 s IA); rewrite Hl; simpl; apply Nat.eqb_refl) end.
  (* no event *)
  all: try solve [left; split; [reflexivity|]; relm_same Rs Re Rt Rn Rd Rr].
  (* the wait result is decided: no Close has returned nil before, Run has not returned dirty *)
  all: try solve [left; split; [reflexivity|];
         match goal with Hc : cp _ ?c = CWait |- _ => destruct (c_wait s IC c Hc) as (_ & _ & Hnone) end;
         constructor; simpl; intros;
         first [apply Rs | apply Re | apply Rt | apply Rp | solve [auto]
               | match goal with Hx : m_nil _ = true |- _ => rewrite (Rn Hx) in Hnone; discriminate end
               | match goal with Hx : m_rundirty _ = true |- _ => rewrite (Rd Hx) in Hnone; discriminate end ]].
  (* events that touch none of the related parts *)
  all: try solve [right; do 2 eexists; split; [reflexivity|]; split; [reflexivity|]; relm_same Rs Re Rt Rn Rd Rr].
  - (* a Close call returns *)
    right. destruct r.
    + (* nil: only after the wait ended with nil, so everything is at rest *)
      assert (Hres : close_res s = Some RNil).
      { pose proof (c_ret1 s IC c Heqc0) as Hn. unfold nil_ok in Hn. rewrite F12 in Hn.
        destruct (close_res s) as [[|]|]; simpl in Hn; congruence. }
      assert (Hq : quiescent s) by (apply quiescent_of_nil_result; assumption).
      do 2 eexists. split; [reflexivity|]. split.
      * simpl. rewrite (not_busy_of_quiescent s ms R Hq), (no_unstarted_settled s ms R). simpl.
        rewrite (pubs_closed_b s ms hp I R Hq).
        destruct (m_rundirty ms) eqn:Ed; [rewrite (Rd eq_refl) in Hres; discriminate | reflexivity].
      * constructor; simpl; intros; first [apply Rs | apply Re | apply Rt | apply Rp | solve [auto] | discriminate].
    + do 2 eexists. split; [reflexivity|]. split; [reflexivity|].
      constructor; simpl; intros; first [apply Rs | apply Re | apply Rt | apply Rp | solve [auto]].
  - left; split; [reflexivity|]. constructor; simpl; intros; first [apply Rs | apply Re | apply Rt | apply Rp | solve [auto] | discriminate | idtac].
    specialize (Rr H). congruence.
  - left; split; [reflexivity|]. constructor; simpl; intros; first [apply Rs | apply Re | apply Rt | apply Rp | solve [auto] | discriminate | idtac].
    specialize (Rr H). congruence.
  - (* Run returns: closedCh is closed, so the result is decided *)
    right. do 2 eexists. split; [reflexivity|]. split; [reflexivity|].
    constructor; simpl; intros; first [apply Rs | apply Re | apply Rt | apply Rp | solve [auto] | discriminate | idtac].
    destruct (res_cases s I F5 Heqb) as [He|[Hn Hq]]; [assumption|].
    apply orb_true_iff in H. destruct H as [Hd|Hb]; [auto|].
    rewrite (not_busy_of_quiescent s ms R Hq) in Hb. discriminate.
  - (* a publisher's Close() returns *)
    right. do 2 eexists. split; [reflexivity|]. split; [reflexivity|].
    constructor; simpl; intros; first [apply Rs | apply Re | apply Rt | apply (mem_cons_cnt _ _ _ Rp) | solve [auto]].
  - (* a handler starts: no Close has returned nil *)
    right. do 2 eexists. split; [reflexivity|].
    assert (Hnn : m_nil ms = false).
    { destruct (m_nil ms) eqn:En; [|reflexivity]. exfalso. apply (idle_contra s m (Hnilq eq_refl)). rewrite Heqm0. reflexivity. }
    split; [simpl; rewrite Hnn; reflexivity|].
    constructor; simpl; intros; first [set_clause Rs | set_clause Re | set_clause Rt | apply Rp | solve [auto] | discriminate | idtac].
    apply orb_true_iff in H. destruct H as [Hd|Hrr]; [auto|].
    pose proof (c_run2 s IC (Rr Hrr)) as Hcl.
    destruct (res_cases s I F5 Hcl) as [He|[Hn Hq]]; [assumption|].
    exfalso. apply (idle_contra s m Hq). rewrite Heqm0. reflexivity.
  - (* a message is settled: no Close has returned nil *)
    right. do 2 eexists. split; [reflexivity|].
    assert (Hnn : m_nil ms = false).
    { destruct (m_nil ms) eqn:En; [|reflexivity]. exfalso. apply (idle_contra s m (Hnilq eq_refl)). rewrite Heqm0. reflexivity. }
    split; [simpl; rewrite Hnn; reflexivity|].
    constructor; simpl; intros; first [set_clause Rs | set_clause Re | set_clause Rt | apply Rp | solve [auto] | discriminate].
Qed.


Lemma mon_accepts_from nh hp ls : forall s ms i,
  Inv s -> fix5 s = true -> fix12 s = true -> nh = Close.nh s -> RelM s ms -> mon_run_from nh hp ms i (trace s ls) = [].
Proof.
  induction ls as [|l ls IH]; intros s ms i I F5 F12 Hnh R; simpl; [reflexivity|].
  destruct (step s l) as [s0|] eqn:E; [|apply IH; assumption].
  destruct (flags_step s l s0 E) as (G5 & _ & G12 & Gn).
  pose proof (Inv_step s l s0 I E) as I0.
  destruct (sim_step nh hp s l s0 ms I F5 F12 Hnh E R) as [[He R0]|(e & ms' & He & Hm & R0)]; rewrite He; simpl.
  - apply IH; congruence.
  - rewrite Hm. simpl. apply IH; congruence.
Qed.

(** every API trace of the repaired model is accepted - no rejection of any kind *)
Theorem mon_accepts_model hp n hon f6 ls :
  mon_run n hp (trace (init n hon true f6 true) ls) = [].
Proof.
  unfold mon_run. apply mon_accepts_from; [apply Inv_init | reflexivity | reflexivity | reflexivity | apply RelM_init].
Qed.
