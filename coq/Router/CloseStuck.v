(** What can keep Close waiting: in every reachable state of the repaired protocol in which a
    Close call waits and NO system label is enabled (everything but the environment's choices:
    a new Close or RunHandlers call, the user's cancel, an emission, a handler function returning, the
    subscriber's own Close() returning, the clock), a handler function is still running, or a
    handleClose goroutine is blocked inside its subscriber's Close(), or the user had cancelled
    Run's context before Close signalled (the known finding).  No axioms. *)
From WM Require Import Base.Prelude Base.CountClose Router.Close Router.CloseProofs Router.CloseTheorems.
From RecordUpdate Require Import RecordUpdate.

Lemma cnt_pos_ex {A} (P : A -> bool) f n : 0 < cnt P f n -> exists k, k < n /\ P (f k) = true.
Proof.
  induction n as [|n IH]; simpl; intros H; [lia|].
  destruct (P (f n)) eqn:E.
  - exists n. split; [lia | assumption].
  - simpl in H. destruct (IH H) as (k & Hk & Hp). exists k. split; [lia | assumption].
Qed.

Record InvS (s : state) : Prop := {
  s_w1 : closingCh s = true -> w1 s <> W1None;
  s_w2a : fix5 s = true -> w1 s = W1Wait -> w2 s = W2Pre;
  s_w2b : fix5 s = true -> w1 s = W1Done -> w2_started (w2 s) = true;
  s_hb : forall h : hid, h < nh s -> pp s h <> PNone /\ hc s h <> HCNone;
  s_sc : forall h : hid, 1 <= sub_closes s h -> sub_closing s h = true;
  s_un : fix16 s = true -> closed s = true -> unstarted s = 0
}.

Lemma InvS_init_u n u hon f5 f6 f12 f16 : InvS (init_u n u hon f5 f6 f12 f16).
Proof.
  constructor; simpl; intros; try congruence; try lia.
  apply Nat.ltb_lt in H. rewrite H. split; discriminate.
Qed.
Lemma InvS_init n hon f5 f6 f12 : InvS (init n hon f5 f6 f12).
Proof. apply InvS_init_u. Qed.

Lemma InvS_step s l s' : InvC s -> InvS s -> step s l = Some s' -> InvS s'.
Proof.
  intros IC [S1 S2a S2b Shb Ssc Sun] H.
  pose proof (c_sig s IC) as Csig. pose proof (c_closing0 s IC) as Ccl.
  destruct l; step_cases H.
  all: constructor; simpl; intros; try solve [auto]; upd_all; try solve [auto]; fin.
  all: inst_all; fin; fin2; fin3.
Qed.

Lemma InvS_exec s ls : Inv s -> InvS s -> InvS (exec s ls).
Proof.
  revert s. induction ls as [|l ls IH]; intros s I J; simpl; [assumption|].
  destruct (step s l) eqn:E; [|apply IH; assumption].
  apply IH; [eapply Inv_step; eassumption | eapply InvS_step; [apply (i_c s I) | assumption | eassumption]].
Qed.

Lemma fix16_step s l s' : step s l = Some s' -> fix16 s' = fix16 s.
Proof. intros H. destruct l; step_cases H; simpl; auto. Qed.
Lemma fix16_exec s ls : fix16 (exec s ls) = fix16 s.
Proof.
  revert s. induction ls as [|l ls IH]; intros s; simpl; [reflexivity|].
  destruct (step s l) as [s0|] eqn:E; [|apply IH]. rewrite IH. eapply fix16_step; eassumption.
Qed.

(** labels of the system: everything except the environment's choices *)
Definition sys_label (l : label) : bool :=
  match l with
  | LCall _ | LRhCall _ | LEnvCancel | LEmit _ | LSubEnd _ | LFinish _ | LFail _ | LTimeout _ | LSubCloseRet _ => false
  | _ => true
  end.

Ltac enabled_contra Hstuck l :=
  exfalso; let Hx := fresh "Hx" in
  pose proof (Hstuck l eq_refl) as Hx; unfold step, hctx_done in Hx; rew_pcs; simpl in Hx;
  try discriminate.

Theorem stuck_characterisation s c :
  Inv s -> InvS s -> fix5 s = true -> fix6 s = true -> fix16 s = true ->
  cp s c = CWait ->
  (forall l, sys_label l = true -> step s l = None) ->
  (exists m, mp s m = MRunning) \/ (exists h, hc s h = HCInSubClose) \/ early_cancel s = true.
Proof.
  intros I J F5 F6 F16 Hc Hstuck.
  destruct (early_cancel s) eqn:Eearly; [right; right; reflexivity|].
  pose proof (i_c s I) as IC. pose proof (a_base s (i_a s I)) as IA. pose proof (i_h s I) as IH.
  destruct (c_wait s IC c Hc) as (Hclosing & _ & _).
  pose proof (s_w1 s J Hclosing) as Hw1.
  destruct (w1 s) eqn:Ew1; [congruence | | ].
  - (* the loops are still awaited *)
    pose proof (s_w2a s J F5 Ew1) as Ew2.
    destruct (Nat.eq_dec (handlersWg s) 0) as [Hz|Hnz].
    { enabled_contra Hstuck LW1. rewrite Hz in Hx. discriminate. }
    assert (Hcl : closed s = true).
    { destruct (closed s) eqn:Ecl; [reflexivity|]. pose proof (c_closed0 s IC Ecl). congruence. }
    pose proof (s_un s J F16 Hcl) as Hun.
    assert (Hpos : 0 < cnt loop_alive (lp s) (nh s)) by (pose proof (a_hwg s IA); lia).
    destruct (cnt_pos_ex _ _ _ Hpos) as (h & Hh & Halive).
    destruct (s_hb s J h Hh) as [Hpp Hhc].
    destruct (lp s h) eqn:El; simpl in Halive; try discriminate.
    + (* LRecv *)
      destruct (out_closed s h) eqn:Eo; [enabled_contra Hstuck (LLoop h)|].
      destruct (pp s h) eqn:Ep; try congruence.
      * (* PRecv *)
        destruct (sub_open s h) eqn:Eso; [|enabled_contra Hstuck (LPump h)].
        assert (Hscl : 1 <= sub_closes s h -> False).
        { intros Hge. pose proof (s_sc s J h Hge) as Hsc. enabled_contra Hstuck (LChanClose h). }
        destruct (hc s h) eqn:Ehc; try congruence.
        -- enabled_contra Hstuck (LHcClosing h).
        -- enabled_contra Hstuck (LHc h).
        -- enabled_contra Hstuck (LHc h).
        -- right. left. exists h. assumption.
        -- enabled_contra Hstuck (LHc h).
        -- exfalso. apply Hscl. apply (h_4 s IH h Ehc).
        -- enabled_contra Hstuck (LHc h).
        -- exfalso. apply Hscl. apply (h_5 s IH h F6 Eearly). rewrite Ehc. reflexivity.
      * enabled_contra Hstuck (LDeliver h).
      * pose proof (a_out2 s IA h) as Ho. rewrite Ep in Ho. specialize (Ho eq_refl). congruence.
      * pose proof (a_out2 s IA h) as Ho. rewrite Ep in Ho. specialize (Ho eq_refl). congruence.
    + (* LGot m: the lock is free, or its holder can move *)
      destruct (runningLock s) as [[h'|]|] eqn:Elk.
      * pose proof (a_lk1 s IA h' Elk) as Hl. destruct (lp s h') eqn:El'; simpl in Hl; try discriminate.
        enabled_contra Hstuck (LLoop h').
      * pose proof (a_lk3 s IA Elk) as Hl. rewrite Ew2 in Hl. discriminate.
      * enabled_contra Hstuck (LLoop h).
    + enabled_contra Hstuck (LLoop h).
    + enabled_contra Hstuck (LLoop h).
    + enabled_contra Hstuck (LLoop h).
  - (* the loops have ended: the running handlers are awaited *)
    pose proof (s_w2b s J F5 Ew1) as Hst.
    destruct (w2 s) eqn:Ew2; simpl in Hst; try discriminate.
    + (* W2Want *)
      destruct (runningLock s) as [[h'|]|] eqn:Elk.
      * pose proof (a_lk1 s IA h' Elk) as Hl. destruct (lp s h') eqn:El'; simpl in Hl; try discriminate.
        enabled_contra Hstuck (LLoop h').
      * pose proof (a_lk3 s IA Elk) as Hl. rewrite Ew2 in Hl. discriminate.
      * enabled_contra Hstuck LW2.
    + (* W2Locked *)
      destruct (Nat.eq_dec (runningWg s) 0) as [Hz|Hnz].
      { enabled_contra Hstuck LW2. rewrite Hz in Hx. discriminate. }
      assert (Hpos : 0 < cnt in_progress (mp s) (nextm s)) by (rewrite <- (a_rwg s IA); lia).
      destruct (cnt_pos_ex _ _ _ Hpos) as (m & _ & Hprog).
      destruct (mp s m) eqn:Em; simpl in Hprog; try discriminate.
      * enabled_contra Hstuck (LMsg m).
      * left. exists m. assumption.
      * enabled_contra Hstuck (LMsg m).
      * enabled_contra Hstuck (LMsg m).
      * enabled_contra Hstuck (LMsg m).
    + enabled_contra Hstuck LW2.
    + enabled_contra Hstuck (LWaitDone c).
Qed.

Theorem close_waits_only_for n hon f12 sched c :
  let s := exec (init n hon true true f12) sched in
  cp s c = CWait ->
  (forall l, sys_label l = true -> step s l = None) ->
  (exists m, mp s m = MRunning) \/ (exists h, hc s h = HCInSubClose) \/ early_cancel s = true.
Proof.
  intros s Hc Hst.
  destruct (flags_exec (init n hon true true f12) sched) as (F5 & F6 & _). fold s in F5, F6. simpl in F5, F6.
  assert (F16 : fix16 s = true) by (unfold s; rewrite fix16_exec; reflexivity).
  apply stuck_characterisation with (c := c); try assumption.
  - apply Inv_reach.
  - apply InvS_exec; [apply Inv_init | apply InvS_init].
Qed.

(** ** handlers that were added but never started (D16) *)
Lemma Inv_reach_u n u hon f5 f6 f12 f16 ls : Inv (exec (init_u n u hon f5 f6 f12 f16) ls).
Proof. apply Inv_exec, Inv_init_u. Qed.

Theorem close_waits_only_for_u n u hon f12 sched c :
  let s := exec (init_u n u hon true true f12 true) sched in
  cp s c = CWait ->
  (forall l, sys_label l = true -> step s l = None) ->
  (exists m, mp s m = MRunning) \/ (exists h, hc s h = HCInSubClose) \/ early_cancel s = true.
Proof.
  intros s Hc Hst.
  destruct (flags_exec (init_u n u hon true true f12 true) sched) as (F5 & F6 & _). fold s in F5, F6. simpl in F5, F6.
  assert (F16 : fix16 s = true) by (unfold s; rewrite fix16_exec; reflexivity).
  apply stuck_characterisation with (c := c); try assumption.
  - apply Inv_reach_u.
  - apply InvS_exec; [apply Inv_init_u | apply InvS_init_u].
Qed.

Theorem close_nil_implies_quiescent_u n u hon f6 f16 sched c :
  let s := exec (init_u n u hon true f6 true f16) sched in
  cp s c = CRet RNil -> quiescent s.
Proof.
  intros s Hc. pose proof (Inv_reach_u n u hon true f6 true f16 sched) as I. fold s in I.
  destruct (flags_exec (init_u n u hon true f6 true f16) sched) as (F5 & _ & F12 & _). fold s in F5, F12. simpl in F5, F12.
  apply quiescent_of_nil_result; [assumption | assumption |].
  apply returned_nil_result with (c := c); [assumption | assumption | left; assumption].
Qed.
