(** Proofs about Router/Wiring.v against Router/WiringSpec.v (C08, C09). *)
From WM Require Import Base.Prelude Message.Model Message.Proofs Handler.RouterHandle Handler.RouterProofs
  Router.Wiring Router.WiringSpec.

(** * Part 1: the loops of handler.run / decorateHandler* compute the declarative trace *)

(** subscriber decorators: forward loop, for ALL decorator lists *)
Lemma fold_sub_gen decs : forall (s : sfun) c,
  fold_left (fun s d => sdec_sem d s) decs s c =
  (fst (s c) ++ map (fun x => ESubDec x (snd (s c))) decs, snd (s c)).
Proof.
  induction decs as [|d decs IH]; intros s c; simpl.
  - rewrite app_nil_r. now destruct (s c).
  - rewrite IH. unfold sdec_sem. destruct (s c) as [tr c']. simpl.
    now rewrite <- app_assoc.
Qed.

Lemma decorate_sub_spec h decs c :
  decorate_sub h decs c = (map (fun x => ESubDec x (overlay c h)) decs, overlay c h).
Proof. unfold decorate_sub. rewrite fold_sub_gen. reflexivity. Qed.

(** publisher decorators: reverse loop, for ALL decorator lists *)
Lemma decorate_pub_spec decs p t outs :
  decorate_pub decs p t outs =
  (map (fun x => EPubDec x t (map (fun o => fst (fst o)) outs)) decs ++ fst (p t outs), snd (p t outs)).
Proof.
  induction decs as [|d decs IH]; simpl.
  - now destruct (p t outs).
  - unfold pdec_sem at 1. fold (decorate_pub decs p). rewrite IH. reflexivity.
Qed.

(** the wrapping loop, for ALL snapshots: exactly the effective middlewares, earliest outermost *)
Lemma exits_add_apps ids apps o : exits ids (add_apps apps o) = exits ids o.
Proof. now destruct o. Qed.

Lemma build_spec snap n (f : hfun) c :
  let eff := effective n snap in
  build snap n f c =
  (map EEnter (map r_id eff) ++ fst (f c) ++ exits (map r_id eff) (snd (f c)),
   add_apps (flat_map app_of (rev eff)) (snd (f c))).
Proof.
  induction snap as [|r snap IH]; simpl.
  - destruct (f c) as [tf o]. simpl. destruct o; simpl; now rewrite ?app_nil_r.
  - destruct (applies n r) eqn:Ha; [|exact IH].
    simpl in IH. unfold mw_sem. fold (build snap n f). rewrite IH. clear IH.
    set (eff := effective n snap). destruct (f c) as [tf o]. simpl.
    rewrite flat_map_app. simpl. rewrite app_nil_r.
    destruct o as [outs|outs|]; simpl.
    + rewrite map_app. simpl. unfold app_of. now rewrite <- !app_assoc.
    + rewrite map_app. simpl. now rewrite <- !app_assoc.
    + reflexivity.
Qed.

Lemma map_fst_pair {A B C} (g : A -> B) (u : A -> C) l :
  map (fun o => fst (fst o)) (map (fun m => (m, g m, u m)) l) = l.
Proof. induction l; simpl; congruence. Qed.

Theorem dispatch_spec h s d : dispatch h s d = spec_trace h s d.
Proof.
  unfold dispatch, spec_trace. rewrite decorate_sub_spec.
  pose proof (build_spec (s_chain s) (h_name h)
                (fun c => ([EFn (h_fn h) c], fn_outcome h (d_out d))) (overlay (d_ctx d) h)) as Hb.
  simpl in Hb. rewrite Hb. clear Hb. unfold chain_outcome.
  set (eff := effective (h_name h) (s_chain s)).
  set (cin := overlay (d_ctx d) h).
  destruct (add_apps (flat_map app_of (rev eff)) (fn_outcome h (d_out d))) as [outs|outs|] eqn:Ho.
  - rewrite <- (exits_add_apps _ (flat_map app_of (rev eff))), Ho.
    destruct outs as [|x l].
    + simpl. now rewrite <- !app_assoc.
    + unfold publish_outs.
      destruct (h_pub h) as [id ty|?|?] eqn:Hp.
      * rewrite decorate_pub_spec, map_fst_pair. unfold base_pub. rewrite Hp. simpl.
        destruct (d_pb d); simpl; now rewrite <- !app_assoc.
      * rewrite decorate_pub_spec, map_fst_pair. unfold base_pub. rewrite Hp. simpl.
        rewrite app_nil_r. now rewrite <- !app_assoc.
      * rewrite decorate_pub_spec, map_fst_pair. unfold base_pub. rewrite Hp. simpl.
        rewrite app_nil_r. now rewrite <- !app_assoc.
  - rewrite <- (exits_add_apps _ (flat_map app_of (rev eff))), Ho. now rewrite <- !app_assoc.
  - rewrite <- (exits_add_apps _ (flat_map app_of (rev eff))), Ho. now rewrite <- !app_assoc.
Qed.

(** * Part 2: the registration state, for ALL programs *)

Lemma exec_snoc st a o : exec st (a ++ [o]) = step (exec st a) o.
Proof. unfold exec. now rewrite fold_left_app. Qed.

Lemma find_snoc {A} (f : A -> bool) l x :
  find f (l ++ [x]) = match find f l with Some y => Some y | None => if f x then Some x else None end.
Proof. induction l as [|a l IH]; simpl; [reflexivity|]. now destruct (f a). Qed.

Lemma existsb_find {A} (f : A -> bool) l :
  existsb f l = match find f l with Some _ => true | None => false end.
Proof. induction l as [|a l IH]; simpl; [reflexivity|]. now destruct (f a). Qed.

Lemma find_map_inv {A} (f : A -> bool) (g : A -> A) l :
  (forall x, f (g x) = f x) -> find f (map g l) = option_map g (find f l).
Proof. intros H. induction l as [|a l IH]; simpl; [reflexivity|]. rewrite H. now destruct (f a). Qed.

Lemma find_is_add n l x : find (is_add n) l = Some x -> exists h, x = OAddHandler h /\ N.eqb (h_name h) n = true.
Proof. intros F. apply find_some in F as [_ F]. destruct x; simpl in F; try discriminate. eauto. Qed.

Lemma spec_cfg_snoc n l o :
  spec_cfg n (l ++ [o]) =
  match spec_cfg n l with
  | Some h => Some h
  | None => match o with OAddHandler h => if N.eqb (h_name h) n then Some h else None | _ => None end
  end.
Proof.
  unfold spec_cfg. rewrite find_snoc. destruct (find (is_add n) l) eqn:F.
  - apply find_is_add in F as (h & -> & _). reflexivity.
  - destruct o; simpl; try reflexivity. now destruct (N.eqb (h_name h) n).
Qed.

Lemma spec_cfg_existsb n l :
  existsb (is_add n) l = match spec_cfg n l with Some _ => true | None => false end.
Proof.
  rewrite existsb_find. unfold spec_cfg. destruct (find (is_add n) l) eqn:F; [|reflexivity].
  apply find_is_add in F as (h & -> & _). reflexivity.
Qed.

Lemma scan_snoc n : forall l a o,
  scan n a (l ++ [o]) =
  match scan n a l with
  | Some p => Some p
  | None => if is_start o && (a || existsb (is_add n) l) then Some l else None
  end.
Proof.
  induction l as [|x l IH]; intros a o; simpl.
  - rewrite orb_false_r. now destruct (is_start o && a).
  - destruct (is_start x && a); [reflexivity|]. rewrite IH.
    destruct (scan n (a || is_add n x) l); simpl; [reflexivity|].
    rewrite orb_assoc. now destruct (is_start o && (a || is_add n x || existsb (is_add n) l)).
Qed.

Lemma spec_started_snoc n l o :
  spec_started n (l ++ [o]) =
  match spec_started n l with
  | Some s => Some s
  | None => if is_start o && existsb (is_add n) l
            then Some (ST (regs_of l) (pdecs_of l) (sdecs_of l)) else None
  end.
Proof.
  unfold spec_started. rewrite scan_snoc. destruct (scan n false l); [reflexivity|]. simpl.
  now destruct (is_start o && existsb (is_add n) l).
Qed.

Lemma scan_not_added n l : existsb (is_add n) l = false -> scan n false l = None.
Proof.
  induction l as [|x l IH]; simpl; [reflexivity|]. intros H. apply orb_false_iff in H as [H1 H2].
  rewrite andb_false_r, H1. simpl. now rewrite IH.
Qed.

Lemma spec_started_not_added n l : spec_cfg n l = None -> spec_started n l = None.
Proof.
  intros H. unfold spec_started. rewrite scan_not_added; [reflexivity|].
  now rewrite spec_cfg_existsb, H.
Qed.

Definition hname (hs : hstate) : N := h_name (hs_cfg hs).
Definition names (st : rstate) : list N := map hname (handlers st).

Lemma find_none_not_in n l : find (name_is n) l = None -> ~ In n (map hname l).
Proof.
  induction l as [|a l IH]; simpl; [tauto|]. unfold name_is at 1. fold (hname a).
  destruct (N.eqb (hname a) n) eqn:E; [discriminate|]. intros F [H|H].
  - apply N.eqb_neq in E. contradiction.
  - now apply IH.
Qed.

Lemma find_in_nodup l hs : NoDup (map hname l) -> In hs l -> find (name_is (hname hs)) l = Some hs.
Proof.
  induction l as [|a l IH]; simpl; [tauto|]. intros Hn Hin. inversion Hn as [|? ? Hnot Hn']; subst.
  unfold name_is at 1. fold (hname a). destruct Hin as [->|Hin].
  - now rewrite N.eqb_refl.
  - destruct (N.eqb (hname a) (hname hs)) eqn:E.
    + apply N.eqb_eq in E. exfalso. apply Hnot. rewrite E. now apply in_map.
    + now apply IH.
Qed.

Lemma NoDup_app_one {A} (l : list A) x : NoDup l -> ~ In x l -> NoDup (l ++ [x]).
Proof.
  induction l as [|a l IH]; simpl; intros Hn Hx.
  - constructor; [intros []|constructor].
  - inversion Hn as [|? ? Ha Hl]; subst. constructor.
    + rewrite in_app_iff. simpl. intros [H|[H|[]]]; [now apply Ha|]. subst. apply Hx. now left.
    + apply IH; [assumption|]. intros H. apply Hx. now right.
Qed.

(** what the state machine holds after a PLAIN program (no Stop, no failing decorator constructor)
    = what the declarative reading of the program says *)
Record inv (pre : list op) (st : rstate) : Prop := {
  inv_mws : mws st = regs_of pre;
  inv_pd : pubdecs st = pdecs_of pre;
  inv_sd : subdecs st = sdecs_of pre;
  inv_find : forall n, find_handler n st =
                       match spec_cfg n pre with
                       | Some h => Some (HS h (spec_started n pre))
                       | None => None end;
  inv_nodup : NoDup (names st);
  inv_pf : pfails st = [];
  inv_res : residue st = [];
  inv_pend : pending st = [] }.

Lemma inv_init : inv [] rinit.
Proof. split; try reflexivity. constructor. Qed.

Lemma first_failing_none st order : pfails st = [] -> first_failing st order = None.
Proof.
  intros H. unfold first_failing, budget. rewrite H. simpl.
  induction order as [|d l IH]; simpl; [reflexivity|assumption].
Qed.

Lemma inv_step pre st o : plain_op o = true -> inv pre st -> inv (pre ++ [o]) (step st o).
Proof.
  intros Hplain [Hm Hp Hs Hf Hn Hpf Hres Hpend].
  assert (Hwait : forall x, waiting st x = unstarted x).
  { intros x. unfold waiting, is_pending, pending_of. rewrite Hpend. simpl. apply andb_true_r. }
  assert (Hsame : forall o', is_start o' = false -> (forall n, is_add n o' = false) ->
            forall n, match spec_cfg n (pre ++ [o']) with
                      | Some h => Some (HS h (spec_started n (pre ++ [o']))) | None => None end
                      = find_handler n st).
  { intros o' H1 H2 n. rewrite spec_cfg_snoc, spec_started_snoc, H1, Hf. simpl.
    destruct (spec_cfg n pre) eqn:E.
    - now destruct (spec_started n pre).
    - specialize (H2 n). destruct o'; simpl in H2; try reflexivity. now rewrite H2. }
  assert (Hr : forall o', regs_of (pre ++ [o']) = regs_of pre ++ regs_of [o']) by (intros; apply flat_map_app).
  assert (Hpd : forall o', pdecs_of (pre ++ [o']) = pdecs_of pre ++ pdecs_of [o']) by (intros; apply flat_map_app).
  assert (Hsd : forall o', sdecs_of (pre ++ [o']) = sdecs_of pre ++ sdecs_of [o']) by (intros; apply flat_map_app).
  destruct o as [h|id app|hn id app|dd ff|dd ff| | |pn|sn|dl]; simpl.
  - (* AddHandler *)
    destruct (find_handler (h_name h) st) eqn:F.
    + split; simpl; try assumption.
      * now rewrite Hr, app_nil_r.
      * now rewrite Hpd, app_nil_r.
      * now rewrite Hsd, app_nil_r.
      * intros n. rewrite spec_cfg_snoc, spec_started_snoc, Hf. simpl.
        destruct (spec_cfg n pre) eqn:E.
        -- now destruct (spec_started n pre).
        -- destruct (N.eqb (h_name h) n) eqn:En; [|reflexivity].
           apply N.eqb_eq in En. subst n. rewrite Hf, E in F. discriminate.
    + split; simpl; try assumption.
      * now rewrite Hr, app_nil_r.
      * now rewrite Hpd, app_nil_r.
      * now rewrite Hsd, app_nil_r.
      * intros n. unfold find_handler. simpl. rewrite find_snoc. fold (find_handler n st).
        rewrite spec_cfg_snoc, spec_started_snoc, Hf. simpl.
        destruct (spec_cfg n pre) eqn:E.
        -- now destruct (spec_started n pre).
        -- unfold name_is. simpl. destruct (N.eqb (h_name h) n); [|reflexivity].
           now rewrite (spec_started_not_added _ _ E).
      * unfold names. simpl. rewrite map_app. simpl.
        apply NoDup_app_one; [assumption|]. now apply find_none_not_in.
  - split; simpl; try assumption; [now rewrite Hr, Hm | now rewrite Hpd, app_nil_r | now rewrite Hsd, app_nil_r | ].
    intros n. symmetry. now apply Hsame.
  - split; simpl; try assumption; [now rewrite Hr, Hm | now rewrite Hpd, app_nil_r | now rewrite Hsd, app_nil_r | ].
    intros n. symmetry. now apply Hsame.
  - destruct ff; [|discriminate].
    split; simpl; try assumption; [now rewrite Hr, app_nil_r | now rewrite Hpd, Hp | now rewrite Hsd, app_nil_r | ].
    intros n. symmetry. now apply Hsame.
  - destruct ff; [|discriminate].
    split; simpl; try assumption; [now rewrite Hr, app_nil_r | now rewrite Hpd, app_nil_r | now rewrite Hsd, Hs | ].
    intros n. symmetry. now apply Hsame.
  - (* Start: no constructor can fail *)
    rewrite !first_failing_none by assumption.
    destruct (first_unstarted st) as [hs0|] eqn:Fu.
    + split; simpl; try assumption; try reflexivity;
        [now rewrite Hr, app_nil_r | now rewrite Hpd, app_nil_r | now rewrite Hsd, app_nil_r | | ].
      * intros n. unfold find_handler. simpl. rewrite find_map_inv.
        2:{ intros x. unfold name_is, start_one. now destruct (waiting st x). }
        fold (find_handler n st). rewrite Hf, spec_cfg_snoc, spec_started_snoc, spec_cfg_existsb. simpl.
        destruct (spec_cfg n pre) eqn:E; [|reflexivity]. simpl. unfold start_one. rewrite Hwait. unfold unstarted. simpl.
        destruct (spec_started n pre); [reflexivity|]. unfold residue_of. rewrite Hres. simpl.
        now rewrite app_nil_r, Hm, Hp, Hs.
      * unfold names. simpl. rewrite map_map.
        erewrite map_ext; [exact Hn|]. intros x. unfold hname, start_one. now destruct (waiting st x).
    + (* nobody waits: the declarative reading agrees, nobody is started by this Start *)
      split; simpl; try assumption;
        [now rewrite Hr, app_nil_r | now rewrite Hpd, app_nil_r | now rewrite Hsd, app_nil_r | ].
      intros n. rewrite Hf, spec_cfg_snoc, spec_started_snoc, spec_cfg_existsb. simpl.
      destruct (spec_cfg n pre) eqn:E; [|reflexivity]. simpl.
      destruct (spec_started n pre) eqn:Es; [reflexivity|]. exfalso.
      specialize (Hf n). rewrite E, Es in Hf. unfold find_handler in Hf.
      apply find_some in Hf as [Hin _]. unfold first_unstarted in Fu.
      apply (find_none _ _ Fu) in Hin. rewrite Hwait in Hin. discriminate.
  - discriminate.
  - discriminate.
  - discriminate.
  - split; simpl; try assumption; [now rewrite Hr, app_nil_r | now rewrite Hpd, app_nil_r | now rewrite Hsd, app_nil_r | ].
    intros n. symmetry. now apply Hsame.
Qed.

Theorem exec_inv ops : plain ops = true -> inv ops (exec rinit ops).
Proof.
  induction ops as [|o ops IH] using rev_ind; intros Hp; [exact inv_init|].
  unfold plain in Hp. rewrite forallb_app in Hp. apply andb_true_iff in Hp as [H1 H2].
  simpl in H2. rewrite andb_true_r in H2.
  rewrite exec_snoc. apply inv_step; [assumption|]. now apply IH.
Qed.

(** ** laws of the registration machine for ALL programs (Stop, re-added names, failing constructors) *)

Lemma names_filter n l : NoDup (map hname l) -> NoDup (map hname (filter (fun hs => negb (name_is n hs)) l)).
Proof.
  induction l as [|a l IH]; simpl; [constructor|]. intros H. inversion H as [|? ? Ha Hl]; subst.
  destruct (negb (name_is n a)); [|now apply IH]. simpl. constructor; [|now apply IH].
  intros Hin. apply Ha. apply in_map_iff in Hin as (x & E & Hx). apply filter_In in Hx as [Hx _].
  rewrite <- E. now apply in_map.
Qed.

Lemma hname_start_one st x : hname (start_one st x) = hname x.
Proof. unfold hname, start_one. now destruct (waiting st x). Qed.
Lemma hname_snap_one st n decs x : hname (snap_one st n decs x) = hname x.
Proof. unfold hname, snap_one. now destruct (name_is n x && unstarted x). Qed.

Lemma step_nodup st o : NoDup (names st) -> NoDup (names (step st o)).
Proof.
  intros Hn. destruct o as [h|id app|hn id app|dd ff|dd ff| | |pn|sn|dl]; simpl; try assumption.
  - destruct (find_handler (h_name h) st) eqn:F; [assumption|]. unfold names. simpl. rewrite map_app. simpl.
    apply NoDup_app_one; [assumption|]. now apply find_none_not_in.
  - destruct (first_unstarted st); [|assumption].
    destruct (first_failing st (rev (pubdecs st))); [assumption|].
    destruct (first_failing st (subdecs st)); [assumption|].
    unfold names. simpl. rewrite map_map.
    erewrite map_ext; [exact Hn|]. intros x. apply hname_start_one.
  - destruct (first_unstarted st); [|assumption].
    destruct (first_failing st (rev (pubdecs st))); [assumption|].
    now destruct (first_failing st (subdecs st)).
  - destruct (pending_of st pn); [|assumption]. unfold names. simpl. rewrite map_map.
    erewrite map_ext; [exact Hn|]. intros x. apply hname_snap_one.
  - destruct (find_handler sn st) as [[c [s|]]|]; try assumption. unfold names. simpl. now apply names_filter.
Qed.

Theorem names_nodup_all ops : NoDup (names (exec rinit ops)).
Proof.
  induction ops as [|o ops IH] using rev_ind; [constructor|]. rewrite exec_snoc. now apply step_nodup.
Qed.

(** registrations are never removed — not by Stop either: a handler re-added under a name inherits
    what was registered for that NAME *)
Theorem mws_all ops : mws (exec rinit ops) = regs_of ops.
Proof.
  induction ops as [|o ops IH] using rev_ind; [reflexivity|]. rewrite exec_snoc.
  unfold regs_of. rewrite flat_map_app. fold (regs_of ops). rewrite <- IH. simpl.
  destruct o as [h|id app|hn id app|dd ff|dd ff| | |pn|sn|dl]; simpl; rewrite ?app_nil_r; try reflexivity.
  - now destruct (find_handler (h_name h) (exec rinit ops)).
  - destruct (first_unstarted (exec rinit ops)); [|reflexivity].
    destruct (first_failing _ (rev _)); [reflexivity|]. now destruct (first_failing _ (subdecs _)).
  - destruct (first_unstarted (exec rinit ops)); [|reflexivity].
    destruct (first_failing _ (rev _)); [reflexivity|]. now destruct (first_failing _ (subdecs _)).
  - now destruct (pending_of (exec rinit ops) pn).
  - now destruct (find_handler sn (exec rinit ops)) as [[c [s|]]|].
Qed.

(** a started handler is frozen: no operation except its own Stop changes what it holds *)
Theorem started_frozen st o n h s :
  find_handler n st = Some (HS h (Some s)) -> o <> OStop n ->
  find_handler n (step st o) = Some (HS h (Some s)).
Proof.
  intros F Ho. destruct o as [h'|id app|hn id app|dd ff|dd ff| | |pn|sn|dl]; simpl; try assumption.
  - destruct (find_handler (h_name h') st); [assumption|]. unfold find_handler in *. simpl.
    rewrite find_snoc, F. reflexivity.
  - destruct (first_unstarted st); [|assumption].
    destruct (first_failing st (rev (pubdecs st))); [assumption|].
    destruct (first_failing st (subdecs st)); [assumption|].
    unfold find_handler in *. simpl. rewrite find_map_inv.
    2:{ intros x. unfold name_is, start_one. now destruct (waiting st x). }
    rewrite F. reflexivity.
  - destruct (first_unstarted st); [|assumption].
    destruct (first_failing st (rev (pubdecs st))); [assumption|].
    now destruct (first_failing st (subdecs st)).
  - destruct (pending_of st pn); [|assumption].
    unfold find_handler in *. simpl. rewrite find_map_inv.
    2:{ intros x. unfold snap_one. destruct (name_is pn x && unstarted x); reflexivity. }
    rewrite F. simpl. unfold snap_one. simpl. now rewrite andb_false_r.
  - destruct (find_handler sn st) as [[c [s'|]]|] eqn:Fs; try assumption.
    unfold find_handler in *. simpl.
    assert (sn <> n) by (intros ->; now apply Ho).
    clear Fs. induction (handlers st) as [|a l IH]; simpl in *; [discriminate|].
    destruct (name_is n a) eqn:Ea.
    + assert (name_is sn a = false).
      { unfold name_is in *. apply N.eqb_eq in Ea. apply N.eqb_neq. congruence. }
      rewrite H0. simpl. now rewrite Ea.
    + destruct (negb (name_is sn a)); simpl; [rewrite Ea|]; now apply IH.
Qed.

(** a RunHandlers in which a decorator constructor fails starts nobody; one in which none fails
    gives every waiting handler the registrations and decorator lists of that moment (plus the
    publisher decorators earlier failed attempts left on its publisher) *)
Theorem start_outcome st :
  (forall d, (first_failing st (rev (pubdecs st)) = Some d \/
              (first_failing st (rev (pubdecs st)) = None /\ first_failing st (subdecs st) = Some d)) ->
        handlers (step st OStart) = handlers st)
  /\ (first_failing st (rev (pubdecs st)) = None -> first_failing st (subdecs st) = None ->
      handlers (step st OStart) = map (start_one st) (handlers st)).
Proof.
  split.
  - intros d H. simpl. destruct (first_unstarted st); [|reflexivity].
    destruct H as [H|[H1 H2]]; [now rewrite H|now rewrite H1, H2].
  - intros H1 H2. simpl. destruct (first_unstarted st) eqn:Fu; [now rewrite H1, H2|].
    symmetry. erewrite map_ext_in; [apply map_id|]. intros hs Hin. unfold start_one.
    unfold first_unstarted in Fu. apply (find_none _ _ Fu) in Hin. now rewrite Hin.
Qed.

(** * Part 3: every delivery of every program is accepted by the property acceptors *)

Lemma count_name_app n a b : count_name n (a ++ b) = count_name n a + count_name n b.
Proof. unfold count_name. now rewrite filter_app, app_length. Qed.

Definition one_copy (d : delivery) (hs : hstate) : list (N * list ev) :=
  match hs_started hs with
  | Some s => if receives d hs then [(hname hs, dispatch (hs_cfg hs) s d)] else []
  | None => [] end.

Lemma deliver_flat st d : deliver st d = flat_map (one_copy d) (handlers st).
Proof. reflexivity. Qed.

Lemma one_copy_other n d hs : N.eqb (hname hs) n = false -> count_name n (one_copy d hs) = 0.
Proof.
  intros H. unfold one_copy. destruct (hs_started hs); [|reflexivity].
  destruct (receives d hs); [|reflexivity]. unfold count_name. simpl. now rewrite H.
Qed.

Lemma count_not_in n d l : ~ In n (map hname l) -> count_name n (flat_map (one_copy d) l) = 0.
Proof.
  induction l as [|a l IH]; simpl; [reflexivity|]. intros H. rewrite count_name_app, IH by tauto.
  rewrite one_copy_other; [reflexivity|]. apply N.eqb_neq. tauto.
Qed.

Lemma count_deliver n d l : NoDup (map hname l) ->
  count_name n (flat_map (one_copy d) l) =
  match find (name_is n) l with Some hs => length (one_copy d hs) | None => 0 end.
Proof.
  induction l as [|a l IH]; simpl; [reflexivity|]. intros Hn. inversion Hn as [|? ? Ha Hl]; subst.
  rewrite count_name_app. unfold name_is at 1. fold (hname a).
  destruct (N.eqb (hname a) n) eqn:E.
  - apply N.eqb_eq in E. subst n. rewrite count_not_in by assumption. rewrite Nat.add_0_r.
    unfold one_copy. destruct (hs_started a); [|reflexivity]. destruct (receives d a); [|reflexivity].
    unfold count_name. simpl. now rewrite N.eqb_refl.
  - rewrite one_copy_other by assumption. now apply IH.
Qed.

Lemma deliver_ok (same : list ev -> list ev -> bool) (Hrefl : forall t, same t t = true) ops st d :
  inv ops st -> obs_ok same ops d (deliver st d) = true.
Proof.
  intros [_ _ _ Hf Hn]. unfold obs_ok. apply andb_true_iff. split.
  - apply forallb_forall. intros p Hp. rewrite deliver_flat in Hp. apply in_flat_map in Hp as (hs & Hin & Hp).
    unfold one_copy in Hp. destruct (hs_started hs) as [s|] eqn:Es; [|destruct Hp].
    destruct (receives d hs) eqn:Er; [|destruct Hp]. destruct Hp as [<-|[]]. simpl.
    pose proof (find_in_nodup _ _ Hn Hin) as F. fold (find_handler (hname hs) st) in F.
    rewrite Hf in F. unfold expected_for. remember (hname hs) as n eqn:En.
    destruct (spec_cfg n ops) as [h|]; [|discriminate]. injection F as F'.
    assert (F1 : hs_cfg hs = h) by now rewrite <- F'.
    assert (F2 : hs_started hs = spec_started n ops) by now rewrite <- F'.
    rewrite <- F2, Es. unfold receives in Er. rewrite Es, F1 in Er. rewrite Er, F1.
    now rewrite dispatch_spec.
  - apply forallb_forall. intros n _. apply Nat.eqb_eq. rewrite deliver_flat, count_deliver by assumption.
    fold (find_handler n st). rewrite Hf. unfold expected_for.
    destruct (spec_cfg n ops) as [h|]; [|reflexivity]. unfold one_copy, receives. simpl.
    destruct (spec_started n ops) as [s|]; [|reflexivity].
    now destruct (N.eqb (h_sub h) (d_sub d) && N.eqb (h_subtopic h) (d_topic d)).
Qed.

Lemma plain_app a b : plain (a ++ b) = true -> plain a = true /\ plain b = true.
Proof. unfold plain. rewrite forallb_app. apply andb_true_iff. Qed.

Lemma prog_ok_run (same : list ev -> list ev -> bool) (Hrefl : forall t, same t t = true) :
  forall ops pre, plain (pre ++ ops) = true -> prog_ok same pre ops (run (exec rinit pre) ops) = true.
Proof.
  induction ops as [|o ops IH]; intros pre Hp; [reflexivity|].
  assert (Hp' : plain ((pre ++ [o]) ++ ops) = true) by now rewrite <- app_assoc.
  destruct o as [h|id app|hn id app|dd ff|dd ff| | |pn|sn|d]; cbn [run prog_ok]; try (rewrite <- exec_snoc; now apply IH).
  apply plain_app in Hp as [Hpre _].
  rewrite (deliver_ok same Hrefl pre _ d (exec_inv pre Hpre)). cbn [andb].
  specialize (IH (pre ++ [ODeliver d]) Hp'). now rewrite exec_snoc in IH.
Qed.

(** the same for ALL programs, against the state-based acceptor *)
Lemma deliver_ok_st (same : list ev -> list ev -> bool) (Hrefl : forall t, same t t = true) st d :
  NoDup (names st) -> obs_ok_st same st d (deliver st d) = true.
Proof.
  intros Hn. unfold obs_ok_st. apply andb_true_iff. split.
  - apply forallb_forall. intros p Hp. rewrite deliver_flat in Hp. apply in_flat_map in Hp as (hs & Hin & Hp).
    unfold one_copy in Hp. destruct (hs_started hs) as [s|] eqn:Es; [|destruct Hp].
    destruct (receives d hs) eqn:Er; [|destruct Hp]. destruct Hp as [<-|[]]. simpl.
    pose proof (find_in_nodup _ _ Hn Hin) as F. fold (find_handler (hname hs) st) in F.
    unfold expected_st. rewrite F. destruct hs as [h st']. simpl in *. subst st'.
    unfold receives in Er. simpl in Er. rewrite Er. now rewrite dispatch_spec.
  - apply forallb_forall. intros n _. apply Nat.eqb_eq. rewrite deliver_flat, count_deliver by assumption.
    fold (find_handler n st). unfold expected_st.
    destruct (find_handler n st) as [[h [s|]]|]; try reflexivity. unfold one_copy, receives. simpl.
    now destruct (N.eqb (h_sub h) (d_sub d) && N.eqb (h_subtopic h) (d_topic d)).
Qed.

Lemma prog_ok_st_run (same : list ev -> list ev -> bool) (Hrefl : forall t, same t t = true) :
  forall ops st, NoDup (names st) -> prog_ok_st same st ops (run st ops) = true.
Proof.
  induction ops as [|o ops IH]; intros st Hn; [reflexivity|].
  destruct o as [h|id app|hn id app|dd ff|dd ff| | |pn|sn|d]; cbn [run prog_ok_st];
    try (apply IH; now apply step_nodup).
  rewrite (deliver_ok_st same Hrefl st d Hn). cbn [andb]. now apply IH.
Qed.

Lemma list_eqb_refl {A} (eqb : A -> A -> bool) : (forall x, eqb x x = true) -> forall l, list_eqb eqb l l = true.
Proof. intros H. induction l as [|x l IH]; simpl; [reflexivity|]. now rewrite H, IH. Qed.

Lemma ctx_eqb_refl c : ctx_eqb c c = true.
Proof. unfold ctx_eqb. now rewrite !N.eqb_refl. Qed.
Lemma ev_eqb_refl e : ev_eqb e e = true.
Proof.
  destruct e; simpl; rewrite ?N.eqb_refl, ?ctx_eqb_refl; try reflexivity.
  - apply list_eqb_refl, N.eqb_refl.
  - apply list_eqb_refl. intros [[m c] [u b]]. unfold omsg_eqb, uctx_eqb. simpl.
    rewrite N.eqb_refl, ctx_eqb_refl, N.eqb_refl. now destruct b.
  - now destruct ack.
Qed.
Lemma oev_eqb_refl e : oev_eqb e e = true.
Proof. destruct e; simpl; rewrite ?N.eqb_refl, ?ctx_eqb_refl; reflexivity. Qed.

Theorem c08_model_accepted ops : plain ops = true -> c08_monitor ops (run rinit ops) = true.
Proof.
  intros Hp. apply (prog_ok_run c08_same) with (pre := []); [|exact Hp]. intros t. apply list_eqb_refl, ev_eqb_refl.
Qed.
Theorem c09_model_accepted ops : plain ops = true -> c09_monitor ops (run rinit ops) = true.
Proof.
  intros Hp. apply (prog_ok_run c09_same) with (pre := []); [|exact Hp]. intros t. apply list_eqb_refl, oev_eqb_refl.
Qed.
Theorem c08_model_accepted_st ops : c08_monitor_st ops (run rinit ops) = true.
Proof.
  apply (prog_ok_st_run c08_same); [|constructor]. intros t. apply list_eqb_refl, ev_eqb_refl.
Qed.
Theorem c09_model_accepted_st ops : c09_monitor_st ops (run rinit ops) = true.
Proof.
  apply (prog_ok_st_run c09_same); [|constructor]. intros t. apply list_eqb_refl, oev_eqb_refl.
Qed.

(** * Part 4: the clauses of C08 / C09 as statements about [deliver (exec rinit ops)] *)

(** ** who receives a delivery *)
Lemma in_deliver_iff ops d n tr : plain ops = true ->
  In (n, tr) (deliver (exec rinit ops) d) <->
  exists h s, spec_cfg n ops = Some h /\ spec_started n ops = Some s
              /\ h_sub h = d_sub d /\ h_subtopic h = d_topic d /\ tr = spec_trace h s d.
Proof.
  intros Hpl. destruct (exec_inv ops Hpl) as [_ _ _ Hf Hn _ _]. set (st := exec rinit ops) in *. split.
  - intros Hp. rewrite deliver_flat in Hp. apply in_flat_map in Hp as (hs & Hin & Hp).
    unfold one_copy in Hp. destruct (hs_started hs) as [s|] eqn:Es; [|destruct Hp].
    destruct (receives d hs) eqn:Er; [|destruct Hp]. destruct Hp as [Hp|[]]. injection Hp as Hname Htr.
    pose proof (find_in_nodup _ _ Hn Hin) as F. fold (find_handler (hname hs) st) in F.
    rewrite Hf, Hname in F. destruct (spec_cfg n ops) as [h|]; [|discriminate]. injection F as F'.
    assert (F1 : hs_cfg hs = h) by now rewrite <- F'.
    assert (F2 : hs_started hs = spec_started n ops) by now rewrite <- F'.
    exists h, s. unfold receives in Er. rewrite Es, F1 in Er. apply andb_true_iff in Er as [E1 E2].
    apply N.eqb_eq in E1, E2. rewrite <- F2, Es, <- Htr, F1, dispatch_spec. auto.
  - intros (h & s & Hc & Hs & H1 & H2 & ->). specialize (Hf n). rewrite Hc, Hs in Hf.
    apply find_some in Hf as [Hin Hname]. rewrite deliver_flat. apply in_flat_map.
    exists (HS h (Some s)). split; [assumption|]. unfold one_copy, receives. simpl.
    rewrite H1, H2, !N.eqb_refl. simpl. unfold name_is in Hname. simpl in Hname.
    apply N.eqb_eq in Hname. left. unfold hname. simpl. now rewrite Hname, dispatch_spec.
Qed.

Lemma deliver_names_in d l x : In x (map fst (flat_map (one_copy d) l)) -> In x (map hname l).
Proof.
  induction l as [|a l IH]; simpl; [tauto|]. rewrite map_app, in_app_iff. intros [H|H]; [|right; now apply IH].
  left. unfold one_copy in H. destruct (hs_started a); [|destruct H]. destruct (receives d a); [|destruct H].
  destruct H as [H|[]]. now simpl in H.
Qed.

Lemma deliver_nodup ops d : NoDup (map fst (deliver (exec rinit ops) d)).
Proof.
  pose proof (names_nodup_all ops) as Hn. rewrite deliver_flat. unfold names in Hn.
  induction (handlers (exec rinit ops)) as [|a l IH]; simpl; [constructor|].
  inversion Hn as [|? ? Ha Hl]; subst. rewrite map_app. unfold one_copy at 1.
  destruct (hs_started a); [|now apply IH]. destruct (receives d a); [|now apply IH].
  simpl. constructor; [|now apply IH]. intros H. apply Ha. now apply deliver_names_in in H.
Qed.

(** ** projections of the prescribed trace *)
Lemma flat_map_map_nil {A B C} (g : B -> list C) (f : A -> B) l :
  (forall x, g (f x) = []) -> flat_map g (map f l) = [].
Proof. intros H. induction l as [|a l IH]; simpl; [reflexivity|]. now rewrite H, IH. Qed.

Definition fn_of (e : ev) : list (N * ctxv) := match e with EFn f c => [(f, c)] | _ => [] end.
Definition pub_of (e : ev) : list (N * N * list omsg) := match e with EPublish p t o => [(p, t, o)] | _ => [] end.
Definition settle_of (e : ev) : list bool := match e with ESettle b => [b] | _ => [] end.

Lemma exits_nil {C} (g : ev -> list C) ids o : (forall w, g (EExit w) = []) -> flat_map g (exits ids o) = [].
Proof. intros H. unfold exits. destruct o; try reflexivity; now apply flat_map_map_nil. Qed.

Lemma spec_fn_calls h s d : fn_calls (spec_trace h s d) = [(h_fn h, overlay (d_ctx d) h)].
Proof.
  unfold fn_calls, spec_trace. fold fn_of. rewrite !flat_map_app.
  rewrite (flat_map_map_nil fn_of) by reflexivity. rewrite (flat_map_map_nil fn_of) by reflexivity.
  rewrite (exits_nil fn_of) by reflexivity. simpl.
  destruct (chain_outcome h s d) as [[|x l]|?|]; try reflexivity.
  rewrite flat_map_app, (flat_map_map_nil fn_of) by reflexivity. now destruct (h_pub h).
Qed.

Definition expected_publish (h : hcfg) (s : started) (d : delivery) : list (N * N * list omsg) :=
  match chain_outcome h s d, h_pub h with
  | Ret (x :: l), PReal id _ =>
      [(id, h_pubtopic h, map (fun m => (m, out_ctx h (overlay (d_ctx d) h) m, own_ctx d m)) (x :: l))]
  | _, _ => []
  end.

Lemma spec_publish_calls h s d : publish_calls (spec_trace h s d) = expected_publish h s d.
Proof.
  unfold publish_calls, spec_trace, expected_publish. fold pub_of. rewrite !flat_map_app.
  rewrite (flat_map_map_nil pub_of) by reflexivity. rewrite (flat_map_map_nil pub_of) by reflexivity.
  rewrite (exits_nil pub_of) by reflexivity. simpl.
  destruct (chain_outcome h s d) as [[|x l]|?|]; try reflexivity.
  rewrite flat_map_app, (flat_map_map_nil pub_of) by reflexivity. now destruct (h_pub h).
Qed.

(** the one settlement is the one C02's [handle] prescribes for this chain result *)
Lemma spec_settles h s d :
  settles (spec_trace h s d) =
  [handled_ok (pub_kind (h_pub h)) (d_pb d) (CR PreNone (chain_outcome h s d))].
Proof.
  unfold settles, spec_trace. fold settle_of. rewrite !flat_map_app.
  rewrite (flat_map_map_nil settle_of) by reflexivity. rewrite (flat_map_map_nil settle_of) by reflexivity.
  rewrite (exits_nil settle_of) by reflexivity. simpl. unfold handled_ok. simpl.
  destruct (chain_outcome h s d) as [[|x l]|?|]; try reflexivity.
  rewrite flat_map_app, (flat_map_map_nil settle_of) by reflexivity.
  destruct (h_pub h); reflexivity.
Qed.

Lemma handled_ok_is_handle pk pb (r : chain_result M) : cr_pre r = PreNone ->
  handled_ok pk pb r = settle_eqb (st (fst (handle pk pb r))) Acked.
Proof.
  intros H. destruct (handle_ack_iff pk pb r H) as [[A1 A2] [N1 N2]].
  destruct (handled_ok pk pb r) eqn:E.
  - now rewrite A2.
  - now rewrite N2.
Qed.

(** the chain result when no appending middleware is in the handler's effective chain *)
Lemma chain_outcome_plain h s d :
  Forall (fun r => r_app r = None) (effective (h_name h) (s_chain s)) ->
  chain_outcome h s d = fn_outcome h (d_out d).
Proof.
  intros H. unfold chain_outcome.
  assert (E : flat_map app_of (rev (effective (h_name h) (s_chain s))) = []).
  { apply Forall_rev in H. induction H as [|r l Hr _ IH]; simpl; [reflexivity|].
    unfold app_of at 1. now rewrite Hr. }
  rewrite E. destruct (fn_outcome h (d_out d)); simpl; now rewrite ?app_nil_r.
Qed.

(** ** context values *)
Lemma overlay_fresh h : overlay cx0 h = ctx_of h.
Proof. reflexivity. Qed.

Lemma overlay_idem c h : overlay (overlay c h) h = overlay c h.
Proof. reflexivity. Qed.

(** the pinned (pre-fix) overlay agrees with the repaired one when nothing was there before or when
    all five values of the handler are non-empty, and ONLY differs on empty values *)
Lemma overlay_pinned_fresh h : overlay_pinned cx0 h = ctx_of h.
Proof.
  unfold overlay_pinned, ctx_of, ov. simpl.
  repeat match goal with |- context [N.eqb ?x 0] => destruct (N.eqb_spec x 0) as [->|] end; reflexivity.
Qed.

(** on produced messages: the consumed object keeps what it had, fresh objects start empty *)
Lemma out_ctx_spec h c0 m :
  out_ctx h (overlay c0 h) m = overlay (if N.eqb m 0 then c0 else cx0) h.
Proof. unfold out_ctx. destruct (N.eqb m 0); [apply overlay_idem|reflexivity]. Qed.

Lemma produced_ctx h s d p t outs m c u :
  In (p, t, outs) (publish_calls (spec_trace h s d)) -> In (m, c, u) outs ->
  c = overlay (if N.eqb m 0 then d_ctx d else cx0) h /\ u = own_ctx d m.
Proof.
  rewrite spec_publish_calls. unfold expected_publish.
  destruct (chain_outcome h s d) as [[|x l]|?|]; try (intros []).
  destruct (h_pub h); try (intros []; fail). intros [Hq|[]]. injection Hq as _ _ <-.
  intros Hin.
  change (In (m, c, u) (map (fun m0 => (m0, out_ctx h (overlay (d_ctx d) h) m0, own_ctx d m0)) (x :: l))) in Hin.
  apply in_map_iff in Hin as (m' & E & _). injection E as <- <- <-. split; [apply out_ctx_spec|reflexivity].
Qed.

(** ** C09: the order projection of the prescribed trace, for ALL chains and decorator lists *)
Lemma c09_proj_app a b : c09_proj (a ++ b) = c09_proj a ++ c09_proj b.
Proof. apply flat_map_app. Qed.
Lemma c09_proj_map {A} (f : A -> ev) (g : A -> oev) l :
  (forall x, c09_proj [f x] = [g x]) -> c09_proj (map f l) = map g l.
Proof.
  intros H. induction l as [|a l IH]; [reflexivity|]. simpl map.
  change (f a :: map f l) with ([f a] ++ map f l). now rewrite c09_proj_app, H, IH.
Qed.

Definition spec_order (h : hcfg) (s : started) (d : delivery) : list oev :=
  let ids := map r_id (effective (h_name h) (s_chain s)) in
  let o := chain_outcome h s d in
  map (fun x => OSub x (ctx_of h)) (s_subdecs s)
  ++ map OEnter ids ++ [OFn] ++ match o with Panic => [] | _ => map OExit (rev ids) end
  ++ match o with
     | Ret (_ :: _) => map OPubDec (s_pubdecs s) ++ match h_pub h with PReal _ _ => [OPub] | _ => [] end
     | _ => []
     end.

Lemma spec_trace_order h s d : c09_proj (spec_trace h s d) = spec_order h s d.
Proof.
  unfold spec_trace, spec_order. cbv zeta. rewrite !c09_proj_app.
  rewrite (c09_proj_map _ (fun x => OSub x (ctx_of h))) by reflexivity. rewrite (c09_proj_map _ OEnter) by reflexivity.
  replace (c09_proj [EFn (h_fn h) (overlay (d_ctx d) h)]) with [OFn] by reflexivity.
  assert (Hex : c09_proj (exits (map r_id (effective (h_name h) (s_chain s))) (chain_outcome h s d))
                = match chain_outcome h s d with Panic => [] | _ => map OExit (rev (map r_id (effective (h_name h) (s_chain s)))) end).
  { unfold exits. destruct (chain_outcome h s d); try reflexivity; now apply c09_proj_map. }
  rewrite Hex, <- !app_assoc. do 4 f_equal.
  destruct (chain_outcome h s d) as [[|x l]|?|]; try reflexivity.
  rewrite c09_proj_app, (c09_proj_map _ OPubDec) by reflexivity. now destruct (h_pub h).
Qed.

Lemma effective_sound n chain r : In r (effective n chain) -> r_router r = true \/ r_hname r = n.
Proof.
  intros H. apply filter_In in H as [_ H]. unfold applies in H. apply orb_true_iff in H as [H|H]; [now left|].
  right. now apply N.eqb_eq.
Qed.

Lemma effective_complete n chain r :
  In r chain -> r_router r = true \/ r_hname r = n -> In r (effective n chain).
Proof.
  intros Hin H. apply filter_In. split; [assumption|]. unfold applies. apply orb_true_iff.
  destruct H as [H|H]; [now left|right; now apply N.eqb_eq].
Qed.

(** ** a handler freezes exactly what was registered before the Run/RunHandlers that starts it *)
Lemma scan_app_start n : forall pre a post,
  scan n a pre = None -> a || existsb (is_add n) pre = true -> scan n a (pre ++ OStart :: post) = Some pre.
Proof.
  induction pre as [|x pre IH]; intros a post Hs Ha; simpl in *.
  - rewrite orb_false_r in Ha. now rewrite Ha.
  - destruct (is_start x && a); [discriminate|].
    destruct (scan n (a || is_add n x) pre) eqn:E; [discriminate|].
    rewrite IH; [reflexivity|assumption|]. now rewrite <- orb_assoc.
Qed.

Lemma find_app_some {A} (f : A -> bool) l1 l2 x : find f l1 = Some x -> find f (l1 ++ l2) = Some x.
Proof. induction l1 as [|a l1 IH]; simpl; [discriminate|]. now destruct (f a). Qed.

Theorem started_freezes pre post n h : plain (pre ++ OStart :: post) = true ->
  spec_cfg n pre = Some h -> spec_started n pre = None ->
  find_handler n (exec rinit (pre ++ OStart :: post)) =
  Some (HS h (Some (ST (regs_of pre) (pdecs_of pre) (sdecs_of pre)))).
Proof.
  intros Hpl Hc Hs. destruct (exec_inv (pre ++ OStart :: post) Hpl) as [_ _ _ Hf _ _ _]. rewrite Hf.
  assert (Hc' : spec_cfg n (pre ++ OStart :: post) = Some h).
  { unfold spec_cfg in *. destruct (find (is_add n) pre) eqn:F; [|discriminate].
    now rewrite (find_app_some _ _ _ _ F). }
  rewrite Hc'. unfold spec_started in *. destruct (scan n false pre) eqn:E; [discriminate|].
  rewrite scan_app_start; [reflexivity|assumption|]. simpl. now rewrite spec_cfg_existsb, Hc.
Qed.

(** * Part 5: the statements exported to Props/C08.v and Props/C09.v *)

Lemma in_deliver_iff_st ops d n tr :
  In (n, tr) (deliver (exec rinit ops) d) <->
  exists h s, find_handler n (exec rinit ops) = Some (HS h (Some s))
              /\ h_sub h = d_sub d /\ h_subtopic h = d_topic d /\ tr = dispatch h s d.
Proof.
  pose proof (names_nodup_all ops) as Hn. set (st := exec rinit ops) in *. split.
  - intros Hp. rewrite deliver_flat in Hp. apply in_flat_map in Hp as (hs & Hin & Hp).
    unfold one_copy in Hp. destruct (hs_started hs) as [s|] eqn:Es; [|destruct Hp].
    destruct (receives d hs) eqn:Er; [|destruct Hp]. destruct Hp as [Hp|[]]. injection Hp as Hname Htr.
    pose proof (find_in_nodup _ _ Hn Hin) as F. fold (find_handler (hname hs) st) in F. rewrite Hname in F.
    destruct hs as [h st']. simpl in *. subst st'. exists h, s.
    unfold receives in Er. simpl in Er. apply andb_true_iff in Er as [E1 E2]. apply N.eqb_eq in E1, E2. auto.
  - intros (h & s & F & H1 & H2 & ->). apply find_some in F as [Hin Hname]. rewrite deliver_flat. apply in_flat_map.
    exists (HS h (Some s)). split; [assumption|]. unfold one_copy, receives. simpl.
    rewrite H1, H2, !N.eqb_refl. simpl. unfold name_is in Hname. simpl in Hname.
    apply N.eqb_eq in Hname. left. unfold hname. simpl. now rewrite Hname.
Qed.

Lemma c08_right_function ops d :
  (forall n tr, In (n, tr) (deliver (exec rinit ops) d) <->
      exists h s, find_handler n (exec rinit ops) = Some (HS h (Some s))
                  /\ h_sub h = d_sub d /\ h_subtopic h = d_topic d /\ tr = dispatch h s d)
  /\ NoDup (map fst (deliver (exec rinit ops) d))
  /\ (forall h s, fn_calls (dispatch h s d) = [(h_fn h, ctx_of h)]).
Proof.
  split; [|split].
  - intros n tr. apply in_deliver_iff_st.
  - apply deliver_nodup.
  - intros h s. rewrite dispatch_spec. apply spec_fn_calls.
Qed.

(** for programs without Stop / failing constructors the wiring is the declarative reading *)
Lemma c08_wiring_plain ops n : plain ops = true ->
  find_handler n (exec rinit ops) =
  match spec_cfg n ops with Some h => Some (HS h (spec_started n ops)) | None => None end.
Proof. intros Hp. now destruct (exec_inv ops Hp) as [_ _ _ Hf _ _ _]. Qed.

Lemma c08_publish_target h s d :
  publish_calls (dispatch h s d) = expected_publish h s d
  /\ (Forall (fun r => r_app r = None) (effective (h_name h) (s_chain s)) ->
      chain_outcome h s d = fn_outcome h (d_out d))
  /\ (h_pub h <> PDisabled -> fn_outcome h (d_out d) = d_out d).
Proof.
  split; [|split].
  - rewrite dispatch_spec. apply spec_publish_calls.
  - apply chain_outcome_plain.
  - intros H. unfold fn_outcome. destruct (h_pub h); try reflexivity. contradiction.
Qed.

Lemma c08_settles_as_c02 h s d :
  settles (dispatch h s d) =
  [settle_eqb (st (fst (handle (pub_kind (h_pub h)) (d_pb d) (CR PreNone (chain_outcome h s d))))) Acked].
Proof. rewrite dispatch_spec, spec_settles, handled_ok_is_handle; reflexivity. Qed.

Lemma c08_no_publisher_output_nacks h s d x l :
  (forall id ty, h_pub h <> PReal id ty) -> chain_outcome h s d = Ret (x :: l) ->
  publish_calls (dispatch h s d) = [] /\ settles (dispatch h s d) = [false].
Proof.
  intros Hp Ho. rewrite dispatch_spec, spec_publish_calls, spec_settles. unfold expected_publish, handled_ok.
  rewrite Ho. simpl. destruct (h_pub h) as [id ty| |]; [exfalso; now apply (Hp id ty)| |]; split; reflexivity.
Qed.

Lemma c08_context_values h s d :
  fn_calls (dispatch h s d) = [(h_fn h, ctx_of h)]
  /\ (forall p t outs m c u, In (p, t, outs) (publish_calls (dispatch h s d)) -> In (m, c, u) outs ->
        c = ctx_of h /\ u = own_ctx d m).
Proof.
  split.
  - rewrite dispatch_spec. apply spec_fn_calls.
  - intros p t outs m c u. rewrite dispatch_spec. intros H1 H2.
    destruct (produced_ctx _ _ _ _ _ _ _ _ _ H1 H2) as [-> ->]. split; reflexivity.
Qed.

Lemma c08_context_pinned_refuted :
  exists c h, overlay_pinned c h <> ctx_of h /\ c_pubtopic (overlay_pinned c h) <> h_pubtopic h.
Proof.
  exists (CX 10 8 7 20 30), (HC 12 1 7 21 PDisabled 0 3). split; vm_compute; discriminate.
Qed.

Lemma c09_nesting h s d :
  mw_marks (dispatch h s d) =
  map EEnter (map r_id (effective (h_name h) (s_chain s)))
  ++ [EFn (h_fn h) (overlay (d_ctx d) h)]
  ++ exits (map r_id (effective (h_name h) (s_chain s))) (chain_outcome h s d).
Proof.
  rewrite dispatch_spec. unfold mw_marks, spec_trace. cbv zeta.
  set (keep := fun e => match e with EEnter _ | EExit _ | EFn _ _ => true | _ => false end).
  assert (Hall : forall {A} (f : A -> ev) l, (forall x, keep (f x) = true) -> filter keep (map f l) = map f l).
  { intros A f l H. induction l as [|a l IH]; simpl; [reflexivity|]. now rewrite H, IH. }
  assert (Hnone : forall {A} (f : A -> ev) l, (forall x, keep (f x) = false) -> filter keep (map f l) = []).
  { intros A f l H. induction l as [|a l IH]; simpl; [reflexivity|]. now rewrite H, IH. }
  rewrite !filter_app. rewrite (Hnone _ _ (s_subdecs s)) by reflexivity.
  rewrite (Hall _ EEnter) by reflexivity. simpl.
  assert (Hex : forall ids o, filter keep (exits ids o) = exits ids o).
  { intros ids o. unfold exits. destruct o; try reflexivity; now apply Hall. }
  rewrite Hex.
  assert (Hrest : filter keep
    match chain_outcome h s d with
    | Ret [] => [ESettle true]
    | Ret ((_ :: _) as outs) =>
        map (fun x : N => EPubDec x (h_pubtopic h) outs) (s_pubdecs s) ++
        match h_pub h with
        | PReal id _ => [EPublish id (h_pubtopic h) (map (fun m0 : M => (m0, out_ctx h (overlay (d_ctx d) h) m0, own_ctx d m0)) outs);
                         ESettle (accepts (d_pb d))]
        | _ => [ESettle false]
        end
    | _ => [ESettle false]
    end = []).
  { destruct (chain_outcome h s d) as [[|x l]|?|]; try reflexivity.
    rewrite filter_app, Hnone by reflexivity. now destruct (h_pub h). }
  rewrite Hrest. now rewrite app_nil_r.
Qed.

Lemma c09_chain_membership n chain r :
  In r (effective n chain) <-> In r chain /\ (r_router r = true \/ r_hname r = n).
Proof.
  split.
  - intros H. split; [now apply filter_In in H|now apply effective_sound in H].
  - intros [H1 H2]. now apply effective_complete.
Qed.

Lemma c09_order h s d : c09_proj (dispatch h s d) = spec_order h s d.
Proof. rewrite dispatch_spec. apply spec_trace_order. Qed.

(** * Round "proofs": retried RunHandlers decorates once (repaired); the pinned behaviour is refuted *)
Lemma step_residue st o : residue st = [] -> residue (step st o) = [].
Proof.
  intros H. destruct o as [h|id app|hn id app|dd ff|dd ff| | |pn|sn|dl]; simpl; try assumption.
  - now destruct (find_handler (h_name h) st).
  - destruct (first_unstarted st); [|assumption].
    destruct (first_failing st (rev (pubdecs st))); [assumption|].
    now destruct (first_failing st (subdecs st)).
  - destruct (first_unstarted st); [|assumption].
    destruct (first_failing st (rev (pubdecs st))); [assumption|].
    now destruct (first_failing st (subdecs st)).
  - now destruct (pending_of st pn).
  - now destruct (find_handler sn st) as [[c [s|]]|].
Qed.
Theorem residue_empty_all ops : residue (exec rinit ops) = [].
Proof.
  induction ops as [|o ops IH] using rev_ind; [reflexivity|]. rewrite exec_snoc. now apply step_residue.
Qed.
(** so what a handler freezes when it is finally started is exactly the decorator lists of that moment *)
Theorem start_one_no_residue ops hs : hs_started hs = None -> waiting (exec rinit ops) hs = true ->
  start_one (exec rinit ops) hs =
  HS (hs_cfg hs) (Some (ST (mws (exec rinit ops)) (pubdecs (exec rinit ops)) (subdecs (exec rinit ops)))).
Proof.
  intros H Hw. unfold start_one, frozen_decs, residue_of. rewrite Hw, residue_empty_all. simpl. now rewrite app_nil_r.
Qed.

Definition pinned_witness : list op :=
  [OAddHandler (HC 10 1 7 20 (PReal 1 8) 30 1); OStart;
   OAddPubDec 50 0; OAddSubDec 62 1; OAddHandler (HC 12 1 7 22 (PReal 1 8) 33 3); OStart; OStart].
Lemma retry_pinned_refuted :
  let d := DL 1 22 cx0 (0%N, false) (Ret [1%N]) PubAccept in
  map (fun p => c09_proj (snd p)) (deliver (exec_pinned rinit pinned_witness) d)
    = [[OSub 62 (CX 12 8 7 22 33); OFn; OPubDec 50; OPubDec 50; OPub]]
  /\ map (fun p => c09_proj (snd p)) (deliver (exec rinit pinned_witness) d)
    = [[OSub 62 (CX 12 8 7 22 33); OFn; OPubDec 50; OPub]].
Proof. split; reflexivity. Qed.

(** * Round "proofs": the linearisation point of a handler's start with respect to registrations *)

Lemma find_filter_other {A} (f g : A -> bool) l :
  (forall x, f x = true -> g x = true) -> find f (filter g l) = find f l.
Proof.
  intros H. induction l as [|a l IH]; simpl; [reflexivity|].
  destruct (g a) eqn:G; simpl.
  - now destruct (f a).
  - destruct (f a) eqn:F; [|assumption]. apply H in F. congruence.
Qed.

Lemma find_handler_name n st hs : find_handler n st = Some hs -> h_name (hs_cfg hs) = n.
Proof. intros F. apply find_some in F as [_ F]. now apply N.eqb_eq in F. Qed.

(** while handler n's goroutine has not reached its copy, nothing but that copy changes its status *)
Lemma pending_kept st o n h decs :
  pending_of st n = Some decs -> find_handler n st = Some (HS h None) -> o <> OSnap n ->
  pending_of (step st o) n = Some decs /\ find_handler n (step st o) = Some (HS h None).
Proof.
  intros P F Ho. pose proof (find_handler_name _ _ _ F) as Hname. simpl in Hname.
  destruct o as [h'|id app|hn id app|dd ff|dd ff| | |pn|sn|dl]; simpl; try (split; assumption).
  - destruct (find_handler (h_name h') st); [split; assumption|]. split; [assumption|].
    unfold find_handler in *. simpl. now rewrite find_snoc, F.
  - destruct (first_unstarted st); [|split; assumption].
    destruct (first_failing st (rev (pubdecs st))); [split; assumption|].
    destruct (first_failing st (subdecs st)); [split; assumption|]. split; [assumption|].
    unfold find_handler in *. simpl. rewrite find_map_inv.
    2:{ intros x. unfold name_is, start_one. now destruct (waiting st x). }
    rewrite F. simpl. unfold start_one, waiting, is_pending. simpl. rewrite Hname, P. reflexivity.
  - destruct (first_unstarted st); [|split; assumption].
    destruct (first_failing st (rev (pubdecs st))); [split; assumption|].
    destruct (first_failing st (subdecs st)); [split; assumption|]. split; [|assumption].
    unfold pending_of in *. simpl.
    destruct (find (fun p => N.eqb (fst p) n) (pending st)) eqn:E; [|discriminate].
    now rewrite (find_app_some _ _ _ _ E).
  - assert (Hpn : pn <> n) by (intros ->; now apply Ho).
    destruct (pending_of st pn) as [decs'|]; [|split; assumption]. split.
    + unfold pending_of in *. simpl. rewrite find_filter_other; [assumption|].
      intros x Hx. apply N.eqb_eq in Hx. apply negb_true_iff, N.eqb_neq. congruence.
    + unfold find_handler in *. simpl. rewrite find_map_inv.
      2:{ intros x. unfold snap_one. destruct (name_is pn x && unstarted x); reflexivity. }
      rewrite F. simpl. unfold snap_one, name_is. simpl. rewrite Hname.
      apply N.eqb_neq in Hpn. rewrite N.eqb_sym in Hpn. now rewrite Hpn.
  - destruct (find_handler sn st) as [[c [s'|]]|] eqn:Fs; try (split; assumption). split; [assumption|].
    assert (sn <> n). { intros ->. rewrite F in Fs. discriminate. }
    unfold find_handler in *. simpl. rewrite find_filter_other; [assumption|].
    intros x Hx. unfold name_is in *. apply N.eqb_eq in Hx. apply negb_true_iff, N.eqb_neq. congruence.
Qed.

(** the copy: handler n holds the registrations of THAT moment, with the decorator lists it froze at its start *)
Lemma snap_takes st n h decs :
  pending_of st n = Some decs -> find_handler n st = Some (HS h None) ->
  find_handler n (step st (OSnap n)) = Some (HS h (Some (ST (mws st) (fst decs) (snd decs)))).
Proof.
  intros P F. pose proof (find_handler_name _ _ _ F) as Hname. simpl in Hname.
  simpl. rewrite P. unfold find_handler in *. simpl. rewrite find_map_inv.
  2:{ intros x. unfold snap_one. destruct (name_is n x && unstarted x); reflexivity. }
  rewrite F. simpl. unfold snap_one, name_is. simpl. now rewrite Hname, N.eqb_refl.
Qed.

Lemma mws_step st o : mws (step st o) = mws st ++ regs_of [o].
Proof.
  destruct o as [h|id app|hn id app|dd ff|dd ff| | |pn|sn|dl]; simpl; rewrite ?app_nil_r; try reflexivity.
  - now destruct (find_handler (h_name h) st).
  - destruct (first_unstarted st); [|reflexivity].
    destruct (first_failing _ (rev _)); [reflexivity|]. now destruct (first_failing _ (subdecs _)).
  - destruct (first_unstarted st); [|reflexivity].
    destruct (first_failing _ (rev _)); [reflexivity|]. now destruct (first_failing _ (subdecs _)).
  - now destruct (pending_of st pn).
  - now destruct (find_handler sn st) as [[c [s|]]|].
Qed.
Lemma mws_exec ops : forall st, mws (exec st ops) = mws st ++ regs_of ops.
Proof.
  induction ops as [|o ops IH]; intros st; [simpl; now rewrite app_nil_r|].
  change (exec st (o :: ops)) with (exec (step st o) ops). rewrite IH, mws_step.
  change (o :: ops) with ([o] ++ ops). unfold regs_of. rewrite flat_map_app. now rewrite app_assoc.
Qed.

Lemma frozen_exec post : forall st n h s,
  find_handler n st = Some (HS h (Some s)) -> Forall (fun o => o <> OStop n) post ->
  find_handler n (exec st post) = Some (HS h (Some s)).
Proof.
  induction post as [|o post IH]; intros st n h s F Hp; [assumption|]. inversion Hp; subst. simpl.
  apply IH; [|assumption]. now apply started_frozen.
Qed.

(** THE THEOREM.  Handler n was started by a RunHandlers (its decorator lists [decs] are frozen) and its
    goroutine has not yet copied r.middlewares.  Whatever happens before the copy ([mid]: registrations,
    other starts, stops, failing attempts, other handlers' copies) and after it ([post], short of its own
    Stop): its chain is built from exactly the registrations made BEFORE the copy — those of [mid]
    included, those of [post] excluded —, in order. *)
Theorem snapshot_linearisation mid : forall st n h decs post,
  pending_of st n = Some decs -> find_handler n st = Some (HS h None) ->
  Forall (fun o => o <> OSnap n) mid -> Forall (fun o => o <> OStop n) post ->
  find_handler n (exec st (mid ++ OSnap n :: post)) =
  Some (HS h (Some (ST (mws st ++ regs_of mid) (fst decs) (snd decs)))).
Proof.
  induction mid as [|o mid IH]; intros st n h decs post P F Hm Hp.
  - change (exec st ([] ++ OSnap n :: post)) with (exec (step st (OSnap n)) post).
    unfold regs_of. simpl. rewrite app_nil_r. apply frozen_exec; [|assumption]. now apply snap_takes.
  - inversion Hm as [|? ? Ho Hm']; subst.
    destruct (pending_kept st o n h decs P F Ho) as [P' F'].
    change (exec st ((o :: mid) ++ OSnap n :: post)) with (exec (step st o) (mid ++ OSnap n :: post)).
    rewrite (IH (step st o) n h decs post P' F' Hm' Hp), mws_step.
    change (o :: mid) with ([o] ++ mid). unfold regs_of. rewrite flat_map_app. now rewrite app_assoc.
Qed.

(** how a handler gets there: a RunHandlers in which no constructor fails leaves every waiting handler
    pending with the decorator lists of that moment *)
Lemma find_map_filter_first st (l : list hstate) n hs :
  NoDup (map hname l) -> In hs l -> hname hs = n -> waiting st hs = true ->
  find (fun p => N.eqb (fst p) n)
       (map (fun hs => (h_name (hs_cfg hs), frozen_decs st hs)) (filter (waiting st) l))
  = Some (n, frozen_decs st hs).
Proof.
  induction l as [|a l IH]; simpl; [tauto|]. intros Hn Hin Hname Hw. inversion Hn as [|? ? Ha Hl]; subst.
  destruct Hin as [->|Hin].
  - rewrite Hw. simpl. unfold hname. now rewrite N.eqb_refl.
  - destruct (waiting st a); simpl; [|now apply IH].
    destruct (N.eqb (h_name (hs_cfg a)) (hname hs)) eqn:E; [|now apply IH].
    apply N.eqb_eq in E. exfalso. apply Ha. fold (hname a) in E. rewrite E. now apply in_map.
Qed.

Lemma find_app_none {A} (f : A -> bool) l1 l2 : find f l1 = None -> find f (l1 ++ l2) = find f l2.
Proof. induction l1 as [|a l1 IH]; simpl; [reflexivity|]. destruct (f a); [discriminate|assumption]. Qed.

Theorem async_start_pending st hs :
  NoDup (names st) -> In hs (handlers st) -> waiting st hs = true ->
  first_failing st (rev (pubdecs st)) = None -> first_failing st (subdecs st) = None ->
  pending_of (step st OStartAsync) (hname hs) = Some (frozen_decs st hs)
  /\ find_handler (hname hs) (step st OStartAsync) = Some hs
  /\ mws (step st OStartAsync) = mws st.
Proof.
  intros Hn Hin Hw H1 H2. simpl.
  destruct (first_unstarted st) eqn:Fu.
  2:{ unfold first_unstarted in Fu. apply (find_none _ _ Fu) in Hin. congruence. }
  rewrite H1, H2. simpl. split; [|split; [|reflexivity]].
  - unfold pending_of. simpl.
    assert (Hnp : find (fun p => N.eqb (fst p) (hname hs)) (pending st) = None).
    { unfold waiting, is_pending, pending_of in Hw. apply andb_true_iff in Hw as [_ Hw]. fold (hname hs) in Hw.
      destruct (find (fun p => N.eqb (fst p) (hname hs)) (pending st)); [discriminate|reflexivity]. }
    rewrite (find_app_none _ _ _ Hnp). now rewrite (find_map_filter_first st (handlers st) (hname hs) hs Hn Hin eq_refl Hw).
  - now apply find_in_nodup.
Qed.

(** the synchronous [OStart] of the sequential programs = an asynchronous start whose copy follows at once *)
Theorem start_is_async_then_snap st hs :
  NoDup (names st) -> In hs (handlers st) -> waiting st hs = true ->
  first_failing st (rev (pubdecs st)) = None -> first_failing st (subdecs st) = None ->
  find_handler (hname hs) (step (step st OStartAsync) (OSnap (hname hs))) = find_handler (hname hs) (step st OStart).
Proof.
  intros Hn Hin Hw H1 H2.
  destruct (async_start_pending st hs Hn Hin Hw H1 H2) as (P & F & M).
  assert (Hs : hs_started hs = None).
  { unfold waiting, unstarted in Hw. destruct (hs_started hs); [discriminate|reflexivity]. }
  destruct hs as [c s0]. simpl in Hs. subst s0.
  rewrite (snap_takes _ _ _ _ P F), M. simpl.
  destruct (first_unstarted st) eqn:Fu.
  2:{ unfold first_unstarted in Fu. apply (find_none _ _ Fu) in Hin. congruence. }
  rewrite H1, H2. unfold find_handler. simpl. rewrite find_map_inv.
  2:{ intros x. unfold name_is, start_one. now destruct (waiting st x). }
  pose proof (find_in_nodup _ _ Hn Hin) as F0. rewrite F0. simpl. unfold start_one. now rewrite Hw.
Qed.

(** * Round "proofs": for ALL programs (Stop, re-added names, failing constructors, asynchronous starts)
    what a started handler holds is the registrations of a PREFIX of the program *)
Definition is_prefix {A} (p l : list A) : Prop := exists suf, l = p ++ suf.
Lemma is_prefix_refl {A} (l : list A) : is_prefix l l.
Proof. exists []. now rewrite app_nil_r. Qed.
Lemma is_prefix_snoc {A} (p l : list A) x : is_prefix p l -> is_prefix p (l ++ [x]).
Proof. intros [suf ->]. exists (suf ++ [x]). now rewrite app_assoc. Qed.

Definition holds_prefix (ops : list op) (hs : hstate) : Prop :=
  In (OAddHandler (hs_cfg hs)) ops /\
  match hs_started hs with
  | None => True
  | Some s => exists pre0 o0 pre1 o1, is_prefix pre0 pre1 /\ is_prefix (pre0 ++ [o0]) ops /\ is_prefix (pre1 ++ [o1]) ops
                /\ (o0 = OStart \/ o0 = OStartAsync) /\ (o1 = OStart \/ o1 = OSnap (h_name (hs_cfg hs)))
                /\ s_chain s = regs_of pre1 /\ s_pubdecs s = pdecs_of pre0 /\ s_subdecs s = sdecs_of pre0
  end.
Definition pending_prefix (ops : list op) (p : N * (list N * list N)) : Prop :=
  exists pre0, is_prefix (pre0 ++ [OStartAsync]) ops /\ snd p = (pdecs_of pre0, sdecs_of pre0).

Record pinv (ops : list op) (st : rstate) : Prop := {
  pi_h : Forall (holds_prefix ops) (handlers st);
  pi_p : Forall (pending_prefix ops) (pending st);
  pi_m : mws st = regs_of ops;
  pi_pd : pubdecs st = pdecs_of ops;
  pi_sd : subdecs st = sdecs_of ops;
  pi_r : residue st = [] }.

Lemma holds_prefix_snoc ops o hs : holds_prefix ops hs -> holds_prefix (ops ++ [o]) hs.
Proof.
  intros [Hin H]. split; [apply in_or_app; now left|]. destruct (hs_started hs); [|exact I].
  destruct H as (p0 & o0 & p1 & o1 & H0 & H1 & H1' & H2). exists p0, o0, p1, o1.
  split; [assumption|]. split; [now apply is_prefix_snoc|]. split; [now apply is_prefix_snoc|assumption].
Qed.
Lemma pending_prefix_snoc ops o p : pending_prefix ops p -> pending_prefix (ops ++ [o]) p.
Proof. intros (p0 & H0 & H1). exists p0. split; [now apply is_prefix_snoc|assumption]. Qed.

Lemma pinv_step ops st o : pinv ops st -> pinv (ops ++ [o]) (step st o).
Proof.
  intros [Hh Hp Hm Hpd Hsd Hr].
  assert (Hh' : Forall (holds_prefix (ops ++ [o])) (handlers st)).
  { eapply Forall_impl; [|exact Hh]. intros a. apply holds_prefix_snoc. }
  assert (Hp' : Forall (pending_prefix (ops ++ [o])) (pending st)).
  { eapply Forall_impl; [|exact Hp]. intros a. apply pending_prefix_snoc. }
  assert (Er : forall o', regs_of (ops ++ [o']) = regs_of ops ++ regs_of [o']) by (intros; apply flat_map_app).
  assert (Epd : forall o', pdecs_of (ops ++ [o']) = pdecs_of ops ++ pdecs_of [o']) by (intros; apply flat_map_app).
  assert (Esd : forall o', sdecs_of (ops ++ [o']) = sdecs_of ops ++ sdecs_of [o']) by (intros; apply flat_map_app).
  assert (Hsame : forall o', regs_of [o'] = [] -> pdecs_of [o'] = [] -> sdecs_of [o'] = [] ->
             pinv (ops ++ [o']) st -> True) by (intros; exact I).
  assert (Hkeep : regs_of [o] = [] -> pdecs_of [o] = [] -> sdecs_of [o] = [] ->
                  forall pf, pinv (ops ++ [o]) (RS (handlers st) (mws st) (pubdecs st) (subdecs st) pf (residue st) (pending st))).
  { intros E1 E2 E3 pf. split; simpl; try assumption.
    - now rewrite Er, E1, app_nil_r. - now rewrite Epd, E2, app_nil_r. - now rewrite Esd, E3, app_nil_r. }
  assert (Hst : regs_of [o] = [] -> pdecs_of [o] = [] -> sdecs_of [o] = [] -> pinv (ops ++ [o]) st).
  { intros E1 E2 E3. destruct st. apply (Hkeep E1 E2 E3). }
  destruct o as [h|id app|hn id app|dd ff|dd ff| | |pn|sn|dl]; simpl.
  - destruct (find_handler (h_name h) st); [now apply Hst|].
    split; simpl; try assumption; [|now rewrite Er, app_nil_r|now rewrite Epd, app_nil_r|now rewrite Esd, app_nil_r].
    apply Forall_app. split; [assumption|]. constructor; [|constructor]. split; [|exact I].
    apply in_or_app. right. now left.
  - split; simpl; try assumption; [now rewrite Er, Hm|now rewrite Epd, app_nil_r|now rewrite Esd, app_nil_r].
  - split; simpl; try assumption; [now rewrite Er, Hm|now rewrite Epd, app_nil_r|now rewrite Esd, app_nil_r].
  - split; simpl; try assumption; [now rewrite Er, app_nil_r|now rewrite Epd, Hpd|now rewrite Esd, app_nil_r].
  - split; simpl; try assumption; [now rewrite Er, app_nil_r|now rewrite Epd, app_nil_r|now rewrite Esd, Hsd].
  - (* Start *)
    destruct (first_unstarted st); [|now apply Hst].
    destruct (first_failing st (rev (pubdecs st))); [now apply Hkeep|].
    destruct (first_failing st (subdecs st)); [now apply Hkeep|].
    split; simpl; try assumption; try reflexivity;
      [|now rewrite Er, app_nil_r|now rewrite Epd, app_nil_r|now rewrite Esd, app_nil_r].
    apply Forall_forall. intros x Hx. apply in_map_iff in Hx as (hs & <- & Hin).
    rewrite Forall_forall in Hh'. specialize (Hh' hs Hin). unfold start_one.
    destruct (waiting st hs); [|assumption]. destruct Hh' as [Hadd _]. split; [exact Hadd|]. simpl.
    exists ops, OStart, ops, OStart. unfold residue_of. rewrite Hr. simpl. rewrite app_nil_r.
    repeat split; try apply is_prefix_refl; try assumption; now left.
  - (* StartAsync *)
    destruct (first_unstarted st); [|now apply Hst].
    destruct (first_failing st (rev (pubdecs st))); [now apply Hkeep|].
    destruct (first_failing st (subdecs st)); [now apply Hkeep|].
    split; simpl; try assumption; try reflexivity;
      [|now rewrite Er, app_nil_r|now rewrite Epd, app_nil_r|now rewrite Esd, app_nil_r].
    apply Forall_app. split; [assumption|]. apply Forall_forall. intros x Hx.
    apply in_map_iff in Hx as (hs & <- & _). exists ops. split; [apply is_prefix_refl|].
    simpl. unfold frozen_decs, residue_of. rewrite Hr. simpl. now rewrite app_nil_r, Hpd, Hsd.
  - (* Snap *)
    destruct (pending_of st pn) as [decs|] eqn:P; [|now apply Hst].
    assert (Hd : exists pre0, is_prefix (pre0 ++ [OStartAsync]) ops /\ decs = (pdecs_of pre0, sdecs_of pre0)).
    { unfold pending_of in P. destruct (find (fun p => N.eqb (fst p) pn) (pending st)) eqn:F; [|discriminate].
      injection P as <-. apply find_some in F as [Hin _]. rewrite Forall_forall in Hp. now apply Hp. }
    destruct Hd as (pre0 & Hpre0 & ->).
    split; simpl; try assumption; [| |now rewrite Er, app_nil_r|now rewrite Epd, app_nil_r|now rewrite Esd, app_nil_r].
    + apply Forall_forall. intros x Hx. apply in_map_iff in Hx as (hs & <- & Hin).
      rewrite Forall_forall in Hh'. specialize (Hh' hs Hin). unfold snap_one.
      destruct (name_is pn hs && unstarted hs) eqn:En; [|assumption]. destruct Hh' as [Hadd _]. split; [exact Hadd|]. simpl.
      apply andb_true_iff in En as [En _]. apply N.eqb_eq in En.
      exists pre0, OStartAsync, ops, (OSnap pn). rewrite En.
      repeat split; try assumption; try reflexivity; try (now right); try apply is_prefix_refl.
      * destruct Hpre0 as [suf ->]. exists ([OStartAsync] ++ suf). now rewrite <- app_assoc.
      * now apply is_prefix_snoc.
    + rewrite Forall_forall in *. intros x Hx. apply filter_In in Hx as [Hx _]. now apply Hp'.
  - (* Stop *)
    destruct (find_handler sn st) as [[c [s|]]|]; try (now apply Hst).
    split; simpl; try assumption; [|now rewrite Er, app_nil_r|now rewrite Epd, app_nil_r|now rewrite Esd, app_nil_r].
    rewrite Forall_forall in *. intros x Hx. apply filter_In in Hx as [Hx _]. now apply Hh'.
  - now apply Hst.
Qed.

Theorem pinv_all ops : pinv ops (exec rinit ops).
Proof.
  induction ops as [|o ops IH] using rev_ind.
  - split; try reflexivity; constructor.
  - rewrite exec_snoc. now apply pinv_step.
Qed.

(** exported form *)
Theorem started_holds_prefix ops n h s :
  find_handler n (exec rinit ops) = Some (HS h (Some s)) ->
  In (OAddHandler h) ops /\
  exists pre0 o0 pre1 o1, is_prefix pre0 pre1 /\ is_prefix (pre0 ++ [o0]) ops /\ is_prefix (pre1 ++ [o1]) ops
    /\ (o0 = OStart \/ o0 = OStartAsync) /\ (o1 = OStart \/ o1 = OSnap (h_name h))
    /\ s_chain s = regs_of pre1 /\ s_pubdecs s = pdecs_of pre0 /\ s_subdecs s = sdecs_of pre0.
Proof.
  intros F. destruct (pinv_all ops) as [Hh _ _ _ _ _]. apply find_some in F as [Hin _].
  rewrite Forall_forall in Hh. exact (Hh _ Hin).
Qed.
Theorem decorators_all ops :
  pubdecs (exec rinit ops) = pdecs_of ops /\ subdecs (exec rinit ops) = sdecs_of ops.
Proof. destruct (pinv_all ops) as [_ _ _ H1 H2 _]. now split. Qed.

(** * Round "proofs 2": a nil publisher is replaced by the no-publisher stand-in: nothing is called on nil *)
Theorem nil_publisher_never_closed h s : publisher_close_panics false h s = false.
Proof. unfold publisher_close_panics. destruct (h_pub h); try reflexivity. now destruct (s_pubdecs s). Qed.
Lemma nil_publisher_pinned_refuted :
  exists h s, publisher_close_panics true h s = true.
Proof. exists (HC 12 1 7 22 PNil 33 3), (ST [] [50%N] []). reflexivity. Qed.
(** a handler with a nil publisher behaves, message by message, like one added with AddNoPublisherHandler
    whose function may return messages: decorators see the batch, nothing is published, Nack *)
Theorem nil_publisher_trace h s d x l : h_pub h = PNil -> chain_outcome h s d = Ret (x :: l) ->
  publish_calls (dispatch h s d) = [] /\ settles (dispatch h s d) = [false].
Proof.
  intros Hp Ho. apply (c08_no_publisher_output_nacks h s d x l); [|assumption]. intros id ty. rewrite Hp. discriminate.
Qed.
