(** Proofs about Router/Wiring.v against Router/WiringSpec.v (C08, C09). *)
From WM Require Import Base.Prelude Message.Model Message.Proofs Handler.RouterHandle Handler.RouterProofs
  Router.Wiring Router.WiringSpec.

(** * Part 1: the loops of handler.run / decorateHandler* compute the declarative trace *)

(** subscriber decorators: forward loop, for ALL decorator lists *)
Lemma fold_sub_gen decs : forall (s : sfun) c,
  fold_left (fun s d => sdec_sem d s) decs s c =
  (fst (s c) ++ map (fun x => ESubDec x (snd (s c))) decs, snd (s c)).
Proof.
  induction decs as [|d decs IH]; intros s c; simpl.
  - rewrite app_nil_r. now destruct (s c).
  - rewrite IH. unfold sdec_sem. destruct (s c) as [tr c']. simpl.
    now rewrite <- app_assoc.
Qed.

Lemma decorate_sub_spec h decs c :
  decorate_sub h decs c = (map (fun x => ESubDec x (overlay c h)) decs, overlay c h).
Proof. unfold decorate_sub. rewrite fold_sub_gen. reflexivity. Qed.

(** publisher decorators: reverse loop, for ALL decorator lists *)
Lemma decorate_pub_spec decs p t outs :
  decorate_pub decs p t outs =
  (map (fun x => EPubDec x t (map fst outs)) decs ++ fst (p t outs), snd (p t outs)).
Proof.
  induction decs as [|d decs IH]; simpl.
  - now destruct (p t outs).
  - unfold pdec_sem at 1. fold (decorate_pub decs p). rewrite IH. reflexivity.
Qed.

(** the wrapping loop, for ALL snapshots: exactly the effective middlewares, earliest outermost *)
Lemma exits_add_apps ids apps o : exits ids (add_apps apps o) = exits ids o.
Proof. now destruct o. Qed.

Lemma build_spec snap n (f : hfun) c :
  let eff := effective n snap in
  build snap n f c =
  (map EEnter (map r_id eff) ++ fst (f c) ++ exits (map r_id eff) (snd (f c)),
   add_apps (flat_map app_of (rev eff)) (snd (f c))).
Proof.
  induction snap as [|r snap IH]; simpl.
  - destruct (f c) as [tf o]. simpl. destruct o; simpl; now rewrite ?app_nil_r.
  - destruct (applies n r) eqn:Ha; [|exact IH].
    simpl in IH. unfold mw_sem. fold (build snap n f). rewrite IH. clear IH.
    set (eff := effective n snap). destruct (f c) as [tf o]. simpl.
    rewrite flat_map_app. simpl. rewrite app_nil_r.
    destruct o as [outs|outs|]; simpl.
    + rewrite map_app. simpl. unfold app_of. now rewrite <- !app_assoc.
    + rewrite map_app. simpl. now rewrite <- !app_assoc.
    + reflexivity.
Qed.

Lemma map_fst_pair {A B} (g : A -> B) l : map fst (map (fun m => (m, g m)) l) = l.
Proof. induction l; simpl; congruence. Qed.

Theorem dispatch_spec h s d : dispatch h s d = spec_trace h s d.
Proof.
  unfold dispatch, spec_trace. rewrite decorate_sub_spec.
  pose proof (build_spec (s_chain s) (h_name h)
                (fun c => ([EFn (h_fn h) c], fn_outcome h (d_out d))) (overlay (d_ctx d) h)) as Hb.
  simpl in Hb. rewrite Hb. clear Hb. unfold chain_outcome.
  set (eff := effective (h_name h) (s_chain s)).
  set (cin := overlay (d_ctx d) h).
  destruct (add_apps (flat_map app_of (rev eff)) (fn_outcome h (d_out d))) as [outs|outs|] eqn:Ho.
  - rewrite <- (exits_add_apps _ (flat_map app_of (rev eff))), Ho.
    destruct outs as [|x l].
    + simpl. now rewrite <- !app_assoc.
    + unfold publish_outs.
      destruct (h_pub h) as [id ty|?|?] eqn:Hp.
      * rewrite decorate_pub_spec, map_fst_pair. unfold base_pub. rewrite Hp. simpl.
        destruct (d_pb d); simpl; now rewrite <- !app_assoc.
      * rewrite decorate_pub_spec, map_fst_pair. unfold base_pub. rewrite Hp. simpl.
        rewrite app_nil_r. now rewrite <- !app_assoc.
      * destruct (s_pubdecs s) as [|pd pds] eqn:Hd.
        -- simpl. now rewrite <- !app_assoc.
        -- rewrite decorate_pub_spec, map_fst_pair. unfold base_pub. rewrite Hp. simpl.
           rewrite app_nil_r. now rewrite <- !app_assoc.
  - rewrite <- (exits_add_apps _ (flat_map app_of (rev eff))), Ho. now rewrite <- !app_assoc.
  - rewrite <- (exits_add_apps _ (flat_map app_of (rev eff))), Ho. now rewrite <- !app_assoc.
Qed.

(** * Part 2: the registration state, for ALL programs *)

Lemma exec_snoc st a o : exec st (a ++ [o]) = step (exec st a) o.
Proof. unfold exec. now rewrite fold_left_app. Qed.

Lemma find_snoc {A} (f : A -> bool) l x :
  find f (l ++ [x]) = match find f l with Some y => Some y | None => if f x then Some x else None end.
Proof. induction l as [|a l IH]; simpl; [reflexivity|]. now destruct (f a). Qed.

Lemma existsb_find {A} (f : A -> bool) l :
  existsb f l = match find f l with Some _ => true | None => false end.
Proof. induction l as [|a l IH]; simpl; [reflexivity|]. now destruct (f a). Qed.

Lemma find_map_inv {A} (f : A -> bool) (g : A -> A) l :
  (forall x, f (g x) = f x) -> find f (map g l) = option_map g (find f l).
Proof. intros H. induction l as [|a l IH]; simpl; [reflexivity|]. rewrite H. now destruct (f a). Qed.

Lemma find_is_add n l x : find (is_add n) l = Some x -> exists h, x = OAddHandler h /\ N.eqb (h_name h) n = true.
Proof. intros F. apply find_some in F as [_ F]. destruct x; simpl in F; try discriminate. eauto. Qed.

Lemma spec_cfg_snoc n l o :
  spec_cfg n (l ++ [o]) =
  match spec_cfg n l with
  | Some h => Some h
  | None => match o with OAddHandler h => if N.eqb (h_name h) n then Some h else None | _ => None end
  end.
Proof.
  unfold spec_cfg. rewrite find_snoc. destruct (find (is_add n) l) eqn:F.
  - apply find_is_add in F as (h & -> & _). reflexivity.
  - destruct o; simpl; try reflexivity. now destruct (N.eqb (h_name h) n).
Qed.

Lemma spec_cfg_existsb n l :
  existsb (is_add n) l = match spec_cfg n l with Some _ => true | None => false end.
Proof.
  rewrite existsb_find. unfold spec_cfg. destruct (find (is_add n) l) eqn:F; [|reflexivity].
  apply find_is_add in F as (h & -> & _). reflexivity.
Qed.

Lemma scan_snoc n : forall l a o,
  scan n a (l ++ [o]) =
  match scan n a l with
  | Some p => Some p
  | None => if is_start o && (a || existsb (is_add n) l) then Some l else None
  end.
Proof.
  induction l as [|x l IH]; intros a o; simpl.
  - rewrite orb_false_r. now destruct (is_start o && a).
  - destruct (is_start x && a); [reflexivity|]. rewrite IH.
    destruct (scan n (a || is_add n x) l); simpl; [reflexivity|].
    rewrite orb_assoc. now destruct (is_start o && (a || is_add n x || existsb (is_add n) l)).
Qed.

Lemma spec_started_snoc n l o :
  spec_started n (l ++ [o]) =
  match spec_started n l with
  | Some s => Some s
  | None => if is_start o && existsb (is_add n) l
            then Some (ST (regs_of l) (pdecs_of l) (sdecs_of l)) else None
  end.
Proof.
  unfold spec_started. rewrite scan_snoc. destruct (scan n false l); [reflexivity|]. simpl.
  now destruct (is_start o && existsb (is_add n) l).
Qed.

Lemma scan_not_added n l : existsb (is_add n) l = false -> scan n false l = None.
Proof.
  induction l as [|x l IH]; simpl; [reflexivity|]. intros H. apply orb_false_iff in H as [H1 H2].
  rewrite andb_false_r, H1. simpl. now rewrite IH.
Qed.

Lemma spec_started_not_added n l : spec_cfg n l = None -> spec_started n l = None.
Proof.
  intros H. unfold spec_started. rewrite scan_not_added; [reflexivity|].
  now rewrite spec_cfg_existsb, H.
Qed.

Definition hname (hs : hstate) : N := h_name (hs_cfg hs).
Definition names (st : rstate) : list N := map hname (handlers st).

Lemma find_none_not_in n l : find (name_is n) l = None -> ~ In n (map hname l).
Proof.
  induction l as [|a l IH]; simpl; [tauto|]. unfold name_is at 1. fold (hname a).
  destruct (N.eqb (hname a) n) eqn:E; [discriminate|]. intros F [H|H].
  - apply N.eqb_neq in E. contradiction.
  - now apply IH.
Qed.

Lemma find_in_nodup l hs : NoDup (map hname l) -> In hs l -> find (name_is (hname hs)) l = Some hs.
Proof.
  induction l as [|a l IH]; simpl; [tauto|]. intros Hn Hin. inversion Hn as [|? ? Hnot Hn']; subst.
  unfold name_is at 1. fold (hname a). destruct Hin as [->|Hin].
  - now rewrite N.eqb_refl.
  - destruct (N.eqb (hname a) (hname hs)) eqn:E.
    + apply N.eqb_eq in E. exfalso. apply Hnot. rewrite E. now apply in_map.
    + now apply IH.
Qed.

Lemma NoDup_app_one {A} (l : list A) x : NoDup l -> ~ In x l -> NoDup (l ++ [x]).
Proof.
  induction l as [|a l IH]; simpl; intros Hn Hx.
  - constructor; [intros []|constructor].
  - inversion Hn as [|? ? Ha Hl]; subst. constructor.
    + rewrite in_app_iff. simpl. intros [H|[H|[]]]; [now apply Ha|]. subst. apply Hx. now left.
    + apply IH; [assumption|]. intros H. apply Hx. now right.
Qed.

(** what the state machine holds after a program = what the declarative reading of the program says *)
Record inv (pre : list op) (st : rstate) : Prop := {
  inv_mws : mws st = regs_of pre;
  inv_pd : pubdecs st = pdecs_of pre;
  inv_sd : subdecs st = sdecs_of pre;
  inv_find : forall n, find_handler n st =
                       match spec_cfg n pre with
                       | Some h => Some (HS h (spec_started n pre))
                       | None => None end;
  inv_nodup : NoDup (names st) }.

Lemma inv_init : inv [] rinit.
Proof. split; try reflexivity. constructor. Qed.

Ltac snoc_simpl :=
  unfold regs_of, pdecs_of, sdecs_of; rewrite ?flat_map_app; simpl; rewrite ?app_nil_r.

Lemma inv_step pre st o : inv pre st -> inv (pre ++ [o]) (step st o).
Proof.
  intros [Hm Hp Hs Hf Hn].
  assert (Hsame : forall o', is_start o' = false -> (forall n, is_add n o' = false) ->
            forall n, match spec_cfg n (pre ++ [o']) with
                      | Some h => Some (HS h (spec_started n (pre ++ [o']))) | None => None end
                      = find_handler n st).
  { intros o' H1 H2 n. rewrite spec_cfg_snoc, spec_started_snoc, H1, Hf. simpl.
    destruct (spec_cfg n pre) eqn:E.
    - now destruct (spec_started n pre).
    - specialize (H2 n). destruct o'; simpl in H2; try reflexivity. now rewrite H2. }
  assert (Hr : forall o', regs_of (pre ++ [o']) = regs_of pre ++ regs_of [o']) by (intros; apply flat_map_app).
  assert (Hpd : forall o', pdecs_of (pre ++ [o']) = pdecs_of pre ++ pdecs_of [o']) by (intros; apply flat_map_app).
  assert (Hsd : forall o', sdecs_of (pre ++ [o']) = sdecs_of pre ++ sdecs_of [o']) by (intros; apply flat_map_app).
  destruct o as [h|id app|hn id app|dd|dd| |dl]; simpl.
  - (* AddHandler *)
    destruct (find_handler (h_name h) st) eqn:F.
    + split; simpl.
      * now rewrite Hr, app_nil_r.
      * now rewrite Hpd, app_nil_r.
      * now rewrite Hsd, app_nil_r.
      * intros n. rewrite spec_cfg_snoc, spec_started_snoc, Hf. simpl.
        destruct (spec_cfg n pre) eqn:E.
        -- now destruct (spec_started n pre).
        -- destruct (N.eqb (h_name h) n) eqn:En; [|reflexivity].
           apply N.eqb_eq in En. subst n. rewrite Hf, E in F. discriminate.
      * assumption.
    + split; simpl.
      * now rewrite Hr, app_nil_r.
      * now rewrite Hpd, app_nil_r.
      * now rewrite Hsd, app_nil_r.
      * intros n. unfold find_handler. simpl. rewrite find_snoc. fold (find_handler n st).
        rewrite spec_cfg_snoc, spec_started_snoc, Hf. simpl.
        destruct (spec_cfg n pre) eqn:E.
        -- now destruct (spec_started n pre).
        -- unfold name_is. simpl. destruct (N.eqb (h_name h) n); [|reflexivity].
           now rewrite (spec_started_not_added _ _ E).
      * unfold names. simpl. rewrite map_app. simpl.
        apply NoDup_app_one; [assumption|]. now apply find_none_not_in.
  - split; simpl; [now rewrite Hr, Hm | now rewrite Hpd, app_nil_r | now rewrite Hsd, app_nil_r | | assumption].
    intros n. symmetry. now apply Hsame.
  - split; simpl; [now rewrite Hr, Hm | now rewrite Hpd, app_nil_r | now rewrite Hsd, app_nil_r | | assumption].
    intros n. symmetry. now apply Hsame.
  - split; simpl; [now rewrite Hr, app_nil_r | now rewrite Hpd, Hp | now rewrite Hsd, app_nil_r | | assumption].
    intros n. symmetry. now apply Hsame.
  - split; simpl; [now rewrite Hr, app_nil_r | now rewrite Hpd, app_nil_r | now rewrite Hsd, Hs | | assumption].
    intros n. symmetry. now apply Hsame.
  - (* Start *)
    split; simpl; [now rewrite Hr, app_nil_r | now rewrite Hpd, app_nil_r | now rewrite Hsd, app_nil_r | | ].
    + intros n. unfold find_handler. simpl. rewrite find_map_inv.
      2:{ intros x. unfold name_is, start_one. now destruct (hs_started x). }
      fold (find_handler n st). rewrite Hf, spec_cfg_snoc, spec_started_snoc, spec_cfg_existsb. simpl.
      destruct (spec_cfg n pre) eqn:E; [|reflexivity]. simpl. unfold start_one. simpl.
      destruct (spec_started n pre); [reflexivity|]. now rewrite Hm, Hp, Hs.
    + unfold names. simpl. rewrite map_map.
      erewrite map_ext; [exact Hn|]. intros x. unfold hname, start_one. now destruct (hs_started x).
  - split; simpl; [now rewrite Hr, app_nil_r | now rewrite Hpd, app_nil_r | now rewrite Hsd, app_nil_r | | assumption].
    intros n. symmetry. now apply Hsame.
Qed.

Theorem exec_inv ops : inv ops (exec rinit ops).
Proof.
  induction ops as [|o ops IH] using rev_ind; [exact inv_init|].
  rewrite exec_snoc. now apply inv_step.
Qed.

(** * Part 3: every delivery of every program is accepted by the property acceptors *)

Lemma count_name_app n a b : count_name n (a ++ b) = count_name n a + count_name n b.
Proof. unfold count_name. now rewrite filter_app, app_length. Qed.

Definition one_copy (d : delivery) (hs : hstate) : list (N * list ev) :=
  match hs_started hs with
  | Some s => if receives d hs then [(hname hs, dispatch (hs_cfg hs) s d)] else []
  | None => [] end.

Lemma deliver_flat st d : deliver st d = flat_map (one_copy d) (handlers st).
Proof. reflexivity. Qed.

Lemma one_copy_other n d hs : N.eqb (hname hs) n = false -> count_name n (one_copy d hs) = 0.
Proof.
  intros H. unfold one_copy. destruct (hs_started hs); [|reflexivity].
  destruct (receives d hs); [|reflexivity]. unfold count_name. simpl. now rewrite H.
Qed.

Lemma count_not_in n d l : ~ In n (map hname l) -> count_name n (flat_map (one_copy d) l) = 0.
Proof.
  induction l as [|a l IH]; simpl; [reflexivity|]. intros H. rewrite count_name_app, IH by tauto.
  rewrite one_copy_other; [reflexivity|]. apply N.eqb_neq. tauto.
Qed.

Lemma count_deliver n d l : NoDup (map hname l) ->
  count_name n (flat_map (one_copy d) l) =
  match find (name_is n) l with Some hs => length (one_copy d hs) | None => 0 end.
Proof.
  induction l as [|a l IH]; simpl; [reflexivity|]. intros Hn. inversion Hn as [|? ? Ha Hl]; subst.
  rewrite count_name_app. unfold name_is at 1. fold (hname a).
  destruct (N.eqb (hname a) n) eqn:E.
  - apply N.eqb_eq in E. subst n. rewrite count_not_in by assumption. rewrite Nat.add_0_r.
    unfold one_copy. destruct (hs_started a); [|reflexivity]. destruct (receives d a); [|reflexivity].
    unfold count_name. simpl. now rewrite N.eqb_refl.
  - rewrite one_copy_other by assumption. now apply IH.
Qed.

Lemma deliver_ok (same : list ev -> list ev -> bool) (Hrefl : forall t, same t t = true) ops st d :
  inv ops st -> obs_ok same ops d (deliver st d) = true.
Proof.
  intros [_ _ _ Hf Hn]. unfold obs_ok. apply andb_true_iff. split.
  - apply forallb_forall. intros p Hp. rewrite deliver_flat in Hp. apply in_flat_map in Hp as (hs & Hin & Hp).
    unfold one_copy in Hp. destruct (hs_started hs) as [s|] eqn:Es; [|destruct Hp].
    destruct (receives d hs) eqn:Er; [|destruct Hp]. destruct Hp as [<-|[]]. simpl.
    pose proof (find_in_nodup _ _ Hn Hin) as F. fold (find_handler (hname hs) st) in F.
    rewrite Hf in F. unfold expected_for. remember (hname hs) as n eqn:En.
    destruct (spec_cfg n ops) as [h|]; [|discriminate]. injection F as F'.
    assert (F1 : hs_cfg hs = h) by now rewrite <- F'.
    assert (F2 : hs_started hs = spec_started n ops) by now rewrite <- F'.
    rewrite <- F2, Es. unfold receives in Er. rewrite Es, F1 in Er. rewrite Er, F1.
    now rewrite dispatch_spec.
  - apply forallb_forall. intros n _. apply Nat.eqb_eq. rewrite deliver_flat, count_deliver by assumption.
    fold (find_handler n st). rewrite Hf. unfold expected_for.
    destruct (spec_cfg n ops) as [h|]; [|reflexivity]. unfold one_copy, receives. simpl.
    destruct (spec_started n ops) as [s|]; [|reflexivity].
    now destruct (N.eqb (h_sub h) (d_sub d) && N.eqb (h_subtopic h) (d_topic d)).
Qed.

Lemma prog_ok_run (same : list ev -> list ev -> bool) (Hrefl : forall t, same t t = true) :
  forall ops pre, prog_ok same pre ops (run (exec rinit pre) ops) = true.
Proof.
  induction ops as [|o ops IH]; intros pre; [reflexivity|].
  destruct o as [h|id app|hn id app|dd|dd| |d]; cbn [run prog_ok]; try (rewrite <- exec_snoc; apply IH).
  rewrite (deliver_ok same Hrefl pre _ d (exec_inv pre)). cbn [andb].
  specialize (IH (pre ++ [ODeliver d])). now rewrite exec_snoc in IH.
Qed.

Lemma list_eqb_refl {A} (eqb : A -> A -> bool) : (forall x, eqb x x = true) -> forall l, list_eqb eqb l l = true.
Proof. intros H. induction l as [|x l IH]; simpl; [reflexivity|]. now rewrite H, IH. Qed.

Lemma ctx_eqb_refl c : ctx_eqb c c = true.
Proof. unfold ctx_eqb. now rewrite !N.eqb_refl. Qed.
Lemma ev_eqb_refl e : ev_eqb e e = true.
Proof.
  destruct e; simpl; rewrite ?N.eqb_refl, ?ctx_eqb_refl; try reflexivity.
  - apply list_eqb_refl, N.eqb_refl.
  - apply list_eqb_refl. intros [m c]. unfold omsg_eqb. simpl. now rewrite N.eqb_refl, ctx_eqb_refl.
  - now destruct ack.
Qed.
Lemma oev_eqb_refl e : oev_eqb e e = true.
Proof. destruct e; simpl; rewrite ?N.eqb_refl; reflexivity. Qed.

Theorem c08_model_accepted ops : c08_monitor ops (run rinit ops) = true.
Proof.
  apply (prog_ok_run c08_same) with (pre := []). intros t. apply list_eqb_refl, ev_eqb_refl.
Qed.
Theorem c09_model_accepted ops : c09_monitor ops (run rinit ops) = true.
Proof.
  apply (prog_ok_run c09_same) with (pre := []). intros t. apply list_eqb_refl, oev_eqb_refl.
Qed.
