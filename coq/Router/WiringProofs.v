(** Proofs about Router/Wiring.v against Router/WiringSpec.v (C08, C09). *)
From WM Require Import Base.Prelude Message.Model Message.Proofs Handler.RouterHandle Handler.RouterProofs
  Router.Wiring Router.WiringSpec.

(** * Part 1: the loops of handler.run / decorateHandler* compute the declarative trace *)

(** subscriber decorators: forward loop, for ALL decorator lists *)
Lemma fold_sub_gen decs : forall (s : sfun) c,
  fold_left (fun s d => sdec_sem d s) decs s c =
  (fst (s c) ++ map (fun x => ESubDec x (snd (s c))) decs, snd (s c)).
Proof.
  induction decs as [|d decs IH]; intros s c; simpl.
  - rewrite app_nil_r. now destruct (s c).
  - rewrite IH. unfold sdec_sem. destruct (s c) as [tr c']. simpl.
    now rewrite <- app_assoc.
Qed.

Lemma decorate_sub_spec h decs c :
  decorate_sub h decs c = (map (fun x => ESubDec x (overlay c h)) decs, overlay c h).
Proof. unfold decorate_sub. rewrite fold_sub_gen. reflexivity. Qed.

(** publisher decorators: reverse loop, for ALL decorator lists *)
Lemma decorate_pub_spec decs p t outs :
  decorate_pub decs p t outs =
  (map (fun x => EPubDec x t (map fst outs)) decs ++ fst (p t outs), snd (p t outs)).
Proof.
  induction decs as [|d decs IH]; simpl.
  - now destruct (p t outs).
  - unfold pdec_sem at 1. fold (decorate_pub decs p). rewrite IH. reflexivity.
Qed.

(** the wrapping loop, for ALL snapshots: exactly the effective middlewares, earliest outermost *)
Lemma exits_add_apps ids apps o : exits ids (add_apps apps o) = exits ids o.
Proof. now destruct o. Qed.

Lemma build_spec snap n (f : hfun) c :
  let eff := effective n snap in
  build snap n f c =
  (map EEnter (map r_id eff) ++ fst (f c) ++ exits (map r_id eff) (snd (f c)),
   add_apps (flat_map app_of (rev eff)) (snd (f c))).
Proof.
  induction snap as [|r snap IH]; simpl.
  - destruct (f c) as [tf o]. simpl. destruct o; simpl; now rewrite ?app_nil_r.
  - destruct (applies n r) eqn:Ha; [|exact IH].
    simpl in IH. unfold mw_sem. fold (build snap n f). rewrite IH. clear IH.
    set (eff := effective n snap). destruct (f c) as [tf o]. simpl.
    rewrite flat_map_app. simpl. rewrite app_nil_r.
    destruct o as [outs|outs|]; simpl.
    + rewrite map_app. simpl. unfold app_of. now rewrite <- !app_assoc.
    + rewrite map_app. simpl. now rewrite <- !app_assoc.
    + reflexivity.
Qed.

Lemma map_fst_pair {A B} (g : A -> B) l : map fst (map (fun m => (m, g m)) l) = l.
Proof. induction l; simpl; congruence. Qed.

Theorem dispatch_spec h s d : dispatch h s d = spec_trace h s d.
Proof.
  unfold dispatch, spec_trace. rewrite decorate_sub_spec.
  pose proof (build_spec (s_chain s) (h_name h)
                (fun c => ([EFn (h_fn h) c], fn_outcome h (d_out d))) (overlay (d_ctx d) h)) as Hb.
  simpl in Hb. rewrite Hb. clear Hb. unfold chain_outcome.
  set (eff := effective (h_name h) (s_chain s)).
  set (cin := overlay (d_ctx d) h).
  destruct (add_apps (flat_map app_of (rev eff)) (fn_outcome h (d_out d))) as [outs|outs|] eqn:Ho.
  - rewrite <- (exits_add_apps _ (flat_map app_of (rev eff))), Ho.
    destruct outs as [|x l].
    + simpl. now rewrite <- !app_assoc.
    + unfold publish_outs.
      destruct (h_pub h) as [id ty|?|?] eqn:Hp.
      * rewrite decorate_pub_spec, map_fst_pair. unfold base_pub. rewrite Hp. simpl.
        destruct (d_pb d); simpl; now rewrite <- !app_assoc.
      * rewrite decorate_pub_spec, map_fst_pair. unfold base_pub. rewrite Hp. simpl.
        rewrite app_nil_r. now rewrite <- !app_assoc.
      * destruct (s_pubdecs s) as [|pd pds] eqn:Hd.
        -- simpl. now rewrite <- !app_assoc.
        -- rewrite decorate_pub_spec, map_fst_pair. unfold base_pub. rewrite Hp. simpl.
           rewrite app_nil_r. now rewrite <- !app_assoc.
  - rewrite <- (exits_add_apps _ (flat_map app_of (rev eff))), Ho. now rewrite <- !app_assoc.
  - rewrite <- (exits_add_apps _ (flat_map app_of (rev eff))), Ho. now rewrite <- !app_assoc.
Qed.
