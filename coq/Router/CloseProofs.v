(** Invariants of the Router close protocol (Router/Close.v) over ALL schedules, any number of
    handlers, messages and Close callers.  Three groups of pointwise clauses, each preserved by
    every step:
      InvC  the closer protocol (closedLock ownership, the closed flag, the two channels, the
            remembered result, Run's tail)
      InvA  wait-group counters = number of goroutines they stand for, lock ownership, where a
            message is, channel/pump/loop relation
      InvW  what a finished waiter knows (needs fix5 for the running-handlers waiter)
      InvH  handleClose never finishes without closing the subscriber (needs fix6)
    No axioms. *)
From WM Require Import Base.Prelude Base.CountClose Router.Close.
From RecordUpdate Require Import RecordUpdate.

(** ** tactics *)
Ltac step_cases H :=
  unfold step in H;
  repeat match type of H with
  | context [match ?x with _ => _ end] => destruct x eqn:?; try discriminate
  end; inversion H; subst; clear H.

Ltac upd_all :=
  repeat match goal with
  | H : context [upd _ ?k _ ?k'] |- _ =>
      destruct (Nat.eq_dec k' k) as [->|?]; [rewrite ?upd_same in * | rewrite ?upd_other in * by assumption]
  | |- context [upd _ ?k _ ?k'] =>
      destruct (Nat.eq_dec k' k) as [->|?]; [rewrite ?upd_same in * | rewrite ?upd_other in * by assumption]
  end.

Ltac inst_with y :=
  repeat match goal with
  | H : forall (x : _), _ |- _ =>
      let T := type of (H y) in
      lazymatch goal with
      | _ : T |- _ => fail
      | _ => pose proof (H y)
      end
  end.
Ltac inst_all :=
  repeat match goal with
  | y : cid |- _ => progress (inst_with y)
  | y : hid |- _ => progress (inst_with y)
  | y : mid |- _ => progress (inst_with y)
  | y : nat |- _ => progress (inst_with y)
  | y : res |- _ => progress (inst_with y)
  end.

Ltac rew_pcs :=
  repeat match goal with
  | H : ?l = _ |- _ =>
      match l with
      | cp _ _ => idtac | lp _ _ => idtac | hc _ _ => idtac | pp _ _ => idtac | mp _ _ => idtac
      | closedLock _ => idtac | handlersLock _ => idtac | rp _ _ => idtac | rh_isclosed _ => idtac | runningLock _ => idtac | w1 _ => idtac | w2 _ => idtac | run _ => idtac
      | close_res _ => idtac | fix16 _ => idtac | fix5 _ => idtac | fix6 _ => idtac | fix12 _ => idtac
      | closed _ => idtac | closingCh _ => idtac | closedCh _ => idtac | ctx_done _ => idtac | early_cancel _ => idtac
      | out_closed _ _ => idtac | sub_open _ _ => idtac | hstop _ _ => idtac | sub_closing _ _ => idtac | dec_closing _ _ => idtac
      end;
      progress (rewrite H in * )
  end.
Ltac injs := repeat match goal with
  | H : Some _ = Some _ |- _ => injection H as H; try subst
  | H : OLoop _ = OLoop _ |- _ => injection H as H; try subst
  | H : HOCloser _ = HOCloser _ |- _ => injection H as H; try subst
  | H : HORh _ = HORh _ |- _ => injection H as H; try subst
  end.
Ltac fin := try solve [simpl in *; intuition (congruence || lia || discriminate)].
Ltac fin2 := try solve [injs; rew_pcs; simpl in *; injs; intuition (congruence || lia || discriminate)].

(* forward chaining: discharge premises that are trivially true, then normalise again *)
Ltac fwd :=
  repeat match goal with
  | H : ?A -> ?B |- _ =>
      let HA := fresh in
      assert (HA : A) by (simpl; first [reflexivity | assumption | congruence | lia]);
      specialize (H HA); clear HA
  end.
Ltac fin3 := try solve [injs; rew_pcs; simpl in *; fwd; injs; rew_pcs; simpl in *; fwd;
                        intuition (congruence || lia || discriminate)].

(** ** InvC: the closer protocol *)
Definition holds (p : cpc) : bool :=
  match p with CHWant | CLocked | CSignal | CWait | CClosedCh _ | CUnlock _ => true | _ => false end.
(** the program counters at which a Close call holds handlersLock, a RunHandlers call holds it *)
Definition holdsH (p : cpc) : bool :=
  match p with CLocked | CSignal | CWait | CClosedCh _ | CUnlock _ => true | _ => false end.
Definition rh_holds (p : rhpc) : bool := match p with RHLocked | RHCWant | RHChecked => true | _ => false end.
Definition deciding (p : cpc) : bool := match p with CSignal | CWait => true | _ => false end.
(** what a Close call may return given the remembered result *)
Definition nil_ok (s : state) : bool :=
  match close_res s with Some RNil => true | Some RErr => negb (fix12 s) | None => false end.

Record InvC (s : state) : Prop := {
  c_lock1 : forall c, closedLock s = Some c -> holds (cp s c) = true;
  c_lock2 : forall c, holds (cp s c) = true -> closedLock s = Some c;
  c_hl1 : forall c, handlersLock s = Some (HOCloser c) -> holdsH (cp s c) = true;
  c_hl2 : forall c, holdsH (cp s c) = true -> handlersLock s = Some (HOCloser c);
  c_hl3 : forall r : nat, handlersLock s = Some (HORh r) -> rh_holds (rp s r) = true;
  c_hl4 : forall r : nat, rh_holds (rp s r) = true -> handlersLock s = Some (HORh r);
  c_closed0 : closed s = false -> closingCh s = false;
  c_closing0 : closingCh s = false -> closedCh s = false /\ close_res s = None /\ w1 s = W1None /\ w2 s = W2None;
  c_sig : forall c, cp s c = CSignal -> closed s = true /\ closingCh s = false;
  c_wait : forall c, cp s c = CWait -> closingCh s = true /\ closedCh s = false /\ close_res s = None;
  c_cch : forall c r, cp s c = CClosedCh r -> closingCh s = true /\ closedCh s = false /\ close_res s = Some r;
  c_res : close_res s = None -> closedCh s = false;
  c_pend : closed s = true -> close_res s = None ->
           match closedLock s with Some c => deciding (cp s c) = true | None => False end;
  c_resnil : close_res s = Some RNil -> w1 s = W1Done /\ w2 s = W2Done;
  c_ret1 : forall c, cp s c = CUnlock RNil -> nil_ok s = true;
  c_ret2 : forall c, cp s c = CRet RNil -> nil_ok s = true;
  c_run1 : run s <> RWaitClosing -> closingCh s = true;
  c_run2 : run s = RDone -> closedCh s = true;
  c_np : panicked s = false -> True
}.

Lemma InvC_init_u n u hon f5 f6 f12 f16 : InvC (init_u n u hon f5 f6 f12 f16).
Proof. constructor; simpl; intros; try congruence; try discriminate; auto. Qed.
Lemma InvC_init n hon f5 f6 f12 : InvC (init n hon f5 f6 f12).
Proof. apply InvC_init_u. Qed.

Lemma InvC_step s l s' : InvC s -> step s l = Some s' -> InvC s'.
Proof.
  intros I H. destruct I. destruct l; step_cases H.
  all: constructor; unfold nil_ok in *; simpl; intros; upd_all; fin.
  all: inst_all; fin.
  all: try (destruct (closedLock s) eqn:?; fin; upd_all; inst_all; fin).
  all: fin2.
  all: try (destruct (close_res s) as [[|]|] eqn:?; fin2).
  all: fin3.
Qed.

(** ** InvA: counters, locks, locations *)
Definition is_locked (p : lpc) : bool := match p with LLocked _ => true | _ => false end.
Definition holds_msg (p : lpc) (m : mid) : bool :=
  match p with LGot m' | LLocked m' => Nat.eqb m m' | _ => false end.
Definition loop_past (p : lpc) : bool := match p with LPubClose | LWgDone | LEnd => true | _ => false end.
Definition pump_past (p : ppc) : bool := match p with PWgDone | PDone => true | _ => false end.
Definition w2_holds (p : w2pc) : bool := match p with W2Locked | W2Unlock => true | _ => false end.
Definition pub_done (p : lpc) : bool := match p with LWgDone | LEnd => true | _ => false end.

Record InvA (s : state) : Prop := {
  a_hwg : handlersWg s = cnt loop_alive (lp s) (nh s) + unstarted s;
  a_rwg : runningWg s = cnt in_progress (mp s) (nextm s);
  a_hb1 : forall h, nh s <= h -> lp s h = LNone /\ pp s h = PNone;
  a_hb2 : forall h, h < nh s -> lp s h <> LNone;
  a_mb : forall m, nextm s <= m -> mp s m = MNone;
  a_lk1 : forall h, runningLock s = Some (OLoop h) -> is_locked (lp s h) = true;
  a_lk2 : forall h, is_locked (lp s h) = true -> runningLock s = Some (OLoop h);
  a_lk3 : runningLock s = Some OWaiter -> w2_holds (w2 s) = true;
  a_lk4 : w2_holds (w2 s) = true -> runningLock s = Some OWaiter;
  a_loop1 : forall m h, mp s m = MLoop h -> holds_msg (lp s h) m = true;
  a_loop2 : forall h m, holds_msg (lp s h) m = true -> mp s m = MLoop h;
  a_pump : forall m h, mp s m = MPump h -> pp s h = PSend m;
  a_out1 : forall h, out_closed s h = true -> pump_past (pp s h) = true;
  a_out2 : forall h, pump_past (pp s h) = true -> out_closed s h = true;
  a_out3 : forall h, loop_past (lp s h) = true -> out_closed s h = true;
  a_pub : forall h, pub_done (lp s h) = true -> 1 <= pub_closes s h
}.

Lemma cnt_S_new {A} (P : A -> bool) f n v : P v = false -> cnt P (upd f n v) (S n) = cnt P f n.
Proof. intros H. simpl. rewrite upd_same, H. simpl. apply cnt_upd_out. lia. Qed.


Lemma cnt_init n k : k <= n -> cnt loop_alive (fun h => if Nat.ltb h n then LRecv else LNone) k = k.
Proof.
  induction k as [|k IH]; intros Hk; [reflexivity|]. simpl.
  destruct (Nat.ltb_spec k n); [|lia]. simpl. rewrite IH by lia. reflexivity.
Qed.

Lemma InvA_init_u n u hon f5 f6 f12 f16 : InvA (init_u n u hon f5 f6 f12 f16).
Proof.
  constructor; simpl; intros; try congruence; try discriminate; auto.
  - rewrite cnt_init by lia. reflexivity.
  - destruct (Nat.ltb_spec h n); [lia|]. auto.
  - destruct (Nat.ltb_spec h n); [congruence|lia].
  - destruct (Nat.ltb h n); discriminate.
  - destruct (Nat.ltb h n); discriminate.
  - destruct (Nat.ltb h n); discriminate.
  - destruct (Nat.ltb h n); discriminate.
  - destruct (Nat.ltb h n); discriminate.
Qed.
Lemma InvA_init n hon f5 f6 f12 : InvA (init n hon f5 f6 f12).
Proof. apply InvA_init_u. Qed.


Ltac eqbs := repeat match goal with
  | H : Nat.eqb _ _ = true |- _ => apply Nat.eqb_eq in H; try subst
  | H : context [Nat.eqb ?x ?x] |- _ => rewrite Nat.eqb_refl in H
  | |- context [Nat.eqb ?x ?x] => rewrite Nat.eqb_refl
  end.
Ltac fwd2 :=
  repeat match goal with
  | H : _ /\ _ |- _ => destruct H
  | H : ?A -> ?B |- _ =>
      let HA := fresh in
      assert (HA : A) by (simpl; first [reflexivity | assumption | congruence | lia]);
      specialize (H HA); clear HA
  end.
Ltac fin5 := try solve [injs; rew_pcs; simpl in *; eqbs; fwd2; injs; rew_pcs; simpl in *; eqbs; fwd2;
                        intuition (congruence || lia || discriminate)].
Ltac fin4 := try solve [injs; rew_pcs; simpl in *; eqbs; fwd; injs; rew_pcs; simpl in *; eqbs; fwd;
                        intuition (congruence || lia || discriminate)].
Ltac cnt_tac :=
  repeat first
  [ rewrite cnt_S_new by reflexivity
  | rewrite cnt_upd_same by (rew_pcs; reflexivity) ].

Local Opaque cnt.


Ltac lt_m Amb := match goal with |- ?m < nextm ?s =>
   let Hge := fresh in
   destruct (Nat.lt_ge_cases m (nextm s)) as [?|Hge]; [assumption| exfalso; apply Amb in Hge; rew_pcs; congruence] end.
Ltac lt_h Ahb1 := match goal with |- ?h < nh ?s =>
   let Hge := fresh in
   destruct (Nat.lt_ge_cases h (nh s)) as [?|Hge]; [assumption| exfalso; apply Ahb1 in Hge; destruct Hge; rew_pcs; congruence] end.


Record InvA' (s : state) : Prop := {
  a_base : InvA s;
  a_pump2 : forall h m, pp s h = PSend m -> mp s m = MPump h
}.


Ltac cnt_special Ahwg Arwg Ahb1 Amb Aloop2 :=
  try match goal with
    | Hl : lp ?s ?h = LLocked ?m |- S (runningWg ?s) = cnt _ (upd (mp ?s) ?m MSpawned) _ =>
        assert (mp s m = MLoop h) by (apply Aloop2; rewrite Hl; simpl; apply Nat.eqb_refl);
        rewrite (cnt_upd_inc in_progress (mp s) (nextm s) m MSpawned);
        [congruence | lt_m Amb | rew_pcs; reflexivity | reflexivity]
    | Hl : lp ?s ?h = LWgDone |- Nat.pred (handlersWg ?s) = cnt _ (upd (lp ?s) ?h LEnd) _ + _ =>
        let Hd := fresh in
        pose proof (cnt_upd_dec loop_alive (lp s) (nh s) h LEnd) as Hd;
        rewrite Hl in Hd; simpl in Hd; rewrite Ahwg; rewrite <- Hd; [reflexivity | lt_h Ahb1 | reflexivity | reflexivity]
    | Hm : mp ?s ?m = MSettled |- Nat.pred (runningWg ?s) = cnt _ (upd (mp ?s) ?m MDone) _ =>
        let Hd := fresh in
        pose proof (cnt_upd_dec in_progress (mp s) (nextm s) m MDone) as Hd;
        rewrite Hm in Hd; simpl in Hd; rewrite Arwg; rewrite <- Hd; [reflexivity | lt_m Amb | reflexivity | reflexivity]
    end.

Ltac invA_auto s IC I H :=
  destruct I as [[Ahwg Arwg Ahb1 Ahb2 Amb Alk1 Alk2 Alk3 Alk4 Aloop1 Aloop2 Apump Aout1 Aout2 Aout3 Apub] Apump2];
  pose proof (Amb (nextm s)) as Amb';
  step_cases H;
  (constructor; [constructor|]); simpl; intros; try solve [auto]; cnt_tac;
  cnt_special Ahwg Arwg Ahb1 Amb Aloop2;
  upd_all; try solve [auto];
  (* the one goal on which the general finishers diverge is dispatched by its shape first (no time-outs anywhere) *)
  try (match goal with
       | Hl : lp ?s0 ?h = LLocked ?m, Hp : pp ?s0 ?h0 = PSend ?m |- _ = MPump ?h0 =>
           solve [exfalso; pose proof (Apump2 h0 m Hp);
                  assert (mp s0 m = MLoop h) by (apply Aloop2; rewrite Hl; simpl; apply Nat.eqb_refl); congruence]
       end);
  fin;
  inst_all; try (inst_with (nextm s)); fin; fin2; fin4.

Lemma InvA_LClose s c s' : InvC s -> InvA' s -> step s (LClose c) = Some s' -> InvA' s'.
Proof.
  intros IC I H.
  pose proof (c_sig s IC c) as Csig; pose proof (c_closing0 s IC) as Ccl.
  invA_auto s IC I H.
  all: try solve [ assert (Hc : closingCh s = false) by (apply Csig; first [reflexivity|assumption]);
                   destruct (Ccl Hc) as (_ & _ & _ & Hw2);
                   match goal with Hl : runningLock _ = Some OWaiter |- _ => apply Alk3 in Hl; rewrite Hw2 in Hl; discriminate end ].
Qed.

Lemma InvA_LDeliver s h s' : InvC s -> InvA' s -> step s (LDeliver h) = Some s' -> InvA' s'.
Proof.
  intros IC I H.
  invA_auto s IC I H.
  all: try match goal with
    | Hp : pp ?s ?h = PSend ?m |- runningWg ?s = cnt _ (upd (mp ?s) ?m (MLoop ?h)) _ =>
        rewrite cnt_upd_same; [assumption | rewrite (Apump2 h m Hp); reflexivity]
    end.
Qed.

Lemma InvA_LCall s c s' : InvC s -> InvA' s -> step s (LCall c) = Some s' -> InvA' s'.
Proof.
  intros IC I H. invA_auto s IC I H.
Qed.

Lemma InvA_LEnvCancel s  s' : InvC s -> InvA' s -> step s (LEnvCancel ) = Some s' -> InvA' s'.
Proof.
  intros IC I H. invA_auto s IC I H.
Qed.

Lemma InvA_LEmit s h s' : InvC s -> InvA' s -> step s (LEmit h) = Some s' -> InvA' s'.
Proof.
  intros IC I H. invA_auto s IC I H.
Qed.

Lemma InvA_LChanClose s h s' : InvC s -> InvA' s -> step s (LChanClose h) = Some s' -> InvA' s'.
Proof.
  intros IC I H. invA_auto s IC I H.
Qed.

Lemma InvA_LFinish s m s' : InvC s -> InvA' s -> step s (LFinish m) = Some s' -> InvA' s'.
Proof.
  intros IC I H. invA_auto s IC I H.
Qed.

Lemma InvA_LTimeout s c s' : InvC s -> InvA' s -> step s (LTimeout c) = Some s' -> InvA' s'.
Proof.
  intros IC I H. invA_auto s IC I H.
Qed.

Lemma InvA_LWaitDone s c s' : InvC s -> InvA' s -> step s (LWaitDone c) = Some s' -> InvA' s'.
Proof.
  intros IC I H. invA_auto s IC I H.
Qed.

Lemma InvA_LW1 s  s' : InvC s -> InvA' s -> step s (LW1 ) = Some s' -> InvA' s'.
Proof.
  intros IC I H. invA_auto s IC I H.
Qed.

Lemma InvA_LW2 s  s' : InvC s -> InvA' s -> step s (LW2 ) = Some s' -> InvA' s'.
Proof.
  intros IC I H. invA_auto s IC I H.
Qed.

Lemma InvA_LRun s  s' : InvC s -> InvA' s -> step s (LRun ) = Some s' -> InvA' s'.
Proof.
  intros IC I H. invA_auto s IC I H.
Qed.

Lemma InvA_LLoop s h s' : InvC s -> InvA' s -> step s (LLoop h) = Some s' -> InvA' s'.
Proof.
  intros IC I H. invA_auto s IC I H.
Qed.

Lemma InvA_LPump s h s' : InvC s -> InvA' s -> step s (LPump h) = Some s' -> InvA' s'.
Proof.
  intros IC I H. invA_auto s IC I H.
Qed.

Lemma InvA_LHcClosing s h s' : InvC s -> InvA' s -> step s (LHcClosing h) = Some s' -> InvA' s'.
Proof.
  intros IC I H. invA_auto s IC I H.
Qed.

Lemma InvA_LHcCtx s h s' : InvC s -> InvA' s -> step s (LHcCtx h) = Some s' -> InvA' s'.
Proof.
  intros IC I H. invA_auto s IC I H.
Qed.

Lemma InvA_LHc s h s' : InvC s -> InvA' s -> step s (LHc h) = Some s' -> InvA' s'.
Proof.
  intros IC I H. invA_auto s IC I H.
Qed.

Lemma InvA_LMsg s m s' : InvC s -> InvA' s -> step s (LMsg m) = Some s' -> InvA' s'.
Proof.
  intros IC I H. invA_auto s IC I H.
Qed.

Lemma InvA_LPumpDropCtx s h s' : InvC s -> InvA' s -> step s (LPumpDropCtx h) = Some s' -> InvA' s'.
Proof.
  intros IC I H.
  invA_auto s IC I H.
  all: try match goal with
    | Hp : pp ?s ?h = PSend ?m |- runningWg ?s = cnt _ (upd (mp ?s) ?m MDropped) _ =>
        rewrite cnt_upd_same; [assumption | rewrite (Apump2 h m Hp); reflexivity]
    end.
Qed.

Lemma InvA_LPumpDropClosing s h s' : InvC s -> InvA' s -> step s (LPumpDropClosing h) = Some s' -> InvA' s'.
Proof.
  intros IC I H.
  invA_auto s IC I H.
  all: try match goal with
    | Hp : pp ?s ?h = PSend ?m |- runningWg ?s = cnt _ (upd (mp ?s) ?m MDropped) _ =>
        rewrite cnt_upd_same; [assumption | rewrite (Apump2 h m Hp); reflexivity]
    end.
Qed.

Lemma InvA_LSubCloseRet s h s' : InvC s -> InvA' s -> step s (LSubCloseRet h) = Some s' -> InvA' s'.
Proof. intros IC I H. invA_auto s IC I H. Qed.

Lemma InvA_LRhCall s r s' : InvC s -> InvA' s -> step s (LRhCall r) = Some s' -> InvA' s'.
Proof. intros IC I H. invA_auto s IC I H. Qed.

Lemma InvA_LRh s r s' : InvC s -> InvA' s -> step s (LRh r) = Some s' -> InvA' s'.
Proof. intros IC I H. invA_auto s IC I H. Qed.

Lemma InvA_LFail s m s' : InvC s -> InvA' s -> step s (LFail m) = Some s' -> InvA' s'.
Proof. intros IC I H. invA_auto s IC I H. Qed.

Lemma InvA_LSubEnd s h s' : InvC s -> InvA' s -> step s (LSubEnd h) = Some s' -> InvA' s'.
Proof. intros IC I H. invA_auto s IC I H. Qed.

Lemma InvA'_init_u n u hon f5 f6 f12 f16 : InvA' (init_u n u hon f5 f6 f12 f16).
Proof.
  constructor; [apply InvA_init_u|]. simpl. intros h m. destruct (Nat.ltb h n); discriminate.
Qed.
Lemma InvA'_init n hon f5 f6 f12 : InvA' (init n hon f5 f6 f12).
Proof. apply InvA'_init_u. Qed.

Lemma InvA'_step s l s' : InvC s -> InvA' s -> step s l = Some s' -> InvA' s'.
Proof.
  intros IC I H. destruct l.
  - eapply InvA_LCall; eassumption.
  - eapply InvA_LEnvCancel; eassumption.
  - eapply InvA_LEmit; eassumption.
  - eapply InvA_LChanClose; eassumption.
  - eapply InvA_LSubEnd; eassumption.
  - eapply InvA_LFinish; eassumption.
  - eapply InvA_LFail; eassumption.
  - eapply InvA_LTimeout; eassumption.
  - eapply InvA_LRhCall; eassumption.
  - eapply InvA_LSubCloseRet; eassumption.
  - eapply InvA_LClose; eassumption.
  - eapply InvA_LWaitDone; eassumption.
  - eapply InvA_LRh; eassumption.
  - eapply InvA_LW1; eassumption.
  - eapply InvA_LW2; eassumption.
  - eapply InvA_LRun; eassumption.
  - eapply InvA_LLoop; eassumption.
  - eapply InvA_LDeliver; eassumption.
  - eapply InvA_LPump; eassumption.
  - eapply InvA_LPumpDropCtx; eassumption.
  - eapply InvA_LPumpDropClosing; eassumption.
  - eapply InvA_LHcClosing; eassumption.
  - eapply InvA_LHcCtx; eassumption.
  - eapply InvA_LHc; eassumption.
  - eapply InvA_LMsg; eassumption.
Qed.
