(** the acceptors of Corr/C08.v, Corr/C09.v accept every Router program the model runs *)
From WM Require Import Base.Prelude Message.Model Handler.RouterHandle Router.Wiring Router.WiringSpec
  Router.WiringProofs Router.Life Router.LifeProofs Corr.C08 Corr.C09.

Lemma obs_eqb_refl x : obs_eqb x x = true.
Proof. unfold obs_eqb. rewrite N.eqb_refl. simpl. apply list_eqb_refl, ev_eqb_refl. Qed.
Lemma perm_eqb_refl l : perm_eqb l l = true.
Proof. induction l as [|x l IH]; [reflexivity|]. simpl. now rewrite obs_eqb_refl. Qed.
Lemma nperm_eqb_refl l : nperm_eqb l l = true.
Proof. induction l as [|x l IH]; [reflexivity|]. simpl. now rewrite N.eqb_refl. Qed.
Lemma pobs_eqb_refl o : pobs_eqb o o = true.
Proof.
  destruct o; simpl; [apply perm_eqb_refl| |apply nperm_eqb_refl].
  rewrite (list_eqb_refl N.eqb N.eqb_refl). now destruct ok.
Qed.

Lemma life_accepted pops : life_violates (LC pops (prun pinit pops)) = false.
Proof.
  unfold life_violates. simpl. destruct (life_is_wiring pops) as (_ & _ & ->). rewrite views_spec.
  rewrite (list_eqb_refl pobs_eqb pobs_eqb_refl), (list_eqb_refl nperm_eqb nperm_eqb_refl). reflexivity.
Qed.

Theorem c08_router_program_accepted pops : c08_lviolates (LC pops (prun pinit pops)) = false.
Proof.
  unfold c08_lviolates. rewrite life_accepted, orb_false_r. unfold c08_violates, lc_wc. simpl.
  destruct (life_is_wiring pops) as (_ & -> & _). rewrite c08_model_accepted_st. simpl.
  destruct (plain (effective_ops pops)) eqn:Hp; [|reflexivity]. now rewrite c08_model_accepted.
Qed.
Theorem c09_router_program_accepted pops : c09_lviolates (LC pops (prun pinit pops)) = false.
Proof.
  unfold c09_lviolates, c09_violates, lc_wc. simpl.
  destruct (life_is_wiring pops) as (_ & -> & _). rewrite c09_model_accepted_st. simpl.
  destruct (plain (effective_ops pops)) eqn:Hp; [|reflexivity]. now rewrite c09_model_accepted.
Qed.
Theorem router_program_no_mismatch pops : l_mismatch (LC pops (prun pinit pops)) = false.
Proof. unfold l_mismatch. simpl. now rewrite (list_eqb_refl pobs_eqb pobs_eqb_refl). Qed.
