(** The generation-aware scan of Router/WiringGen.v for programs WITH failing decorator constructors.
    Whether a Run/RunHandlers succeeds depends on the constructor budgets, i.e. on all other handlers and
    attempts; per handler this is an ORACLE: [ok k] says whether the start-like operation at position k of the
    program found no failing constructor.  Given that oracle the wiring of a name is again one left-to-right
    scan of the program, independent of all other handlers.  (Asynchronous starts stay excluded.) *)
From WM Require Import Base.Prelude Message.Model Handler.RouterHandle Router.Wiring Router.WiringSpec Router.WiringProofs
  Router.WiringGen.

(** no constructor fails in this RunHandlers (publisher decorators last-added first, then subscriber decorators) *)
Definition start_ok (st : rstate) : bool :=
  match first_failing st (rev (pubdecs st)), first_failing st (subdecs st) with
  | None, None => true
  | _, _ => false
  end.

Definition gstep_o (ok : nat -> bool) (n : N) (g : gstate) (o : op) : gstate :=
  let '(cur, st, pre) := g in
  let pre' := pre ++ [o] in
  match o with
  | OAddHandler h =>
      if N.eqb (h_name h) n then match cur with None => (Some h, None, pre') | Some _ => (cur, st, pre') end
      else (cur, st, pre')
  | OStart =>
      match cur, st with
      | Some _, None => if ok (length pre) then (cur, Some pre, pre') else (cur, st, pre')   (* a failed attempt starts nobody *)
      | _, _ => (cur, st, pre')
      end
  | OStop m =>
      if N.eqb m n then match st with Some _ => (None, None, pre') | None => (cur, st, pre') end
      else (cur, st, pre')
  | _ => (cur, st, pre')
  end.
Definition gscan_o (ok : nat -> bool) (n : N) (ops : list op) : gstate := fold_left (gstep_o ok n) ops (None, None, []).
Definition gspec_o (ok : nat -> bool) (n : N) (ops : list op) : option hstate :=
  match gscan_o ok n ops with
  | (Some h, s, _) => Some (HS h (option_map mkST s))
  | (None, _, _) => None
  end.

Definition sync_op (o : op) : bool := match o with OStartAsync | OSnap _ => false | _ => true end.
Definition sync_prog (ops : list op) : bool := forallb sync_op ops.
(** the oracle is right about the program: at every Run/RunHandlers it says whether a constructor fails *)
Definition oracle_for (ok : nat -> bool) (ops : list op) : Prop :=
  forall pre post, ops = pre ++ OStart :: post -> ok (length pre) = start_ok (exec rinit pre).

Lemma gscan_o_snoc ok n ops o : gscan_o ok n (ops ++ [o]) = gstep_o ok n (gscan_o ok n ops) o.
Proof. unfold gscan_o. now rewrite fold_left_app. Qed.
Lemma gscan_o_pre ok n ops : snd (gscan_o ok n ops) = ops.
Proof.
  induction ops as [|o ops IH] using rev_ind; [reflexivity|]. rewrite gscan_o_snoc.
  destruct (gscan_o ok n ops) as [[cur st] pre]. simpl in IH. subst pre. unfold gstep_o.
  destruct o; try reflexivity.
  - destruct (N.eqb (h_name h) n); [destruct cur|]; reflexivity.
  - destruct cur, st; try reflexivity. now destruct (ok (length ops)).
  - destruct (N.eqb name n); [destruct st|]; reflexivity.
Qed.

Record sinv_o (ok : nat -> bool) (ops : list op) (st : rstate) : Prop := {
  so_find : forall n, find_handler n st = gspec_o ok n ops;
  so_pend : pending st = [] }.

Lemma sinv_o_step ok ops st o : sync_op o = true -> st = exec rinit ops ->
  (o = OStart -> ok (length ops) = start_ok st) ->
  sinv_o ok ops st -> sinv_o ok (ops ++ [o]) (step st o).
Proof.
  intros Hp Est Hok [Hf Hpend].
  destruct (pinv_all ops) as [_ _ Hm Hpd Hsd Hr]. rewrite <- Est in Hm, Hpd, Hsd, Hr.
  assert (Hwait : forall x, waiting st x = unstarted x).
  { intros x. unfold waiting, is_pending, pending_of. rewrite Hpend. simpl. apply andb_true_r. }
  assert (Hg : forall n, gspec_o ok n (ops ++ [o]) =
                match gstep_o ok n (gscan_o ok n ops) o with (Some h, s, _) => Some (HS h (option_map mkST s)) | (None, _, _) => None end).
  { intros n. unfold gspec_o. now rewrite gscan_o_snoc. }
  assert (Hpre : forall n, snd (gscan_o ok n ops) = ops) by (intros; apply gscan_o_pre).
  split.
  2:{ destruct o as [h|id app|hn id app|dd ff|dd ff| | |pn|sn|dl]; simpl;
      [ destruct (find_handler (h_name h) st); fin | fin | fin | fin | fin
      | destruct (first_unstarted st); [destruct (first_failing st (rev (pubdecs st))); [fin|destruct (first_failing st (subdecs st)); fin]|fin]
      | fin | fin
      | destruct (find_handler sn st) as [[c [s|]]|]; fin | fin ]. }
  intros n. rewrite Hg. specialize (Hf n) as Hn. unfold gspec_o in Hn. specialize (Hpre n).
  destruct (gscan_o ok n ops) as [[cur s] pre]. simpl in Hpre. subst pre.
  destruct o as [h|id app|hn id app|dd ff|dd ff| | |pn|sn|dl]; try discriminate; simpl;
    try (destruct cur; exact Hn).
  - (* AddHandler *)
    destruct (find_handler (h_name h) st) eqn:F.
    + destruct (N.eqb (h_name h) n) eqn:E; [|destruct cur; exact Hn].
      apply N.eqb_eq in E. subst n. destruct cur; [exact Hn|]. rewrite Hn in F. discriminate.
    + unfold find_handler. simpl. rewrite find_snoc. fold (find_handler n st). rewrite Hn.
      unfold name_is. simpl. destruct (N.eqb (h_name h) n) eqn:E.
      * apply N.eqb_eq in E. subst n. destruct cur; [rewrite Hn in F; discriminate|reflexivity].
      * now destruct cur.
  - (* Start *)
    specialize (Hok eq_refl). unfold start_ok in Hok.
    destruct (first_unstarted st) as [hs0|] eqn:Fu.
    + destruct (first_failing st (rev (pubdecs st))) eqn:F1.
      * (* a publisher decorator constructor fails *)
        unfold find_handler. simpl. fold (find_handler n st). rewrite Hok.
        destruct cur as [h|]; [|exact Hn]. now destruct s.
      * destruct (first_failing st (subdecs st)) eqn:F2.
        -- unfold find_handler. simpl. fold (find_handler n st). rewrite Hok.
           destruct cur as [h|]; [|exact Hn]. now destruct s.
        -- rewrite Hok. unfold find_handler. simpl. rewrite find_map_inv.
           2:{ intros x. unfold name_is, start_one. now destruct (waiting st x). }
           fold (find_handler n st). rewrite Hn. destruct cur as [h|]; [|reflexivity]. simpl.
           unfold start_one. rewrite Hwait. unfold unstarted. simpl. destruct s; [reflexivity|]. simpl.
           unfold mkST, residue_of. rewrite Hr. simpl. now rewrite app_nil_r, Hm, Hpd, Hsd.
    + (* nobody waits *)
      rewrite Hn. destruct cur as [h|]; [|reflexivity]. destruct s; [reflexivity|]. exfalso.
      unfold find_handler in Hn. simpl in Hn. apply find_some in Hn as [Hin _].
      unfold first_unstarted in Fu. apply (find_none _ _ Fu) in Hin. rewrite Hwait in Hin. discriminate.
  - (* Stop *)
    destruct (N.eqb sn n) eqn:E.
    + apply N.eqb_eq in E. subst sn. rewrite Hn. destruct cur as [h|].
      * destruct s; simpl.
        -- unfold find_handler. simpl. apply find_filter_self.
        -- exact Hn.
      * destruct s; simpl; exact Hn.
    + destruct (find_handler sn st) as [[c [s'|]]|] eqn:Fs; try (destruct cur; exact Hn).
      unfold find_handler. simpl. rewrite find_filter_other.
      * fold (find_handler n st). destruct cur; exact Hn.
      * intros x Hx. unfold name_is in *. apply N.eqb_eq in Hx. apply negb_true_iff, N.eqb_neq.
        apply N.eqb_neq in E. congruence.
Qed.

Theorem gspec_o_all ok ops : sync_prog ops = true -> oracle_for ok ops -> sinv_o ok ops (exec rinit ops).
Proof.
  induction ops as [|o ops IH] using rev_ind; intros Hp Hor.
  - split; reflexivity.
  - unfold sync_prog in Hp. rewrite forallb_app in Hp. apply andb_true_iff in Hp as [H1 H2].
    simpl in H2. rewrite andb_true_r in H2. rewrite exec_snoc. apply sinv_o_step; [assumption|reflexivity| |].
    + intros ->. apply (Hor ops []). reflexivity.
    + apply IH; [assumption|]. intros pre post E. apply (Hor pre (post ++ [o])). rewrite E. now rewrite <- app_assoc.
Qed.

(** exported *)
Theorem started_holds_prefix_with_failures ok ops n : sync_prog ops = true -> oracle_for ok ops ->
  find_handler n (exec rinit ops) = gspec_o ok n ops.
Proof. intros Hp Hor. now destruct (gspec_o_all ok ops Hp Hor) as [Hf _]. Qed.
(** such an oracle exists for every program: the machine's own verdicts *)
Definition machine_oracle (ops : list op) : nat -> bool := fun k => start_ok (exec rinit (firstn k ops)).
Lemma machine_oracle_for ops : oracle_for (machine_oracle ops) ops.
Proof.
  intros pre post E. unfold machine_oracle. subst ops. now rewrite firstn_app, firstn_all, Nat.sub_diag, app_nil_r.
Qed.
