(** Witness schedules for the behaviours of the pinned code that the repairs remove
    (D5, D6, D12).  Each is checked by vm_compute on the executable model; the same schedules
    are forced on the real Router by the harness (scenarios "…(D5)", "…(D6)",
    "…/timeout-second-close"). *)
From WM Require Import Base.Prelude Router.Close Router.CloseMonitor.

Definition ignore_ctx : hid -> bool := fun _ => false.

(** D5: the running-handlers wait finishes before the loop dispatches a message it has
    already received; Close returns nil and the handler runs afterwards *)
Definition d5_schedule : list label :=
  [LEmit 0; LDeliver 0; LCall 0; LClose 0; LClose 0; LClose 0; LClose 0; LW2; LW2; LW2; LLoop 0; LLoop 0; LMsg 0;
   LHcClosing 0; LHc 0; LChanClose 0; LPump 0; LPump 0; LLoop 0; LLoop 0; LLoop 0; LW1; LWaitDone 0; LClose 0; LClose 0].

(** D6: handleClose reaches its select after Run cancelled the context and takes ctx.Done:
    the subscriber (which ignores its context) is never closed, nothing can move but the
    clock, although no handler is running *)
Definition d6_schedule : list label :=
  [LCall 0; LClose 0; LClose 0; LClose 0; LClose 0; LRun; LRun; LHcCtx 0; LHc 0].

(** D12: the first Close times out while a handler runs; a second Close returns nil *)
Definition d12_schedule : list label :=
  [LEmit 0; LDeliver 0; LLoop 0; LLoop 0; LMsg 0; LCall 0; LClose 0; LClose 0; LClose 0; LClose 0; LTimeout 0; LClose 0; LClose 0;
   LCall 1; LClose 1; LClose 1; LClose 1; LClose 1].

Definition running_after_nil (s : state) (c : cid) (m : mid) : bool :=
  returned s c RNil && match mp s m with MRunning => true | _ => false end.

Lemma d5_witness :
  match replay (init 1 ignore_ctx false true true) d5_schedule with
  | Some s => running_after_nil s 0 0 && negb (quiescent_b s)
  | None => false
  end = true.
Proof. vm_compute. reflexivity. Qed.

Lemma d5_schedule_impossible_when_fixed : replay (init 1 ignore_ctx true true true) d5_schedule = None.
Proof. vm_compute. reflexivity. Qed.

Lemma d6_witness :
  match replay (init 1 ignore_ctx true false true) d6_schedule with
  | Some s => match cp s 0 with CWait => true | _ => false end && negb (early_cancel s) &&
              negb (handler_running_b s) && Nat.eqb (sub_closes s 0) 0 &&
              match sys_enabled s 1 with [] => true | _ => false end
  | None => false
  end = true.
Proof. vm_compute. reflexivity. Qed.

Lemma d6_fixed_closes_subscriber :
  match replay (init 1 ignore_ctx true true true) (d6_schedule ++ [LHc 0]) with
  | Some s => Nat.eqb (sub_closes s 0) 1
  | None => false
  end = true.
Proof. vm_compute. reflexivity. Qed.

Lemma d12_witness :
  match replay (init 1 ignore_ctx true true false) d12_schedule with
  | Some s => returned s 0 RErr && running_after_nil s 1 0
  | None => false
  end = true.
Proof. vm_compute. reflexivity. Qed.

Lemma d12_fixed_returns_error :
  match replay (init 1 ignore_ctx true true true) d12_schedule with
  | Some s => returned s 0 RErr && returned s 1 RErr
  | None => false
  end = true.
Proof. vm_compute. reflexivity. Qed.

(** the acceptor rejects exactly these histories *)
Lemma d5_monitor_rejects :
  existsb (fun ic => Nat.eqb (snd ic) 2) (mon_run 1 (fun _ => true) (trace (init 1 ignore_ctx false true true) d5_schedule)) = true.
Proof. vm_compute. reflexivity. Qed.
Lemma d12_monitor_rejects :
  existsb (fun ic => Nat.eqb (snd ic) 14) (mon_run 1 (fun _ => true) (trace (init 1 ignore_ctx true true false) d12_schedule)) = true.
Proof. vm_compute. reflexivity. Qed.

(** a graceful close in the repaired model: Close overlaps a message in the pipeline, waits
    for it, returns nil; everything is at rest and closed *)
Definition graceful_schedule : list label :=
  [LEmit 0; LDeliver 0; LCall 0; LClose 0; LClose 0; LClose 0; LClose 0; LRun; LRun; LLoop 0; LLoop 0; LMsg 0;
   LHcClosing 0; LHc 0; LChanClose 0; LPump 0; LPump 0; LSubCloseRet 0; LHc 0; LHc 0; LLoop 0; LLoop 0; LLoop 0; LW1; LW2;
   LFinish 0; LMsg 0; LMsg 0; LMsg 0; LW2; LW2; LWaitDone 0; LClose 0; LClose 0; LRun].
Lemma graceful_example :
  match replay (init 1 ignore_ctx true true true) graceful_schedule with
  | Some s => returned s 0 RNil && quiescent_b s && Nat.eqb (sub_closes s 0) 1 && Nat.eqb (pub_closes s 0) 1 &&
              match run s with RDone => true | _ => false end && negb (panicked s) &&
              match mon_run 1 (fun _ => true) (trace (init 1 ignore_ctx true true true) graceful_schedule) with [] => true | _ => false end
  | None => false
  end = true.
Proof. vm_compute. reflexivity. Qed.

(** a subscriber whose Close() never returns and a handler that never finishes: Close still
    returns the timeout error, so does a second call, and Run returns *)
Definition blocked_sub_close_schedule : list label :=
  [LEmit 0; LDeliver 0; LLoop 0; LLoop 0; LMsg 0; LCall 0; LClose 0; LClose 0; LClose 0; LClose 0; LHcClosing 0; LHc 0;
   LTimeout 0; LClose 0; LClose 0; LRun; LRun; LRun; LCall 1; LClose 1; LClose 1; LClose 1; LClose 1].
Lemma blocked_sub_close_example :
  match replay (init 1 ignore_ctx true true true) blocked_sub_close_schedule with
  | Some s => returned s 0 RErr && returned s 1 RErr && match run s with RDone => true | _ => false end &&
              match hc s 0 with HCInSubClose => true | _ => false end &&
              match mp s 0 with MRunning => true | _ => false end
  | None => false
  end = true.
Proof. vm_compute. reflexivity. Qed.

(** D16: a handler that was added but never started (AddHandler after Run without RunHandlers, or
    a router that was never run) is counted by handlersWg for ever: Close can only time out
    although nothing runs, nothing is blocked and the context was not cancelled *)
Definition d16_schedule : list label := [LCall 0; LClose 0; LClose 0; LClose 0; LClose 0; LRun; LRun].
Lemma d16_witness :
  match replay (init_u 0 1 ignore_ctx true true true false) d16_schedule with
  | Some s => match cp s 0 with CWait => true | _ => false end && negb (early_cancel s) &&
              negb (handler_running_b s) && match sys_enabled s 1 with [] => true | _ => false end
  | None => false
  end = true.
Proof. vm_compute. reflexivity. Qed.
Lemma d16_fixed_returns_nil :
  match replay (init_u 0 1 ignore_ctx true true true true)
               (d16_schedule ++ [LW1; LW2; LW2; LW2; LWaitDone 0; LClose 0; LClose 0; LRun]) with
  | Some s => returned s 0 RNil && match run s with RDone => true | _ => false end
  | None => false
  end = true.
Proof. vm_compute. reflexivity. Qed.

(** the variant in which RunHandlers calls IsClosed() while it holds handlersLock (lock order
    handlersLock -> closedLock against Close's closedLock -> handlersLock): a RunHandlers call and a
    Close call that overlap block each other for ever - no step of either, no timeout, nothing *)
Definition rh_deadlock_schedule : list label := [LRhCall 0; LRh 0; LCall 0; LClose 0; LRh 0].
Lemma rh_isclosed_deadlock_witness :
  match replay (init_rh_isclosed 1 ignore_ctx) rh_deadlock_schedule with
  | Some s => match cp s 0 with CHWant => true | _ => false end && match rp s 0 with RHCWant => true | _ => false end &&
              negb (enabled s (LClose 0)) && negb (enabled s (LTimeout 0)) && negb (enabled s (LRh 0)) &&
              match sys_enabled s 1 with [LHcClosing 0] | [] => true | _ => false end
  | None => false
  end = true.
Proof. vm_compute. reflexivity. Qed.
(** the code as it is: the same overlap resolves *)
Lemma rh_overlap_resolves :
  match replay (init 1 ignore_ctx true true true) ([LRhCall 0; LRh 0; LCall 0; LClose 0; LRh 0; LClose 0; LClose 0]) with
  | Some s => match cp s 0 with CSignal => true | _ => false end && match rp s 0 with RHDone => true | _ => false end
  | None => false
  end = true.
Proof. vm_compute. reflexivity. Qed.

(** the KNOWN FINDING in the repaired model: the user cancels Run's context BEFORE Close signals;
    handleClose leaves through ctx.Done with routersCloseCh still open and never closes the
    subscriber; with a subscriber that ignores its context Close can only time out although no
    handler runs and nothing is blocked *)
Definition early_cancel_schedule : list label :=
  [LEnvCancel; LHcCtx 0; LHc 0; LHc 0; LCall 0; LClose 0; LClose 0; LClose 0; LClose 0; LRun; LRun].
Lemma early_cancel_witness :
  match replay (init 1 ignore_ctx true true true) early_cancel_schedule with
  | Some s => match cp s 0 with CWait => true | _ => false end && early_cancel s &&
              match hc s 0 with HCDone => true | _ => false end && Nat.eqb (sub_closes s 0) 0 &&
              negb (handler_running_b s) && match sys_enabled s 1 with [] => true | _ => false end
  | None => false
  end = true.
Proof. vm_compute. reflexivity. Qed.
(** ... and the acceptor reports exactly this at rest: codes 7 and 8 *)
Lemma early_cancel_monitor_rejects :
  map snd (mon_run 1 (fun _ => true)
             (trace (init 1 ignore_ctx true true true) (early_cancel_schedule ++ [LTimeout 0; LClose 0; LClose 0]) ++ [AQuiescent]))
  = [7; 8].
Proof. vm_compute. reflexivity. Qed.

(** a handler that fails (error return or recovered panic): nothing is published, the message is
    settled (Nack), the deferred Done runs, Close waits for it and returns nil; accepted *)
Definition failing_handler_schedule : list label :=
  [LEmit 0; LDeliver 0; LLoop 0; LLoop 0; LMsg 0; LCall 0; LClose 0; LClose 0; LClose 0; LClose 0; LRun; LRun;
   LHcClosing 0; LHc 0; LChanClose 0; LPump 0; LPump 0; LSubCloseRet 0; LHc 0; LHc 0; LLoop 0; LLoop 0; LLoop 0; LW1; LW2;
   LFail 0; LMsg 0; LMsg 0; LW2; LW2; LWaitDone 0; LClose 0; LClose 0; LRun].
Lemma failing_handler_example :
  match replay (init 1 ignore_ctx true true true) failing_handler_schedule with
  | Some s => returned s 0 RNil && quiescent_b s && negb (panicked s) &&
              match mon_run 1 (fun _ => true) (trace (init 1 ignore_ctx true true true) failing_handler_schedule ++ [AQuiescent]) with [] => true | _ => false end
  | None => false
  end = true.
Proof. vm_compute. reflexivity. Qed.
