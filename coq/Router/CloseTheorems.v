(** What the invariants of CloseProofs.v give: the waiters' knowledge (InvW), handleClose
    (InvH), reachability, and the statements Props/C06.v exports.  No axioms. *)
From WM Require Import Base.Prelude Base.CountClose Router.Close Router.CloseProofs.
From RecordUpdate Require Import RecordUpdate.

Definition w2_started (p : w2pc) : bool := match p with W2Want | W2Locked | W2Unlock | W2Done => true | _ => false end.
Definition w2_finished (p : w2pc) : bool := match p with W2Unlock | W2Done => true | _ => false end.

Record InvW (s : state) : Prop := {
  w_1 : w1 s = W1Done -> handlersWg s = 0;
  w_2 : fix5 s = true -> w2_started (w2 s) = true -> w1 s = W1Done;
  w_3 : fix5 s = true -> w2_finished (w2 s) = true -> runningWg s = 0
}.

Lemma InvW_init_u n u hon f5 f6 f12 f16 : InvW (init_u n u hon f5 f6 f12 f16).
Proof. constructor; simpl; intros; congruence. Qed.
Lemma InvW_init n hon f5 f6 f12 : InvW (init n hon f5 f6 f12).
Proof. apply InvW_init_u. Qed.

Lemma alive_pos s h : InvA' s -> loop_alive (lp s h) = true -> 0 < handlersWg s.
Proof.
  intros [[Ahwg _ Ahb1 _ _ _ _ _ _ _ _ _ _ _ _ _] _] Hl. rewrite Ahwg.
  apply Nat.lt_lt_add_r. apply cnt_pos with (k := h); [|assumption].
  destruct (Nat.lt_ge_cases h (nh s)) as [?|Hge]; [assumption|].
  apply Ahb1 in Hge. destruct Hge as [Hn _]. rewrite Hn in Hl. discriminate.
Qed.

Lemma InvW_step s l s' : InvC s -> InvA' s -> InvW s -> step s l = Some s' -> InvW s'.
Proof.
  intros IC IA [W1 W2 W3] H.
  pose proof (c_sig s IC) as Csig. pose proof (c_closing0 s IC) as Ccl.
  pose proof (alive_pos s) as Hpos.
  destruct l; step_cases H.
  all: constructor; simpl; intros; try solve [auto]; fin.
  all: fin2.
  all: try solve [ match goal with Hl : lp _ ?h = _ |- _ => specialize (Hpos h IA); rewrite Hl in Hpos; simpl in Hpos end;
                   rew_pcs; simpl in *; fwd; lia ].
  all: try solve [ match goal with Hc : cp _ ?c = CSignal |- _ => destruct (Csig c Hc) as [_ Hcl]; destruct (Ccl Hcl) as (_ & _ & Hw1 & Hw2) end;
                   rew_pcs; simpl in *; congruence ].
  all: try solve [ repeat match goal with Hb : Nat.eqb _ 0 = true |- _ => apply Nat.eqb_eq in Hb end; rew_pcs; simpl in *; fwd; try lia; congruence ].
  exfalso. assert (Hst : w2_started (w2 s) = true) by (destruct (w2 s); simpl in *; congruence).
  specialize (W2 H Hst). specialize (W1 W2). specialize (Hpos h IA). rewrite Heql in Hpos. simpl in Hpos.
  specialize (Hpos eq_refl). lia.
Qed.

(** ** InvH: handleClose closes the subscriber once Close has signalled (fix6) *)
Definition hc_decided (p : hcpc) : bool := match p with HCStop | HCDone => true | _ => false end.

Record InvH (s : state) : Prop := {
  h_1 : ctx_done s = true -> early_cancel s = true \/ closingCh s = true;
  h_2 : forall h : hid, hstop s h = true -> hc s h = HCDone \/ early_cancel s = true \/ closingCh s = true;
  h_3 : forall h : hid, hc s h = HCCheck -> ctx_done s = true \/ hstop s h = true;
  h_4 : forall h : hid, hc s h = HCWaitPump -> 1 <= sub_closes s h;
  h_4' : forall h : hid, hc s h = HCDecSignal -> 1 <= sub_closes s h;
  h_4'' : forall h : hid, hc s h = HCInSubClose -> 1 <= sub_closes s h;
  h_5 : forall h : hid, fix6 s = true -> early_cancel s = false -> hc_decided (hc s h) = true -> 1 <= sub_closes s h
}.

Lemma InvH_init_u n u hon f5 f6 f12 f16 : InvH (init_u n u hon f5 f6 f12 f16).
Proof. constructor; simpl; intros; try congruence; destruct (Nat.ltb h n); simpl in *; discriminate. Qed.
Lemma InvH_init n hon f5 f6 f12 : InvH (init n hon f5 f6 f12).
Proof. apply InvH_init_u. Qed.

Lemma InvH_step s l s' : InvC s -> InvH s -> step s l = Some s' -> InvH s'.
Proof.
  intros IC [H1 H2 H3 H4 H4' H4'' H5] H.
  pose proof (c_run1 s IC) as Crun.
  destruct l; step_cases H.
  all: constructor; simpl; intros; try solve [auto]; upd_all; try solve [auto]; fin.
  all: inst_all; fin; fin2.
  all: unfold hctx_done in *.
  all: try solve [ repeat match goal with Hb : orb _ _ = true |- _ => apply orb_true_iff in Hb; destruct Hb end;
                   rew_pcs; simpl in *; fwd; rew_pcs; simpl in *; intuition (congruence || lia) ].
  all: try (match goal with H0 : orb _ _ = false |- _ => apply orb_false_iff in H0; destruct H0 end; solve [auto]).
  all: try (destruct (closingCh s) eqn:Ecl; simpl; rewrite ?orb_true_r, ?orb_false_r; simpl;
            solve [ auto | right; auto | right; right; reflexivity | right; left; reflexivity | left; reflexivity
                  ]).
Qed.


(** ** no panic: no double close of a channel, no negative WaitGroup counter *)
Lemma prog_pos s m : InvA' s -> in_progress (mp s m) = true -> 0 < runningWg s.
Proof.
  intros [[_ Arwg _ _ Amb _ _ _ _ _ _ _ _ _ _ _] _] Hl. rewrite Arwg.
  apply cnt_pos with (k := m); [|assumption].
  destruct (Nat.lt_ge_cases m (nextm s)) as [?|Hge]; [assumption|].
  apply Amb in Hge. rewrite Hge in Hl. discriminate.
Qed.

Lemma panic_step s l s' : InvC s -> InvA' s -> panicked s = false -> step s l = Some s' -> panicked s' = false.
Proof.
  intros IC IA Hp H.
  pose proof (c_sig s IC) as Csig. pose proof (c_cch s IC) as Ccch.
  pose proof (alive_pos s) as Hpos. pose proof (prog_pos s) as Hprog.
  pose proof (a_out1 s (a_base s IA)) as Aout1.
  destruct l; step_cases H; simpl; try assumption; rewrite Hp; simpl.
  all: match goal with
    | Hc : cp _ ?c = CSignal |- _ => destruct (Csig c Hc) as [_ Hx]; assumption
    | Hc : cp _ ?c = CClosedCh ?r |- _ => destruct (Ccch c r Hc) as (_ & Hx & _); assumption
    | Hl : lp _ ?h = LWgDone |- _ =>
        specialize (Hpos h IA); rewrite Hl in Hpos; specialize (Hpos eq_refl);
        destruct (Nat.eqb_spec (handlersWg s) 0); [lia|reflexivity]
    | Hq : pp _ ?h = PRecv |- _ =>
        let E := fresh in
        destruct (out_closed s h) eqn:E; [|reflexivity]; apply Aout1 in E; rewrite Hq in E; discriminate
    | Hm : mp _ ?m = MSettled |- _ =>
        specialize (Hprog m IA); rewrite Hm in Hprog; specialize (Hprog eq_refl);
        destruct (Nat.eqb_spec (runningWg s) 0); [lia|reflexivity]
    end.
Qed.

(** ** all invariants together, for every reachable state *)
Record Inv (s : state) : Prop := {
  i_c : InvC s; i_a : InvA' s; i_w : InvW s; i_h : InvH s; i_np : panicked s = false
}.

Lemma Inv_init_u n u hon f5 f6 f12 f16 : Inv (init_u n u hon f5 f6 f12 f16).
Proof.
  constructor; [apply InvC_init_u | apply InvA'_init_u | apply InvW_init_u | apply InvH_init_u | reflexivity].
Qed.
Lemma Inv_init n hon f5 f6 f12 : Inv (init n hon f5 f6 f12).
Proof. apply Inv_init_u. Qed.

Lemma Inv_step s l s' : Inv s -> step s l = Some s' -> Inv s'.
Proof.
  intros [IC IA IW IH IP] H. constructor.
  - eapply InvC_step; eassumption.
  - eapply InvA'_step; eassumption.
  - eapply InvW_step; eassumption.
  - eapply InvH_step; eassumption.
  - eapply panic_step; eassumption.
Qed.

Lemma Inv_exec s ls : Inv s -> Inv (exec s ls).
Proof.
  revert s. induction ls as [|l ls IH]; intros s I; simpl; [assumption|].
  destruct (step s l) eqn:E; [apply IH; eapply Inv_step; eassumption | apply IH; assumption].
Qed.

Lemma Inv_reach n hon f5 f6 f12 ls : Inv (exec (init n hon f5 f6 f12) ls).
Proof. apply Inv_exec, Inv_init. Qed.

(** the flags never change *)
Lemma flags_step s l s' : step s l = Some s' ->
  fix5 s' = fix5 s /\ fix6 s' = fix6 s /\ fix12 s' = fix12 s /\ nh s' = nh s.
Proof. intros H. destruct l; step_cases H; simpl; auto. Qed.
Lemma flags_exec s ls :
  fix5 (exec s ls) = fix5 s /\ fix6 (exec s ls) = fix6 s /\ fix12 (exec s ls) = fix12 s /\ nh (exec s ls) = nh s.
Proof.
  revert s. induction ls as [|l ls IH]; intros s; simpl; [auto|].
  destruct (step s l) as [s0|] eqn:E; [|apply IH].
  destruct (flags_step _ _ _ E) as (a & b & c & d). destruct (IH s0) as (a2 & b2 & c2 & d2).
  repeat split; congruence.
Qed.

(** ** quiescence *)
Definition quiescent (s : state) : Prop :=
  (forall m, msg_idle (mp s m) = true) /\ (forall h, loop_over (lp s h) = true).

Lemma quiescent_of_waiters s : Inv s -> fix5 s = true -> w1 s = W1Done -> w2 s = W2Done -> quiescent s.
Proof.
  intros [IC [[Ahwg Arwg Ahb1 Ahb2 Amb Alk1 Alk2 Alk3 Alk4 Aloop1 Aloop2 Apump Aout1 Aout2 Aout3 Apub] Apump2] [W1 W2 W3] IH IP] F5 Hw1 Hw2.
  assert (Hh : handlersWg s = 0) by auto.
  assert (Hr : runningWg s = 0) by (apply W3; [assumption | rewrite Hw2; reflexivity]).
  assert (Hloops : forall h, loop_over (lp s h) = true).
  { intros h. destruct (Nat.lt_ge_cases h (nh s)) as [Hlt|Hge].
    - rewrite Ahwg in Hh. assert (Hh0 : cnt loop_alive (lp s) (nh s) = 0) by lia.
      pose proof (cnt_zero loop_alive (lp s) (nh s) h Hh0 Hlt) as Hz.
      destruct (lp s h); simpl in *; congruence.
    - destruct (Ahb1 h Hge) as [Hn _]. rewrite Hn. reflexivity. }
  split; [|assumption].
  intros m. destruct (Nat.lt_ge_cases m (nextm s)) as [Hlt|Hge].
  - rewrite Arwg in Hr. pose proof (cnt_zero in_progress (mp s) (nextm s) m Hr Hlt) as Hz.
    destruct (mp s m) as [|h|h| | | | | | |] eqn:E; simpl in *; try congruence.
    + pose proof (Apump m h E) as Hp. specialize (Hloops h).
      destruct (lp s h) eqn:El; simpl in Hloops; try discriminate.
      * destruct (Nat.lt_ge_cases h (nh s)) as [Hl|Hg]; [exfalso; apply (Ahb2 h Hl El)|].
        destruct (Ahb1 h Hg) as [_ Hpn]. congruence.
      * assert (out_closed s h = true) as Ho by (apply Aout3; rewrite El; reflexivity).
        apply Aout1 in Ho. rewrite Hp in Ho. discriminate.
    + pose proof (Aloop1 m h E) as Hp. specialize (Hloops h).
      destruct (lp s h); simpl in *; discriminate.
  - rewrite (Amb m Hge). reflexivity.
Qed.

Lemma quiescent_of_nil_result s : Inv s -> fix5 s = true -> close_res s = Some RNil -> quiescent s.
Proof.
  intros I F5 Hres. destruct (c_resnil s (i_c s I) Hres) as [Hw1 Hw2].
  apply quiescent_of_waiters; assumption.
Qed.

Lemma returned_nil_result s c :
  Inv s -> cp s c = CRet RNil -> (fix12 s = true \/ close_res s <> Some RErr) -> close_res s = Some RNil.
Proof.
  intros I Hc Hor. pose proof (c_ret2 s (i_c s I) c Hc) as Hn. unfold nil_ok in Hn.
  destruct (close_res s) as [[|]|]; try discriminate; [reflexivity|].
  destruct Hor as [F|F]; [rewrite F in Hn; discriminate | congruence].
Qed.

(** ** the statements exported by Props/C06.v *)
Lemma exec_app s a b : exec s (a ++ b) = exec (exec s a) b.
Proof.
  revert s. induction a as [|l a IH]; intros s; simpl; [reflexivity|].
  destruct (step s l); apply IH.
Qed.

Lemma ret_step s l s' c r : step s l = Some s' -> cp s c = CRet r -> cp s' c = CRet r.
Proof. intros H Hc. destruct l; step_cases H; simpl; upd_all; congruence. Qed.
Lemma ret_exec s ls c r : cp s c = CRet r -> cp (exec s ls) c = CRet r.
Proof.
  revert s. induction ls as [|l ls IH]; intros s Hc; simpl; [assumption|].
  destruct (step s l) eqn:E; [apply IH; eapply ret_step; eassumption | apply IH; assumption].
Qed.

Theorem close_nil_implies_quiescent n hon f6 f12 sched c :
  let s := exec (init n hon true f6 f12) sched in
  cp s c = CRet RNil -> (f12 = true \/ close_res s <> Some RErr) -> quiescent s.
Proof.
  intros s Hc Hor. pose proof (Inv_reach n hon true f6 f12 sched) as I. fold s in I.
  destruct (flags_exec (init n hon true f6 f12) sched) as (F5 & _ & F12 & _). fold s in F5, F12. simpl in F5, F12.
  apply quiescent_of_nil_result; [assumption | assumption |].
  apply returned_nil_result with (c := c); [assumption | assumption |].
  destruct Hor as [->|Hne]; [left; assumption | right; assumption].
Qed.

(** ... and it stays so: nothing is handled, dispatched or received after a nil return *)
Theorem nothing_starts_after_nil_close n hon f6 sched more c :
  cp (exec (init n hon true f6 true) sched) c = CRet RNil ->
  quiescent (exec (init n hon true f6 true) (sched ++ more)).
Proof.
  intros Hc. apply close_nil_implies_quiescent with (c := c); [|left; reflexivity].
  rewrite exec_app. apply ret_exec. assumption.
Qed.

Theorem run_returns_after_close n hon f5 f6 f12 sched :
  let s := exec (init n hon f5 f6 f12) sched in
  run s = RDone ->
  closedCh s = true /\ close_res s <> None /\ (forall c, cp s c <> CWait /\ cp s c <> CSignal) /\
  (f5 = true -> close_res s = Some RNil -> quiescent s).
Proof.
  intros s Hr. pose proof (Inv_reach n hon f5 f6 f12 sched) as I. fold s in I.
  pose proof (c_run2 s (i_c s I) Hr) as Hcl.
  split; [assumption|]. split.
  - intros Hn. apply (c_res s (i_c s I)) in Hn. congruence.
  - split.
    + intros c. split; intros Hc.
      * destruct (c_wait s (i_c s I) c Hc) as (_ & Hx & _). congruence.
      * destruct (c_sig s (i_c s I) c Hc) as (_ & Hx).
        destruct (c_closing0 s (i_c s I) Hx) as (Hy & _). congruence.
    + intros F5 Hres. apply quiescent_of_nil_result; [assumption | | assumption].
      destruct (flags_exec (init n hon f5 f6 f12) sched) as (F & _). fold s in F. simpl in F. congruence.
Qed.

Theorem no_panic n hon f5 f6 f12 sched : panicked (exec (init n hon f5 f6 f12) sched) = false.
Proof. apply (i_np _ (Inv_reach n hon f5 f6 f12 sched)). Qed.

Theorem close_exclusive n hon f5 f6 f12 sched c1 c2 :
  let s := exec (init n hon f5 f6 f12) sched in
  holds (cp s c1) = true -> holds (cp s c2) = true -> c1 = c2.
Proof.
  intros s H1 H2. pose proof (i_c s (Inv_reach n hon f5 f6 f12 sched)) as IC.
  pose proof (c_lock2 s IC c1 H1) as E1. pose proof (c_lock2 s IC c2 H2) as E2. congruence.
Qed.

(** every Close call can always move - also with RunHandlers calls competing for handlersLock:
    the holder of closedLock waits at most for handlersLock, whose holder (a RunHandlers call,
    which takes no other lock) can move; a caller that wants closedLock waits only for a holder
    for which this is true; the timeout bounds the wait for the handlers.  No lock-order cycle. *)
Definition closer_can_move (s : state) (c : cid) : Prop :=
  step s (LClose c) <> None \/ step s (LTimeout c) <> None.
Definition lock_user_can_move (s : state) : Prop :=
  (exists c, closer_can_move s c) \/ (exists r, step s (LRh r) <> None).

(** in the code as it is (not the [rh_isclosed] variant) no RunHandlers call ever asks for closedLock *)
Definition rh_plain (s : state) : Prop :=
  rh_isclosed s = false -> forall r, rp s r <> RHCWant /\ rp s r <> RHChecked.
Lemma rh_plain_step s l s' : rh_plain s -> step s l = Some s' -> rh_plain s'.
Proof.
  intros P H. unfold rh_plain in *. destruct l; step_cases H; simpl; intros Hf r0; try (apply P; assumption).
  all: upd_all; try (apply P; assumption); try (split; discriminate).
  all: try (exfalso; congruence).
  all: try (exfalso; destruct (P Hf r) as [P1 P2]; congruence).
  all: apply P; reflexivity.
Qed.
Lemma rh_plain_exec s ls : rh_plain s -> rh_plain (exec s ls).
Proof.
  revert s. induction ls as [|l ls IH]; intros s P; simpl; [assumption|].
  destruct (step s l) eqn:E; [apply IH; eapply rh_plain_step; eassumption | apply IH; assumption].
Qed.
Lemma rh_plain_init_u n u hon f5 f6 f12 f16 : rh_plain (init_u n u hon f5 f6 f12 f16).
Proof. intros _ r. simpl. split; discriminate. Qed.

Lemma holderH_moves s c : holdsH (cp s c) = true -> closer_can_move s c.
Proof.
  intros H. unfold closer_can_move, step.
  destruct (cp s c) eqn:E; simpl in H; try discriminate.
  all: first [ left; destruct (closed s); [|destruct (fix16 s)]; discriminate | right; discriminate ].
Qed.

Lemma holder_moves s c : InvC s -> rh_plain s -> rh_isclosed s = false -> holds (cp s c) = true -> lock_user_can_move s.
Proof.
  intros IC P Hf H.
  destruct (holdsH (cp s c)) eqn:EH; [left; exists c; apply holderH_moves; assumption|].
  destruct (cp s c) eqn:E; simpl in H, EH; try discriminate.
  (* CHWant: waits for handlersLock *)
  destruct (handlersLock s) as [[c'|r]|] eqn:EL.
  - pose proof (c_hl1 s IC c' EL) as Hh. left. exists c'. apply holderH_moves. assumption.
  - pose proof (c_hl3 s IC r EL) as Hr. right. exists r. unfold step.
    destruct (P Hf r) as [P1 P2].
    destruct (rp s r) eqn:Er; simpl in Hr; try discriminate; try congruence.
    rewrite Hf. discriminate.
  - left. exists c. left. unfold step. rewrite E, EL. discriminate.
Qed.

Lemma rh_isclosed_step s l s' : step s l = Some s' -> rh_isclosed s' = rh_isclosed s.
Proof. intros H. destruct l; step_cases H; simpl; auto. Qed.
Lemma rh_isclosed_exec s ls : rh_isclosed (exec s ls) = rh_isclosed s.
Proof.
  revert s. induction ls as [|l ls IH]; intros s; simpl; [reflexivity|].
  destruct (step s l) as [s0|] eqn:E; [|apply IH]. rewrite IH. eapply rh_isclosed_step; eassumption.
Qed.

Theorem close_never_stuck n hon f5 f6 f12 sched c :
  let s := exec (init n hon f5 f6 f12) sched in
  cp s c <> CNone -> (forall r, cp s c <> CRet r) -> lock_user_can_move s.
Proof.
  intros s Hn Hr. pose proof (i_c s (Inv_reach n hon f5 f6 f12 sched)) as IC.
  assert (P : rh_plain s) by (apply rh_plain_exec, rh_plain_init_u).
  assert (Hf : rh_isclosed s = false) by (unfold s; rewrite rh_isclosed_exec; reflexivity).
  destruct (cp s c) eqn:E; try congruence.
  - destruct (closedLock s) as [c'|] eqn:EL.
    + apply (holder_moves s c' IC P Hf). apply (c_lock1 s IC c' EL).
    + left. exists c. left. unfold step. rewrite E, EL. discriminate.
  - apply (holder_moves s c IC P Hf). rewrite E. reflexivity.
  - apply (holder_moves s c IC P Hf). rewrite E. reflexivity.
  - apply (holder_moves s c IC P Hf). rewrite E. reflexivity.
  - apply (holder_moves s c IC P Hf). rewrite E. reflexivity.
  - apply (holder_moves s c IC P Hf). rewrite E. reflexivity.
  - apply (holder_moves s c IC P Hf). rewrite E. reflexivity.
Qed.

(** a Close call takes at most six steps of its own; nobody else moves its program counter *)
Definition crank (p : cpc) : nat :=
  match p with CNone => 8 | CWant => 7 | CHWant => 6 | CLocked => 5 | CSignal => 4 | CWait => 3 | CClosedCh _ => 2 | CUnlock _ => 1 | CRet _ => 0 end.
Definition own_label (l : label) (c : cid) : bool :=
  match l with LCall c' | LClose c' | LTimeout c' | LWaitDone c' => Nat.eqb c c' | _ => false end.

Theorem close_steps_bounded s l s' c :
  step s l = Some s' ->
  (own_label l c = true -> crank (cp s' c) < crank (cp s c)) /\
  (own_label l c = false -> cp s' c = cp s c).
Proof.
  intros H. destruct l; step_cases H; simpl; split; intros Ho; upd_all;
    try reflexivity; try discriminate; try (rew_pcs; simpl; lia);
    try (apply Nat.eqb_eq in Ho; congruence); try (rewrite Nat.eqb_refl in Ho; discriminate).
Qed.

(** the timeout is always available to the waiting closer and yields an error result *)
Theorem timeout_returns_error s c :
  cp s c = CWait -> exists s', step s (LTimeout c) = Some s' /\ cp s' c = CClosedCh RErr /\ close_res s' = Some RErr.
Proof.
  intros H. unfold step. rewrite H. eexists. split; [reflexivity|]. simpl. rewrite upd_same. auto.
Qed.

Theorem close_closes_subscriber n hon f5 f12 sched h :
  let s := exec (init n hon f5 true f12) sched in
  early_cancel s = false -> hc_decided (hc s h) = true -> 1 <= sub_closes s h.
Proof.
  intros s He Hd. pose proof (Inv_reach n hon f5 true f12 sched) as I. fold s in I.
  apply (h_5 s (i_h s I) h); [|assumption|assumption].
  destruct (flags_exec (init n hon f5 true f12) sched) as (_ & F & _). fold s in F. simpl in F. assumption.
Qed.

Theorem quiescent_closes_publishers n hon f5 f6 f12 sched h :
  let s := exec (init n hon f5 f6 f12) sched in
  quiescent s -> h < n -> 1 <= pub_closes s h.
Proof.
  intros s [_ Hq] Hlt. pose proof (Inv_reach n hon f5 f6 f12 sched) as I. fold s in I.
  destruct (flags_exec (init n hon f5 f6 f12) sched) as (_ & _ & _ & Fn). fold s in Fn. simpl in Fn.
  pose proof (a_base s (i_a s I)) as IA.
  apply (a_pub s IA h). specialize (Hq h).
  destruct (lp s h) eqn:E; simpl in *; try discriminate; [|reflexivity].
  exfalso. apply (a_hb2 s IA h); [lia | assumption].
Qed.

(** the timeout needs nobody else: from a waiting Close call, three steps of that call alone lead
    to the error return with closedCh closed and the lock released - whatever the other threads
    are doing, in particular a handleClose goroutine blocked inside its subscriber's Close() *)
Theorem timeout_alone_returns_error s c :
  cp s c = CWait ->
  exists s', replay s [LTimeout c; LClose c; LClose c] = Some s' /\
             cp s' c = CRet RErr /\ closedCh s' = true /\ closedLock s' = None /\
             hc s' = hc s /\ mp s' = mp s /\ lp s' = lp s.
Proof.
  intros H. unfold replay, step. rewrite H. simpl. rewrite upd_same. simpl. rewrite upd_same.
  eexists. split; [reflexivity|]. simpl. rewrite upd_same. repeat split; reflexivity.
Qed.
