(** Proofs about CQRS/Reg.v: the registration glue refines its batch-level specification. *)
From WM Require Import Base.Prelude Message.Model Handler.RouterHandle CQRS.Model CQRS.Reg.

Lemma existsb_app_one (f : N -> bool) l n : existsb f (l ++ [n]) = existsb f l || f n.
Proof. rewrite existsb_app. simpl. now rewrite orb_false_r. Qed.

Lemma nodupb_app_one l n : nodupb l = true -> existsb (N.eqb n) l = false -> nodupb (l ++ [n]) = true.
Proof.
  induction l as [|a l IH]; simpl; intros H1 H2; [reflexivity|].
  apply andb_true_iff in H1 as [Ha Hl]. apply orb_false_iff in H2 as [Hna Hnl].
  rewrite existsb_app_one, (N.eqb_sym a n), Hna, orb_false_r, Ha. simpl. now apply IH.
Qed.

Section RegProofs.
  Context {V T : Type}.
  Variable gen_name : V -> N.
  Variable zero : T -> V.

  Notation rspec := (rspec T).
  Notation rstate := (rstate T).
  Notation add_one := (add_one gen_name zero).
  Notation add_many := (add_many gen_name zero).
  Notation hreg_step := (hreg_step gen_name zero).
  Notation reg_step := (reg_step gen_name zero).
  Notation reg_run := (reg_run gen_name zero).
  Notation spec_step := (spec_step gen_name zero).
  Notation spec_run := (spec_run gen_name zero).
  Notation batch_events := (batch_events gen_name zero).
  Notation hreg_expected := (hreg_expected gen_name zero).
  Notation hreg_expected_events := (hreg_expected_events gen_name zero).
  Notation bad_events := (bad_events gen_name zero).
  Implicit Types (s : rstate) (x : rspec) (xs : list rspec).

  Lemma name_taken_spec n (router : list rhandler) :
    name_taken n router = existsb (N.eqb n) (map rh_name router).
  Proof. induction router as [|rh r IH]; simpl; [reflexivity|]. now rewrite IH, N.eqb_sym. Qed.

  Definition panic_extra (r : rres) : N := match r with RPanicDupName => 1%N | _ => 0%N end.

  (** one addHandlerToRouter *)
  Lemma add_one_spec evt s x :
    let '(s', e, r) := add_one evt s x in
    r = classify evt (taken_names s) x
    /\ r_handlers s' = r_handlers s /\ r_groups s' = r_groups s
    /\ (r = ROk -> r_router s' = r_router s ++ [RH (rs_hname x) (topic_of x) (N.succ (r_nsub s)) [rs_id x]]
                   /\ r_nsub s' = N.succ (r_nsub s)
                   /\ e = [RegTopic (rs_name gen_name zero x) (rs_id x); RegSub (rs_name gen_name zero x) (rs_id x) (rs_hname x);
                           RegAdd (rs_hname x) (topic_of x) (N.succ (r_nsub s))])
    /\ (r <> ROk -> r_router s' = r_router s /\ r_nsub s' = (r_nsub s + panic_extra r)%N /\ e = bad_events evt x r).
  Proof.
    unfold Reg.add_one, classify, bad_events, taken_names, topic_of.
    destruct (evt && negb (rs_ptr x)) eqn:E1; [repeat split; try congruence; now rewrite ?N.add_0_r|].
    destruct (rs_topic x) as [t|]; [|repeat split; try congruence; now rewrite ?N.add_0_r].
    destruct (rs_ptr x) eqn:Ep; simpl.
    2:{ simpl in E1. rewrite andb_true_r in E1. subst evt. simpl.
        repeat split; try congruence. now rewrite N.add_0_r. }
    destruct (rs_sub x); simpl; [|repeat split; try congruence; now rewrite N.add_0_r].
    rewrite name_taken_spec.
    destruct (existsb (N.eqb (rs_hname x)) (map rh_name (r_router s))); simpl;
      repeat split; try congruence. now rewrite N.add_1_r.
  Qed.

  (** the loop over a batch *)
  Lemma add_many_spec evt keep : forall xs s,
    let '(s', e, r) := add_many evt keep s xs in
    let good := good_prefix evt (taken_names s) xs in
    r_router s' = batch_router evt s xs
    /\ r = batch_result evt (taken_names s) xs
    /\ r_handlers s' = (if keep then r_handlers s ++ good else r_handlers s)
    /\ r_groups s' = r_groups s
    /\ r_nsub s' = (r_nsub s + N.of_nat (length good) + panic_extra r)%N
    /\ e = batch_events evt (taken_names s) (r_nsub s) xs.
  Proof.
    induction xs as [|x xs IH]; intros s; cbv zeta.
    - simpl. unfold batch_router. simpl. rewrite !app_nil_r, !N.add_0_r. repeat split. now destruct keep.
    - simpl. pose proof (add_one_spec evt s x) as H1.
      destruct (add_one evt s x) as [[s1 e1] r1].
      destruct H1 as (Hr & Hh & Hg & Hok & Hbad). unfold batch_router. simpl.
      rewrite <- Hr.
      destruct r1;
        try (destruct (Hbad ltac:(discriminate)) as (Hb1 & Hb2 & Hb3); simpl;
             rewrite ?app_nil_r, Hb1, Hb2, Hh, Hg, ?N.add_0_r; repeat split; try assumption;
             destruct keep; now rewrite ?app_nil_r).
      destruct (Hok eq_refl) as (Ho1 & Ho2 & Ho3). clear Hok Hbad. simpl.
      set (s1' := if keep then RSt (r_router s1) (r_handlers s1 ++ [x]) (r_groups s1) (r_nsub s1) else s1).
      assert (E1 : r_router s1' = r_router s1) by (unfold s1'; now destruct keep).
      assert (E2 : r_groups s1' = r_groups s1) by (unfold s1'; now destruct keep).
      assert (E3 : r_nsub s1' = r_nsub s1) by (unfold s1'; now destruct keep).
      assert (E4 : r_handlers s1' = if keep then r_handlers s1 ++ [x] else r_handlers s1) by (unfold s1'; now destruct keep).
      assert (Et : taken_names s1' = taken_names s ++ [rs_hname x]).
      { unfold taken_names. rewrite E1, Ho1, map_app. reflexivity. }
      specialize (IH s1'). destruct (add_many evt keep s1' xs) as [[s2 e2] r2].
      cbv zeta in IH. destruct IH as (I1 & I2 & I3 & I4 & I5 & I6).
      unfold batch_router in I1. rewrite Et, E1, E3, Ho1, Ho2 in *.
      repeat split.
      + rewrite I1, <- app_assoc. reflexivity.
      + assumption.
      + rewrite I3, E4, Hh. destruct keep; [now rewrite <- app_assoc|reflexivity].
      + now rewrite I4, E2, Hg.
      + rewrite I5.
        match goal with |- context [N.pos (Pos.of_succ_nat ?n)] => change (N.pos (Pos.of_succ_nat n)) with (N.of_nat (S n)) end.
        rewrite Nat2N.inj_succ. lia.
      + rewrite Ho3, I6. reflexivity.
  Qed.

  Lemma length_mk_handlers n xs : length (mk_handlers n xs) = length xs.
  Proof. revert n. induction xs as [|x xs IH]; intros n; simpl; [reflexivity|]. now rewrite IH. Qed.

  (** one call on a command / event processor leaves exactly what the specification says *)
  Lemma hreg_step_spec evt depr s o :
    let '(s', e, r) := hreg_step evt depr s o in
    (r_router s', r_handlers s', r) = hreg_expected evt depr s o
    /\ e = hreg_expected_events evt depr s o
    /\ r_groups s' = r_groups s
    /\ r_nsub s' = (r_nsub s + N.of_nat (length (r_router s') - length (r_router s)) + panic_extra r)%N.
  Proof.
    assert (Hlen : forall xs, length (batch_router evt s xs) - length (r_router s)
                              = length (good_prefix evt (taken_names s) xs)).
    { intros xs. unfold batch_router. rewrite app_length, length_mk_handlers. lia. }
    assert (H0 : forall n : N, (n + N.of_nat (length (r_router s) - length (r_router s)) + 0 = n)%N).
    { intros n. rewrite Nat.sub_diag. simpl. lia. }
    unfold Reg.hreg_step, Reg.hreg_expected, Reg.hreg_expected_events.
    destruct o as [xs|x|].
    - destruct (if evt then None else first_dup [] (map (rs_name gen_name zero) xs)) as [n|].
      + simpl. repeat split; try now rewrite H0.
      + destruct depr.
        * simpl. repeat split; try now rewrite H0.
        * pose proof (add_many_spec evt true xs s) as H. destruct (add_many evt true s xs) as [[s' e] r].
          cbv zeta in H. destruct H as (H1 & H2 & H3 & H4 & H5 & H6).
          repeat split; try congruence; rewrite H5, H1, Hlen; reflexivity.
    - destruct depr.
      + simpl. repeat split; try now rewrite H0.
      + pose proof (add_many_spec evt true [x] s) as H. destruct (add_many evt true s [x]) as [[s' e] r].
        cbv zeta in H. destruct H as (H1 & H2 & H3 & H4 & H5 & H6).
        repeat split; try congruence; rewrite H5, H1, Hlen; reflexivity.
    - destruct depr.
      + pose proof (add_many_spec evt false (r_handlers s) s) as H.
        destruct (add_many evt false s (r_handlers s)) as [[s' e] r].
        cbv zeta in H. destruct H as (H1 & H2 & H3 & H4 & H5 & H6).
        repeat split; try congruence; rewrite H5, H1, Hlen; reflexivity.
      + simpl. repeat split; try now rewrite H0.
  Qed.

  (** every call (handlers or group) is the specification step *)
  Lemma reg_step_spec evt depr s c : reg_step evt depr s c = spec_step evt depr s c.
  Proof.
    destruct c as [o|g xs topic sub]; simpl.
    - pose proof (hreg_step_spec evt depr s o) as H.
      destruct (hreg_step evt depr s o) as [[s' e] r].
      destruct H as (H1 & H2 & H3 & H4).
      destruct (hreg_expected evt depr s o) as [[router hs] r'].
      injection H1 as <- <- <-. unfold panic_extra in H4. rewrite <- H2, <- H4, <- H3. now destruct s'.
    - unfold greg_step. destruct xs as [|x xs]; [reflexivity|].
      destruct (existsb (N.eqb g) (r_groups s)); [reflexivity|].
      destruct (forallb rs_ptr (x :: xs)); simpl negb; cbv iota; [|reflexivity].
      destruct topic as [t|]; [|reflexivity].
      destruct sub; simpl negb; cbv iota; [|reflexivity].
      destruct (name_taken g (r_router s)); reflexivity.
  Qed.

  Lemma reg_run_spec evt depr : forall cs s, reg_run evt depr s cs = spec_run evt depr s cs.
  Proof.
    induction cs as [|c cs IH]; intros s; simpl; [reflexivity|].
    rewrite reg_step_spec. destruct (spec_step evt depr s c) as [[s1 e] r]. now rewrite IH.
  Qed.

  (** *** what the specification functions say *)

  (** a batch result is ROk iff the whole batch was registered; in general a prefix is *)
  Lemma good_prefix_is_prefix evt : forall xs taken, exists post, xs = good_prefix evt taken xs ++ post.
  Proof.
    induction xs as [|x xs IH]; intros taken; simpl; [now exists []|].
    destruct (is_ok (classify evt taken x)); [|now eexists].
    destruct (IH (taken ++ [rs_hname x])) as [post Hp]. exists post. simpl. f_equal. exact Hp.
  Qed.

  Lemma batch_ok_iff evt : forall xs taken,
    batch_result evt taken xs = ROk <-> good_prefix evt taken xs = xs.
  Proof.
    induction xs as [|x xs IH]; intros taken; simpl; [tauto|].
    destruct (classify evt taken x) eqn:E; simpl; try (split; [discriminate|intros H; discriminate]).
    rewrite IH. split; [now intros ->|]. now intros [= ->].
  Qed.

  (** whoever is registered is registrable: a pointer type, a generated topic, a subscriber,
      and a router-handler name different from every name already on the Router and from the
      names of the handlers registered before it in the same batch *)
  Lemma good_prefix_sound evt : forall xs taken pre x post,
    good_prefix evt taken xs = pre ++ x :: post ->
    rs_ptr x = true /\ rs_sub x = true /\ (exists t, rs_topic x = Some t)
    /\ existsb (N.eqb (rs_hname x)) (taken ++ map rs_hname pre) = false.
  Proof.
    induction xs as [|y xs IH]; intros taken pre x post; simpl.
    - now destruct pre.
    - destruct (classify evt taken y) eqn:E; simpl; try now destruct pre.
      destruct pre as [|p pre]; simpl.
      + intros [= <- _]. unfold classify in E.
        destruct (evt && negb (rs_ptr y)); [discriminate|].
        destruct (rs_topic y) as [t|]; [|discriminate].
        destruct (rs_ptr y); simpl in E; [|discriminate].
        destruct (rs_sub y); simpl in E; [|discriminate].
        rewrite app_nil_r. destruct (existsb _ taken); [discriminate|]. eauto.
      + intros [= <- H]. apply IH in H. rewrite <- app_assoc in H. exact H.
  Qed.

  (** the router handlers a batch adds: one per registered cqrs handler, in order, under its
      HandlerName, on the topic generated for it, each with its own fresh subscriber *)
  Lemma mk_handlers_spec evt : forall xs taken n,
    let good := good_prefix evt taken xs in
    Forall2 (fun x rh => rh_from x rh = true) good (mk_handlers n good)
    /\ map rh_sub (mk_handlers n good) = map (fun i => (n + N.of_nat i)%N) (seq 1 (length good)).
  Proof.
    intros xs taken n. cbv zeta.
    assert (Hall : forall x, In x (good_prefix evt taken xs) ->
                             rs_ptr x = true /\ rs_sub x = true /\ exists t, rs_topic x = Some t).
    { intros x Hin. apply in_split in Hin as (pre & post & Hs).
      apply good_prefix_sound in Hs. tauto. }
    revert n Hall. generalize (good_prefix evt taken xs) as good.
    induction good as [|x good IH]; intros n Hall; simpl; [split; constructor|].
    destruct (Hall x (or_introl eq_refl)) as (Hp & Hs & t & Ht).
    destruct (IH (N.succ n) (fun y Hy => Hall y (or_intror Hy))) as (I1 & I2).
    split.
    - constructor; [|assumption]. unfold rh_from, topic_of. simpl.
      rewrite Ht, Hp, Hs. simpl. rewrite !N.eqb_refl. reflexivity.
    - f_equal; [lia|]. rewrite I2, <- (seq_shift (length good) 1), map_map. apply map_ext. intros i. lia.
  Qed.

  (** router-handler names stay pairwise different *)
  Lemma batch_names_nodup evt : forall xs s,
    nodupb (taken_names s) = true ->
    nodupb (map rh_name (batch_router evt s xs)) = true.
  Proof.
    intros xs s. unfold batch_router, taken_names. rewrite map_app.
    generalize (r_nsub s) as n. generalize (map rh_name (r_router s)) as taken.
    induction xs as [|x xs IH]; intros taken n Hnd; simpl; [now rewrite app_nil_r|].
    destruct (classify evt taken x) eqn:E; simpl; try now rewrite app_nil_r.
    assert (Hfresh : existsb (N.eqb (rs_hname x)) taken = false).
    { unfold classify in E. destruct (evt && negb (rs_ptr x)); [discriminate|].
      destruct (rs_topic x); [|discriminate]. destruct (negb (rs_ptr x)); [discriminate|].
      destruct (negb (rs_sub x)); [discriminate|]. now destruct (existsb _ taken). }
    specialize (IH (taken ++ [rs_hname x]) (N.succ n) (nodupb_app_one _ _ Hnd Hfresh)).
    now rewrite <- app_assoc in IH.
  Qed.

  Lemma reg_step_names_nodup evt depr s c :
    nodupb (taken_names s) = true ->
    nodupb (taken_names (fst (fst (reg_step evt depr s c)))) = true.
  Proof.
    intros Hnd. destruct c as [o|g xs topic sub]; simpl.
    - pose proof (hreg_step_spec evt depr s o) as H.
      destruct (hreg_step evt depr s o) as [[s' e] r]. destruct H as (H1 & _). simpl.
      unfold taken_names at 1. unfold Reg.hreg_expected in H1.
      destruct o as [xs|x|].
      + destruct (if evt then None else first_dup [] (map (rs_name gen_name zero) xs)).
        * injection H1 as -> _ _. exact Hnd.
        * destruct depr; injection H1 as -> _ _; [exact Hnd|now apply batch_names_nodup].
      + destruct depr; injection H1 as -> _ _; [exact Hnd|now apply batch_names_nodup].
      + destruct depr; injection H1 as -> _ _; [now apply batch_names_nodup|exact Hnd].
    - unfold greg_step. destruct xs as [|x xs]; [exact Hnd|].
      destruct (existsb (N.eqb g) (r_groups s)); [exact Hnd|].
      destruct (forallb rs_ptr (x :: xs)); simpl negb; cbv iota; [|exact Hnd].
      destruct topic as [t|]; [|exact Hnd].
      destruct sub; simpl negb; cbv iota; [|exact Hnd].
      destruct (name_taken g (r_router s)) eqn:En; [exact Hnd|].
      unfold taken_names. simpl. rewrite map_app. simpl.
      apply nodupb_app_one; [exact Hnd|]. now rewrite <- name_taken_spec.
  Qed.

  Lemma reg_run_names_nodup evt depr : forall cs s,
    nodupb (taken_names s) = true -> nodupb (taken_names (fst (reg_run evt depr s cs))) = true.
  Proof.
    induction cs as [|c cs IH]; intros s Hnd; simpl; [exact Hnd|].
    pose proof (reg_step_names_nodup evt depr s c Hnd) as H1.
    destruct (reg_step evt depr s c) as [[s1 e] r]. simpl in H1.
    specialize (IH s1 H1). destruct (reg_run evt depr s1 cs) as [s2 l]. exact IH.
  Qed.

  (** *** the acceptor accepts the model *)
  Lemma list_eqb_refl {A} (eqb : A -> A -> bool) : (forall a, eqb a a = true) -> forall l, list_eqb eqb l l = true.
  Proof. intros H. induction l as [|a l IH]; simpl; [reflexivity|]. now rewrite H, IH. Qed.
  Lemma rres_eqb_refl r : rres_eqb r r = true.
  Proof. destruct r; simpl; try reflexivity. apply N.eqb_refl. Qed.
  Lemma gevent_eqb_refl e : gevent_eqb e e = true.
  Proof. destruct e; simpl; now rewrite !N.eqb_refl. Qed.
  Lemma rh_eqb_refl rh : rh_eqb rh rh = true.
  Proof. unfold rh_eqb. rewrite !N.eqb_refl. simpl. apply list_eqb_refl, N.eqb_refl. Qed.

  Lemma reg_monitor_accepts evt depr cs :
    let '(s, obs) := reg_run evt depr (rinit (T:=T)) cs in
    reg_monitor gen_name zero evt depr cs obs (r_router s) (map (fun x => rs_id x) (r_handlers s)) = true.
  Proof.
    pose proof (reg_run_names_nodup evt depr cs (rinit (T:=T)) eq_refl) as Hnd.
    unfold reg_monitor. rewrite <- reg_run_spec.
    destruct (reg_run evt depr (rinit (T:=T)) cs) as [s obs]. simpl in Hnd.
    rewrite (list_eqb_refl obs_eqb), (list_eqb_refl rh_eqb rh_eqb_refl), (list_eqb_refl N.eqb N.eqb_refl).
    - exact Hnd.
    - intros [e r]. unfold obs_eqb. simpl. now rewrite (list_eqb_refl gevent_eqb gevent_eqb_refl), rres_eqb_refl.
  Qed.

  (** *** readable consequences *)

  (** a command batch with two handlers of the same command name is rejected before anything
      happens: no callback, no router handler, p.handlers unchanged *)
  Lemma dup_batch_rejected depr s xs n :
    first_dup [] (map (rs_name gen_name zero) xs) = Some n ->
    hreg_step false depr s (OAddHandlers xs) = (s, [], RDup n).
  Proof. intros H. unfold Reg.hreg_step. now rewrite H. Qed.

  (** the deprecated processors never touch the Router (nor call a callback) in AddHandlers /
      AddHandler; AddHandlersToRouter registers p.handlers as one batch; on a config-constructed
      processor it is refused *)
  Lemma deprecated_defers evt s xs x :
    (evt = true \/ first_dup [] (map (rs_name gen_name zero) xs) = None) ->
    hreg_step evt true s (OAddHandlers xs) = (push_handlers s xs, [], ROk)
    /\ hreg_step evt true s (OAddHandler x) = (push_handlers s [x], [], ROk)
    /\ hreg_step evt true s OToRouter = add_many evt false s (r_handlers s)
    /\ hreg_step evt false s OToRouter = (s, [], RNotDeprecated).
  Proof.
    intros H. unfold Reg.hreg_step. repeat split.
    destruct H as [-> | H]; [reflexivity|]. destruct evt; [reflexivity|now rewrite H].
  Qed.

  (** a group: one router handler named after the group, for all its handlers; a refused group
      (empty, existing name, non-pointer event, callback error) leaves everything unchanged *)
  Lemma group_spec s g xs topic sub :
    let '(s', e, r) := greg_step s g xs topic sub in
    (r = ROk -> exists t, topic = Some t /\ xs <> [] /\ existsb (N.eqb g) (r_groups s) = false
                /\ r_router s' = r_router s ++ [RH g t (N.succ (r_nsub s)) (map (fun x => rs_id x) xs)]
                /\ r_groups s' = r_groups s ++ [g]
                /\ e = [RegTopic g (N.of_nat (length xs)); RegSub g (N.of_nat (length xs)) 0; RegAdd g t (N.succ (r_nsub s))])
    /\ (r <> ROk -> r_router s' = r_router s /\ r_groups s' = r_groups s /\ r_handlers s' = r_handlers s)
    /\ (r = RNoHandlers \/ r = RGroupExists \/ r = RValidateErr -> e = [] /\ s' = s).
  Proof.
    unfold greg_step. destruct xs as [|x xs].
    { repeat split; try congruence. }
    destruct (existsb (N.eqb g) (r_groups s)) eqn:Eg; [repeat split; congruence|].
    destruct (forallb rs_ptr (x :: xs)); simpl negb; cbv iota; [|repeat split; congruence].
    destruct topic as [t|]; [|repeat split; try congruence; intuition discriminate].
    destruct sub; simpl negb; cbv iota; [|repeat split; try congruence; intuition discriminate].
    destruct (name_taken g (r_router s)).
    - repeat split; try congruence; intuition discriminate.
    - split; [|split]; try congruence; [|intuition discriminate].
      intros _. exists t. repeat split. discriminate.
  Qed.
End RegProofs.
