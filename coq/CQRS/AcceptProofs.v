(** Every acceptor of CQRS/Accept.v accepts what the model does. *)
From WM Require Import Base.Prelude Message.Model Handler.RouterHandle CQRS.Model CQRS.Proofs
     CQRS.Calls CQRS.CallsProofs CQRS.Own CQRS.OwnProofs CQRS.Accept.

Section AcceptProofs.
  Context {V T P : Type}.
  Variable gen_name : V -> N.
  Variable enc : V -> option P.
  Variable dec : P -> T -> option V.
  Variable zero : T -> V.

  Lemma list_eqbN_refl (l : list N) : list_eqb N.eqb l l = true.
  Proof. induction l as [|a l IH]; simpl; [reflexivity|]. now rewrite N.eqb_refl, IH. Qed.

  (** the marshaler-call acceptor accepts every delivery of the model *)
  Lemma mc_monitor_accepts cfg (msg : wmsg P) (d : @delivery T) :
    mc_monitor msg (snd (fst (process gen_name dec zero cfg msg d)))
               (proc_mcalls gen_name dec zero cfg msg d) = true.
  Proof.
    unfold mc_monitor. rewrite (proc_mcalls_ok gen_name dec zero), (proc_mhandles gen_name dec zero).
    apply list_eqbN_refl.
  Qed.

  (** the sent-value acceptor accepts every message a successful bus call published without
      touching name or payload, in whatever object / uuid / context it is consumed *)
  Lemma sent_monitor_accepts (eqbP : P -> P -> bool) (Hrefl : forall p, eqbP p p = true)
        buscfg uuid obj c v modify pb tr t (pm : wmsg P) :
    bus_send gen_name enc buscfg uuid obj c v modify pb = (tr, BOk) ->
    edits_touch_name (hook_edits (bc_hook buscfg) ++ hook_edits modify) = false ->
    edits_touch_payload (hook_edits (bc_hook buscfg) ++ hook_edits modify) = false ->
    bus_publishes tr = [(t, pm)] ->
    forall msg : wmsg P, w_payload msg = w_payload pm -> w_meta msg = w_meta pm ->
    sent_monitor gen_name enc eqbP msg v = true.
  Proof.
    intros E Hn Hp Htr msg Hpl Hmeta.
    apply (bus_ok_publishes_once gen_name enc) in E as (t' & p & _ & Hp' & Htr').
    rewrite Htr in Htr'. injection Htr' as -> ->.
    destruct (published_carries gen_name buscfg uuid obj c v p modify) as (Hname & Hpay & _).
    cbv zeta in Hname, Hpay. unfold sent_monitor.
    rewrite Hp', Hpl, Hpay by assumption. simpl. rewrite Hrefl. simpl.
    unfold name_from in *. rewrite Hmeta, Hname by assumption. apply N.eqb_refl.
  Qed.

  (** the ownership acceptor is applied to the right expectation: what the buffer-level view
      prescribes for a bus call is the payload of the message the event-level model publishes *)
  Lemma own_call_links cfg uuid obj c v modify pb :
    hexpected enc (bus_own_call gen_name enc cfg uuid obj c v modify pb)
    = match bus_publishes (fst (bus_send gen_name enc cfg uuid obj c v modify pb)) with
      | [(_, m)] => Some (w_payload m)
      | _ => None
      end.
  Proof.
    unfold bus_own_call, hexpected. simpl.
    pose proof (bus_send_spec gen_name enc cfg uuid obj c v modify pb) as H.
    destruct (bus_send gen_name enc cfg uuid obj c v modify pb) as [tr r]. simpl.
    destruct (reaches_publish gen_name enc cfg v modify) as [t|].
    - destruct H as (p & Hp & -> & _). rewrite Hp. simpl. f_equal.
      unfold published_msg. rewrite <- apply_edits_app, last_payload_apply_edits. reflexivity.
    - destruct H as (-> & _). now destruct (enc v).
  Qed.
End AcceptProofs.
