(** Call-level view of the same code (round "proofs"): which Marshaler methods the buses and the
    processor closures call, in which order, on which objects.

    command_bus.go newMessage l.139-146 / event_bus.go Publish l.118-123: Marshaler.Marshal(v)
    exactly once, first; then Marshaler.Name(v) (only when Marshal succeeded).
    command_processor.go l.322-345, event_processor.go l.321-343, event_processor_group.go
    l.205-236: NameFromMessage(msg) once per message, before anything else of the marshaler;
    Unmarshal(msg, fresh value from handler.NewCommand()/NewEvent()) only for a handler whose
    type name equals the message's name; the object that was decoded is the one Handle receives;
    after a failed Unmarshal nothing else happens.

    Objects are numbered in order of first appearance within one message (what the harness does
    with pointers); [fresh] = the harness never saw that pointer before, in any message.
    Executable; no proofs here. *)
From WM Require Import Base.Prelude Message.Model Handler.RouterHandle CQRS.Model.

Section Calls.
  Context {V T P : Type}.
  Variable gen_name : V -> N.
  Variable enc : V -> option P.
  Variable dec : P -> T -> option V.
  Variable zero : T -> V.

  Inductive mevent :=
  | MMarshal (v : V)                                (* Marshaler.Marshal(v) entered *)
  | MName (v : V)                                   (* Marshaler.Name(v) entered (buses only) *)
  | MNameFrom                                       (* Marshaler.NameFromMessage(consumed message) *)
  | MUnmarshal (tyname : N) (obj : N) (fresh ok : bool)  (* Unmarshal(consumed message, obj): the name of obj's
                                                            type, is obj a never-seen object, did it succeed *)
  | MHandle (hid : N) (obj : N).                    (* Handle(ctx, obj) entered *)

  (** *** buses *)
  Definition bus_mcalls (v : V) : list mevent :=
    MMarshal v :: match enc v with Some _ => [MName v] | None => [] end.

  (** *** processors: one cqrs handler of the router handler, objects numbered from [n] *)
  Definition one_mcalls (oh : onhandle) (msg : wmsg P) (hb : handler T * hscript) (n : N)
    : list mevent * N * bool (* does the loop go on? *) :=
    let '(h, b) := hb in
    if negb (matches gen_name zero msg h) then ([], n, true)
    else match unmarshal dec msg (h_ty h) with
         | None => ([MUnmarshal (hname gen_name zero h) n true false], N.succ n, false)
         | Some _ =>
             (MUnmarshal (hname gen_name zero h) n true true
                :: (if oh_calls oh then [MHandle (h_id h) n] else []),
              N.succ n,
              match oh_result oh (hs_res b) with HROk => true | _ => false end)
         end.
  (** the loop; [trail] = group closure without AckOnUnknownEvent: when the loop ends with
      handledAnyEvent = false the error text is built with a SECOND NameFromMessage(msg) call
      (event_processor_group.go l.263) *)
  Fixpoint loop_mcalls (oh : onhandle) (trail : bool) (msg : wmsg P) (hs : list (handler T * hscript)) (n : N)
           (handled : bool) : list mevent :=
    match hs with
    | [] => if trail && negb handled then [MNameFrom] else []
    | hb :: hs' =>
        let '(e, n', go) := one_mcalls oh msg hb n in
        e ++ (if go then loop_mcalls oh trail msg hs' n'
                           (handled || matches gen_name zero msg (fst hb)) else [])
    end.
  (** one delivery: NameFromMessage first; a command / event closure looks at its one handler *)
  Definition proc_mcalls (cfg : pcfg) (msg : wmsg P) (d : @delivery T) : list mevent :=
    MNameFrom ::
    match d with
    | DCommand h b | DEvent h b => fst (fst (one_mcalls (pc_onhandle cfg) msg (h, b) 0))
    | DGroup hs => loop_mcalls (pc_onhandle cfg) (negb (pc_ack_unknown cfg)) msg hs 0 false
    end.

  (** *** the discipline as an acceptor over an observed call sequence of one delivery *)
  Fixpoint remove_first (o : N) (l : list N) : list N :=
    match l with [] => [] | x :: l' => if N.eqb o x then l' else x :: remove_first o l' end.
  Fixpoint mcalls_run (name : N) (tr : list mevent) (seen : bool) (hi : N) (ready : list N) : bool :=
    match tr with
    | [] => seen                                             (* NameFromMessage was called (at least once) *)
    | MNameFrom :: tr' => mcalls_run name tr' true hi ready
    | MUnmarshal tn o fresh ok :: tr' =>
        seen                                                 (* only after NameFromMessage *)
        && N.eqb tn name                                     (* only into a type whose name is the message's *)
        && fresh && N.leb hi o                               (* into a brand-new object *)
        && (ok || match tr' with [] => true | _ => false end)  (* nothing follows a failed Unmarshal *)
        && mcalls_run name tr' seen (N.succ o) (if ok then o :: ready else ready)
    | MHandle _ o :: tr' =>
        existsb (N.eqb o) ready                              (* Handle gets an object that was decoded, once *)
        && mcalls_run name tr' seen hi (remove_first o ready)
    | MMarshal _ :: _ | MName _ :: _ => false                (* processors never marshal *)
    end.
  Definition mcalls_ok (name : N) (tr : list mevent) : bool := mcalls_run name tr false 0 [].

  Definition mhandles (tr : list mevent) : list N :=
    flat_map (fun e => match e with MHandle hid _ => [hid] | _ => [] end) tr.

  (** the bus discipline: exactly one Marshal, first, of the value sent; Name(v) afterwards iff
      Marshal succeeded *)
  Context (eqbV : V -> V -> bool).
  Definition bus_mcalls_ok (v : V) (tr : list mevent) : bool :=
    match tr with
    | [MMarshal v1] => eqbV v1 v && match enc v with None => true | Some _ => false end
    | [MMarshal v1; MName v2] => eqbV v1 v && eqbV v2 v && match enc v with None => false | Some _ => true end
    | _ => false
    end.
End Calls.
Arguments mevent : clear implicits.
