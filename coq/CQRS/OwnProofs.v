(** Proofs about CQRS/Own.v: published payloads are owned by their message. *)
From WM Require Import Base.Prelude CQRS.Model CQRS.Own.

Section OwnProofs.
  Context {V P : Type}.
  Variable enc : V -> option P.
  Notation hstep := (hstep enc).
  Notation hrun := (hrun enc).
  Notation hexpected := (hexpected enc).

  (** callbacks only allocate: the heap grows, the message's buffer is always allocated and
      holds the last payload assigned *)
  Lemma edits_spec : forall (es : list (edit P)) (s : list P) (b : nat) (p0 : P),
    nth_error s b = Some p0 ->
    let r := fold_left edit_store es (s, b) in
    (exists ext, fst r = s ++ ext) /\ nth_error (fst r) (snd r) = Some (last_payload es p0)
    /\ (snd r = b \/ length s <= snd r).
  Proof.
    induction es as [|e es IH]; intros s b p0 Hb; cbv zeta.
    - simpl. split; [exists []; now rewrite app_nil_r|]. auto.
    - destruct e as [k v|p|u]; try (exact (IH s b p0 Hb)).
      change (fold_left edit_store (ESetPayload p :: es) (s, b))
        with (fold_left edit_store es (s ++ [p], length s)).
      change (last_payload (ESetPayload p :: es) p0) with (last_payload es p).
      assert (Hn : nth_error (s ++ [p]) (length s) = Some p).
      { rewrite nth_error_app2 by lia. now rewrite Nat.sub_diag. }
      destruct (IH (s ++ [p]) (length s) p Hn) as ((ext & He) & H2 & H3). repeat split.
      + exists ([p] ++ ext). rewrite He. now rewrite app_assoc.
      + exact H2.
      + right. destruct H3 as [-> | H3]; [lia|]. rewrite app_length in H3. simpl in H3. lia.
  Qed.

  (** one call: the heap only grows; a published buffer is NEW (not one of the buffers that
      existed before the call) and holds exactly the bytes the call prescribes *)
  Lemma hstep_spec (s : store) (c : hcall) :
    (exists ext, fst (hstep s c) = s ++ ext)
    /\ read (fst (hstep s c)) (snd (hstep s c)) = hexpected c
    /\ (forall b, snd (hstep s c) = Some b -> length s <= b < length (fst (hstep s c))).
  Proof.
    unfold Own.hstep, Own.hexpected. destruct (enc (hc_val c)) as [p|].
    2:{ simpl. split; [exists []; now rewrite app_nil_r|]. split; [reflexivity|discriminate]. }
    assert (Hn : nth_error (s ++ [p]) (length s) = Some p).
    { rewrite nth_error_app2 by lia. now rewrite Nat.sub_diag. }
    destruct (edits_spec (hc_edits c) (s ++ [p]) (length s) p Hn) as ((ext & He) & H2 & H3).
    set (r := fold_left edit_store (hc_edits c) (s ++ [p], length s)) in *.
    assert (Hr : (let '(s2, b) := r in (s2, if hc_reach c then Some b else None))
                 = (fst r, if hc_reach c then Some (snd r) else None)) by now destruct r.
    rewrite Hr. simpl fst. simpl snd. split; [|split].
    - exists ([p] ++ ext). rewrite He. now rewrite app_assoc.
    - destruct (hc_reach c); [exact H2|reflexivity].
    - destruct (hc_reach c); [|discriminate]. intros b [= <-]. split.
      + destruct H3 as [-> | H3]; [lia|]. rewrite app_length in H3. simpl in H3. lia.
      + apply nth_error_Some. congruence.
  Qed.

  Lemma hrun_extends : forall cs (s : store), exists ext, fst (hrun s cs) = s ++ ext.
  Proof.
    induction cs as [|c cs IH]; intros s; simpl; [exists []; now rewrite app_nil_r|].
    pose proof (hstep_spec s c) as H. destruct (hstep s c) as [s1 ob]. simpl in H.
    destruct H as ((e1 & ->) & _). destruct (IH (s ++ e1)) as (e2 & H2).
    destruct (hrun (s ++ e1) cs) as [s2 l]. simpl in *. exists (e1 ++ e2). now rewrite app_assoc.
  Qed.

  (** OWNERSHIP: whatever calls follow, reading every published message's payload after the
      WHOLE sequence gives exactly what each call prescribed on its own *)
  Lemma own_reread : forall cs (s : store),
    let '(sf, bs) := hrun s cs in map (read sf) bs = map hexpected cs.
  Proof.
    induction cs as [|c cs IH]; intros s; simpl; [reflexivity|].
    pose proof (hstep_spec s c) as H. destruct (hstep s c) as [s1 ob]. simpl fst in H. simpl snd in H.
    destruct H as (_ & Hr & Hb).
    specialize (IH s1). pose proof (hrun_extends cs s1) as (ext & He).
    destruct (hrun s1 cs) as [sf bs]. simpl in *. subst sf. rewrite IH. f_equal.
    rewrite <- Hr. destruct ob as [b|]; [|reflexivity]. simpl.
    apply nth_error_app1. now apply Hb.
  Qed.

  (** no two published messages share a buffer: the published buffers are strictly increasing *)
  Fixpoint increasing_from (n : nat) (l : list (option nat)) : Prop :=
    match l with
    | [] => True
    | None :: l' => increasing_from n l'
    | Some b :: l' => n <= b /\ increasing_from (S b) l'
    end.
  Lemma increasing_weaken : forall l n m, n <= m -> increasing_from m l -> increasing_from n l.
  Proof.
    induction l as [|[b|] l IH]; intros n m Hle; simpl; auto.
    - intros [H1 H2]. split; [lia|assumption].
    - now apply IH.
  Qed.
  Lemma own_distinct : forall cs (s : store), increasing_from (length s) (snd (hrun s cs)).
  Proof.
    induction cs as [|c cs IH]; intros s; simpl; [exact I|].
    pose proof (hstep_spec s c) as H. destruct (hstep s c) as [s1 ob]. simpl fst in H. simpl snd in H.
    destruct H as ((ext & He) & _ & Hb). specialize (IH s1).
    destruct (hrun s1 cs) as [sf bs]. simpl in *.
    assert (Hlen : length s <= length s1) by (subst s1; rewrite app_length; lia).
    destruct ob as [b|].
    - destruct (Hb b eq_refl) as [H1 H2]. split; [assumption|].
      eapply increasing_weaken; [|exact IH]. lia.
    - eapply increasing_weaken; eassumption.
  Qed.

  (** the prescribed bytes are the payload of the event-level model's published message *)
  Lemma last_payload_apply_edits (m0 : wmsg P) es :
    w_payload (apply_edits m0 es) = last_payload es (w_payload m0).
  Proof.
    unfold apply_edits, last_payload. revert m0.
    induction es as [|e es IH]; intros m0; simpl; [reflexivity|]. rewrite IH. now destruct e.
  Qed.

  Lemma own_monitor_accepts (eqbP : P -> P -> bool) (Hrefl : forall p, eqbP p p = true) cs (s : store) :
    let '(sf, bs) := hrun s cs in own_monitor enc eqbP cs (map (read sf) bs) = true.
  Proof.
    pose proof (own_reread cs s) as H. destruct (hrun s cs) as [sf bs]. rewrite H.
    unfold own_monitor. clear H. induction (map hexpected cs) as [|[p|] l IH]; simpl; rewrite ?Hrefl, ?IH; reflexivity.
  Qed.
End OwnProofs.
