(** Ownership of published payloads (round "seeds 3"): payload bytes live in buffers; a message
    holds a REFERENCE to its buffer ([]byte is a slice).  Heap-level view of a sequence of bus
    calls on one bus / marshaler:

    marshaler_json.go l.16 / marshaler_protobuf.go l.40 / marshaler_protobuf_gogo.go l.52:
    json.Marshal / proto.Marshal return a freshly allocated slice, NewMessage stores that slice
    (no copy); a callback that sets the payload assigns another fresh slice; Publish hands the
    message (and thereby the buffer) over to the publisher, which may read it at any later time.
    Nothing in the bus or marshaler writes into a buffer after it was filled.

    Executable; no proofs here. *)
From WM Require Import Base.Prelude CQRS.Model.

Section Own.
  Context {V P : Type}.
  Variable enc : V -> option P.

  (** the heap of payload buffers: buffer [b] is the b-th allocated one *)
  Definition store := list P.
  Definition read (s : store) (ob : option nat) : option P :=
    match ob with Some b => nth_error s b | None => None end.

  (** one bus call as far as buffers are concerned: the value, all edits of the callbacks
      (OnSend/OnPublish then modify) in order, and whether publisher.Publish is reached *)
  Record hcall := HC { hc_val : V; hc_edits : list (edit P); hc_reach : bool }.

  (** (heap, buffer the message's Payload field points to) *)
  Definition edit_store (sb : store * nat) (e : edit P) : store * nat :=
    match e with
    | ESetPayload p => (fst sb ++ [p], length (fst sb))     (* msg.Payload = a fresh slice *)
    | _ => sb
    end.
  Definition hstep (s : store) (c : hcall) : store * option nat (* buffer handed to Publish *) :=
    match enc (hc_val c) with
    | None => (s, None)
    | Some p =>
        let '(s2, b) := fold_left edit_store (hc_edits c) (s ++ [p], length s) in
        (s2, if hc_reach c then Some b else None)
    end.
  Fixpoint hrun (s : store) (cs : list hcall) : store * list (option nat) :=
    match cs with
    | [] => (s, [])
    | c :: cs' => let '(s1, ob) := hstep s c in
                  let '(s2, l) := hrun s1 cs' in (s2, ob :: l)
    end.

  (** the bytes a published message must carry: the value's encoding, or what the last
      callback that set the payload put there — a function of that call alone *)
  Definition last_payload (es : list (edit P)) (p0 : P) : P :=
    fold_left (fun acc e => match e with ESetPayload p => p | _ => acc end) es p0.
  Definition hexpected (c : hcall) : option P :=
    match enc (hc_val c) with
    | None => None
    | Some p => if hc_reach c then Some (last_payload (hc_edits c) p) else None
    end.

  (** the acceptor: what is read from the published messages AFTER the whole sequence *)
  Context (eqbP : P -> P -> bool).
  Definition own_monitor (cs : list hcall) (rereads : list (option P)) : bool :=
    list_eqb (option_eqb eqbP) rereads (map hexpected cs).
End Own.
