(** Proofs about CQRS/Calls.v: the closures respect the marshaler call discipline, and the
    call-level view agrees with the event-level model of CQRS/Model.v. *)
From WM Require Import Base.Prelude Message.Model Handler.RouterHandle CQRS.Model CQRS.Proofs CQRS.Calls.

Section CallsProofs.
  Context {V T P : Type}.
  Variable gen_name : V -> N.
  Variable enc : V -> option P.
  Variable dec : P -> T -> option V.
  Variable zero : T -> V.

  Notation one_mcalls := (one_mcalls gen_name dec zero).
  Notation loop_mcalls := (loop_mcalls gen_name dec zero).
  Notation proc_mcalls := (proc_mcalls gen_name dec zero).
  Notation mevent := (mevent V).

  Lemma mcalls_run_nil name hi ready : mcalls_run (V:=V) name [] true hi ready = true.
  Proof. reflexivity. Qed.

  (** the loop respects the discipline from any state in which NameFromMessage has been called
      and all objects seen so far are numbered below [n] *)
  Lemma loop_mcalls_ok oh trail (msg : wmsg P) : forall hs n handled hi ready,
    N.leb hi n = true ->
    mcalls_run (name_from msg) (loop_mcalls oh trail msg hs n handled) true hi ready = true.
  Proof.
    induction hs as [|[h b] hs IH]; intros n handled hi ready Hle; simpl;
      [now destruct (trail && negb handled)|].
    unfold Model.matches.
    destruct (N.eqb (name_from msg) (hname gen_name zero h)) eqn:En; simpl; [|now apply IH].
    assert (Hn : N.eqb (hname gen_name zero h) (name_from msg) = true) by now rewrite N.eqb_sym.
    assert (Hs : N.leb (N.succ n) (N.succ n) = true) by apply N.leb_refl.
    destruct (unmarshal dec msg (h_ty h)) as [v|]; simpl.
    - rewrite Hn, Hle. simpl.
      destruct (oh_calls oh); simpl.
      + rewrite N.eqb_refl. simpl.
        destruct (oh_result oh (hs_res b)); simpl; try reflexivity. now apply IH.
      + destruct (oh_result oh (hs_res b)); simpl; try reflexivity. now apply IH.
    - rewrite Hn, Hle. reflexivity.
  Qed.

  Lemma one_is_loop oh (msg : wmsg P) hb n :
    fst (fst (one_mcalls oh msg hb n)) = loop_mcalls oh false msg [hb] n false.
  Proof.
    simpl. destruct (one_mcalls oh msg hb n) as [[e n'] go]. simpl.
    destruct go; now rewrite app_nil_r.
  Qed.

  Definition as_loop (d : @delivery T) : list (handler T * hscript) := d_hs d.

  Definition d_trail (cfg : pcfg) (d : @delivery T) : bool :=
    match d with DGroup _ => negb (pc_ack_unknown cfg) | _ => false end.
  Lemma proc_mcalls_loop cfg (msg : wmsg P) d :
    proc_mcalls cfg msg d = MNameFrom :: loop_mcalls (pc_onhandle cfg) (d_trail cfg d) msg (d_hs d) 0 false.
  Proof. destruct d as [h b|h b|hs]; unfold Calls.proc_mcalls; simpl d_hs; try reflexivity; now rewrite one_is_loop. Qed.

  (** the discipline holds for every delivery: NameFromMessage exactly once and first, Unmarshal
      only into a fresh object of a type whose name is the message's, Handle only on a decoded
      object, nothing after a failed Unmarshal *)
  Lemma proc_mcalls_ok cfg (msg : wmsg P) d :
    mcalls_ok (name_from msg) (proc_mcalls cfg msg d) = true.
  Proof.
    rewrite proc_mcalls_loop. unfold mcalls_ok. simpl. now apply loop_mcalls_ok.
  Qed.

  (** the handlers Handle is called on are exactly the invocations of the event-level model *)
  Lemma loop_mhandles oh trail (msg : wmsg P) : forall hs n handled,
    mhandles (loop_mcalls oh trail msg hs n handled)
    = map fst (expected_calls dec oh msg (filter (fun hb => matches gen_name zero msg (fst hb)) hs)).
  Proof.
    induction hs as [|[h b] hs IH]; intros n handled; simpl; [now destruct (trail && negb handled)|].
    destruct (matches gen_name zero msg h); simpl; [|apply IH].
    destruct (unmarshal dec msg (h_ty h)) as [v|]; simpl; [|reflexivity].
    unfold mhandles in *. rewrite flat_map_app, map_app.
    destruct (oh_calls oh); simpl; destruct (oh_result oh (hs_res b)); simpl; rewrite ?IH; reflexivity.
  Qed.

  Lemma proc_mhandles cfg (msg : wmsg P) d :
    mhandles (proc_mcalls cfg msg d)
    = map fst (calls (snd (fst (process gen_name dec zero cfg msg d)))).
  Proof.
    rewrite proc_mcalls_loop. pose proof (process_spec gen_name dec zero cfg msg d) as H.
    destruct (process gen_name dec zero cfg msg d) as [[m2 e] rtr]. destruct H as (Hc & _).
    simpl snd. simpl fst. rewrite Hc. unfold mhandles at 1. simpl. apply loop_mhandles.
  Qed.

  (** buses: exactly one Marshal, first; Name(v) follows iff it succeeded *)
  Lemma bus_mcalls_accepts (eqbV : V -> V -> bool) (Hrefl : forall v, eqbV v v = true) v :
    bus_mcalls_ok enc eqbV v (bus_mcalls enc v) = true.
  Proof. unfold bus_mcalls_ok, bus_mcalls. destruct (enc v); now rewrite ?Hrefl. Qed.

  Lemma bus_one_marshal v :
    length (filter (fun e => match e with MMarshal _ => true | _ => false end) (bus_mcalls enc v)) = 1
    /\ exists rest, bus_mcalls enc v = MMarshal v :: rest.
  Proof. unfold bus_mcalls. destruct (enc v); simpl; eauto. Qed.
End CallsProofs.
