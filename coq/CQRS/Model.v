(** Model of components/cqrs: the two buses (command_bus.go Send / SendWithModifiedMessage /
    newMessage, event_bus.go Publish), the three per-message handler closures of the processors
    (command_processor.go routerHandlerFunc, event_processor.go routerHandlerFunc,
    event_processor_group.go routerHandlerGroupFunc), the structure of the two anchored
    marshalers (marshaler_json.go / marshaler_protobuf.go: NewMessage(uuid, bytes) +
    Metadata.Set("name", Name(v)); NameFromMessage = Metadata.Get("name")), ctx.go
    (CtxWithOriginalMessage / OriginalMessageFromCtx) and the registration glue (AddHandlers'
    duplicate test, GenerateSubscribeTopic / SubscriberConstructor per handler or per group).

    The codec itself (json.Marshal/Unmarshal, proto.Marshal/Unmarshal) and the name generator
    (GenerateName or FullyQualifiedStructName of name.go) are Section variables; their
    round-trip law is a hypothesis of the theorems that need it (property C16 is about them).

    The processors' closures run inside a Router as NoPublishHandlerFunc: what happens to the
    consumed message is [Handler.RouterHandle.handle_from] (property C02) applied to the
    closure's outcome; settlement is not re-modelled here.

    Executable; no proofs in this file. *)
From WM Require Import Base.Prelude Message.Model Handler.RouterHandle.

(** the interned metadata key "name" (the harness interns it first) *)
Definition KNAME : N := 1%N.

(** ** metadata: a Go map[string]string, kept sorted by key so that equality is list equality *)
Fixpoint meta_set (k v : N) (m : list (N * N)) : list (N * N) :=
  match m with
  | [] => [(k, v)]
  | (k', v') :: m' =>
      if N.eqb k k' then (k, v) :: m'
      else if N.ltb k k' then (k, v) :: m
      else (k', v') :: meta_set k v m'
  end.
Fixpoint meta_get (k : N) (m : list (N * N)) : N :=   (* Metadata.Get: "" when absent *)
  match m with
  | [] => 0%N
  | (k', v') :: m' => if N.eqb k k' then v' else meta_get k m'
  end.

(** ** contexts: context.WithValue chains, innermost first *)
Inductive ckey := CKOrig (* cqrs.originalMessage *) | CKTag (* a key of the caller *).
Definition ckey_eqb (a b : ckey) : bool :=
  match a, b with CKOrig, CKOrig | CKTag, CKTag => true | _, _ => false end.
Definition cctx := list (ckey * N).
Fixpoint ctx_value (k : ckey) (c : cctx) : N :=        (* 0 = nil *)
  match c with
  | [] => 0%N
  | (k', v) :: c' => if ckey_eqb k k' then v else ctx_value k c'
  end.
(** ctx.go *)
Definition ctx_with_original (c : cctx) (obj : N) : cctx := (CKOrig, obj) :: c.
Definition original_from_ctx (c : cctx) : N := ctx_value CKOrig c.

Section CQRS.
  (** Go values (commands / events), Go types, payload byte strings *)
  Context {V T P : Type}.
  (** the marshaler's ingredients *)
  Variable gen_name : V -> N.               (* Marshaler.Name: GenerateName, or FullyQualifiedStructName *)
  Variable enc : V -> option P.             (* json.Marshal / proto.Marshal; None = error *)
  Variable dec : P -> T -> option V.        (* Unmarshal(payload, new(T)); None = error *)
  Variable zero : T -> V.                   (* what handler.NewCommand()/NewEvent() points to *)

  (** a message as the cqrs code sees it: [w_obj] identifies the Go object (pointer),
      [w_ctx] is msg.Context() *)
  Record wmsg := WM { w_obj : N; w_uuid : N; w_payload : P; w_meta : list (N * N); w_ctx : cctx }.

  (** marshaler_json.go l.15-31 / marshaler_protobuf.go l.33-53 *)
  Definition marshal (uuid : N) (obj : N) (v : V) : option wmsg :=
    match enc v with
    | None => None
    | Some p => Some (WM obj uuid p (meta_set KNAME (gen_name v) []) [])
    end.
  (** NameFromMessage *)
  Definition name_from (m : wmsg) : N := meta_get KNAME (w_meta m).
  (** Unmarshal into a fresh value of the handler's type *)
  Definition unmarshal (m : wmsg) (t : T) : option V := dec (w_payload m) t.

  (** ** the buses *)

  (** what a user callback that receives the *message.Message may do to it *)
  Inductive edit := ESetMeta (k v : N) | ESetPayload (p : P) | ESetUUID (u : N).
  Definition apply_edit (m : wmsg) (e : edit) : wmsg :=
    match e with
    | ESetMeta k v => WM (w_obj m) (w_uuid m) (w_payload m) (meta_set k v (w_meta m)) (w_ctx m)
    | ESetPayload p => WM (w_obj m) (w_uuid m) p (w_meta m) (w_ctx m)
    | ESetUUID u => WM (w_obj m) u (w_payload m) (w_meta m) (w_ctx m)
    end.
  Definition apply_edits (m : wmsg) (es : list edit) : wmsg := fold_left apply_edit es m.

  Inductive cbres := CbOk | CbErr | CbPanic.
  (** OnSend / OnPublish / the modify argument: edits the message, then returns nil, returns an
      error or panics *)
  Record hook := Hook { hk_edits : list edit; hk_res : cbres }.
  (** GeneratePublishTopic *)
  Inductive tres := TopicOk (t : N) | TopicErr | TopicPanic.

  Record bus_cfg := BusCfg {
    bc_topic : N -> V -> tres;               (* GeneratePublishTopic(params{Name, value}) *)
    bc_hook : option hook                    (* OnSend / OnPublish; None = not configured *)
  }.

  Inductive berr := EMarshal | ETopic | EHook | EModify | EPublish.
  Inductive bres := BOk | BErr (e : berr) | BPanicked.
  Inductive bevent :=
  | BTopicCall (name : N) (v : V)                  (* GeneratePublishTopic entered *)
  | BHookCall (name : N) (v : V) (m : wmsg)        (* OnSend / OnPublish entered; message on entry *)
  | BModifyCall (m : wmsg)                         (* modify(msg) entered *)
  | BPublish (topic : N) (m : wmsg).               (* publisher.Publish(topic, m) entered, ONE message *)

  Definition set_ctx (m : wmsg) (c : cctx) : wmsg :=
    WM (w_obj m) (w_uuid m) (w_payload m) (w_meta m) c.

  (** publisher.Publish as the last step *)
  Definition bus_publish (t : N) (m : wmsg) (pb : pubbeh) : list bevent * bres :=
    ([BPublish t m], match pb with PubAccept => BOk | PubError => BErr EPublish | PubPanic => BPanicked end).

  (** command_bus.go l.120-168 (Send = SendWithModifiedMessage with modify = nil) and
      event_bus.go l.117-146 (Publish: no modify).  [uuid], [obj]: what the marshaler's
      NewUUID returns / the fresh message object; [c]: the caller's context. *)
  Definition bus_send (cfg : bus_cfg) (uuid obj : N) (c : cctx) (v : V) (modify : option hook)
             (pb : pubbeh) : list bevent * bres :=
    match marshal uuid obj v with
    | None => ([], BErr EMarshal)
    | Some m0 =>
        let name := gen_name v in
        match bc_topic cfg name v with
        | TopicErr => ([BTopicCall name v], BErr ETopic)
        | TopicPanic => ([BTopicCall name v], BPanicked)
        | TopicOk t =>
            let m1 := set_ctx m0 c in
            let '(e2, m2, r2) :=
              match bc_hook cfg with
              | None => ([], m1, CbOk)
              | Some hk => ([BHookCall name v m1], apply_edits m1 (hk_edits hk), hk_res hk)
              end in
            match r2 with
            | CbErr => (BTopicCall name v :: e2, BErr EHook)
            | CbPanic => (BTopicCall name v :: e2, BPanicked)
            | CbOk =>
                let '(e3, m3, r3) :=
                  match modify with
                  | None => ([], m2, CbOk)
                  | Some hk => ([BModifyCall m2], apply_edits m2 (hk_edits hk), hk_res hk)
                  end in
                match r3 with
                | CbErr => (BTopicCall name v :: e2 ++ e3, BErr EModify)
                | CbPanic => (BTopicCall name v :: e2 ++ e3, BPanicked)
                | CbOk =>
                    let '(e4, r4) := bus_publish t m3 pb in
                    (BTopicCall name v :: e2 ++ e3 ++ e4, r4)
                end
            end
        end
    end.

  Definition bus_publishes (tr : list bevent) : list (N * wmsg) :=
    flat_map (fun e => match e with BPublish t m => [(t, m)] | _ => [] end) tr.

  (** the deprecated constructors NewCommandBus / NewEventBus: a topic function of the name
      only that cannot fail, no hook *)
  Definition legacy_bus_cfg (f : N -> N) : bus_cfg := BusCfg (fun n _ => TopicOk (f n)) None.

  (** ** the processors *)

  Record handler := Hd { h_id : N; h_ty : T }.
  (** Marshaler.Name(handler.NewCommand()) *)
  Definition hname (h : handler) : N := gen_name (zero (h_ty h)).

  (** what the user's Handle does with one message: optionally settles the original message it
      finds in its context, then returns nil / an error / panics *)
  Inductive hres := HROk | HRErr | HRPanic.
  Record hscript := HS { hs_pre : presettle; hs_res : hres }.

  (** the OnHandle option: not configured, or a hook that calls the handler with
      params.Message.Context() and returns its error / swallows it, does not call the handler
      and returns nil / an error, or panics *)
  Inductive onhandle := OhNil | OhPass | OhSwallow | OhSkipOk | OhSkipErr | OhPanic.

  Record pcfg := PCfg {
    pc_ack_errors : bool;        (* AckCommandHandlingErrors (command processor only) *)
    pc_ack_unknown : bool;       (* AckOnUnknownEvent (event and group processors) *)
    pc_onhandle : onhandle
  }.

  Inductive pevent :=
  | POnHandle (hid name : N) (v : V) (orig tag : N)  (* OnHandle entered: params.Handler, EventName,
                                                        Event, what params.Message.Context() exposes *)
  | PHandle (hid : N) (v : V) (orig tag : N)         (* Handle(ctx, v) entered: OriginalMessageFromCtx(ctx),
                                                        the value of the caller's key in ctx *)
  | PPre (hid : N) (ack ret : bool).                 (* the handler settled the original message itself *)

  Definition pre_settle (hid : N) (p : presettle) (m : mstate) : mstate * list pevent :=
    match p with
    | PreNone => (m, [])
    | PreAck => let '(m', r) := step m OpAck in (m', [PPre hid true (res_bool r)])
    | PreNack => let '(m', r) := step m OpNack in (m', [PPre hid false (res_bool r)])
    end.

  (** handler.Handle(c, v) *)
  Definition call_handler (h : handler) (v : V) (c : cctx) (b : hscript) (m : mstate)
    : mstate * list pevent * hres :=
    let '(m1, e1) := pre_settle (h_id h) (hs_pre b) m in
    (m1, PHandle (h_id h) v (original_from_ctx c) (ctx_value CKTag c) :: e1, hs_res b).

  (** handle(params): [c] is the ctx variable of the closure, [mc] is msg.Context() after
      msg.SetContext(ctx) — the default handle uses the former, an OnHandle hook the latter *)
  Definition invoke (oh : onhandle) (h : handler) (name : N) (v : V) (c mc : cctx) (b : hscript)
             (m : mstate) : mstate * list pevent * hres :=
    let on := POnHandle (h_id h) name v (original_from_ctx mc) (ctx_value CKTag mc) in
    match oh with
    | OhNil => call_handler h v c b m
    | OhPass => let '(m1, e, r) := call_handler h v mc b m in (m1, on :: e, r)
    | OhSwallow =>
        let '(m1, e, r) := call_handler h v mc b m in
        (m1, on :: e, match r with HRPanic => HRPanic | _ => HROk end)
    | OhSkipOk => (m, [on], HROk)
    | OhSkipErr => (m, [on], HRErr)
    | OhPanic => (m, [on], HRPanic)
    end.

  (** no messages can be produced by a NoPublishHandlerFunc *)
  Definition nomsg := Empty_set.
  Definition ok_out : outcome nomsg := Ret [].
  Definition err_out : outcome nomsg := Fail [].
  Definition panic_out : outcome nomsg := Panic.

  Definition fn_result : Type := mstate * list pevent * outcome nomsg.

  (** the part shared by the three closures once the names matched:
      ctx := CtxWithOriginalMessage(msg.Context(), msg); msg.SetContext(ctx);
      Unmarshal; handle(params) *)
  Definition matched (oh : onhandle) (msg : wmsg) (h : handler) (b : hscript) (m : mstate)
    : option (mstate * list pevent * hres) (* None: Unmarshal failed *) :=
    let c := ctx_with_original (w_ctx msg) (w_obj msg) in
    let msg' := set_ctx msg c in
    match unmarshal msg' (h_ty h) with
    | None => None
    | Some v => Some (invoke oh h (name_from msg) v c (w_ctx msg') b m)
    end.

  (** command_processor.go l.315-373 *)
  Definition cmd_fn (cfg : pcfg) (msg : wmsg) (h : handler) (b : hscript) (m : mstate) : fn_result :=
    if negb (N.eqb (name_from msg) (hname h)) then (m, [], ok_out)
    else match matched (pc_onhandle cfg) msg h b m with
         | None => (m, [], err_out)
         | Some (m1, e, HRPanic) => (m1, e, panic_out)
         | Some (m1, e, HRErr) => (m1, e, if pc_ack_errors cfg then ok_out else err_out)
         | Some (m1, e, HROk) => (m1, e, ok_out)
         end.

  (** event_processor.go l.314-371 *)
  Definition evt_fn (cfg : pcfg) (msg : wmsg) (h : handler) (b : hscript) (m : mstate) : fn_result :=
    if negb (N.eqb (name_from msg) (hname h)) then
      (m, [], if pc_ack_unknown cfg then ok_out else err_out)
    else match matched (pc_onhandle cfg) msg h b m with
         | None => (m, [], err_out)
         | Some (m1, e, HRPanic) => (m1, e, panic_out)
         | Some (m1, e, HRErr) => (m1, e, err_out)
         | Some (m1, e, HROk) => (m1, e, ok_out)
         end.

  (** event_processor_group.go l.204-272: the loop over the group's handlers; every handler
      comes with what it will do for this message.  The message's context is re-wrapped for
      every matching handler (msg.SetContext inside the loop). *)
  Fixpoint grp_loop (cfg : pcfg) (name : N) (msg : wmsg) (hs : list (handler * hscript)) (handled : bool)
           (m : mstate) : fn_result :=
    match hs with
    | [] => (m, [], if handled then ok_out else if pc_ack_unknown cfg then ok_out else err_out)
    | (h, b) :: hs' =>
        if negb (N.eqb name (hname h)) then grp_loop cfg name msg hs' handled m
        else
          let c := ctx_with_original (w_ctx msg) (w_obj msg) in
          let msg' := set_ctx msg c in
          match unmarshal msg' (h_ty h) with
          | None => (m, [], err_out)
          | Some v =>
              let '(m1, e, r) := invoke (pc_onhandle cfg) h name v c (w_ctx msg') b m in
              match r with
              | HRPanic => (m1, e, panic_out)
              | HRErr => (m1, e, err_out)
              | HROk => let '(m2, e2, o) := grp_loop cfg name msg' hs' true m1 in (m2, e ++ e2, o)
              end
          end
    end.
  Definition grp_fn (cfg : pcfg) (msg : wmsg) (hs : list (handler * hscript)) (m : mstate) : fn_result :=
    grp_loop cfg (name_from msg) msg hs false m.

  (** ** inside the Router: AddNoPublisherHandler => [PubDisabled]; the closure's result is the
      chain's outcome, its own settle calls already happened on [m1] *)
  Definition routed (r : fn_result) : mstate * list pevent * list (hevent nomsg) :=
    let '(m1, e, out) := r in
    let '(m2, he) := handle_from m1 PubDisabled PubAccept (CR PreNone out) in
    (m2, e, he).

  Inductive pkind := KCommand | KEvent | KGroup.
  (** one message delivered to one router handler of a processor: a command handler, an event
      handler, or a group of event handlers, each with what it will do for this message *)
  Inductive delivery :=
  | DCommand (h : handler) (b : hscript)
  | DEvent (h : handler) (b : hscript)
  | DGroup (hs : list (handler * hscript)).
  Definition d_kind (d : delivery) : pkind :=
    match d with DCommand _ _ => KCommand | DEvent _ _ => KEvent | DGroup _ => KGroup end.
  Definition d_hs (d : delivery) : list (handler * hscript) :=
    match d with DCommand h b | DEvent h b => [(h, b)] | DGroup hs => hs end.
  Definition proc_fn (cfg : pcfg) (msg : wmsg) (d : delivery) (m : mstate) : fn_result :=
    match d with
    | DCommand h b => cmd_fn cfg msg h b m
    | DEvent h b => evt_fn cfg msg h b m
    | DGroup hs => grp_fn cfg msg hs m
    end.
  Definition process (cfg : pcfg) (msg : wmsg) (d : delivery)
    : mstate * list pevent * list (hevent nomsg) :=
    routed (proc_fn cfg msg d (init CtorNew)).

  (** ** the property as functions of (registry, flags, message, handler behaviour) *)

  Definition matches (msg : wmsg) (h : handler) : bool := N.eqb (name_from msg) (hname h).

  (** handler invocations in a trace *)
  Definition calls (tr : list pevent) : list (N * V) :=
    flat_map (fun e => match e with PHandle hid v _ _ => [(hid, v)] | _ => [] end) tr.

  (** does handle(params) reach the user's Handle? *)
  Definition oh_calls (oh : onhandle) : bool :=
    match oh with OhNil | OhPass | OhSwallow => true | _ => false end.
  (** what handle(params) returns, given what Handle does *)
  Definition oh_result (oh : onhandle) (r : hres) : hres :=
    match oh with
    | OhNil | OhPass => r
    | OhSwallow => match r with HRPanic => HRPanic | _ => HROk end
    | OhSkipOk => HROk
    | OhSkipErr => HRErr
    | OhPanic => HRPanic
    end.

  (** the handlers the group calls for [msg], as a function of the matching handlers only:
      in order, up to and including the first whose handle(params) does not return nil,
      excluding everything from the first whose payload does not unmarshal *)
  Fixpoint expected_calls (oh : onhandle) (msg : wmsg) (ms : list (handler * hscript)) : list (N * V) :=
    match ms with
    | [] => []
    | (h, b) :: ms' =>
        match unmarshal msg (h_ty h) with
        | None => []
        | Some v =>
            (if oh_calls oh then [(h_id h, v)] else [])
            ++ match oh_result oh (hs_res b) with
               | HROk => expected_calls oh msg ms'
               | _ => []
               end
        end
    end.

  (** how the loop over the matching handlers ends *)
  Inductive verdict := VAllOk | VErr | VPanic.
  Fixpoint expected_verdict (oh : onhandle) (msg : wmsg) (ms : list (handler * hscript)) : verdict :=
    match ms with
    | [] => VAllOk
    | (h, b) :: ms' =>
        match unmarshal msg (h_ty h) with
        | None => VErr
        | Some _ =>
            match oh_result oh (hs_res b) with
            | HROk => expected_verdict oh msg ms'
            | HRErr => VErr
            | HRPanic => VPanic
            end
        end
    end.

  (** the first settlement the handlers that are called make themselves *)
  Fixpoint expected_pre (oh : onhandle) (msg : wmsg) (ms : list (handler * hscript)) : presettle :=
    match ms with
    | [] => PreNone
    | (h, b) :: ms' =>
        match unmarshal msg (h_ty h) with
        | None => PreNone
        | Some _ =>
            match (if oh_calls oh then hs_pre b else PreNone) with
            | PreNone =>
                match oh_result oh (hs_res b) with
                | HROk => expected_pre oh msg ms'
                | _ => PreNone
                end
            | p => p
            end
        end
    end.

  (** the settlement the property prescribes for one delivery *)
  Definition expected_settle (k : pkind) (cfg : pcfg) (msg : wmsg) (hs : list (handler * hscript)) : settle :=
    let ms := filter (fun hb => matches msg (fst hb)) hs in
    match expected_pre (pc_onhandle cfg) msg ms with
    | PreAck => Acked
    | PreNack => Nacked
    | PreNone =>
        match ms with
        | [] => match k with
                | KCommand => Acked                                        (* commands: acknowledged *)
                | _ => if pc_ack_unknown cfg then Acked else Nacked        (* AckOnUnknownEvent *)
                end
        | _ => match expected_verdict (pc_onhandle cfg) msg ms with
               | VAllOk => Acked
               | VPanic => Nacked
               | VErr =>
                   match k, ms with
                   | KCommand, (h, _) :: _ =>
                       (* AckCommandHandlingErrors covers the error handle(params) returns,
                          never an Unmarshal error *)
                       match unmarshal msg (h_ty h) with
                       | None => Nacked
                       | Some _ => if pc_ack_errors cfg then Acked else Nacked
                       end
                   | _, _ => Nacked
                   end
               end
        end
    end.

  (** every Handle / OnHandle in the trace saw the consumed message as the original one and
      the caller's context value *)
  Definition ctx_ok (msg : wmsg) (tr : list pevent) : bool :=
    forallb (fun e => match e with
                      | PHandle _ _ o t | POnHandle _ _ _ o t =>
                          N.eqb o (w_obj msg) && N.eqb t (ctx_value CKTag (w_ctx msg))
                      | PPre _ _ _ => true end) tr.

  (** the complete acceptor for one observed delivery: [tr] the processor-level trace,
      [rtr] the Router-level trace of the same message, [final] its settlement.
      A command / event processor's router handler holds exactly one cqrs handler. *)
  Context (eqbV : V -> V -> bool).
  Definition call_eqb (a b : N * V) : bool := N.eqb (fst a) (fst b) && eqbV (snd a) (snd b).
  (** an OnHandle hook runs only when configured, and is given the message's name, a registered
      handler whose type name matches and the payload decoded into that handler's type *)
  Definition onhandle_ok (oh : onhandle) (msg : wmsg) (hs : list (handler * hscript)) (tr : list pevent) : bool :=
    forallb (fun e => match e with
                      | POnHandle hid n v _ _ =>
                          match oh with OhNil => false | _ => true end
                          && N.eqb n (name_from msg)
                          && existsb (fun hb => N.eqb (h_id (fst hb)) hid && matches msg (fst hb)
                                                && option_eqb eqbV (unmarshal msg (h_ty (fst hb))) (Some v)) hs
                      | _ => true end) tr.
  Definition c15_monitor (cfg : pcfg) (msg : wmsg) (d : delivery)
             (tr : list pevent) (rtr : list (hevent nomsg)) (final : settle) : bool :=
    let k := d_kind d in let hs := d_hs d in
    let ms := filter (fun hb => matches msg (fst hb)) hs in
    list_eqb call_eqb (calls tr) (expected_calls (pc_onhandle cfg) msg ms)
    && settle_eqb final (expected_settle k cfg msg hs)
    && ctx_ok msg tr
    && onhandle_ok (pc_onhandle cfg) msg hs tr
    && Nat.eqb (count_settles rtr) 1
    && Nat.eqb (count_calls rtr) 1
    && match publishes rtr with [] => true | _ => false end.

  (** ** the acceptor for one bus call: at most one Publish, exactly one iff the call returned
      nil (or the publisher itself failed), on the generated topic, carrying the value's name
      and encoding (unless a callback overwrote them), the caller's context, the marshaler's
      uuid; every error before Publish means nothing was published *)
  Context (eqbP : P -> P -> bool).
  Definition edits_touch_name (es : list edit) : bool :=
    existsb (fun e => match e with ESetMeta k _ => N.eqb k KNAME | _ => false end) es.
  Definition edits_touch_payload (es : list edit) : bool :=
    existsb (fun e => match e with ESetPayload _ => true | _ => false end) es.
  Definition hook_edits (o : option hook) : list edit :=
    match o with Some hk => hk_edits hk | None => [] end.
  (** the configuration's callbacks are given the marshaler's name of the value and the value *)
  Definition bus_callbacks_ok (v : V) (tr : list bevent) : bool :=
    forallb (fun e => match e with
                      | BTopicCall n v' | BHookCall n v' _ => N.eqb n (gen_name v) && eqbV v' v
                      | _ => true end) tr.
  Definition bus_monitor (cfg : bus_cfg) (c : cctx) (v : V) (modify : option hook)
             (tr : list bevent) (r : bres) : bool :=
    let es := hook_edits (bc_hook cfg) ++ hook_edits modify in
    bus_callbacks_ok v tr &&
    match bus_publishes tr, r with
    | [], BErr EPublish => false
    | [], BOk => false
    | [], _ => true
    | [(t, m)], BErr EMarshal | [(t, m)], BErr ETopic | [(t, m)], BErr EHook | [(t, m)], BErr EModify => false
    | [(t, m)], _ =>
        match bc_topic cfg (gen_name v) v with TopicOk t' => N.eqb t t' | _ => false end
        && (edits_touch_name es || N.eqb (name_from m) (gen_name v))
        && (edits_touch_payload es || option_eqb eqbP (Some (w_payload m)) (enc v))
        && N.eqb (ctx_value CKTag (w_ctx m)) (ctx_value CKTag c)
    | _ :: _ :: _, _ => false
    end.

  (** ** registration glue *)

  (** AddHandlers(handlers...) of the command processor: the first name that occurs twice in
      ONE call is rejected (DuplicateCommandHandlerError) before anything is registered *)
  Fixpoint first_dup (seen : list N) (names : list N) : option N :=
    match names with
    | [] => None
    | n :: names' => if existsb (N.eqb n) seen then Some n else first_dup (n :: seen) names'
    end.
  Definition cmd_add_handlers (hs : list handler) : option N := first_dup [] (map hname hs).

  (** addHandlerToRouter, per handler in order: GenerateSubscribeTopic(params{name, handler}),
      then SubscriberConstructor(params{name, handler name, handler}) *)
  Inductive revent := RTopic (name hid : N) | RSub (name hid : N).
  Definition register_handlers (hs : list handler) : list revent :=
    flat_map (fun h => [RTopic (hname h) (h_id h); RSub (hname h) (h_id h)]) hs.
  (** CommandProcessor.AddHandlers: all or nothing *)
  Definition cmd_add_handlers_trace (hs : list handler) : option N * list revent :=
    match cmd_add_handlers hs with
    | Some n => (Some n, [])
    | None => (None, register_handlers hs)
    end.
End CQRS.

Arguments wmsg : clear implicits.
Arguments edit : clear implicits.
Arguments hook : clear implicits.
Arguments bus_cfg : clear implicits.
Arguments bevent : clear implicits.
Arguments handler : clear implicits.
Arguments pevent : clear implicits.
