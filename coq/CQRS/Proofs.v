(** Proofs about CQRS/Model.v (property C15). *)
From WM Require Import Base.Prelude Message.Model Handler.RouterHandle Handler.RouterProofs CQRS.Model.

(** ** metadata *)
Lemma meta_get_set_same k v m : meta_get k (meta_set k v m) = v.
Proof.
  induction m as [|[k' v'] m IH]; simpl.
  - now rewrite N.eqb_refl.
  - destruct (N.eqb k k') eqn:E; simpl.
    + now rewrite N.eqb_refl.
    + destruct (N.ltb k k'); simpl.
      * now rewrite N.eqb_refl.
      * now rewrite E.
Qed.

Lemma meta_get_set_other k k' v m : k <> k' -> meta_get k (meta_set k' v m) = meta_get k m.
Proof.
  intros Hne. apply N.eqb_neq in Hne.
  induction m as [|[k1 v1] m IH]; simpl.
  - now rewrite Hne.
  - destruct (N.eqb k' k1) eqn:E; simpl.
    + apply N.eqb_eq in E. subst k1. now rewrite Hne.
    + destruct (N.ltb k' k1); simpl.
      * now rewrite Hne.
      * destruct (N.eqb k k1); [reflexivity|apply IH].
Qed.

(** ** settlement of the consumed message *)
Definition apply_pre (s : settle) (p : presettle) : settle :=
  match s, p with
  | Unsettled, PreAck => Acked
  | Unsettled, PreNack => Nacked
  | s, _ => s
  end.

Lemma apply_pre_idem s p q : p <> PreNone -> apply_pre (apply_pre s p) q = apply_pre s p.
Proof. destruct s, p, q; simpl; congruence. Qed.
Lemma apply_pre_none s : apply_pre s PreNone = s.
Proof. now destruct s. Qed.

Lemma step_ack_st m : st (fst (step m OpAck)) = apply_pre (st m) PreAck.
Proof. destruct m as [[] a n p]; simpl; try reflexivity. now destruct (close_chan a). Qed.
Lemma step_nack_st m : st (fst (step m OpNack)) = apply_pre (st m) PreNack.
Proof. destruct m as [[] a n p]; simpl; try reflexivity. now destruct (close_chan n). Qed.

Section Proofs.
  Context {V T P : Type}.
  Variable gen_name : V -> N.
  Variable enc : V -> option P.
  Variable dec : P -> T -> option V.
  Variable zero : T -> V.

  Notation wmsg := (wmsg P).
  Notation handler := (handler T).
  Notation pevent := (pevent V).
  Notation marshal := (marshal gen_name enc).
  Notation unmarshal := (@unmarshal V T P dec).
  Notation hname := (hname gen_name zero).
  Notation matches := (matches gen_name zero).
  Notation bus_send := (bus_send gen_name enc).
  Notation cmd_fn := (cmd_fn gen_name dec zero).
  Notation evt_fn := (evt_fn gen_name dec zero).
  Notation grp_loop := (grp_loop gen_name dec zero).
  Notation grp_fn := (grp_fn gen_name dec zero).
  Notation proc_fn := (proc_fn gen_name dec zero).
  Notation process := (process gen_name dec zero).
  Notation expected_calls := (@expected_calls V T P dec).
  Notation expected_verdict := (@expected_verdict V T P dec).
  Notation expected_pre := (@expected_pre V T P dec).
  Notation expected_settle := (expected_settle gen_name dec zero).

  Implicit Types (msg : wmsg) (h : handler) (b : hscript) (m : mstate) (oh : onhandle) (v : V).

  (** *** the buses *)

  Lemma w_ctx_apply_edits (m0 : wmsg) es : w_ctx (apply_edits m0 es) = w_ctx m0.
  Proof. revert m0. induction es as [|e es IH]; intros m0; simpl; [reflexivity|]. rewrite IH. now destruct e. Qed.
  Lemma w_obj_apply_edits (m0 : wmsg) es : w_obj (apply_edits m0 es) = w_obj m0.
  Proof. revert m0. induction es as [|e es IH]; intros m0; simpl; [reflexivity|]. rewrite IH. now destruct e. Qed.

  Lemma apply_edits_app (m0 : wmsg) es1 es2 : apply_edits m0 (es1 ++ es2) = apply_edits (apply_edits m0 es1) es2.
  Proof. unfold apply_edits. apply fold_left_app. Qed.

  Lemma name_from_apply_edits (m0 : wmsg) es :
    edits_touch_name es = false -> name_from (apply_edits m0 es) = name_from m0.
  Proof.
    revert m0. induction es as [|e es IH]; intros m0 H; simpl in *; [reflexivity|].
    apply orb_false_iff in H as [H1 H2]. rewrite (IH _ H2).
    destruct e; try reflexivity. unfold name_from. simpl.
    apply meta_get_set_other. intros E. rewrite <- E in H1. now rewrite N.eqb_refl in H1.
  Qed.

  Lemma payload_apply_edits (m0 : wmsg) es :
    edits_touch_payload es = false -> w_payload (apply_edits m0 es) = w_payload m0.
  Proof.
    revert m0. induction es as [|e es IH]; intros m0 H; simpl in *; [reflexivity|].
    apply orb_false_iff in H as [H1 H2]. rewrite (IH _ H2). now destruct e.
  Qed.

  (** the message the marshaler builds: the value's name and encoding *)
  Lemma marshal_spec uuid obj v (m0 : wmsg) : marshal uuid obj v = Some m0 ->
    exists p, enc v = Some p /\ m0 = WM obj uuid p [(KNAME, gen_name v)] [] /\ name_from m0 = gen_name v.
  Proof.
    unfold Model.marshal. destruct (enc v) as [p|]; [|discriminate]. intros [= <-].
    exists p. repeat split.
  Qed.

  (** the message that reaches the publisher when every step before Publish succeeds *)
  Definition published_msg (cfg : bus_cfg V P) (uuid obj : N) (c : cctx) (v : V) (p : P) (modify : option (hook P)) : wmsg :=
    apply_edits (apply_edits (WM obj uuid p [(KNAME, gen_name v)] c) (hook_edits (bc_hook cfg))) (hook_edits modify).

  (** does the call get as far as publisher.Publish? *)
  Definition reaches_publish (cfg : bus_cfg V P) (v : V) (modify : option (hook P)) : option N :=
    match enc v, bc_topic cfg (gen_name v) v with
    | Some _, TopicOk t =>
        match bc_hook cfg, modify with
        | Some (Hook _ CbErr), _ | Some (Hook _ CbPanic), _ => None
        | _, Some (Hook _ CbErr) | _, Some (Hook _ CbPanic) => None
        | _, _ => Some t
        end
    | _, _ => None
    end.

  (** complete characterisation of what a bus call publishes and returns *)
  Lemma bus_send_spec cfg uuid obj c v modify pb :
    let '(tr, r) := bus_send cfg uuid obj c v modify pb in
    match reaches_publish cfg v modify with
    | Some t =>
        exists p, enc v = Some p
        /\ bus_publishes tr = [(t, published_msg cfg uuid obj c v p modify)]
        /\ r = match pb with PubAccept => BOk | PubError => BErr EPublish | PubPanic => BPanicked end
    | None => bus_publishes tr = [] /\ r <> BOk /\ r <> BErr EPublish
    end.
  Proof.
    unfold Model.bus_send, reaches_publish, published_msg, Model.marshal.
    destruct (enc v) as [p|]; [|simpl; repeat split; congruence].
    destruct (bc_topic cfg (gen_name v) v) as [t| |]; try (simpl; repeat split; congruence).
    destruct (bc_hook cfg) as [[es1 []]|], modify as [[es2 []]|]; simpl;
      try (repeat split; congruence); exists p; repeat split; destruct pb; reflexivity.
  Qed.

  (** at most one Publish call, always with exactly one message *)
  Lemma bus_at_most_once cfg uuid obj c v modify pb :
    length (bus_publishes (fst (bus_send cfg uuid obj c v modify pb))) <= 1.
  Proof.
    pose proof (bus_send_spec cfg uuid obj c v modify pb) as H.
    destruct (bus_send cfg uuid obj c v modify pb) as [tr r]. simpl.
    destruct (reaches_publish cfg v modify).
    - destruct H as (p & _ & -> & _). simpl. lia.
    - destruct H as (-> & _). simpl. lia.
  Qed.

  (** a successful call published exactly once, on the generated topic, the marshalled value
      as the callbacks left it *)
  Lemma bus_ok_publishes_once cfg uuid obj c v modify pb tr :
    bus_send cfg uuid obj c v modify pb = (tr, BOk) ->
    exists t p, bc_topic cfg (gen_name v) v = TopicOk t /\ enc v = Some p
                /\ bus_publishes tr = [(t, published_msg cfg uuid obj c v p modify)].
  Proof.
    intros E. pose proof (bus_send_spec cfg uuid obj c v modify pb) as H. rewrite E in H.
    destruct (reaches_publish cfg v modify) as [t|] eqn:R.
    - destruct H as (p & Hp & Htr & _). exists t, p. repeat split; try assumption.
      unfold reaches_publish in R. rewrite Hp in R.
      destruct (bc_topic cfg (gen_name v) v); try discriminate.
      destruct (bc_hook cfg) as [[? []]|], modify as [[? []]|]; congruence.
    - destruct H as (_ & H & _). congruence.
  Qed.

  (** what is published carries the type name and the serialized value (unless a callback
      overwrote them), the caller's context and the marshaler's uuid/object *)
  Lemma published_carries cfg uuid obj c v p modify :
    let m := published_msg cfg uuid obj c v p modify in
    let es := hook_edits (bc_hook cfg) ++ hook_edits modify in
    (edits_touch_name es = false -> name_from m = gen_name v)
    /\ (edits_touch_payload es = false -> w_payload m = p)
    /\ w_ctx m = c /\ w_obj m = obj
    /\ (es = [] -> m = WM obj uuid p [(KNAME, gen_name v)] c).
  Proof.
    unfold published_msg. rewrite <- apply_edits_app. cbv zeta.
    set (es := hook_edits (bc_hook cfg) ++ hook_edits modify).
    repeat split.
    - intros H. rewrite name_from_apply_edits by assumption. reflexivity.
    - intros H. now rewrite payload_apply_edits.
    - now rewrite w_ctx_apply_edits.
    - now rewrite w_obj_apply_edits.
    - intros ->. reflexivity.
  Qed.

  (** an error (or panic) at any step before Publish: nothing was published *)
  Lemma bus_error_publishes_nothing cfg uuid obj c v modify pb tr r :
    bus_send cfg uuid obj c v modify pb = (tr, r) ->
    r = BErr EMarshal \/ r = BErr ETopic \/ r = BErr EHook \/ r = BErr EModify ->
    bus_publishes tr = [].
  Proof.
    intros E Hr. pose proof (bus_send_spec cfg uuid obj c v modify pb) as H. rewrite E in H.
    destruct (reaches_publish cfg v modify).
    - destruct H as (p & _ & _ & ->). destruct pb; intuition discriminate.
    - apply H.
  Qed.

  (** the deprecated constructors: the topic is the function of the name *)
  Lemma legacy_bus_topic f uuid obj c v modify pb tr :
    bus_send (legacy_bus_cfg f) uuid obj c v modify pb = (tr, BOk) ->
    exists pm : wmsg, bus_publishes tr = [(f (gen_name v), pm)].
  Proof.
    intros E. apply bus_ok_publishes_once in E as (t & p & Ht & _ & Htr).
    simpl in Ht. injection Ht as <-. eauto.
  Qed.

  Lemma bus_callbacks_ok_model (eqbV : V -> V -> bool) (HreflV : forall v, eqbV v v = true)
        cfg uuid obj c v modify pb :
    bus_callbacks_ok gen_name eqbV v (fst (bus_send cfg uuid obj c v modify pb)) = true.
  Proof.
    unfold Model.bus_send, Model.marshal, bus_callbacks_ok.
    destruct (enc v) as [p|]; [|reflexivity].
    destruct (bc_topic cfg (gen_name v) v) as [t| |]; simpl; rewrite ?N.eqb_refl, ?HreflV; try reflexivity.
    destruct (bc_hook cfg) as [[es1 []]|], modify as [[es2 []]|]; simpl;
      rewrite ?N.eqb_refl, ?HreflV; reflexivity.
  Qed.

  (** the model passes the bus acceptor *)
  Lemma bus_monitor_accepts (eqbV : V -> V -> bool) (HreflV : forall v, eqbV v v = true)
        (eqbP : P -> P -> bool) (Hrefl : forall p, eqbP p p = true)
        cfg uuid obj c v modify pb :
    bus_monitor gen_name enc eqbV eqbP cfg c v modify
                (fst (bus_send cfg uuid obj c v modify pb)) (snd (bus_send cfg uuid obj c v modify pb)) = true.
  Proof.
    unfold bus_monitor. rewrite (bus_callbacks_ok_model eqbV HreflV). simpl.
    pose proof (bus_send_spec cfg uuid obj c v modify pb) as H.
    destruct (bus_send cfg uuid obj c v modify pb) as [tr r]. simpl.
    destruct (reaches_publish cfg v modify) as [t|] eqn:R.
    - destruct H as (p & Hp & -> & ->).
      destruct (published_carries cfg uuid obj c v p modify) as (Hn & Hpl & Hc & _).
      cbv zeta in Hn, Hpl.
      assert (Ht : bc_topic cfg (gen_name v) v = TopicOk t).
      { unfold reaches_publish in R. rewrite Hp in R.
        destruct (bc_topic cfg (gen_name v) v); try discriminate.
        destruct (bc_hook cfg) as [[? []]|], modify as [[? []]|]; congruence. }
      assert (Hbody :
        match bc_topic cfg (gen_name v) v with TopicOk t' => N.eqb t t' | _ => false end
        && (edits_touch_name (hook_edits (bc_hook cfg) ++ hook_edits modify)
            || N.eqb (name_from (published_msg cfg uuid obj c v p modify)) (gen_name v))
        && (edits_touch_payload (hook_edits (bc_hook cfg) ++ hook_edits modify)
            || option_eqb eqbP (Some (w_payload (published_msg cfg uuid obj c v p modify))) (enc v))
        && N.eqb (ctx_value CKTag (w_ctx (published_msg cfg uuid obj c v p modify))) (ctx_value CKTag c) = true).
      { rewrite Ht, N.eqb_refl, Hc, N.eqb_refl. simpl.
        destruct (edits_touch_name _) eqn:E1; simpl.
        - destruct (edits_touch_payload _) eqn:E2; simpl; [reflexivity|].
          rewrite Hpl, Hp by reflexivity. simpl. now rewrite Hrefl.
        - rewrite Hn, N.eqb_refl by reflexivity. simpl.
          destruct (edits_touch_payload _) eqn:E2; simpl; [reflexivity|].
          rewrite Hpl, Hp by reflexivity. simpl. now rewrite Hrefl. }
      destruct pb; exact Hbody.
    - destruct H as (-> & H1 & H2). destruct r as [|[]|]; congruence.
  Qed.

  (** *** the processors *)

  (** the state of the consumed message after a closure, in terms of the settlement only *)
  Lemma pre_settle_st hid p m : st (fst (pre_settle (V:=V) hid p m)) = apply_pre (st m) p.
  Proof.
    destruct p; unfold pre_settle.
    - now rewrite apply_pre_none.
    - pose proof (step_ack_st m) as H. destruct (step m OpAck). exact H.
    - pose proof (step_nack_st m) as H. destruct (step m OpNack). exact H.
  Qed.

  Lemma pre_settle_calls hid p m : calls (snd (pre_settle (V:=V) hid p m)) = [].
  Proof.
    destruct p; unfold pre_settle;
      [reflexivity | destruct (step m OpAck); reflexivity | destruct (step m OpNack); reflexivity].
  Qed.

  Lemma calls_app (a b : list pevent) : calls (a ++ b) = calls a ++ calls b.
  Proof. unfold calls. apply flat_map_app. Qed.

  (** one handle(params): state, invocations, result *)
  Lemma invoke_spec oh h name v c mc b m :
    let '(m1, e, r) := invoke oh h name v c mc b m in
    st m1 = apply_pre (st m) (if oh_calls oh then hs_pre b else PreNone)
    /\ calls e = (if oh_calls oh then [(h_id h, v)] else [])
    /\ r = oh_result oh (hs_res b).
  Proof.
    unfold invoke, call_handler.
    pose proof (pre_settle_st (h_id h) (hs_pre b) m) as Hs.
    pose proof (pre_settle_calls (h_id h) (hs_pre b) m) as Hc.
    destruct (pre_settle (h_id h) (hs_pre b) m) as [m1 e1]. simpl in Hs, Hc.
    destruct oh; simpl; rewrite ?Hc, ?apply_pre_none; repeat split; assumption || reflexivity.
  Qed.

  Definition ctx_inv (msg msg' : wmsg) : Prop :=
    w_obj msg' = w_obj msg /\ ctx_value CKTag (w_ctx msg') = ctx_value CKTag (w_ctx msg)
    /\ w_payload msg' = w_payload msg /\ w_meta msg' = w_meta msg.

  Lemma ctx_inv_rewrap msg :
    ctx_inv msg (set_ctx msg (ctx_with_original (w_ctx msg) (w_obj msg))).
  Proof. repeat split. Qed.

  Lemma ctx_ok_ext msg msg' tr : ctx_inv msg msg' -> ctx_ok msg' tr = ctx_ok (V:=V) msg tr.
  Proof. intros (H1 & H2 & _). unfold ctx_ok. now rewrite H1, H2. Qed.

  Lemma ctx_ok_app msg (a b : list pevent) : ctx_ok msg (a ++ b) = ctx_ok msg a && ctx_ok msg b.
  Proof. unfold ctx_ok. apply forallb_app. Qed.

  Lemma invoke_ctx_ok oh h v b m msg :
    let c := ctx_with_original (w_ctx msg) (w_obj msg) in
    ctx_ok msg (snd (fst (invoke oh h (name_from msg) v c (w_ctx (set_ctx msg c)) b m))) = true.
  Proof.
    cbv zeta. unfold invoke, call_handler.
    destruct (pre_settle (h_id h) (hs_pre b) m) as [m1 e1] eqn:E.
    assert (He : ctx_ok msg e1 = true).
    { unfold pre_settle in E. destruct (hs_pre b).
      - now inversion E.
      - destruct (step m OpAck). now inversion E.
      - destruct (step m OpNack). now inversion E. }
    destruct oh; simpl; unfold original_from_ctx; simpl; rewrite ?N.eqb_refl; simpl; try assumption; reflexivity.
  Qed.

  (** **** the group loop *)

  Definition nmatch (name : N) (hb : handler * hscript) : bool := N.eqb name (hname (fst hb)).

  (** outcome of the loop as a function of the matching handlers *)
  Definition loop_outcome cfg (handled : bool) (ms : list (handler * hscript)) (vd : verdict) : outcome nomsg :=
    match vd with
    | VAllOk => if handled || negb (match ms with [] => true | _ => false end) then ok_out
                else if pc_ack_unknown cfg then ok_out else err_out
    | VErr => err_out
    | VPanic => panic_out
    end.

  (** the expectations depend on the message through its payload only *)
  Lemma expected_set_ctx oh msg c ms :
    expected_pre oh (set_ctx msg c) ms = expected_pre oh msg ms
    /\ expected_calls oh (set_ctx msg c) ms = expected_calls oh msg ms
    /\ expected_verdict oh (set_ctx msg c) ms = expected_verdict oh msg ms.
  Proof.
    induction ms as [|[h b] ms (I1 & I2 & I3)]; [now repeat split|].
    simpl. unfold Model.unmarshal. simpl. rewrite I1, I2, I3. repeat split.
  Qed.

  Lemma grp_loop_spec cfg name : forall hs msg handled m,
    let ms := filter (nmatch name) hs in
    let '(m1, e, out) := grp_loop cfg name msg hs handled m in
    st m1 = apply_pre (st m) (expected_pre (pc_onhandle cfg) msg ms)
    /\ calls e = expected_calls (pc_onhandle cfg) msg ms
    /\ out = loop_outcome cfg handled ms (expected_verdict (pc_onhandle cfg) msg ms).
  Proof.
    induction hs as [|[h b] hs IH]; intros msg handled m; cbv zeta.
    - simpl. rewrite apply_pre_none. repeat split. unfold loop_outcome. simpl. now rewrite orb_false_r.
    - simpl. change (nmatch name (h, b)) with (N.eqb name (hname h)).
      destruct (N.eqb name (hname h)) eqn:En; simpl.
      2:{ apply IH. }
      unfold Model.unmarshal. simpl.
      destruct (dec (w_payload msg) (h_ty h)) as [v|] eqn:Ed.
      2:{ rewrite apply_pre_none. repeat split. }
      set (c := ctx_with_original (w_ctx msg) (w_obj msg)).
      pose proof (invoke_spec (pc_onhandle cfg) h name v c c b m) as Hi.
      destruct (invoke (pc_onhandle cfg) h name v c c b m) as [[m1 e] r].
      destruct Hi as (Hs & Hc & Hr). subst r.
      destruct (oh_result (pc_onhandle cfg) (hs_res b)) eqn:Er.
      + specialize (IH (set_ctx msg c) true m1). cbv zeta in IH.
        destruct (grp_loop cfg name (set_ctx msg c) hs true m1) as [[m2 e2] o].
        destruct IH as (Hs2 & Hc2 & Ho2).
        destruct (expected_set_ctx (pc_onhandle cfg) msg c (filter (nmatch name) hs)) as (X1 & X2 & X3).
        rewrite X1 in Hs2. rewrite X2 in Hc2. rewrite X3 in Ho2.
        repeat split.
        * rewrite Hs2, Hs.
          destruct (oh_calls (pc_onhandle cfg)); [|now rewrite apply_pre_none].
          destruct (hs_pre b); [now rewrite apply_pre_none| |]; now rewrite apply_pre_idem.
        * rewrite calls_app, Hc, Hc2. reflexivity.
        * rewrite Ho2. unfold loop_outcome.
          destruct (Model.expected_verdict _ _ _ _); try reflexivity.
          simpl. now rewrite orb_true_r.
      + repeat split; try assumption.
        * rewrite Hs. destruct (oh_calls (pc_onhandle cfg)); [|reflexivity]. now destruct (hs_pre b).
        * rewrite Hc. now rewrite app_nil_r.
      + repeat split; try assumption.
        * rewrite Hs. destruct (oh_calls (pc_onhandle cfg)); [|reflexivity]. now destruct (hs_pre b).
        * rewrite Hc. now rewrite app_nil_r.
  Qed.

  Lemma grp_loop_ctx_ok cfg name : forall hs msg handled m,
    name = name_from msg ->
    ctx_ok msg (snd (fst (grp_loop cfg name msg hs handled m))) = true.
  Proof.
    induction hs as [|[h b] hs IH]; intros msg handled m Hn; simpl; [reflexivity|].
    destruct (N.eqb name (hname h)); simpl; [|now apply IH].
    unfold Model.unmarshal. simpl.
    destruct (dec (w_payload msg) (h_ty h)) as [v|]; [|reflexivity].
    set (c := ctx_with_original (w_ctx msg) (w_obj msg)).
    pose proof (invoke_ctx_ok (pc_onhandle cfg) h v b m msg) as Hi. cbv zeta in Hi. fold c in Hi.
    rewrite <- Hn in Hi. simpl in Hi.
    destruct (invoke (pc_onhandle cfg) h name v c c b m) as [[m1 e] r]. simpl in Hi.
    destruct r; simpl; try assumption.
    specialize (IH (set_ctx msg c) true m1 Hn).
    destruct (grp_loop cfg name (set_ctx msg c) hs true m1) as [[m2 e2] o]. simpl in *.
    rewrite ctx_ok_app, Hi. simpl.
    rewrite <- (ctx_ok_ext msg (set_ctx msg c)); [assumption|apply ctx_inv_rewrap].
  Qed.

  (** handlers whose name differs from the message's are invisible *)
  Lemma grp_loop_filter cfg name : forall hs msg handled m,
    grp_loop cfg name msg hs handled m = grp_loop cfg name msg (filter (nmatch name) hs) handled m.
  Proof.
    induction hs as [|[h b] hs IH]; intros msg handled m; simpl; [reflexivity|].
    change (nmatch name (h, b)) with (N.eqb name (hname h)).
    destruct (N.eqb name (hname h)) eqn:En; simpl.
    - rewrite En. simpl.
      destruct (Model.unmarshal _ _ _); [|reflexivity].
      destruct (invoke _ _ _ _ _ _ _ _) as [[m1 e] []]; try reflexivity.
      now rewrite IH.
    - apply IH.
  Qed.

  (** nothing after the first matching handler that fails is looked at *)
  Definition hb_ok oh msg (hb : handler * hscript) : bool :=
    match unmarshal msg (h_ty (fst hb)) with
    | Some _ => match oh_result oh (hs_res (snd hb)) with HROk => true | _ => false end
    | None => false
    end.

  Lemma grp_loop_stops cfg name : forall pre msg handled m hb post post',
    forallb (fun x => negb (nmatch name x) || hb_ok (pc_onhandle cfg) msg x) pre = true ->
    nmatch name hb = true -> hb_ok (pc_onhandle cfg) msg hb = false ->
    grp_loop cfg name msg (pre ++ hb :: post) handled m = grp_loop cfg name msg (pre ++ hb :: post') handled m.
  Proof.
    induction pre as [|[h b] pre IH]; intros msg handled m [h0 b0] post post' Hpre Hm Hf; simpl.
    - unfold nmatch in Hm. simpl in Hm. rewrite Hm. simpl.
      unfold hb_ok in Hf. simpl in Hf. unfold Model.unmarshal in *. simpl.
      destruct (dec (w_payload msg) (h_ty h0)) as [v|]; [|reflexivity].
      set (c := ctx_with_original (w_ctx msg) (w_obj msg)).
      pose proof (invoke_spec (pc_onhandle cfg) h0 name v c c b0 m) as Hi.
      destruct (invoke (pc_onhandle cfg) h0 name v c c b0 m) as [[m1 e] r].
      destruct Hi as (_ & _ & ->).
      destruct (oh_result (pc_onhandle cfg) (hs_res b0)); [discriminate|reflexivity|reflexivity].
    - simpl in Hpre. apply andb_true_iff in Hpre as [Hh Hpre].
      change (nmatch name (h, b)) with (N.eqb name (hname h)) in Hh.
      destruct (N.eqb name (hname h)) eqn:En; simpl in *.
      2:{ now apply IH. }
      unfold hb_ok in Hh. simpl in Hh. unfold Model.unmarshal in *. simpl.
      destruct (dec (w_payload msg) (h_ty h)) as [v|]; [|reflexivity].
      destruct (invoke _ _ _ _ _ _ _ _) as [[m1 e] []]; try reflexivity.
      rewrite (IH (set_ctx msg _) true m1 (h0, b0) post post'); try assumption; reflexivity.
  Qed.

  (** **** inside the Router *)

  Definition out_ok (o : outcome nomsg) : bool := match o with Ret _ => true | _ => false end.

  Lemma router_settle_spec (m1 : mstate) (ack : bool) :
    exists m' r, router_settle (M:=nomsg) m1 ack = (m', [HSettle ack r])
                 /\ st m' = apply_pre (st m1) (if ack then PreAck else PreNack).
  Proof.
    unfold router_settle.
    destruct ack; [pose proof (step_ack_st m1) as H|pose proof (step_nack_st m1) as H];
      unfold settle_op; destruct (step m1 _) as [m' r]; eauto.
  Qed.

  Lemma routed_spec (m1 : mstate) (e : list pevent) (o : outcome nomsg) :
    let '(m2, e', rtr) := routed (m1, e, o) in
    e' = e
    /\ st m2 = match st m1 with Unsettled => if out_ok o then Acked else Nacked | s => s end
    /\ count_settles rtr = 1 /\ count_calls rtr = 1 /\ publishes rtr = []
    /\ exists ack ret, rtr = [HCall; HSettle ack ret] /\ ack = out_ok o.
  Proof.
    unfold routed, handle_from. cbn [do_pre cr_pre cr_out].
    destruct o as [[|[] ?]| |]; cbn [publish];
      match goal with |- context [router_settle m1 ?a] =>
        destruct (router_settle_spec m1 a) as (m' & r & E & Hs); rewrite E end;
      (repeat split; [rewrite Hs; now destruct (st m1)|do 2 eexists; split; reflexivity]).
  Qed.

  (** when the handlers did not settle the message themselves, the Router-level behaviour is
      exactly C02's [handle] for a no-publisher handler *)
  Lemma process_is_handle cfg msg d :
    let '(m1, e, o) := proc_fn cfg msg d (init CtorNew) in
    m1 = init CtorNew ->
    process cfg msg d = (fst (handle PubDisabled PubAccept (CR PreNone o)), e,
                         snd (handle PubDisabled PubAccept (CR PreNone o))).
  Proof.
    unfold Model.process. destruct (proc_fn cfg msg d (init CtorNew)) as [[m1 e] o].
    intros ->. unfold routed, handle.
    now destruct (handle_from (init CtorNew) PubDisabled PubAccept (CR PreNone o)).
  Qed.

  (** **** one delivery: the complete characterisation *)

  Definition d_matching msg (d : delivery) : list (handler * hscript) :=
    filter (fun hb => matches msg (fst hb)) (d_hs d).

  Lemma filter_nmatch msg hs :
    filter (nmatch (name_from msg)) hs = filter (fun hb => matches msg (fst hb)) hs.
  Proof. reflexivity. Qed.

  (** the closure's result for every kind of delivery *)
  Lemma proc_fn_spec cfg msg d m :
    let ms := d_matching msg d in
    let oh := pc_onhandle cfg in
    let '(m1, e, out) := proc_fn cfg msg d m in
    st m1 = apply_pre (st m) (expected_pre oh msg ms)
    /\ calls e = expected_calls oh msg ms
    /\ ctx_ok msg e = true
    /\ out_ok out =
       match ms with
       | [] => match d_kind d with KCommand => true | _ => pc_ack_unknown cfg end
       | (h, _) :: _ =>
           match expected_verdict oh msg ms with
           | VAllOk => true
           | VPanic => false
           | VErr => match d_kind d, unmarshal msg (h_ty h) with
                     | KCommand, Some _ => pc_ack_errors cfg
                     | _, _ => false
                     end
           end
       end.
  Proof.
    cbv zeta. destruct d as [h b|h b|hs]; unfold d_matching; simpl.
    - (* command *)
      unfold Model.cmd_fn, Model.matches.
      destruct (N.eqb (name_from msg) (hname h)) eqn:En; simpl.
      2:{ rewrite apply_pre_none. repeat split. }
      unfold matched. unfold Model.unmarshal. simpl.
      destruct (dec (w_payload msg) (h_ty h)) as [v|] eqn:Ed.
      2:{ rewrite apply_pre_none. repeat split. }
      set (c := ctx_with_original (w_ctx msg) (w_obj msg)).
      pose proof (invoke_spec (pc_onhandle cfg) h (name_from msg) v c c b m) as Hi.
      pose proof (invoke_ctx_ok (pc_onhandle cfg) h v b m msg) as Hc. cbv zeta in Hc. fold c in Hc. simpl in Hc.
      destruct (invoke (pc_onhandle cfg) h (name_from msg) v c c b m) as [[m1 e] r].
      destruct Hi as (Hs & Hcl & ->). simpl in Hc.
      destruct (oh_result (pc_onhandle cfg) (hs_res b)); simpl; rewrite ?app_nil_r;
        (repeat split; try assumption);
        try (rewrite Hs; destruct (oh_calls (pc_onhandle cfg)); [now destruct (hs_pre b)|reflexivity]).
      now destruct (pc_ack_errors cfg).
    - (* event *)
      unfold Model.evt_fn, Model.matches.
      destruct (N.eqb (name_from msg) (hname h)) eqn:En; simpl.
      2:{ rewrite apply_pre_none. repeat split. now destruct (pc_ack_unknown cfg). }
      unfold matched. unfold Model.unmarshal. simpl.
      destruct (dec (w_payload msg) (h_ty h)) as [v|] eqn:Ed.
      2:{ rewrite apply_pre_none. repeat split. }
      set (c := ctx_with_original (w_ctx msg) (w_obj msg)).
      pose proof (invoke_spec (pc_onhandle cfg) h (name_from msg) v c c b m) as Hi.
      pose proof (invoke_ctx_ok (pc_onhandle cfg) h v b m msg) as Hc. cbv zeta in Hc. fold c in Hc. simpl in Hc.
      destruct (invoke (pc_onhandle cfg) h (name_from msg) v c c b m) as [[m1 e] r].
      destruct Hi as (Hs & Hcl & ->). simpl in Hc.
      destruct (oh_result (pc_onhandle cfg) (hs_res b)); simpl; rewrite ?app_nil_r;
        (repeat split; try assumption);
        try (rewrite Hs; destruct (oh_calls (pc_onhandle cfg)); [now destruct (hs_pre b)|reflexivity]).
    - (* group *)
      unfold Model.grp_fn.
      pose proof (grp_loop_spec cfg (name_from msg) hs msg false m) as Hl. cbv zeta in Hl.
      pose proof (grp_loop_ctx_ok cfg (name_from msg) hs msg false m eq_refl) as Hc.
      destruct (grp_loop cfg (name_from msg) msg hs false m) as [[m1 e] out]. simpl in Hc.
      destruct Hl as (Hs & Hcl & Ho). rewrite filter_nmatch in *.
      repeat split; try assumption.
      rewrite Ho. unfold loop_outcome.
      destruct (filter _ hs) as [|[h0 b0] ms] eqn:Ef; simpl.
      + now destruct (pc_ack_unknown cfg).
      + destruct (Model.unmarshal dec msg (h_ty h0)); [|reflexivity].
        destruct (oh_result (pc_onhandle cfg) (hs_res b0)); try reflexivity.
        now destruct (expected_verdict (pc_onhandle cfg) msg ms).
  Qed.

  (** what one delivery does, end to end *)
  Lemma process_spec cfg msg d :
    let '(m2, e, rtr) := process cfg msg d in
    calls e = expected_calls (pc_onhandle cfg) msg (d_matching msg d)
    /\ st m2 = expected_settle (d_kind d) cfg msg (d_hs d)
    /\ ctx_ok msg e = true
    /\ count_settles rtr = 1 /\ count_calls rtr = 1 /\ publishes rtr = [].
  Proof.
    unfold Model.process.
    pose proof (proc_fn_spec cfg msg d (init CtorNew)) as H. cbv zeta in H.
    destruct (proc_fn cfg msg d (init CtorNew)) as [[m1 e] out].
    destruct H as (Hs & Hc & Hx & Ho).
    pose proof (routed_spec m1 e out) as Hr.
    destruct (routed (m1, e, out)) as [[m2 e'] rtr].
    destruct Hr as (-> & Hs2 & H1 & H2 & H3 & _).
    repeat split; try assumption.
    rewrite Hs2, Hs. simpl. unfold Model.expected_settle. fold (d_matching msg d).
    destruct (Model.expected_pre dec (pc_onhandle cfg) msg (d_matching msg d)); simpl; try reflexivity.
    rewrite Ho.
    destruct (d_matching msg d) as [|[h0 b0] ms].
    - destruct (d_kind d); reflexivity.
    - destruct (expected_verdict (pc_onhandle cfg) msg ((h0, b0) :: ms)); try reflexivity.
      destruct (d_kind d); try reflexivity.
      destruct (unmarshal msg (h_ty h0)); reflexivity.
  Qed.

  (** **** OnHandle parameters *)
  Section OnHandle.
    Variable eqbV : V -> V -> bool.
    Hypothesis eqbV_refl : forall v, eqbV v v = true.
    Notation onhandle_ok := (onhandle_ok gen_name dec zero eqbV).

    Lemma onhandle_ok_app oh msg hs (a b : list pevent) :
      onhandle_ok oh msg hs (a ++ b) = onhandle_ok oh msg hs a && onhandle_ok oh msg hs b.
    Proof. unfold Model.onhandle_ok. apply forallb_app. Qed.

    Lemma pre_settle_onhandle_ok oh msg hs hid p m :
      onhandle_ok oh msg hs (snd (pre_settle (V:=V) hid p m)) = true.
    Proof.
      destruct p; unfold pre_settle;
        [reflexivity | destruct (step m OpAck); reflexivity | destruct (step m OpNack); reflexivity].
    Qed.

    (** one handle(params) for a registered handler [h] that matches [msg0] and decodes to [v] *)
    Lemma invoke_onhandle_ok oh (msg0 : wmsg) hs h b v c mc m :
      In (h, b) hs -> matches msg0 h = true -> unmarshal msg0 (h_ty h) = Some v ->
      onhandle_ok oh msg0 hs (snd (fst (invoke oh h (name_from msg0) v c mc b m))) = true.
    Proof.
      intros Hin Hm Hd.
      assert (Hex : existsb (fun hb => N.eqb (h_id (fst hb)) (h_id h) && matches msg0 (fst hb)
                                       && option_eqb eqbV (unmarshal msg0 (h_ty (fst hb))) (Some v)) hs = true).
      { apply existsb_exists. exists (h, b). split; [assumption|]. simpl.
        rewrite N.eqb_refl, Hm, Hd. simpl. apply eqbV_refl. }
      unfold invoke, call_handler.
      pose proof (pre_settle_onhandle_ok oh msg0 hs (h_id h) (hs_pre b) m) as Hp.
      destruct (pre_settle (h_id h) (hs_pre b) m) as [m1 e1]. simpl in Hp.
      destruct oh; simpl; rewrite ?N.eqb_refl, ?Hex; simpl; assumption || reflexivity.
    Qed.

    Lemma grp_loop_onhandle_ok cfg (msg0 : wmsg) hs : forall hs2 msg handled m,
      incl hs2 hs -> ctx_inv msg0 msg ->
      onhandle_ok (pc_onhandle cfg) msg0 hs
                  (snd (fst (grp_loop cfg (name_from msg0) msg hs2 handled m))) = true.
    Proof.
      induction hs2 as [|[h b] hs2 IH]; intros msg handled m Hincl Hinv; simpl; [reflexivity|].
      assert (Hin : In (h, b) hs) by (apply Hincl; now left).
      assert (Hincl2 : incl hs2 hs) by (intros x Hx; apply Hincl; now right).
      destruct (N.eqb (name_from msg0) (hname h)) eqn:En; simpl; [|now apply IH].
      unfold Model.unmarshal. simpl.
      destruct (dec (w_payload msg) (h_ty h)) as [v|] eqn:Ed; [|reflexivity].
      set (c := ctx_with_original (w_ctx msg) (w_obj msg)).
      assert (Hd0 : unmarshal msg0 (h_ty h) = Some v).
      { unfold Model.unmarshal. destruct Hinv as (_ & _ & Hp & _). now rewrite <- Hp. }
      pose proof (invoke_onhandle_ok (pc_onhandle cfg) msg0 hs h b v c c m Hin En Hd0) as Hi.
      destruct (invoke (pc_onhandle cfg) h (name_from msg0) v c c b m) as [[m1 e] r]. simpl in Hi.
      destruct r; simpl; try assumption.
      assert (Hinv2 : ctx_inv msg0 (set_ctx msg c)).
      { destruct Hinv as (H1 & H2 & H3 & H4). repeat split; assumption. }
      specialize (IH (set_ctx msg c) true m1 Hincl2 Hinv2).
      destruct (grp_loop cfg (name_from msg0) (set_ctx msg c) hs2 true m1) as [[m2 e2] o]. simpl in *.
      now rewrite onhandle_ok_app, Hi, IH.
    Qed.

    Lemma proc_fn_onhandle_ok cfg msg d m :
      onhandle_ok (pc_onhandle cfg) msg (d_hs d) (snd (fst (proc_fn cfg msg d m))) = true.
    Proof.
      destruct d as [h b|h b|hs]; simpl.
      - unfold Model.cmd_fn.
        destruct (N.eqb (name_from msg) (hname h)) eqn:En; simpl; [|reflexivity].
        unfold matched, Model.unmarshal. simpl.
        destruct (dec (w_payload msg) (h_ty h)) as [v|] eqn:Ed; [|reflexivity].
        set (c := ctx_with_original (w_ctx msg) (w_obj msg)).
        pose proof (invoke_onhandle_ok (pc_onhandle cfg) msg [(h, b)] h b v c c m (or_introl eq_refl) En Ed) as Hi.
        destruct (invoke (pc_onhandle cfg) h (name_from msg) v c c b m) as [[m1 e] r]. simpl in Hi.
        destruct r; assumption.
      - unfold Model.evt_fn.
        destruct (N.eqb (name_from msg) (hname h)) eqn:En; simpl; [|reflexivity].
        unfold matched, Model.unmarshal. simpl.
        destruct (dec (w_payload msg) (h_ty h)) as [v|] eqn:Ed; [|reflexivity].
        set (c := ctx_with_original (w_ctx msg) (w_obj msg)).
        pose proof (invoke_onhandle_ok (pc_onhandle cfg) msg [(h, b)] h b v c c m (or_introl eq_refl) En Ed) as Hi.
        destruct (invoke (pc_onhandle cfg) h (name_from msg) v c c b m) as [[m1 e] r]. simpl in Hi.
        destruct r; assumption.
      - unfold Model.grp_fn. apply grp_loop_onhandle_ok; [apply incl_refl|repeat split].
    Qed.
  End OnHandle.

  (** the model passes the acceptor that judges implementation traces *)
  Lemma c15_monitor_accepts (eqbV : V -> V -> bool) (Hrefl : forall v, eqbV v v = true) cfg msg d :
    let '(m2, e, rtr) := process cfg msg d in
    c15_monitor gen_name dec zero eqbV cfg msg d e rtr (st m2) = true.
  Proof.
    pose proof (process_spec cfg msg d) as H.
    destruct (process cfg msg d) as [[m2 e] rtr] eqn:Heq.
    destruct H as (Hc & Hs & Hx & H1 & H2 & H3).
    assert (Hoh : onhandle_ok gen_name dec zero eqbV (pc_onhandle cfg) msg (d_hs d) e = true).
    { pose proof (proc_fn_onhandle_ok eqbV Hrefl cfg msg d (init CtorNew)) as Ho.
      unfold Model.process in Heq. destruct (proc_fn cfg msg d (init CtorNew)) as [[m1 e1] o1].
      pose proof (routed_spec m1 e1 o1) as Hr. rewrite Heq in Hr. destruct Hr as (-> & _). exact Ho. }
    unfold c15_monitor. fold (d_matching msg d).
    rewrite Hc, Hs, Hx, Hoh, H1, H2, H3. simpl.
    assert (Hl : forall l : list (N * V), list_eqb (call_eqb eqbV) l l = true).
    { induction l as [|[n v] l IH]; simpl; [reflexivity|]. unfold call_eqb at 1. simpl.
      now rewrite N.eqb_refl, Hrefl, IH. }
    rewrite Hl. simpl.
    now destruct (Model.expected_settle _ _ _ _ _ _ _).
  Qed.

  (** **** readable consequences *)

  (** command / event processor: the handler is invoked iff the names match (and the payload
      decodes, and an OnHandle hook, if any, calls through), once, with the decoded value *)
  Lemma single_calls cfg msg d h b :
    d = DCommand h b \/ d = DEvent h b ->
    calls (snd (fst (process cfg msg d))) =
      if matches msg h then
        match unmarshal msg (h_ty h) with
        | Some v => if oh_calls (pc_onhandle cfg) then [(h_id h, v)] else []
        | None => []
        end
      else [].
  Proof.
    intros Hd. pose proof (process_spec cfg msg d) as H.
    destruct (process cfg msg d) as [[m2 e] rtr]. destruct H as (Hc & _). simpl. rewrite Hc.
    unfold d_matching. destruct Hd as [-> | ->]; simpl; destruct (matches msg h); simpl; try reflexivity;
      destruct (Model.unmarshal dec msg (h_ty h)); try reflexivity;
      destruct (oh_result _ _); now rewrite ?app_nil_r.
  Qed.

  Lemma single_iff cfg msg d h b hid v :
    d = DCommand h b \/ d = DEvent h b -> oh_calls (pc_onhandle cfg) = true ->
    (In (hid, v) (calls (snd (fst (process cfg msg d))))
     <-> name_from msg = hname h /\ unmarshal msg (h_ty h) = Some v /\ hid = h_id h).
  Proof.
    intros Hd Hoh. rewrite (single_calls cfg msg d h b Hd), Hoh. unfold Model.matches.
    destruct (N.eqb (name_from msg) (hname h)) eqn:En.
    - apply N.eqb_eq in En. destruct (Model.unmarshal dec msg (h_ty h)) as [v'|]; simpl.
      + split.
        * intros [[= <- <-]|[]]. auto.
        * intros (_ & [= ->] & ->). now left.
      + split; [intros []|intros (_ & H & _); discriminate].
    - apply N.eqb_neq in En. simpl. split; [intros []|intros (H & _); contradiction].
  Qed.

  (** every handler a group calls matches the message's name and receives the payload decoded
      into its own type *)
  Lemma expected_calls_in oh msg ms hid v :
    In (hid, v) (expected_calls oh msg ms) ->
    exists h b, In (h, b) ms /\ h_id h = hid /\ unmarshal msg (h_ty h) = Some v.
  Proof.
    induction ms as [|[h b] ms IH]; simpl; [intros []|].
    destruct (Model.unmarshal dec msg (h_ty h)) as [v'|] eqn:E; [|intros []].
    intros Hin. apply in_app_or in Hin as [Hin|Hin].
    - destruct (oh_calls oh); [|destruct Hin]. destruct Hin as [[= <- <-]|[]]. exists h, b. auto.
    - destruct (oh_result oh (hs_res b)); try destruct Hin.
      destruct (IH Hin) as (h' & b' & H1 & H2 & H3). exists h', b'. auto.
  Qed.

  Lemma calls_only_matching cfg msg d hid v :
    In (hid, v) (calls (snd (fst (process cfg msg d)))) ->
    exists h b, In (h, b) (d_hs d) /\ h_id h = hid /\ name_from msg = hname h
                /\ unmarshal msg (h_ty h) = Some v.
  Proof.
    pose proof (process_spec cfg msg d) as H.
    destruct (process cfg msg d) as [[m2 e] rtr]. destruct H as (Hc & _). simpl. rewrite Hc.
    intros Hin. apply expected_calls_in in Hin as (h & b & Hin & H1 & H2).
    unfold d_matching in Hin. apply filter_In in Hin as [Hin Hm]. simpl in Hm.
    exists h, b. repeat split; try assumption. now apply N.eqb_eq.
  Qed.

  (** registration order: the invoked handlers are a prefix of the matching handlers, in the
      order of the group *)
  Lemma expected_calls_prefix oh msg ms : oh_calls oh = true ->
    exists rest, map (fun hb => h_id (fst hb)) ms = map fst (expected_calls oh msg ms) ++ rest.
  Proof.
    intros Hoh. induction ms as [|[h b] ms (rest & IH)]; simpl; [now exists []|].
    destruct (Model.unmarshal dec msg (h_ty h)); [|now eexists].
    rewrite Hoh. simpl. destruct (oh_result oh (hs_res b)).
    - exists rest. now rewrite IH.
    - now eexists.
    - now eexists.
  Qed.

  Lemma calls_in_registration_order cfg msg d : oh_calls (pc_onhandle cfg) = true ->
    exists rest, map (fun hb => h_id (fst hb)) (d_matching msg d)
                 = map fst (calls (snd (fst (process cfg msg d)))) ++ rest.
  Proof.
    intros Hoh. pose proof (process_spec cfg msg d) as H.
    destruct (process cfg msg d) as [[m2 e] rtr]. destruct H as (Hc & _). simpl. rewrite Hc.
    now apply expected_calls_prefix.
  Qed.

  (** all matching handlers are called when none fails *)
  Lemma expected_calls_all oh msg ms : oh_calls oh = true ->
    forallb (hb_ok oh msg) ms = true ->
    map fst (expected_calls oh msg ms) = map (fun hb => h_id (fst hb)) ms
    /\ expected_verdict oh msg ms = VAllOk.
  Proof.
    intros Hoh. induction ms as [|[h b] ms IH]; simpl; [auto|].
    intros H. apply andb_true_iff in H as [H1 H2]. unfold hb_ok in H1. simpl in H1.
    destruct (Model.unmarshal dec msg (h_ty h)); [|discriminate].
    destruct (oh_result oh (hs_res b)); try discriminate.
    rewrite Hoh. simpl. destruct (IH H2) as [-> ->]. auto.
  Qed.

  (** stop at the first failure: the first matching handler that fails is the last one called,
      and the delivery is not a success *)
  Lemma expected_calls_stop oh msg pre h b post : oh_calls oh = true ->
    forallb (hb_ok oh msg) pre = true -> hb_ok oh msg (h, b) = false ->
    map fst (expected_calls oh msg (pre ++ (h, b) :: post))
      = map (fun hb => h_id (fst hb)) pre
        ++ (match unmarshal msg (h_ty h) with Some _ => [h_id h] | None => [] end)
    /\ expected_verdict oh msg (pre ++ (h, b) :: post) <> VAllOk.
  Proof.
    intros Hoh. induction pre as [|[h1 b1] pre IH]; simpl; intros Hpre Hf.
    - unfold hb_ok in Hf. simpl in Hf.
      destruct (Model.unmarshal dec msg (h_ty h)); [|split; [reflexivity|discriminate]].
      rewrite Hoh. destruct (oh_result oh (hs_res b)); try discriminate; split; simpl; congruence.
    - apply andb_true_iff in Hpre as [H1 H2]. unfold hb_ok in H1. simpl in H1.
      destruct (Model.unmarshal dec msg (h_ty h1)); [|discriminate].
      destruct (oh_result oh (hs_res b1)); try discriminate.
      rewrite Hoh. simpl. destruct (IH H2 Hf) as [-> Hv]. auto.
  Qed.

  (** unknown type: no handler matches -> nothing is invoked and the message is settled as
      the flag says (commands: acknowledged) *)
  Lemma unknown_policy cfg msg d :
    d_matching msg d = [] ->
    let '(m2, e, rtr) := process cfg msg d in
    e = []
    /\ st m2 = match d_kind d with KCommand => Acked | _ => if pc_ack_unknown cfg then Acked else Nacked end
    /\ count_settles rtr = 1.
  Proof.
    intros Hm. pose proof (process_spec cfg msg d) as H.
    assert (He : snd (fst (proc_fn cfg msg d (init CtorNew))) = []).
    { destruct d as [h b|h b|hs]; unfold d_matching in Hm; simpl in *.
      - unfold Model.cmd_fn. unfold Model.matches in Hm.
        destruct (N.eqb (name_from msg) (hname h)); [discriminate|reflexivity].
      - unfold Model.evt_fn. unfold Model.matches in Hm.
        destruct (N.eqb (name_from msg) (hname h)); [discriminate|reflexivity].
      - unfold Model.grp_fn. rewrite grp_loop_filter, filter_nmatch, Hm. reflexivity. }
    unfold Model.process in *.
    destruct (proc_fn cfg msg d (init CtorNew)) as [[m1 e1] o]. simpl in He. subst e1.
    pose proof (routed_spec m1 (@nil pevent) o) as Hr.
    destruct (routed (m1, [], o)) as [[m2 e] rtr].
    destruct Hr as (-> & _). destruct H as (_ & Hs & _ & H1 & _).
    repeat split; try assumption.
    rewrite Hs. unfold Model.expected_settle. fold (d_matching msg d). rewrite Hm. reflexivity.
  Qed.

  (** error policy for a command / event handler that matches, when the handler does not
      settle the message itself *)
  Lemma error_policy cfg msg d h b :
    d = DCommand h b \/ d = DEvent h b ->
    matches msg h = true ->
    (if oh_calls (pc_onhandle cfg) then hs_pre b else PreNone) = PreNone ->
    st (fst (fst (process cfg msg d))) =
      match unmarshal msg (h_ty h) with
      | None => Nacked                                          (* Unmarshal error: always Nack *)
      | Some _ =>
          match oh_result (pc_onhandle cfg) (hs_res b) with
          | HROk => Acked
          | HRPanic => Nacked
          | HRErr => match d with
                     | DCommand _ _ => if pc_ack_errors cfg then Acked else Nacked
                     | _ => Nacked
                     end
          end
      end.
  Proof.
    intros Hd Hm Hp. pose proof (process_spec cfg msg d) as H.
    destruct (process cfg msg d) as [[m2 e] rtr]. destruct H as (_ & Hs & _). simpl. rewrite Hs.
    unfold Model.expected_settle.
    destruct Hd as [-> | ->]; simpl; rewrite Hm; simpl;
      destruct (Model.unmarshal dec msg (h_ty h)); try reflexivity;
      rewrite Hp; destruct (oh_result _ _); reflexivity.
  Qed.

  (** a group is acknowledged iff every matching handler returned nil (and there is one, or
      AckOnUnknownEvent), when no handler settles the message itself *)
  Lemma group_policy cfg msg hs :
    let ms := d_matching msg (DGroup hs) in
    expected_pre (pc_onhandle cfg) msg ms = PreNone -> ms <> [] ->
    st (fst (fst (process cfg msg (DGroup hs)))) =
      if forallb (hb_ok (pc_onhandle cfg) msg) ms then Acked else Nacked.
  Proof.
    cbv zeta. intros Hp Hne. pose proof (process_spec cfg msg (DGroup hs)) as H.
    destruct (process cfg msg (DGroup hs)) as [[m2 e] rtr]. destruct H as (_ & Hs & _). simpl. rewrite Hs.
    unfold Model.expected_settle. unfold d_matching in *. simpl d_hs in *. simpl d_kind.
    rewrite Hp. destruct (filter (fun hb => matches msg (fst hb)) hs) as [|hb ms]; [congruence|].
    clear. revert hb. induction ms as [|hb' ms IH]; intros [h b].
    - simpl. unfold hb_ok. simpl. destruct (Model.unmarshal dec msg (h_ty h)); [|reflexivity].
      destruct (oh_result _ _); reflexivity.
    - specialize (IH hb'). simpl in *. unfold hb_ok at 1. simpl.
      destruct (Model.unmarshal dec msg (h_ty h)); [|reflexivity].
      destruct (oh_result (pc_onhandle cfg) (hs_res b)); try reflexivity.
      simpl. destruct hb' as [h' b']. simpl in *.
      destruct (Model.expected_verdict dec (pc_onhandle cfg) msg ((h', b') :: ms)) eqn:Ev;
        rewrite <- IH; reflexivity.
  Qed.

  (** *** values: with the marshaler's round-trip law the handler sees the value sent *)
  Section RoundTrip.
    Variable ty_of : V -> T.
    Hypothesis roundtrip : forall v p, enc v = Some p -> dec p (ty_of v) = Some v.

    Lemma value_equal buscfg uuid obj c v modify pb tr t pm :
      bus_send buscfg uuid obj c v modify pb = (tr, BOk) ->
      edits_touch_name (hook_edits (bc_hook buscfg) ++ hook_edits modify) = false ->
      edits_touch_payload (hook_edits (bc_hook buscfg) ++ hook_edits modify) = false ->
      bus_publishes tr = [(t, pm)] ->
      (* any delivery of the published message: another object, uuid, context *)
      forall msg, w_payload msg = w_payload pm -> w_meta msg = w_meta pm ->
      name_from msg = gen_name v
      /\ forall cfg d hid v', In (hid, v') (calls (snd (fst (process cfg msg d)))) ->
           forall h b, In (h, b) (d_hs d) -> h_id h = hid ->
             (forall h' b', In (h', b') (d_hs d) -> h_id h' = hid -> h' = h) ->
             h_ty h = ty_of v -> v' = v.
    Proof.
      intros E Hn Hp Htr msg Hpl Hmeta.
      apply bus_ok_publishes_once in E as (t' & p & _ & Hp' & Htr').
      rewrite Htr in Htr'. injection Htr' as -> ->.
      destruct (published_carries buscfg uuid obj c v p modify) as (Hname & Hpay & _).
      cbv zeta in Hname, Hpay.
      assert (Hnm : name_from msg = gen_name v).
      { unfold name_from in *. rewrite Hmeta. now apply Hname. }
      split; [assumption|].
      intros cfg d hid v' Hin h b Hhb Hid Huniq Hty.
      apply calls_only_matching in Hin as (h1 & b1 & Hin1 & Hid1 & _ & Hdec).
      assert (h1 = h) by (eapply Huniq; eassumption). subst h1.
      unfold Model.unmarshal in Hdec. rewrite Hpl, Hpay, Hty in Hdec by assumption.
      rewrite (roundtrip v p Hp') in Hdec. congruence.
    Qed.
  End RoundTrip.

  (** *** registration *)
  Lemma first_dup_none seen names : first_dup seen names = None <-> NoDup names /\ forall n, In n names -> ~ In n seen.
  Proof.
    revert seen. induction names as [|n names IH]; intros seen; simpl.
    - split; [intros _; split; [constructor|intros ? []]|reflexivity].
    - destruct (existsb (N.eqb n) seen) eqn:E.
      + split; [discriminate|]. intros [_ H]. exfalso.
        apply existsb_exists in E as (x & Hx & Hnx). apply N.eqb_eq in Hnx. subst x.
        apply (H n); auto.
      + rewrite IH. split.
        * intros [Hnd H]. split.
          -- constructor; [|assumption]. intros Hin. apply (H n Hin). now left.
          -- intros x [<-|Hin] Hs.
             ++ assert (existsb (N.eqb n) seen = true); [|congruence].
                apply existsb_exists. exists n. split; [assumption|apply N.eqb_refl].
             ++ apply (H x Hin). now right.
        * intros [Hnd H]. inversion Hnd; subst. split; [assumption|].
          intros x Hin [<-|Hs]; [contradiction|]. apply (H x); auto.
  Qed.

  Lemma add_handlers_nodup (hs : list handler) :
    cmd_add_handlers gen_name zero hs = None <-> NoDup (map hname hs).
  Proof.
    unfold cmd_add_handlers. rewrite first_dup_none. split; [now intros [H _]|].
    intros H. split; [assumption|]. intros n _ [].
  Qed.

  Lemma proc_fn_ctx_ok cfg msg d :
    ctx_ok msg (snd (fst (proc_fn cfg msg d (init CtorNew)))) = true.
  Proof.
    pose proof (proc_fn_spec cfg msg d (init CtorNew)) as H. cbv zeta in H.
    destruct (proc_fn cfg msg d (init CtorNew)) as [[m1 e] out]. apply H.
  Qed.
End Proofs.
