(** The ack options of components/cqrs composed with the Router's settle rule (round "proofs 4"):
    for each option actually present — CommandProcessorConfig.AckCommandHandlingErrors,
    EventProcessorConfig.AckOnUnknownEvent, EventGroupProcessorConfig.AckOnUnknownEvent — the
    delivery IS C02's [handle] of a no-publisher handler applied to the outcome the option selects. *)
From WM Require Import Base.Prelude Message.Model Handler.RouterHandle Handler.RouterProofs CQRS.Model CQRS.Proofs.

Section Options.
  Context {V T P : Type}.
  Variable gen_name : V -> N.
  Variable dec : P -> T -> option V.
  Variable zero : T -> V.

  Notation process := (process gen_name dec zero).
  Notation proc_fn := (proc_fn gen_name dec zero).
  Notation matches := (matches gen_name zero).

  (** the Router-level part of a delivery: (final message state, Router trace) *)
  Definition settled (r : mstate * list (pevent V) * list (hevent nomsg)) : mstate * list (hevent nomsg) :=
    (fst (fst r), snd r).
  Definition via_handle (o : outcome nomsg) : mstate * list (hevent nomsg) :=
    handle PubDisabled PubAccept (CR PreNone o).

  Lemma process_via_handle cfg (msg : wmsg P) d e o :
    proc_fn cfg msg d (init CtorNew) = (init CtorNew, e, o) ->
    settled (process cfg msg d) = via_handle o /\ snd (fst (process cfg msg d)) = e.
  Proof.
    intros H. pose proof (process_is_handle gen_name dec zero cfg msg d) as Hp. rewrite H in Hp.
    rewrite (Hp eq_refl). unfold settled, via_handle. simpl.
    now destruct (handle PubDisabled PubAccept (CR PreNone o)).
  Qed.

  (** a handler that does not settle the message itself leaves the message state alone *)
  Lemma invoke_no_pre oh (h : handler T) name (v : V) c mc b m : hs_pre b = PreNone ->
    exists e, invoke oh h name v c mc b m = (m, e, oh_result oh (hs_res b)).
  Proof.
    intros Hp. unfold invoke, call_handler. rewrite Hp. simpl. destruct oh; simpl; eauto.
  Qed.

  (** *** AckCommandHandlingErrors *)
  Lemma opt_ack_command_handling_errors cfg (msg : wmsg P) h b v :
    matches msg h = true -> unmarshal dec msg (h_ty h) = Some v -> hs_pre b = PreNone ->
    oh_result (pc_onhandle cfg) (hs_res b) = HRErr ->
    settled (process cfg msg (DCommand h b))
      = via_handle (if pc_ack_errors cfg then Ret [] else Fail [])
    /\ st (fst (fst (process cfg msg (DCommand h b)))) = (if pc_ack_errors cfg then Acked else Nacked).
  Proof.
    intros Hm Hd Hp Hr.
    assert (H : exists e, proc_fn cfg msg (DCommand h b) (init CtorNew)
                          = (init CtorNew, e, if pc_ack_errors cfg then ok_out else err_out)).
    { simpl. unfold cmd_fn. unfold Model.matches in Hm. rewrite Hm. simpl. unfold matched.
      change (unmarshal dec (set_ctx msg (ctx_with_original (w_ctx msg) (w_obj msg))) (h_ty h))
        with (unmarshal dec msg (h_ty h)). rewrite Hd.
      match goal with |- context [invoke ?oh ?hh ?nm ?vv ?cc ?mc ?bb ?mm] =>
        destruct (invoke_no_pre oh hh nm vv cc mc bb mm Hp) as (e & ->) end.
      rewrite Hr. eauto. }
    destruct H as (e & H). destruct (process_via_handle cfg msg _ e _ H) as (H1 & _).
    split.
    - rewrite H1. now destruct (pc_ack_errors cfg).
    - change (st (fst (settled (process cfg msg (DCommand h b)))) = (if pc_ack_errors cfg then Acked else Nacked)).
      rewrite H1. now destruct (pc_ack_errors cfg).
  Qed.

  (** *** AckOnUnknownEvent, event processor *)
  Lemma opt_ack_on_unknown_event cfg (msg : wmsg P) h b :
    matches msg h = false ->
    settled (process cfg msg (DEvent h b)) = via_handle (if pc_ack_unknown cfg then Ret [] else Fail [])
    /\ snd (fst (process cfg msg (DEvent h b))) = []
    /\ st (fst (fst (process cfg msg (DEvent h b)))) = (if pc_ack_unknown cfg then Acked else Nacked).
  Proof.
    intros Hm.
    assert (H : proc_fn cfg msg (DEvent h b) (init CtorNew)
                = (init CtorNew, [], if pc_ack_unknown cfg then ok_out else err_out)).
    { simpl. unfold evt_fn. unfold Model.matches in Hm. now rewrite Hm. }
    destruct (process_via_handle cfg msg _ _ _ H) as (H1 & H2). repeat split.
    - rewrite H1. now destruct (pc_ack_unknown cfg).
    - exact H2.
    - change (st (fst (settled (process cfg msg (DEvent h b)))) = (if pc_ack_unknown cfg then Acked else Nacked)).
      rewrite H1. now destruct (pc_ack_unknown cfg).
  Qed.

  (** *** AckOnUnknownEvent, event group processor: no handler of the group matches *)
  Lemma opt_ack_on_unknown_event_group cfg (msg : wmsg P) hs :
    filter (fun hb => matches msg (fst hb)) hs = [] ->
    settled (process cfg msg (DGroup hs)) = via_handle (if pc_ack_unknown cfg then Ret [] else Fail [])
    /\ snd (fst (process cfg msg (DGroup hs))) = []
    /\ st (fst (fst (process cfg msg (DGroup hs)))) = (if pc_ack_unknown cfg then Acked else Nacked).
  Proof.
    intros Hm.
    assert (H : proc_fn cfg msg (DGroup hs) (init CtorNew)
                = (init CtorNew, [], if pc_ack_unknown cfg then ok_out else err_out)).
    { simpl. unfold grp_fn. rewrite (grp_loop_filter gen_name dec zero).
      change (filter (nmatch gen_name zero (name_from msg)) hs) with (filter (fun hb => matches msg (fst hb)) hs).
      rewrite Hm. reflexivity. }
    destruct (process_via_handle cfg msg _ _ _ H) as (H1 & H2). repeat split.
    - rewrite H1. now destruct (pc_ack_unknown cfg).
    - exact H2.
    - change (st (fst (settled (process cfg msg (DGroup hs)))) = (if pc_ack_unknown cfg then Acked else Nacked)).
      rewrite H1. now destruct (pc_ack_unknown cfg).
  Qed.

  (** *** where there is NO option: an unknown command is always acknowledged; a failing event
      handler (error, or panic) is always Nacked whatever the flags say *)
  Lemma no_option_unknown_command cfg (msg : wmsg P) h b :
    matches msg h = false ->
    settled (process cfg msg (DCommand h b)) = via_handle (Ret [])
    /\ st (fst (fst (process cfg msg (DCommand h b)))) = Acked.
  Proof.
    intros Hm.
    assert (H : proc_fn cfg msg (DCommand h b) (init CtorNew) = (init CtorNew, [], ok_out)).
    { simpl. unfold cmd_fn. unfold Model.matches in Hm. now rewrite Hm. }
    destruct (process_via_handle cfg msg _ _ _ H) as (H1 & _). split; [exact H1|].
    change (st (fst (settled (process cfg msg (DCommand h b)))) = Acked). now rewrite H1.
  Qed.

  Lemma no_option_event_handler_error cfg (msg : wmsg P) h b v :
    matches msg h = true -> unmarshal dec msg (h_ty h) = Some v -> hs_pre b = PreNone ->
    oh_result (pc_onhandle cfg) (hs_res b) = HRErr ->
    settled (process cfg msg (DEvent h b)) = via_handle (Fail [])
    /\ st (fst (fst (process cfg msg (DEvent h b)))) = Nacked.
  Proof.
    intros Hm Hd Hp Hr.
    assert (H : exists e, proc_fn cfg msg (DEvent h b) (init CtorNew) = (init CtorNew, e, err_out)).
    { simpl. unfold evt_fn. unfold Model.matches in Hm. rewrite Hm. simpl. unfold matched.
      change (unmarshal dec (set_ctx msg (ctx_with_original (w_ctx msg) (w_obj msg))) (h_ty h))
        with (unmarshal dec msg (h_ty h)). rewrite Hd.
      match goal with |- context [invoke ?oh ?hh ?nm ?vv ?cc ?mc ?bb ?mm] =>
        destruct (invoke_no_pre oh hh nm vv cc mc bb mm Hp) as (e & ->) end.
      rewrite Hr. eauto. }
    destruct H as (e & H). destruct (process_via_handle cfg msg _ e _ H) as (H1 & _). split; [exact H1|].
    change (st (fst (settled (process cfg msg (DEvent h b)))) = Nacked). now rewrite H1.
  Qed.
End Options.
