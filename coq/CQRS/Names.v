(** Model of components/cqrs/name.go (round "seeds 4"): the name of a command / event as a function
    of its Go type string and of how many pointer levels the value is passed through.

    fmt.Sprintf("%T", v) of a value of the named type "pkg.T" reached through d pointers is d
    stars followed by "pkg.T".  FullyQualifiedStructName = strings.TrimLeft(that, "*") (l.17-21);
    StructName = the last segment of strings.Split(that, ".") (l.33-37); NamedStruct(fallback)
    (l.50-58) = v.Name() when v implements namedStruct — for a type with a value-receiver Name
    method that is T and *T, never **T (method sets) — else fallback(v).
    Strings are lists of character codes.  Executable; no proofs here. *)
From WM Require Import Base.Prelude.

Definition STAR : N := 42%N.
Definition DOT : N := 46%N.

(** %T *)
Definition type_string (depth : nat) (base : list N) : list N := repeat STAR depth ++ base.

Fixpoint trim_left_star (s : list N) : list N :=
  match s with
  | c :: s' => if N.eqb c STAR then trim_left_star s' else s
  | [] => []
  end.
(** the last element of strings.Split(s, "."): [acc] = the segment being read *)
Fixpoint last_segment_from (acc s : list N) : list N :=
  match s with
  | [] => acc
  | c :: s' => if N.eqb c DOT then last_segment_from [] s' else last_segment_from (acc ++ [c]) s'
  end.

Inductive namegen := GFullyQualified | GStructName | GNamedStruct (fallback : namegen).

(** [own] = Some n: the type has a value-receiver method Name() returning n for this value *)
Fixpoint name_of (g : namegen) (depth : nat) (base : list N) (own : option (list N)) : list N :=
  match g with
  | GFullyQualified => trim_left_star (type_string depth base)
  | GStructName => last_segment_from [] (type_string depth base)
  | GNamedStruct f =>
      match own with
      | Some n => if Nat.leb depth 1 then n else name_of f depth base own
      | None => name_of f depth base own
      end
  end.

Definition string_eqb (a b : list N) : bool := list_eqb N.eqb a b.

(** the acceptor for one observed call of a name function: what name.go must return, and — for
    a type without a Name method — the same as for the plain value *)
Definition name_monitor (g : namegen) (depth : nat) (base : list N) (own : option (list N))
           (observed : list N) : bool :=
  string_eqb observed (name_of g depth base own)
  && match own with
     | None => string_eqb observed (name_of g 0 base None)
     | Some _ => true
     end.
