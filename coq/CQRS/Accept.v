(** The remaining acceptors that judge implementation traces, as model-level definitions (round
    "proofs 4"), so that each one is linked to the model by a theorem in CQRS/AcceptProofs.v:
    the marshaler-call acceptor of a delivery, the sent-value acceptor of a message consumed
    after it came out of a bus, and the buffer-level view of one event-level bus call that the
    ownership acceptor is applied to.  No proofs here. *)
From WM Require Import Base.Prelude Message.Model Handler.RouterHandle CQRS.Model CQRS.Calls CQRS.Own.

Section Accept.
  Context {V T P : Type}.
  Variable gen_name : V -> N.
  Variable enc : V -> option P.
  Variable dec : P -> T -> option V.
  Variable zero : T -> V.
  Variable eqbP : P -> P -> bool.

  (** marshaler calls of one delivery: the discipline, and Handle entered for exactly the
      handlers the event-level trace [tr] shows *)
  Definition mc_monitor (msg : wmsg P) (tr : list (pevent V)) (mtr : list (mevent V)) : bool :=
    mcalls_ok (name_from msg) mtr && list_eqb N.eqb (mhandles mtr) (map fst (calls tr)).

  (** a message that came out of a bus unmodified carries the encoding and the name of [v] *)
  Definition sent_monitor (msg : wmsg P) (v : V) : bool :=
    option_eqb eqbP (enc v) (Some (w_payload msg)) && N.eqb (name_from msg) (gen_name v).

  (** the buffer-level call that corresponds to one event-level bus call *)
  Definition bus_own_call (cfg : bus_cfg V P) (uuid obj : N) (c : cctx) (v : V) (modify : option (hook P))
             (pb : pubbeh) : @hcall V P :=
    HC v (hook_edits (bc_hook cfg) ++ hook_edits modify)
       (match bus_publishes (fst (bus_send gen_name enc cfg uuid obj c v modify pb)) with
        | [] => false | _ => true end).
End Accept.
