(** Proofs about CQRS/Names.v: names do not depend on the pointer depth. *)
From WM Require Import Base.Prelude CQRS.Names.

Lemma trim_stars d s : trim_left_star (repeat STAR d ++ s) = trim_left_star s.
Proof. induction d as [|d IH]; simpl; [reflexivity|exact IH]. Qed.

(** FullyQualifiedStructName ignores every pointer level (a Go type name never starts with '*') *)
Lemma fq_invariant d base :
  (forall c rest, base = c :: rest -> c <> STAR) ->
  name_of GFullyQualified d base None = base.
Proof.
  intros H. simpl. unfold type_string. rewrite trim_stars.
  destruct base as [|c rest]; [reflexivity|]. simpl.
  destruct (N.eqb c STAR) eqn:E; [|reflexivity].
  apply N.eqb_eq in E. exfalso. eapply H; eauto.
Qed.

Lemma last_segment_dot : forall s acc, In DOT s -> last_segment_from acc s = last_segment_from [] s.
Proof.
  induction s as [|c s IH]; intros acc Hin; [destruct Hin|]. simpl.
  destruct (N.eqb c DOT) eqn:E; [reflexivity|].
  destruct Hin as [->|Hin]; [now rewrite N.eqb_refl in E|].
  rewrite (IH (acc ++ [c]) Hin). symmetry. apply (IH _ Hin).
Qed.

Lemma last_segment_stars : forall d acc s,
  last_segment_from acc (repeat STAR d ++ s) = last_segment_from (acc ++ repeat STAR d) s.
Proof.
  induction d as [|d IH]; intros acc s; simpl; [now rewrite app_nil_r|].
  rewrite IH, <- app_assoc. reflexivity.
Qed.

(** StructName ignores every pointer level for every package-qualified type name *)
Lemma struct_invariant d base : In DOT base ->
  name_of GStructName d base None = name_of GStructName 0 base None.
Proof.
  intros H. simpl. unfold type_string. simpl. rewrite last_segment_stars. now apply last_segment_dot.
Qed.

(** every generator of name.go, for a type without a Name method: the name of a value passed
    through any number of pointers is the name of the plain value *)
Lemma name_invariant : forall g d base,
  (forall c rest, base = c :: rest -> c <> STAR) -> In DOT base ->
  name_of g d base None = name_of g 0 base None.
Proof.
  induction g as [| |f IH]; intros d base H1 H2.
  - rewrite !fq_invariant by assumption. reflexivity.
  - now apply struct_invariant.
  - simpl. now apply IH.
Qed.

(** a type with a value-receiver Name method: T and *T name themselves *)
Lemma named_self f d base n : d <= 1 -> name_of (GNamedStruct f) d base (Some n) = n.
Proof. intros H. simpl. destruct (Nat.leb_spec d 1); [reflexivity|lia]. Qed.

Lemma string_eqb_refl s : string_eqb s s = true.
Proof. unfold string_eqb. induction s as [|c s IH]; simpl; [reflexivity|]. rewrite N.eqb_refl. exact IH. Qed.

Lemma name_monitor_accepts g d base own :
  (forall c rest, base = c :: rest -> c <> STAR) -> In DOT base ->
  name_monitor g d base own (name_of g d base own) = true.
Proof.
  intros H1 H2. unfold name_monitor. rewrite string_eqb_refl. destruct own; [reflexivity|].
  rewrite name_invariant by assumption. apply string_eqb_refl.
Qed.
