(** Model of the registration glue of components/cqrs (round "proofs"): which router handlers
    a processor puts on the Router, under which names, topics and subscribers.

    command_processor.go: AddHandlers (l.196-220: duplicate test on the batch, then per handler
    addHandlerToRouter + append), AddHandler (l.223-238), AddHandlersToRouter (l.256-270,
    deprecated processors only), addHandlerToRouter (l.272-312: GenerateSubscribeTopic ->
    routerHandlerFunc's validateCommand -> SubscriberConstructor -> AddNoPublisherHandler).
    event_processor.go: AddHandlers (l.195-210, no duplicate test), AddHandler, AddHandlersToRouter,
    addHandlerToRouter (l.250-290: validateEvent FIRST, then topic, subscriber, router).
    event_processor_group.go: AddHandlersGroup (l.145-162) + addHandlerToRouter (l.164-202).
    message/router.go AddNoPublisherHandler: panics on a duplicate handler name.

    The callbacks are scripts attached to each handler: what GenerateSubscribeTopic returns for
    it (a topic / an error), whether SubscriberConstructor succeeds, whether NewCommand()/NewEvent()
    returns a non-nil pointer.  Executable; no proofs here. *)
From WM Require Import Base.Prelude Message.Model Handler.RouterHandle CQRS.Model.

Section Reg.
  Context {V T : Type}.
  Variable gen_name : V -> N.
  Variable zero : T -> V.

  Record rspec := RS {
    rs_h : handler T;            (* the cqrs handler: id, Go type *)
    rs_hname : N;                (* HandlerName() *)
    rs_ptr : bool;               (* NewCommand()/NewEvent() returns a non-nil pointer *)
    rs_topic : option N;         (* GenerateSubscribeTopic(params{name, handler}); None = error *)
    rs_sub : bool                (* SubscriberConstructor(params{name, handler name, handler}) succeeds *)
  }.
  Definition rs_name (x : rspec) : N := hname gen_name zero (rs_h x).
  Definition rs_id (x : rspec) : N := h_id (rs_h x).

  (** a handler of the Router: name, subscribe topic, which subscriber (the k-th one a
      SubscriberConstructor call returned, k >= 1), the cqrs handlers behind it *)
  Record rhandler := RH { rh_name : N; rh_topic : N; rh_sub : N; rh_members : list N }.

  Record rstate := RSt {
    r_router : list rhandler;    (* the Router's handlers, in the order they were added *)
    r_handlers : list rspec;     (* p.handlers *)
    r_groups : list N;           (* keys of p.groupEventHandlers *)
    r_nsub : N                   (* subscribers constructed so far *)
  }.
  Definition rinit : rstate := RSt [] [] [] 0.

  Inductive rres :=
  | ROk
  | RDup (name : N)              (* DuplicateCommandHandlerError{name} *)
  | RValidateErr                 (* NonPointerError *)
  | RTopicErr | RSubErr
  | RNoHandlers | RGroupExists   (* AddHandlersGroup *)
  | RNotDeprecated               (* AddHandlersToRouter on a config-constructed processor *)
  | RPanicDupName.               (* Router: DuplicateHandlerNameError panic *)

  Inductive gevent :=
  | RegTopic (name key : N)            (* GenerateSubscribeTopic entered: name (or group name), handler id (or group size) *)
  | RegSub (name key hname : N)        (* SubscriberConstructor entered: + params.HandlerName (0 for groups) *)
  | RegAdd (rname topic sub : N).      (* router.AddNoPublisherHandler(rname, topic, the sub-th subscriber, fn) returned *)

  Definition name_taken (n : N) (router : list rhandler) : bool :=
    existsb (fun rh => N.eqb (rh_name rh) n) router.

  (** addHandlerToRouter of the command ([evt = false]) / event processor for one handler *)
  Definition add_one (evt : bool) (s : rstate) (x : rspec) : rstate * list gevent * rres :=
    let tp := RegTopic (rs_name x) (rs_id x) in
    let sb := RegSub (rs_name x) (rs_id x) (rs_hname x) in
    if evt && negb (rs_ptr x) then (s, [], RValidateErr)           (* validateEvent comes first *)
    else match rs_topic x with
    | None => (s, [tp], RTopicErr)
    | Some t =>
        if negb (rs_ptr x) then (s, [tp], RValidateErr)            (* routerHandlerFunc: validateCommand *)
        else if negb (rs_sub x) then (s, [tp; sb], RSubErr)
        else
          let k := N.succ (r_nsub s) in
          if name_taken (rs_hname x) (r_router s)
          then (RSt (r_router s) (r_handlers s) (r_groups s) k, [tp; sb], RPanicDupName)
          else (RSt (r_router s ++ [RH (rs_hname x) t k [rs_id x]]) (r_handlers s) (r_groups s) k,
                [tp; sb; RegAdd (rs_hname x) t k], ROk)
    end.

  (** for _, handler := range handlers { addHandlerToRouter; [p.handlers = append(...)] }:
      stops at the first failure *)
  Fixpoint add_many (evt keep : bool) (s : rstate) (xs : list rspec) : rstate * list gevent * rres :=
    match xs with
    | [] => (s, [], ROk)
    | x :: xs' =>
        let '(s1, e1, r1) := add_one evt s x in
        match r1 with
        | ROk =>
            let s1' := if keep then RSt (r_router s1) (r_handlers s1 ++ [x]) (r_groups s1) (r_nsub s1) else s1 in
            let '(s2, e2, r2) := add_many evt keep s1' xs' in (s2, e1 ++ e2, r2)
        | _ => (s1, e1, r1)
        end
    end.

  Inductive hop :=
  | OAddHandlers (xs : list rspec)      (* AddHandlers(xs...) *)
  | OAddHandler (x : rspec)             (* AddHandler(x) *)
  | OToRouter.                          (* AddHandlersToRouter(router) *)

  Definition push_handlers (s : rstate) (xs : list rspec) : rstate :=
    RSt (r_router s) (r_handlers s ++ xs) (r_groups s) (r_nsub s).

  (** one call on a command ([evt = false]) / event processor; [depr] = built by the deprecated
      NewCommandProcessor / NewEventProcessor (disableRouterAutoAddHandlers) *)
  Definition hreg_step (evt depr : bool) (s : rstate) (o : hop) : rstate * list gevent * rres :=
    match o with
    | OAddHandlers xs =>
        match (if evt then None else first_dup [] (map rs_name xs)) with
        | Some n => (s, [], RDup n)
        | None => if depr then (push_handlers s xs, [], ROk) else add_many evt true s xs
        end
    | OAddHandler x =>
        if depr then (push_handlers s [x], [], ROk) else add_many evt true s [x]
    | OToRouter =>
        if depr then add_many evt false s (r_handlers s) else (s, [], RNotDeprecated)
    end.

  (** AddHandlersGroup(g, xs...) with what the two callbacks do for this group *)
  Definition greg_step (s : rstate) (g : N) (xs : list rspec) (topic : option N) (sub : bool)
    : rstate * list gevent * rres :=
    let n := N.of_nat (length xs) in
    match xs with
    | [] => (s, [], RNoHandlers)
    | _ =>
        if existsb (N.eqb g) (r_groups s) then (s, [], RGroupExists)
        else if negb (forallb rs_ptr xs) then (s, [], RValidateErr)
        else match topic with
        | None => (s, [RegTopic g n], RTopicErr)
        | Some t =>
            if negb sub then (s, [RegTopic g n; RegSub g n 0], RSubErr)
            else
              let k := N.succ (r_nsub s) in
              if name_taken g (r_router s)
              then (RSt (r_router s) (r_handlers s) (r_groups s) k, [RegTopic g n; RegSub g n 0], RPanicDupName)
              else (RSt (r_router s ++ [RH g t k (map rs_id xs)]) (r_handlers s) (r_groups s ++ [g]) k,
                    [RegTopic g n; RegSub g n 0; RegAdd g t k], ROk)
        end
    end.

  (** ** the specification: what a batch registers, as a function of the batch *)

  (** why a handler cannot be registered, in the order the code checks *)
  Definition classify (evt : bool) (taken : list N) (x : rspec) : rres :=
    if evt && negb (rs_ptr x) then RValidateErr
    else match rs_topic x with
    | None => RTopicErr
    | Some _ =>
        if negb (rs_ptr x) then RValidateErr
        else if negb (rs_sub x) then RSubErr
        else if existsb (N.eqb (rs_hname x)) taken then RPanicDupName
        else ROk
    end.
  Definition is_ok (r : rres) : bool := match r with ROk => true | _ => false end.

  (** the handlers of a batch that get onto the Router: the longest prefix in which every
      handler is registrable and carries a router-handler name not used before *)
  Fixpoint good_prefix (evt : bool) (taken : list N) (xs : list rspec) : list rspec :=
    match xs with
    | [] => []
    | x :: xs' => if is_ok (classify evt taken x)
                  then x :: good_prefix evt (taken ++ [rs_hname x]) xs' else []
    end.
  (** the result of the batch: the first handler's reason that is not ROk *)
  Fixpoint batch_result (evt : bool) (taken : list N) (xs : list rspec) : rres :=
    match xs with
    | [] => ROk
    | x :: xs' => match classify evt taken x with
                  | ROk => batch_result evt (taken ++ [rs_hname x]) xs'
                  | r => r
                  end
    end.
  (** the callbacks a handler that is NOT registered still sees *)
  Definition bad_events (evt : bool) (x : rspec) (r : rres) : list gevent :=
    let tp := RegTopic (rs_name x) (rs_id x) in
    let sb := RegSub (rs_name x) (rs_id x) (rs_hname x) in
    match r with
    | RValidateErr => if evt && negb (rs_ptr x) then [] else [tp]
    | RTopicErr => [tp]
    | RSubErr | RPanicDupName => [tp; sb]
    | _ => []
    end.
  Definition topic_of (x : rspec) : N := match rs_topic x with Some t => t | None => 0%N end.
  (** router handlers for a registered prefix; subscribers are numbered consecutively *)
  Fixpoint mk_handlers (nsub : N) (xs : list rspec) : list rhandler :=
    match xs with
    | [] => []
    | x :: xs' => RH (rs_hname x) (topic_of x) (N.succ nsub) [rs_id x] :: mk_handlers (N.succ nsub) xs'
    end.
  Definition taken_names (s : rstate) : list N := map rh_name (r_router s).
  (** the callback / router calls of a batch: per registered handler its name and id to the topic
      function, name, id and HandlerName to the subscriber constructor, then the Router *)
  Fixpoint batch_events (evt : bool) (taken : list N) (nsub : N) (xs : list rspec) : list gevent :=
    match xs with
    | [] => []
    | x :: xs' =>
        match classify evt taken x with
        | ROk => [RegTopic (rs_name x) (rs_id x); RegSub (rs_name x) (rs_id x) (rs_hname x);
                  RegAdd (rs_hname x) (topic_of x) (N.succ nsub)]
                 ++ batch_events evt (taken ++ [rs_hname x]) (N.succ nsub) xs'
        | r => bad_events evt x r
        end
    end.

  (** the router after a batch / the processor's handler list after a batch *)
  Definition batch_router (evt : bool) (s : rstate) (xs : list rspec) : list rhandler :=
    r_router s ++ mk_handlers (r_nsub s) (good_prefix evt (taken_names s) xs).

  (** what one call must leave behind: (router, p.handlers, result) *)
  Definition hreg_expected (evt depr : bool) (s : rstate) (o : hop) : list rhandler * list rspec * rres :=
    match o with
    | OAddHandlers xs =>
        match (if evt then None else first_dup [] (map rs_name xs)) with
        | Some n => (r_router s, r_handlers s, RDup n)
        | None =>
            if depr then (r_router s, r_handlers s ++ xs, ROk)
            else (batch_router evt s xs, r_handlers s ++ good_prefix evt (taken_names s) xs,
                  batch_result evt (taken_names s) xs)
        end
    | OAddHandler x =>
        if depr then (r_router s, r_handlers s ++ [x], ROk)
        else (batch_router evt s [x], r_handlers s ++ good_prefix evt (taken_names s) [x],
              batch_result evt (taken_names s) [x])
    | OToRouter =>
        if depr then (batch_router evt s (r_handlers s), r_handlers s, batch_result evt (taken_names s) (r_handlers s))
        else (r_router s, r_handlers s, RNotDeprecated)
    end.

  Definition hreg_expected_events (evt depr : bool) (s : rstate) (o : hop) : list gevent :=
    match o with
    | OAddHandlers xs =>
        match (if evt then None else first_dup [] (map rs_name xs)) with
        | Some _ => []
        | None => if depr then [] else batch_events evt (taken_names s) (r_nsub s) xs
        end
    | OAddHandler x => if depr then [] else batch_events evt (taken_names s) (r_nsub s) [x]
    | OToRouter => if depr then batch_events evt (taken_names s) (r_nsub s) (r_handlers s) else []
    end.

  (** every router handler stands for exactly one registered cqrs handler, under that
      handler's HandlerName, on the topic generated for it; names are pairwise different *)
  Definition rh_from (x : rspec) (rh : rhandler) : bool :=
    N.eqb (rh_name rh) (rs_hname x) && option_eqb N.eqb (rs_topic x) (Some (rh_topic rh))
    && list_eqb N.eqb (rh_members rh) [rs_id x] && rs_ptr x && rs_sub x.
  Fixpoint nodupb (l : list N) : bool :=
    match l with [] => true | n :: l' => negb (existsb (N.eqb n) l') && nodupb l' end.

  (** ** running a script of calls, and the acceptor for an observed run *)
  Inductive rcall :=
  | CH (o : hop)
  | CG (g : N) (xs : list rspec) (topic : option N) (sub : bool).

  Definition reg_step (evt depr : bool) (s : rstate) (c : rcall) : rstate * list gevent * rres :=
    match c with
    | CH o => hreg_step evt depr s o
    | CG g xs topic sub => greg_step s g xs topic sub
    end.
  Fixpoint reg_run (evt depr : bool) (s : rstate) (cs : list rcall) : rstate * list (list gevent * rres) :=
    match cs with
    | [] => (s, [])
    | c :: cs' =>
        let '(s1, e, r) := reg_step evt depr s c in
        let '(s2, l) := reg_run evt depr s1 cs' in (s2, (e, r) :: l)
    end.

  Definition rres_eqb (a b : rres) : bool :=
    match a, b with
    | ROk, ROk | RValidateErr, RValidateErr | RTopicErr, RTopicErr | RSubErr, RSubErr
    | RNoHandlers, RNoHandlers | RGroupExists, RGroupExists | RNotDeprecated, RNotDeprecated
    | RPanicDupName, RPanicDupName => true
    | RDup x, RDup y => N.eqb x y
    | _, _ => false
    end.
  Definition rh_eqb (a b : rhandler) : bool :=
    N.eqb (rh_name a) (rh_name b) && N.eqb (rh_topic a) (rh_topic b) && N.eqb (rh_sub a) (rh_sub b)
    && list_eqb N.eqb (rh_members a) (rh_members b).

  (** the router state the specification prescribes after a script of calls on a command /
      event processor (groups: one router handler per accepted group), computed with the
      specification functions only *)
  Definition spec_step (evt depr : bool) (s : rstate) (c : rcall) : rstate * list gevent * rres :=
    match c with
    | CH o =>
        let '(router, hs, r) := hreg_expected evt depr s o in
        (* subscribers constructed: one per router handler added, plus one when the batch died
           on a duplicate router-handler name *)
        let added := N.of_nat (length router - length (r_router s)) in
        let k := (r_nsub s + added + (match r with RPanicDupName => 1 | _ => 0 end))%N in
        (RSt router hs (r_groups s) k, hreg_expected_events evt depr s o, r)
    | CG g xs topic sub =>
        let r := match xs with
                 | [] => RNoHandlers
                 | _ => if existsb (N.eqb g) (r_groups s) then RGroupExists
                        else if negb (forallb rs_ptr xs) then RValidateErr
                        else match topic with
                             | None => RTopicErr
                             | Some _ => if negb sub then RSubErr
                                         else if name_taken g (r_router s) then RPanicDupName else ROk
                             end
                 end in
        let n := N.of_nat (length xs) in
        match r, topic with
        | ROk, Some t => (RSt (r_router s ++ [RH g t (N.succ (r_nsub s)) (map rs_id xs)]) (r_handlers s)
                              (r_groups s ++ [g]) (N.succ (r_nsub s)),
                          [RegTopic g n; RegSub g n 0; RegAdd g t (N.succ (r_nsub s))], ROk)
        | RPanicDupName, _ => (RSt (r_router s) (r_handlers s) (r_groups s) (N.succ (r_nsub s)),
                               [RegTopic g n; RegSub g n 0], r)
        | RTopicErr, _ => (s, [RegTopic g n], r)
        | RSubErr, _ => (s, [RegTopic g n; RegSub g n 0], r)
        | _, _ => (s, [], r)
        end
    end.
  Fixpoint spec_run (evt depr : bool) (s : rstate) (cs : list rcall) : rstate * list (list gevent * rres) :=
    match cs with
    | [] => (s, [])
    | c :: cs' => let '(s1, e, r) := spec_step evt depr s c in
                  let '(s2, l) := spec_run evt depr s1 cs' in (s2, (e, r) :: l)
    end.

  Definition gevent_eqb (a b : gevent) : bool :=
    match a, b with
    | RegTopic n1 k1, RegTopic n2 k2 => N.eqb n1 n2 && N.eqb k1 k2
    | RegSub n1 k1 h1, RegSub n2 k2 h2 => N.eqb n1 n2 && N.eqb k1 k2 && N.eqb h1 h2
    | RegAdd n1 t1 s1, RegAdd n2 t2 s2 => N.eqb n1 n2 && N.eqb t1 t2 && N.eqb s1 s2
    | _, _ => false
    end.
  Definition obs_eqb (a b : list gevent * rres) : bool :=
    list_eqb gevent_eqb (fst a) (fst b) && rres_eqb (snd a) (snd b).

  (** the acceptor: observed callback/router calls and result per call, observed final Router
      handlers (name, topic, subscriber, members), observed p.handlers ids *)
  Definition reg_monitor (evt depr : bool) (cs : list rcall)
             (results : list (list gevent * rres)) (router : list rhandler) (handler_ids : list N) : bool :=
    let '(s, rs) := spec_run evt depr rinit cs in
    list_eqb obs_eqb results rs
    && list_eqb rh_eqb router (r_router s)
    && list_eqb N.eqb handler_ids (map rs_id (r_handlers s))
    && nodupb (map rh_name router).
End Reg.

Arguments rspec : clear implicits.
Arguments hop : clear implicits.
Arguments rcall : clear implicits.
Arguments rstate : clear implicits.
