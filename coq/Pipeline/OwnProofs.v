(** C01: middleware ownership on the pipeline's Router(s) - the monitor [Corr.C01.mw_own_ok] is
    C09's statement ([WiringSpec.effective] = [filter applies]): what the wiring model enters for a
    handler is accepted, and an accepted call entered only router-level middlewares and the
    handler's own. *)
From WM Require Import Base.Prelude.
From WM Require Router.Wiring Router.WiringSpec.
From WM Require Import Corr.C01.

Lemma nlist_eqb_refl (l : list N) : list_eqb N.eqb l l = true.
Proof. apply (list_eqb_spec N.eqb N.eqb_eq). reflexivity. Qed.

Lemma mw_own_model_accepted regs name :
  mw_own_ok (regs, name, map Wiring.r_id (WiringSpec.effective name regs)) = true.
Proof. unfold mw_own_ok. apply nlist_eqb_refl. Qed.

Lemma mw_own_sound regs name ran : mw_own_ok (regs, name, ran) = true ->
  forall id, In id ran ->
  exists r, In r regs /\ Wiring.r_id r = id
            /\ (Wiring.r_router r = true \/ Wiring.r_hname r = name).
Proof.
  unfold mw_own_ok. intros H id Hin. apply (list_eqb_spec N.eqb N.eqb_eq) in H. subst ran.
  apply in_map_iff in Hin as (r & Hid & Hr). unfold WiringSpec.effective in Hr.
  apply filter_In in Hr as [Hr Ha]. exists r. split; [exact Hr|split; [exact Hid|]].
  unfold Wiring.applies in Ha. apply orb_true_iff in Ha as [Ha|Ha]; [now left|right].
  now apply N.eqb_eq in Ha.
Qed.
