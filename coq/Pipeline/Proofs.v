(** Proofs about Pipeline/Model.v (C01).  Everything in [Section Proofs] is proved from the three
    C02 statements about the Router component ([rt_final], [rt_publishes], [rt_monitor]) only;
    at the end they are discharged with the real lemmas of Handler/RouterProofs.v. *)
From WM Require Import Base.Prelude Message.Model Message.Proofs
     Handler.RouterHandle Handler.RouterProofs Pipeline.Model.

(** * lists *)
Lemma list_sum_app (a b : list nat) : list_sum (a ++ b) = list_sum a + list_sum b.
Proof. induction a as [|x a IH]; simpl; [reflexivity|]. rewrite IH. lia. Qed.

Lemma length_flat_map {A B} (f : A -> list B) (l : list A) :
  length (flat_map f l) = list_sum (map (fun x => length (f x)) l).
Proof. induction l as [|x l IH]; simpl; [reflexivity|]. now rewrite app_length, IH. Qed.

Lemma firstn_prefix {A} (j : nat) (l : list A) : firstn j l = firstn (length (firstn j l)) l.
Proof.
  revert l. induction j as [|j IH]; intros [|x l]; simpl; try reflexivity. f_equal. apply IH.
Qed.

Lemma firstn_incl {A} (j : nat) (l : list A) x : In x (firstn j l) -> In x l.
Proof.
  revert l. induction j as [|j IH]; intros [|y l]; simpl; try tauto. intros [H|H]; auto.
Qed.

(** changing a function at one point of a duplicate-free index list *)
Lemma sum_change (g g' : nat -> nat) (a : nat) (l : list nat) :
  NoDup l -> In a l -> (forall t, t <> a -> g' t = g t) ->
  list_sum (map g' l) + g a = list_sum (map g l) + g' a.
Proof.
  intros Hnd Hin Hoth. induction l as [|x l IH]; [destruct Hin|].
  inversion Hnd as [|? ? Hx Hnd']; subst. simpl.
  destruct (Nat.eq_dec x a) as [->|Hne].
  - assert (E : map g' l = map g l).
    { apply map_ext_in. intros t Ht. apply Hoth. intros ->. contradiction. }
    rewrite E. lia.
  - destruct Hin as [->|Hin]; [congruence|]. rewrite (Hoth x Hne). specialize (IH Hnd' Hin). lia.
Qed.

Lemma sum_same (g g' : nat -> nat) (l : list nat) :
  (forall t, In t l -> g' t = g t) -> list_sum (map g' l) = list_sum (map g l).
Proof. intros H. f_equal. now apply map_ext_in. Qed.

Section Proofs.
  Context {M : Type}.
  Variable hf : nat -> M -> list M.
  Variable eqbM : M -> M -> bool.
  Variable rt : pubbeh -> outcome M -> settle * list (hevent M).
  Hypothesis eqbM_spec : forall x y, eqbM x y = true <-> x = y.
  (** the Router component's specification = three C02 theorems *)
  Hypothesis rt_final : forall pb o, fst (rt pb o) = expected_final PubReal pb (CR PreNone o).
  Hypothesis rt_publishes : forall pb o,
    publishes (snd (rt pb o)) = expected_publishes PubReal (CR PreNone o).
  Hypothesis rt_monitor : forall pb o,
    c02_monitor eqbM PubReal pb (CR PreNone o) (snd (rt pb o)) (fst (rt pb o)) = true.

  Notation pstate := (pstate M).
  Notation delivery := (delivery M).
  Notation pstep := (pstep hf eqbM rt).
  Notation prun := (prun hf eqbM rt).
  Notation desc := (desc hf).
  Notation expected_sink := (expected_sink hf).

  Lemma eqbM_refl x : eqbM x x = true.
  Proof. now apply eqbM_spec. Qed.
  Lemma list_eqbM_refl (l : list M) : list_eqb eqbM l l = true.
  Proof. now apply (list_eqb_spec eqbM eqbM_spec). Qed.
  Lemma memb_In x l : memb eqbM x l = true <-> In x l.
  Proof.
    unfold memb. rewrite existsb_exists. split.
    - intros (y & Hy & E). apply eqbM_spec in E. now subst.
    - intros H. exists x. split; [exact H|apply eqbM_refl].
  Qed.

  (** ** remove_first *)
  Lemma remove_first_spec m l r : remove_first eqbM m l = Some r ->
    exists a b, l = a ++ m :: b /\ r = a ++ b.
  Proof.
    revert r. induction l as [|x l IH]; simpl; intros r H; [discriminate|].
    destruct (eqbM m x) eqn:E.
    - apply eqbM_spec in E. subst x. inversion H; subst. now exists [], r.
    - destruct (remove_first eqbM m l) as [r'|]; [|discriminate]. inversion H; subst.
      destruct (IH r' eq_refl) as (a & b & -> & ->). now exists (x :: a), b.
  Qed.
  Lemma remove_first_head m l : remove_first eqbM m (m :: l) = Some l.
  Proof. simpl. now rewrite eqbM_refl. Qed.
  Lemma remove_first_In m l : In m l -> remove_first eqbM m l <> None.
  Proof.
    induction l as [|x l IH]; simpl; [tauto|]. intros H.
    destruct (eqbM m x) eqn:E; [discriminate|].
    destruct H as [->|H]; [rewrite eqbM_refl in E; discriminate|].
    destruct (remove_first eqbM m l); [discriminate|]. now apply IH.
  Qed.

  (** ** one delivery attempt at a stage: what the component specifications imply *)
  Definition stage_w (f : fault) (outs : list M) : settle := fst (rt (pb_of f) (out_of f outs)).
  Definition stage_tr (f : fault) (outs : list M) := snd (rt (pb_of f) (out_of f outs)).
  Definition stage_fwd (f : fault) (outs : list M) : list M :=
    flat_map (fwd_of f) (publishes (stage_tr f outs)).

  (** the fault has an effect on this attempt (a publish-side fault has none when the handler
      returned no message: the publisher is not called) *)
  Definition effective (f : fault) (outs : list M) : bool :=
    match f, outs with
    | FNone, _ => false
    | FPub _ _, [] => false
    | _, _ => true
    end.

  (** Ack iff nothing went wrong; otherwise Nack - never left unsettled *)
  Lemma stage_settle f outs :
    stage_w f outs = if effective f outs then Nacked else Acked.
  Proof.
    unfold stage_w. rewrite rt_final.
    destruct f as [| | |j [|]], outs as [|x l]; reflexivity.
  Qed.

  (** the copy is given up only when the next topic accepted every output *)
  Lemma stage_acked_fwd f outs : is_acked (stage_w f outs) = true -> stage_fwd f outs = outs.
  Proof.
    rewrite stage_settle. unfold stage_fwd, stage_tr. rewrite rt_publishes.
    destruct f as [| | |j [|]], outs as [|x l]; simpl; try discriminate; intros _;
      rewrite ?app_nil_r; reflexivity.
  Qed.

  (** whatever reaches the next topic is a prefix of the handler's outputs *)
  Lemma stage_fwd_prefix f outs :
    stage_fwd f outs = firstn (length (stage_fwd f outs)) outs.
  Proof.
    unfold stage_fwd, stage_tr. rewrite rt_publishes.
    destruct f as [| | |j [|]], outs as [|x l]; cbn [out_of expected_publishes cr_out flat_map fwd_of];
      rewrite ?app_nil_r; try reflexivity; try (now rewrite firstn_all); apply firstn_prefix.
  Qed.
  Lemma stage_fwd_incl f outs x : In x (stage_fwd f outs) -> In x outs.
  Proof. rewrite stage_fwd_prefix. apply firstn_incl. Qed.

  (** only a publish-side fault lets anything through on a failed attempt *)
  Lemma stage_fwd_nopub f outs : (forall j pn, f <> FPub j pn) ->
    is_acked (stage_w f outs) = false -> stage_fwd f outs = [].
  Proof.
    rewrite stage_settle. unfold stage_fwd, stage_tr. rewrite rt_publishes. intros Hf.
    destruct f as [| | |j pn], outs as [|x l]; simpl; try discriminate; try reflexivity;
      exfalso; eapply Hf; reflexivity.
  Qed.

  Lemma stage_clean_acked outs : stage_w FNone outs = Acked.
  Proof. now rewrite stage_settle. Qed.
  Lemma stage_nacked_faulty f outs : is_acked (stage_w f outs) = false -> fault_is_none f = false.
  Proof. rewrite stage_settle. destruct f, outs; simpl; congruence. Qed.

  (** the logged delivery passes the monitor *)
  Lemma stage_delivery_ok s c m f :
    delivery_ok hf eqbM (D s c m f (stage_tr f (hf s m)) (stage_fwd f (hf s m)) (stage_w f (hf s m))) = true.
  Proof.
    unfold delivery_ok. cbn [d_stage d_msg d_fault d_tr d_final d_fwd].
    rewrite !andb_true_iff. split; [split|].
    - apply rt_monitor.
    - destruct (is_acked (stage_w f (hf s m))) eqn:E; [|reflexivity].
      rewrite (stage_acked_fwd _ _ E). apply list_eqbM_refl.
    - rewrite <- stage_fwd_prefix. apply list_eqbM_refl.
  Qed.

  (** ** inversion of a step *)
  Variable k : nat.
  Variable sc : script.

  Definition topics_after (st : pstate) (s : nat) (rest : list M) (w : settle) (fwd : list M)
    : nat -> list M :=
    let t1 := if is_acked w then upd (topic st) s rest else topic st in
    upd t1 (S s) (t1 (S s) ++ fwd).

  Lemma pstep_inv st s m st' : pstep k sc st (s, m) = Some st' ->
    s < k /\ exists rest, remove_first eqbM m (topic st s) = Some rest /\
    let f := sc s (calls st s) in
    st' = PS (topics_after st s rest (stage_w f (hf s m)) (stage_fwd f (hf s m)))
             (upd (calls st) s (S (calls st s)))
             (dlog st ++ [D s (calls st s) m f (stage_tr f (hf s m)) (stage_fwd f (hf s m))
                            (stage_w f (hf s m))]).
  Proof.
    unfold Model.pstep. destruct (Nat.ltb s k) eqn:Hs; [|discriminate].
    apply Nat.ltb_lt in Hs. destruct (remove_first eqbM m (topic st s)) as [rest|]; [|discriminate].
    unfold stage_w, stage_fwd, stage_tr, topics_after.
    destruct (rt (pb_of (sc s (calls st s))) (out_of (sc s (calls st s)) (hf s m))) as [w tr].
    intros [= <-]. split; [exact Hs|]. exists rest. split; reflexivity.
  Qed.

  Lemma topics_after_at st s rest w fwd t :
    topics_after st s rest w fwd t =
    if Nat.eqb t (S s) then topic st (S s) ++ fwd
    else if Nat.eqb t s && is_acked w then rest else topic st t.
  Proof.
    unfold topics_after, upd. destruct (Nat.eqb t (S s)) eqn:E1.
    - apply Nat.eqb_eq in E1. subst t. destruct (is_acked w); [|reflexivity].
      destruct (Nat.eqb (S s) s) eqn:E2; [apply Nat.eqb_eq in E2; lia|reflexivity].
    - destruct (is_acked w); [|now rewrite andb_false_r].
      rewrite andb_true_r. reflexivity.
  Qed.

  (** progress: a pending publication can always be delivered (no deadlock of the pipeline) *)
  Lemma pstep_enabled st s m : s < k -> In m (topic st s) -> pstep k sc st (s, m) <> None.
  Proof.
    intros Hs Hin. unfold Model.pstep. apply Nat.ltb_lt in Hs. rewrite Hs.
    destruct (remove_first eqbM m (topic st s)) eqn:E.
    - destruct (rt _ _). discriminate.
    - exfalso. now apply (remove_first_In m (topic st s)).
  Qed.

  (** ** potentials: sums over all pending publications *)
  Definition pot (G : nat -> M -> nat) (tp : nat -> list M) : nat :=
    list_sum (map (fun t => list_sum (map (G t) (tp t))) (seq 0 (S k))).

  Lemma remove_first_sum (G : M -> nat) m l r :
    remove_first eqbM m l = Some r -> list_sum (map G l) = G m + list_sum (map G r).
  Proof.
    intros H. destruct (remove_first_spec _ _ _ H) as (a & b & -> & ->).
    rewrite !map_app, !list_sum_app. simpl. lia.
  Qed.

  Lemma pot_upd G tp a v : a <= k ->
    pot G (upd tp a v) + list_sum (map (G a) (tp a)) = pot G tp + list_sum (map (G a) v).
  Proof.
    intros Ha. unfold pot.
    pose proof (sum_change (fun t => list_sum (map (G t) (tp t)))
                           (fun t => list_sum (map (G t) (upd tp a v t))) a (seq 0 (S k))) as H.
    cbv beta in H. rewrite upd_same in H. apply H.
    - apply seq_NoDup.
    - apply in_seq. lia.
    - intros t Ht. now rewrite upd_other.
  Qed.

  Lemma pot_step G st s m st' : pstep k sc st (s, m) = Some st' ->
    let f := sc s (calls st s) in
    pot G (topic st') + (if is_acked (stage_w f (hf s m)) then G s m else 0)
    = pot G (topic st) + list_sum (map (G (S s)) (stage_fwd f (hf s m))).
  Proof.
    intros H. apply pstep_inv in H as (Hs & rest & Hr & ->). cbv zeta. cbn [topic].
    unfold topics_after.
    set (f := sc s (calls st s)). set (w := stage_w f (hf s m)). set (fwd := stage_fwd f (hf s m)).
    set (t1 := if is_acked w then upd (topic st) s rest else topic st).
    pose proof (pot_upd G t1 (S s) (t1 (S s) ++ fwd) ltac:(lia)) as HA.
    rewrite map_app, list_sum_app in HA.
    assert (HB : pot G t1 + (if is_acked w then G s m else 0) = pot G (topic st)).
    { unfold t1. destruct (is_acked w); [|lia].
      pose proof (pot_upd G (topic st) s rest ltac:(lia)) as HB.
      rewrite (remove_first_sum (G s) _ _ _ Hr) in HB. lia. }
    lia.
  Qed.

  (** ** termination measure *)
  Definition Wt (t : nat) (m : M) : nat := weight hf (k - t) t m.
  Lemma total_weight_pot st : total_weight hf k st = pot Wt (topic st).
  Proof. reflexivity. Qed.

  Lemma weight_step st s m st' : pstep k sc st (s, m) = Some st' ->
    is_acked (stage_w (sc s (calls st s)) (hf s m)) = true ->
    total_weight hf k st' < total_weight hf k st.
  Proof.
    intros H Ha. pose proof (pot_step Wt _ _ _ _ H) as HP. cbv zeta in HP. rewrite Ha in HP.
    rewrite (stage_acked_fwd _ _ Ha) in HP.
    apply pstep_inv in H as (Hs & _).
    assert (E : Wt s m = S (list_sum (map (Wt (S s)) (hf s m)))).
    { unfold Wt. replace (k - s) with (S (k - S s)) by lia. reflexivity. }
    rewrite !total_weight_pot. lia.
  Qed.

  Variable B : nat.
  Hypothesis clean_from_B : forall s c, s < k -> B <= c -> sc s c = FNone.

  Lemma faults_step st s m st' : pstep k sc st (s, m) = Some st' ->
    total_faults k sc B st' <= total_faults k sc B st
    /\ (is_acked (stage_w (sc s (calls st s)) (hf s m)) = false ->
        total_faults k sc B st' < total_faults k sc B st).
  Proof.
    intros H. apply pstep_inv in H as (Hs & rest & Hr & ->). cbv zeta.
    set (c := calls st s). set (f := sc s c).
    unfold total_faults.
    match goal with |- context [PS ?a ?b ?d] => set (st' := PS a b d) end.
    pose proof (sum_change (faults_ahead sc B st) (faults_ahead sc B st') s (seq 0 k)
                           (seq_NoDup _ _) ltac:(apply in_seq; lia)) as HS.
    assert (Hoth : forall t, t <> s -> faults_ahead sc B st' t = faults_ahead sc B st t).
    { intros t Ht. unfold faults_ahead, st'. cbn [calls]. now rewrite upd_other. }
    specialize (HS Hoth).
    assert (Hs' : faults_ahead sc B st s
                  = (if Nat.ltb c B then if fault_is_none f then 0 else 1 else 0)
                    + faults_ahead sc B st' s).
    { unfold faults_ahead, st'. cbn [calls]. rewrite upd_same. fold c.
      destruct (Nat.ltb c B) eqn:Ec.
      - apply Nat.ltb_lt in Ec. replace (B - c) with (S (B - S c)) by lia.
        cbn [seq filter]. fold f. destruct (fault_is_none f); reflexivity.
      - apply Nat.ltb_ge in Ec. replace (B - c) with 0 by lia. replace (B - S c) with 0 by lia.
        reflexivity. }
    split.
    - lia.
    - intros Hn. apply stage_nacked_faulty in Hn. fold f in Hn.
      destruct (Nat.ltb c B) eqn:Ec.
      + rewrite Hn in Hs'. lia.
      + apply Nat.ltb_ge in Ec. unfold f in Hn. rewrite (clean_from_B s c Hs Ec) in Hn. discriminate.
  Qed.

  (** the successor relation of the pipeline (a is reached from b in one step) *)
  Definition psucc (a b : pstate) : Prop := exists l, pstep k sc b l = Some a.

  Lemma acc_measure : forall nf w st,
    total_faults k sc B st = nf -> total_weight hf k st = w -> Acc psucc st.
  Proof.
    induction nf as [nf IHf] using lt_wf_ind.
    induction w as [w IHw] using lt_wf_ind.
    intros st Hf Hw. constructor. intros st' [[s m] Hl].
    destruct (faults_step _ _ _ _ Hl) as [Hle Hlt].
    destruct (is_acked (stage_w (sc s (calls st s)) (hf s m))) eqn:Ea.
    - pose proof (weight_step _ _ _ _ Hl Ea) as Hwt.
      destruct (Nat.eq_dec (total_faults k sc B st') nf) as [E|Hne].
      + eapply IHw; [|exact E|reflexivity]. lia.
      + eapply (IHf (total_faults k sc B st')); [lia|reflexivity|reflexivity].
    - specialize (Hlt eq_refl). eapply (IHf (total_faults k sc B st')); [lia|reflexivity|reflexivity].
  Qed.

  Lemma acc_all st : Acc psucc st.
  Proof. eapply acc_measure; reflexivity. Qed.

  (** ** invariants of every run *)
  Lemma prun_inv (P : pstate -> Prop) :
    (forall st l st', P st -> pstep k sc st l = Some st' -> P st') ->
    forall ls st, P st -> P (prun k sc st ls).
  Proof.
    intros Hstep. induction ls as [|l ls IH]; intros st HP; simpl; [exact HP|].
    destruct (pstep k sc st l) as [st'|] eqn:E; [|now apply IH]. apply IH. eapply Hstep; eassumption.
  Qed.

  Variable srcs : list M.

  (** lineage: what can legitimately sit at topic t *)
  Inductive derived : nat -> M -> Prop :=
  | der_src x : In x srcs -> derived 0 x
  | der_out t m o : derived t m -> In o (hf t m) -> derived (S t) o.

  Lemma derived_desc t m : derived t m ->
    forall n y, t + n = k -> In y (desc n t m) -> In y (expected_sink k srcs).
  Proof.
    induction 1 as [x Hx|t m o Hd IH Ho]; intros n y Hk Hy.
    - simpl in Hk. subst n. unfold Model.expected_sink. apply in_flat_map. now exists x.
    - apply (IH (S n) y); [lia|]. simpl. apply in_flat_map. now exists o.
  Qed.
  Lemma derived_final y : derived k y -> In y (expected_sink k srcs).
  Proof. intros H. apply (derived_desc _ _ H 0 y); [lia|now left]. Qed.

  Lemma expected_derived n : forall t m y, derived t m -> In y (desc n t m) -> derived (t + n) y.
  Proof.
    induction n as [|n IH]; intros t m y Hd Hy; simpl in Hy.
    - destruct Hy as [<-|[]]. now rewrite Nat.add_0_r.
    - apply in_flat_map in Hy as (o & Ho & Hy). replace (t + S n) with (S t + n) by lia.
      eapply IH; [|exact Hy]. econstructor; eassumption.
  Qed.
  Lemma expected_sink_derived y : In y (expected_sink k srcs) -> derived k y.
  Proof.
    unfold Model.expected_sink. intros H. apply in_flat_map in H as (x & Hx & Hy).
    apply (expected_derived k 0 x y); [now constructor|exact Hy].
  Qed.

  (** safety invariant: lineage of everything pending / arrived / logged, and every logged
      delivery attempt passes the monitor *)
  Definition delivery_good (d : delivery) : Prop :=
    d_stage d < k /\ derived (d_stage d) (d_msg d)
    /\ delivery_ok hf eqbM d = true
    /\ d_final d = (if effective (d_fault d) (hf (d_stage d) (d_msg d)) then Nacked else Acked)
    /\ d_fault d = sc (d_stage d) (d_call d)
    /\ ((forall j pn, d_fault d <> FPub j pn) -> is_acked (d_final d) = false -> d_fwd d = []).
  Record SafeInv (st : pstate) : Prop := {
    si_derived : forall t m, In m (topic st t) -> derived t m;
    si_log : Forall delivery_good (dlog st)
  }.

  Lemma safe_init : SafeInv (pinit srcs).
  Proof.
    constructor; simpl.
    - intros [|t] m H; [now constructor|destruct H].
    - constructor.
  Qed.

  Lemma safe_step st l st' : SafeInv st -> pstep k sc st l = Some st' -> SafeInv st'.
  Proof.
    intros [Hd Hl] H. destruct l as [s m].
    apply pstep_inv in H as (Hs & rest & Hr & ->). cbv zeta.
    destruct (remove_first_spec _ _ _ Hr) as (a & b & Ea & Eb).
    assert (Hm : derived s m). { apply Hd. rewrite Ea. apply in_or_app. right. now left. }
    constructor; cbn [topic dlog].
    - intros t x. rewrite topics_after_at.
      destruct (Nat.eqb t (S s)) eqn:E1.
      + apply Nat.eqb_eq in E1. subst t. intros Hin. apply in_app_or in Hin as [Hin|Hin].
        * now apply Hd.
        * apply stage_fwd_incl in Hin. econstructor; eassumption.
      + destruct (Nat.eqb t s && is_acked _) eqn:E2; [|apply Hd].
        apply andb_true_iff in E2 as [E2 _]. apply Nat.eqb_eq in E2. subst t.
        intros Hin. apply Hd. rewrite Ea. subst rest.
        apply in_app_or in Hin as [Hin|Hin]; apply in_or_app; [now left|right; now right].
    - apply Forall_app. split; [exact Hl|]. constructor; [|constructor].
      unfold delivery_good. cbn [d_stage d_msg d_fault d_final d_call].
      split; [exact Hs|split; [exact Hm|split; [apply stage_delivery_ok|split; [apply stage_settle|split; [reflexivity|]]]]].
      cbn [d_fwd]. apply stage_fwd_nopub.
  Qed.

  Lemma safe_run ls : SafeInv (prun k sc (pinit srcs) ls).
  Proof. apply prun_inv; [intros; eapply safe_step; eassumption|apply safe_init]. Qed.

  (** ** redelivery: a Nacked attempt that was not yet followed by another attempt of the same
      message at the same stage still has its publication pending *)
  Lemma unfollowed_snoc dl dn :
    unfollowed eqbM (dl ++ [dn]) =
    filter (fun d => negb (same_pub eqbM d dn)) (unfollowed eqbM dl)
    ++ (if is_acked (d_final dn) then [] else [dn]).
  Proof.
    induction dl as [|d dl IH]; simpl.
    - destruct (is_acked (d_final dn)); reflexivity.
    - rewrite IH, existsb_app. simpl. rewrite orb_false_r.
      destruct (negb (is_acked (d_final d))); simpl; [|reflexivity].
      destruct (existsb (same_pub eqbM d) dl); simpl; [reflexivity|].
      destruct (same_pub eqbM d dn); reflexivity.
  Qed.

  Definition RedelInv (st : pstate) : Prop :=
    forall d, In d (unfollowed eqbM (dlog st)) -> In (d_msg d) (topic st (d_stage d)).

  Lemma redel_init : RedelInv (pinit srcs).
  Proof. intros d []. Qed.

  Lemma redel_step st l st' : RedelInv st -> pstep k sc st l = Some st' -> RedelInv st'.
  Proof.
    intros HR H. destruct l as [s m].
    apply pstep_inv in H as (Hs & rest & Hr & ->). cbv zeta.
    set (f := sc s (calls st s)). set (w := stage_w f (hf s m)). set (fwd := stage_fwd f (hf s m)).
    destruct (remove_first_spec _ _ _ Hr) as (a & b & Ea & Eb).
    intros d. cbn [dlog topic]. rewrite unfollowed_snoc. cbn [d_final].
    intros Hin. apply in_app_or in Hin as [Hin|Hin].
    - apply filter_In in Hin as [Hin Hsame]. specialize (HR d Hin).
      rewrite topics_after_at. destruct (Nat.eqb (d_stage d) (S s)) eqn:E1.
      + apply Nat.eqb_eq in E1. rewrite E1 in HR. apply in_or_app. now left.
      + destruct (Nat.eqb (d_stage d) s && is_acked w) eqn:E2; [|exact HR].
        apply andb_true_iff in E2 as [E2 _]. apply Nat.eqb_eq in E2. rewrite E2 in HR.
        unfold same_pub in Hsame. cbn [d_stage d_msg] in Hsame.
        rewrite E2, Nat.eqb_refl in Hsame. simpl in Hsame.
        assert (Hne : d_msg d <> m).
        { intros E. rewrite E, eqbM_refl in Hsame. discriminate. }
        rewrite Ea in HR. subst rest.
        apply in_app_or in HR as [HR|[HR|HR]]; [apply in_or_app; now left|congruence|apply in_or_app; now right].
    - fold w in Hin. destruct (is_acked w) eqn:Ea'; [destruct Hin|].
      destruct Hin as [<-|[]]. cbn [d_msg d_stage]. rewrite topics_after_at.
      replace (Nat.eqb s (S s)) with false by (symmetry; apply Nat.eqb_neq; lia).
      rewrite Ea', andb_false_r. rewrite Ea. apply in_or_app. right. now left.
  Qed.

  Lemma redel_run ls : RedelInv (prun k sc (pinit srcs) ls).
  Proof. apply prun_inv; [intros; eapply redel_step; eassumption|apply redel_init]. Qed.

  Lemma unfollowed_incl dl d : In d (unfollowed eqbM dl) -> In d dl.
  Proof.
    induction dl as [|x dl IH]; simpl; [tauto|]. intros H. apply in_app_or in H as [H|H].
    - destruct (negb _ && negb _); [|destruct H]. destruct H as [<-|[]]. now left.
    - right. now apply IH.
  Qed.

  (** ** never lost: every expected arrival is at the final topic or has a live ancestor *)
  Definition covered (st : pstate) (y : M) : Prop :=
    In y (topic st k)
    \/ exists t m, t < k /\ In m (topic st t) /\ In y (desc (k - t) t m).

  Definition CoverInv (st : pstate) : Prop :=
    forall y, In y (expected_sink k srcs) -> covered st y.

  Lemma cover_init : CoverInv (pinit srcs).
  Proof.
    intros y Hy. unfold Model.expected_sink in Hy. apply in_flat_map in Hy as (x & Hx & Hy).
    destruct (Nat.eq_dec k 0) as [E|E].
    - left. rewrite E in Hy |- *. simpl in *. destruct Hy as [<-|[]]. exact Hx.
    - right. exists 0, x. split; [lia|]. split; [exact Hx|]. now rewrite Nat.sub_0_r.
  Qed.

  Lemma cover_step st l st' : CoverInv st -> pstep k sc st l = Some st' -> CoverInv st'.
  Proof.
    intros HC H y Hy. specialize (HC y Hy). destruct l as [s m].
    apply pstep_inv in H as (Hs & rest & Hr & ->). cbv zeta.
    set (f := sc s (calls st s)). set (w := stage_w f (hf s m)). set (fwd := stage_fwd f (hf s m)).
    destruct (remove_first_spec _ _ _ Hr) as (a & b & Ea & Eb).
    (* anything pending before stays pending, except m itself when it was acked *)
    assert (Hkeep : forall t x, In x (topic st t) -> (t = s /\ is_acked w = true /\ x = m)
                                 \/ In x (topics_after st s rest w fwd t)).
    { intros t x Hin. rewrite topics_after_at. destruct (Nat.eqb t (S s)) eqn:E1.
      - right. apply Nat.eqb_eq in E1. subst t. apply in_or_app. now left.
      - destruct (Nat.eqb t s && is_acked w) eqn:E2; [|now right].
        apply andb_true_iff in E2 as [E2 E3]. apply Nat.eqb_eq in E2. subst t.
        rewrite Ea in Hin. apply in_app_or in Hin as [Hin|[Hin|Hin]].
        + right. subst rest. apply in_or_app. now left.
        + left. now repeat split.
        + right. subst rest. apply in_or_app. now right. }
    unfold covered. cbn [topic].
    destruct HC as [HC|(t & x & Ht & Hx & Hyx)].
    - left. destruct (Hkeep _ _ HC) as [(E & _)|Hin]; [lia|exact Hin].
    - destruct (Hkeep _ _ Hx) as [(-> & Hack & ->)|Hin].
      + (* m was given up: its outputs were all accepted by the next topic *)
        assert (Efwd : fwd = hf s m) by (apply stage_acked_fwd; exact Hack).
        replace (k - s) with (S (k - S s)) in Hyx by lia. simpl in Hyx.
        apply in_flat_map in Hyx as (o & Ho & Hyo).
        assert (Hin : In o (topics_after st s rest w fwd (S s))).
        { rewrite topics_after_at, Nat.eqb_refl. apply in_or_app. right. now rewrite Efwd. }
        destruct (Nat.eq_dec (S s) k) as [E|Hne].
        * left. rewrite <- E. rewrite <- E, Nat.sub_diag in Hyo. destruct Hyo as [<-|[]]. exact Hin.
        * right. exists (S s), o. split; [lia|]. split; assumption.
      + right. exists t, x. split; [exact Ht|]. split; assumption.
  Qed.

  Lemma cover_run ls : CoverInv (prun k sc (pinit srcs) ls).
  Proof. apply prun_inv; [intros; eapply cover_step; eassumption|apply cover_init]. Qed.

  Definition quiescent (st : pstate) : Prop := forall t, t < k -> topic st t = [].

  Lemma quiescentb_spec st : quiescentb k st = true <-> quiescent st.
  Proof.
    unfold quiescentb, quiescent. rewrite forallb_forall. split.
    - intros H t Ht. specialize (H t ltac:(apply in_seq; lia)). now destruct (topic st t).
    - intros H t Ht. apply in_seq in Ht. rewrite H by lia. reflexivity.
  Qed.

  (** stuck = quiescent: while anything is pending a step is enabled *)
  Lemma not_quiescent_enabled st : quiescentb k st = false -> exists l, pstep k sc st l <> None.
  Proof.
    unfold quiescentb. intros H.
    assert (Hex : exists t, In t (seq 0 k) /\ topic st t <> []).
    { induction (seq 0 k) as [|t l IH]; simpl in H; [discriminate|].
      destruct (topic st t) eqn:E.
      - destruct (IH H) as (t' & Ht' & Hn). exists t'. split; [now right|exact Hn].
      - exists t. split; [now left|]. rewrite E. discriminate. }
    destruct Hex as (t & Ht & Hn). apply in_seq in Ht.
    destruct (topic st t) as [|m l] eqn:E; [congruence|].
    exists (t, m). apply pstep_enabled; [lia|]. rewrite E. now left.
  Qed.

  Lemma quiescent_stuck st l : quiescent st -> pstep k sc st l = None.
  Proof.
    intros Hq. destruct l as [s m]. unfold Model.pstep. destruct (Nat.ltb s k) eqn:E; [|reflexivity].
    apply Nat.ltb_lt in E. now rewrite (Hq s E).
  Qed.

  Lemma cover_quiescent st : CoverInv st -> quiescent st ->
    forall y, In y (expected_sink k srcs) -> In y (topic st k).
  Proof.
    intros HC Hq y Hy. destruct (HC y Hy) as [H|(t & m & Ht & Hm & _)]; [exact H|].
    rewrite (Hq t Ht) in Hm. destruct Hm.
  Qed.

  (** ** duplicates: exact accounting *)
  Definition Dsz (t : nat) (m : M) : nat := length (desc (k - t) t m).

  Definition DupInv (st : pstate) : Prop :=
    pot Dsz (topic st) = length (expected_sink k srcs) + dup_budget hf k (dlog st).

  Lemma pot_init G : pot G (topic (pinit srcs)) = list_sum (map (G 0) srcs).
  Proof.
    unfold pot. cbn [seq map list_sum fold_right pinit topic].
    rewrite (sum_same (fun _ => 0)).
    - assert (E0 : list_sum (map (fun _ : nat => 0) (seq 1 k)) = 0)
        by (clear; induction (seq 1 k); simpl; lia).
      rewrite E0. unfold list_sum. lia.
    - intros t Ht. apply in_seq in Ht. destruct t; [lia|reflexivity].
  Qed.

  Lemma dup_init : DupInv (pinit srcs).
  Proof.
    unfold DupInv. rewrite pot_init. unfold Model.expected_sink, dup_budget. simpl.
    rewrite length_flat_map, Nat.add_0_r. unfold Dsz. now rewrite Nat.sub_0_r.
  Qed.

  Lemma dup_step st l st' : DupInv st -> pstep k sc st l = Some st' -> DupInv st'.
  Proof.
    unfold DupInv. intros HD H. destruct l as [s m].
    pose proof (pot_step Dsz _ _ _ _ H) as HP. cbv zeta in HP.
    apply pstep_inv in H as (Hs & rest & Hr & ->). cbv zeta in *. cbn [topic dlog] in *.
    set (f := sc s (calls st s)) in *. set (w := stage_w f (hf s m)) in *.
    set (fwd := stage_fwd f (hf s m)) in *.
    unfold dup_budget in *. rewrite map_app, list_sum_app. cbn [map list_sum].
    unfold dup_of at 2. cbn [d_final d_fwd d_stage].
    destruct (is_acked w) eqn:Ea.
    - assert (Efwd : fwd = hf s m) by (apply stage_acked_fwd; exact Ea).
      assert (E : Dsz s m = list_sum (map (Dsz (S s)) (hf s m))).
      { unfold Dsz. replace (k - s) with (S (k - S s)) by lia. simpl. apply length_flat_map. }
      rewrite Efwd in HP |- *. unfold list_sum at 2. simpl fold_right. lia.
    - unfold list_sum at 2. simpl fold_right. unfold Dsz in *. lia.
  Qed.

  Lemma dup_run ls : DupInv (prun k sc (pinit srcs) ls).
  Proof. apply prun_inv; [intros; eapply dup_step; eassumption|apply dup_init]. Qed.

  Lemma pot_quiescent st : quiescent st -> pot Dsz (topic st) = length (topic st k).
  Proof.
    intros Hq. unfold pot. rewrite seq_S, map_app, list_sum_app. cbn [map list_sum plus].
    rewrite (sum_same (fun _ => 0)).
    - assert (E0 : list_sum (map (fun _ : nat => 0) (seq 0 k)) = 0)
        by (clear; induction (seq 0 k); simpl; lia).
      rewrite E0. simpl. rewrite Nat.add_0_r.
      unfold Dsz. rewrite Nat.sub_diag. simpl.
      clear. induction (topic st k); simpl; [reflexivity|]. now rewrite IHl.
    - intros t Ht. apply in_seq in Ht. rewrite Hq by lia. reflexivity.
  Qed.
End Proofs.
