(** C01: the end-to-end statements, closed - the Router component of Pipeline/Model.v is
    instantiated with the C02 model [RouterHandle.handle] and the three hypotheses of
    Pipeline/Proofs.v are discharged with the real C02 lemmas of Handler/RouterProofs.v. *)
From WM Require Import Base.Prelude Message.Model Message.Proofs
     Handler.RouterHandle Handler.RouterProofs Pipeline.Model Pipeline.Proofs.

Section Final.
  Context {M : Type}.
  Variable hf : nat -> M -> list M.
  Variable eqbM : M -> M -> bool.
  Hypothesis eqbM_spec : forall x y, eqbM x y = true <-> x = y.

  (** ** the component facts, from C02 *)
  Lemma rth_final pb (o : outcome M) :
    fst (rt_handle pb o) = expected_final PubReal pb (CR PreNone o).
  Proof.
    unfold rt_handle. pose proof (handle_final PubReal pb (CR PreNone o)) as H.
    destruct (handle PubReal pb (CR PreNone o)). exact H.
  Qed.
  Lemma rth_publishes pb (o : outcome M) :
    publishes (snd (rt_handle pb o)) = expected_publishes PubReal (CR PreNone o).
  Proof.
    unfold rt_handle. pose proof (handle_publishes PubReal pb (CR PreNone o)) as H.
    destruct (handle PubReal pb (CR PreNone o)). exact H.
  Qed.
  Lemma rth_monitor pb (o : outcome M) :
    c02_monitor eqbM PubReal pb (CR PreNone o) (snd (rt_handle pb o)) (fst (rt_handle pb o)) = true.
  Proof.
    unfold rt_handle.
    pose proof (handle_monitor eqbM (fun x => proj2 (eqbM_spec x x) eq_refl) PubReal pb (CR PreNone o)) as H.
    destruct (handle PubReal pb (CR PreNone o)). exact H.
  Qed.

  Notation pstep := (pstep hf eqbM rt_handle).
  Notation prun := (prun hf eqbM rt_handle).
  Notation run k sc srcs ls := (prun k sc (pinit srcs) ls).

  (** ** safety 1: nothing invented, lineage preserved *)
  Lemma desc_lin (lin : M -> N) : (forall s m o, In o (hf s m) -> lin o = lin m) ->
    forall n t m y, In y (desc hf n t m) -> lin y = lin m.
  Proof.
    intros Hl. induction n as [|n IH]; intros t m y Hy; simpl in Hy.
    - destruct Hy as [<-|[]]. reflexivity.
    - apply in_flat_map in Hy as (o & Ho & Hy). rewrite (IH _ _ _ Hy). now apply (Hl t).
  Qed.
  Lemma derived_lin (lin : M -> N) srcs : (forall s m o, In o (hf s m) -> lin o = lin m) ->
    forall t m, derived hf srcs t m -> exists x, In x srcs /\ lin m = lin x.
  Proof.
    intros Hl. induction 1 as [x Hx|t m o Hd (x & Hx & E) Ho].
    - now exists x.
    - exists x. split; [exact Hx|]. rewrite <- E. now apply (Hl t).
  Qed.

  Theorem nothing_invented k sc srcs ls :
    let st := run k sc srcs ls in
    (forall y, In y (topic st k) -> In y (expected_sink hf k srcs))
    /\ sink_sound hf eqbM k srcs (topic st k) = true
    /\ forall (lin : M -> N), (forall s m o, In o (hf s m) -> lin o = lin m) ->
       (forall t m, In m (topic st t) -> exists x, In x srcs /\ lin m = lin x)
       /\ (forall d, In d (dlog st) -> exists x, In x srcs /\ lin (d_msg d) = lin x).
  Proof.
    intros st.
    pose proof (safe_run hf eqbM rt_handle eqbM_spec rth_final rth_publishes rth_monitor k sc srcs ls)
      as [Hd Hl].
    fold st in Hd, Hl.
    assert (H1 : forall y, In y (topic st k) -> In y (expected_sink hf k srcs)).
    { intros y Hy. apply derived_final. now apply Hd. }
    split; [exact H1|]. split.
    - unfold sink_sound. apply forallb_forall. intros y Hy. apply (memb_In eqbM eqbM_spec). now apply H1.
    - intros lin Hlin. split.
      + intros t m Hm. eapply derived_lin; [exact Hlin|]. apply Hd. exact Hm.
      + intros d Hin. rewrite Forall_forall in Hl. destruct (Hl d Hin) as (_ & Hder & _).
        eapply derived_lin; eassumption.
  Qed.

  (** ** safety 2: a stage gives a copy up (Ack) only after the next topic accepted its outputs;
      every fault means Nack; every logged attempt passes the monitor *)
  Theorem ack_only_after_next_accepted k sc srcs ls :
    let st := run k sc srcs ls in
    log_ok hf eqbM (dlog st) = true
    /\ forall d, In d (dlog st) ->
       (d_final d = Acked ->
          d_fwd d = hf (d_stage d) (d_msg d)                   (* every output accepted ... *)
          /\ ack_after_publish (d_tr d) false = true)          (* ... before the Ack was sent *)
       /\ (d_final d = Acked \/ d_final d = Nacked)
       /\ (d_final d = Acked -> d_fault d = FNone \/ hf (d_stage d) (d_msg d) = [])
       /\ (d_fault d = FNone -> d_final d = Acked)
       /\ d_fault d = sc (d_stage d) (d_call d).
  Proof.
    intros st.
    pose proof (safe_run hf eqbM rt_handle eqbM_spec rth_final rth_publishes rth_monitor k sc srcs ls)
      as [_ Hl].
    fold st in Hl. rewrite Forall_forall in Hl. split.
    - unfold log_ok. apply forallb_forall. intros d Hd. now destruct (Hl d Hd) as (_ & _ & H & _).
    - intros d Hd. destruct (Hl d Hd) as (_ & _ & Hok & Hfin & Hsc & _).
      unfold delivery_ok in Hok. rewrite !andb_true_iff in Hok. destruct Hok as [[Hmon Hacc] _].
      split; [|split; [|split; [|split]]].
      + intros Ha. rewrite Ha in Hacc. simpl in Hacc.
        apply (list_eqb_spec eqbM eqbM_spec) in Hacc. split; [exact Hacc|].
        unfold c02_monitor in Hmon. rewrite !andb_true_iff in Hmon. tauto.
      + rewrite Hfin. destruct (effective _ _); auto.
      + rewrite Hfin. destruct (d_fault d), (hf (d_stage d) (d_msg d)); simpl; auto; discriminate.
      + intros Hf. rewrite Hfin, Hf. reflexivity.
      + exact Hsc.
  Qed.

  (** ** safety 3: until the Ack the publication stays with the topic (it is redelivered) *)
  Theorem pending_until_acked k sc st s m st' : pstep k sc st (s, m) = Some st' ->
    exists d, dlog st' = dlog st ++ [d] /\ d_stage d = s /\ d_msg d = m
              /\ (d_final d <> Acked -> In m (topic st' s)).
  Proof.
    intros H. pose proof (pstep_inv hf eqbM rt_handle k sc _ _ _ _ H) as (Hs & rest & Hr & E).
    cbv zeta in E. subst st'. eexists. split; [reflexivity|]. cbn [d_stage d_msg d_final topic].
    split; [reflexivity|split; [reflexivity|]]. intros Hn.
    rewrite topics_after_at.
    replace (Nat.eqb s (S s)) with false by (symmetry; apply Nat.eqb_neq; lia).
    destruct (is_acked _) eqn:Ea.
    - exfalso. apply Hn. destruct (stage_w _ _ _); try discriminate. reflexivity.
    - rewrite andb_false_r. destruct (remove_first_spec eqbM eqbM_spec _ _ _ Hr) as (a & b & -> & _).
      apply in_or_app. right. now left.
  Qed.

  (** ** safety 4: every Nacked attempt is followed by another attempt of the same message at the
      same stage, or the publication is still pending; at quiescence none is left over *)
  Theorem redelivered_until_acked k sc srcs ls :
    let st := run k sc srcs ls in
    (forall d, In d (unfollowed eqbM (dlog st)) -> In (d_msg d) (topic st (d_stage d)))
    /\ (quiescentb k st = true -> redelivery_ok eqbM (dlog st) = true).
  Proof.
    intros st.
    pose proof (redel_run hf eqbM rt_handle eqbM_spec k sc srcs ls) as HR. fold st in HR.
    split; [exact HR|]. intros Hq. apply quiescentb_spec in Hq. unfold redelivery_ok.
    destruct (unfollowed eqbM (dlog st)) as [|d l] eqn:E; [reflexivity|]. exfalso.
    assert (Hin : In d (unfollowed eqbM (dlog st))) by (rewrite E; now left).
    pose proof (safe_run hf eqbM rt_handle eqbM_spec rth_final rth_publishes rth_monitor k sc srcs ls)
      as [_ Hl].
    fold st in Hl. rewrite Forall_forall in Hl.
    destruct (Hl d (unfollowed_incl hf eqbM k _ _ Hin)) as (Hs & _).
    specialize (HR d Hin). rewrite (Hq _ Hs) in HR. destruct HR.
  Qed.

  (** ** never lost (invariant) *)
  Theorem never_lost k sc srcs ls :
    let st := run k sc srcs ls in
    forall y, In y (expected_sink hf k srcs) ->
      In y (topic st k)
      \/ exists t m, t < k /\ In m (topic st t) /\ In y (desc hf (k - t) t m).
  Proof.
    intros st. exact (cover_run hf eqbM rt_handle eqbM_spec rth_final rth_publishes k sc srcs ls).
  Qed.

  (** ** at least once *)
  Lemma acc_reaches_quiescence k sc st : Acc (psucc hf eqbM rt_handle k sc) st ->
    exists ls, quiescentb k (prun k sc st ls) = true.
  Proof.
    induction 1 as [st _ IH]. destruct (quiescentb k st) eqn:Eq.
    - exists []. exact Eq.
    - destruct (not_quiescent_enabled hf eqbM rt_handle eqbM_spec k sc st Eq) as (l & Hl).
      destruct (pstep k sc st l) as [st'|] eqn:E; [|congruence].
      destruct (IH st' (ex_intro _ l E)) as (ls & Hls). exists (l :: ls). simpl. now rewrite E.
  Qed.

  Theorem at_least_once k sc srcs ls : eventually_clean k sc ->
    let st := run k sc srcs ls in
    (* every run from here is finite, whatever the scheduler does *)
    Acc (psucc hf eqbM rt_handle k sc) st
    (* it can only stop when nothing is pending *)
    /\ (quiescentb k st = false -> exists l, pstep k sc st l <> None)
    /\ (quiescentb k st = true -> forall l, pstep k sc st l = None)
    (* and then everything has arrived *)
    /\ (quiescentb k st = true ->
          (forall y, In y (expected_sink hf k srcs) -> In y (topic st k))
          /\ sink_complete hf eqbM k srcs (topic st k) = true)
    /\ exists ls', quiescentb k (prun k sc st ls') = true.
  Proof.
    intros [B HB] st.
    assert (HA : Acc (psucc hf eqbM rt_handle k sc) st)
      by (eapply acc_all; eauto using rth_final, rth_publishes).
    split; [exact HA|]. split; [apply not_quiescent_enabled; exact eqbM_spec|].
    split; [intros Hq l; apply quiescent_stuck; now apply quiescentb_spec|].
    split.
    - intros Hq. apply quiescentb_spec in Hq.
      assert (H1 : forall y, In y (expected_sink hf k srcs) -> In y (topic st k)).
      { apply cover_quiescent; [|exact Hq].
        exact (cover_run hf eqbM rt_handle eqbM_spec rth_final rth_publishes k sc srcs ls). }
      split; [exact H1|]. unfold sink_complete. apply forallb_forall. intros y Hy.
      apply (memb_In eqbM eqbM_spec). now apply H1.
    - now apply acc_reaches_quiescence.
  Qed.

  (** the property's wording: every source message reaches the final topic at least once *)
  Lemma desc_nonempty : (forall s m, hf s m <> []) -> forall n t m, desc hf n t m <> [].
  Proof.
    intros Hne. induction n as [|n IH]; intros t m; simpl; [discriminate|].
    destruct (hf t m) as [|o l] eqn:E; [now apply Hne in E|]. simpl.
    specialize (IH (S t) o). destruct (desc hf n (S t) o); [congruence|discriminate].
  Qed.

  Theorem every_source_reaches_the_sink k sc srcs ls (lin : M -> N) :
    (forall s m o, In o (hf s m) -> lin o = lin m) -> (forall s m, hf s m <> []) ->
    let st := run k sc srcs ls in
    quiescentb k st = true ->
    forall x, In x srcs -> exists y, In y (topic st k) /\ lin y = lin x.
  Proof.
    intros Hlin Hne st Hq x Hx.
    pose proof (cover_run hf eqbM rt_handle eqbM_spec rth_final rth_publishes k sc srcs ls) as HC.
    destruct (desc hf k 0 x) as [|y l] eqn:E; [now apply desc_nonempty in E|].
    assert (Hy : In y (desc hf k 0 x)) by (rewrite E; now left).
    exists y. split.
    - apply (cover_quiescent hf k srcs _ HC); [now apply quiescentb_spec|].
      unfold expected_sink. apply in_flat_map. now exists x.
    - eapply desc_lin; eassumption.
  Qed.

  (** ** duplicates: exactly the arrivals caused by publish-side faults after acceptance *)
  Theorem duplicates_exact k sc srcs ls :
    let st := run k sc srcs ls in
    (quiescentb k st = true ->
       length (topic st k) = length (expected_sink hf k srcs) + dup_budget hf k (dlog st))
    /\ ((forall s c j pn, sc s c <> FPub j pn) -> dup_budget hf k (dlog st) = 0).
  Proof.
    intros st. split.
    - intros Hq. apply quiescentb_spec in Hq. rewrite <- (pot_quiescent hf k st Hq).
      exact (dup_run hf eqbM rt_handle eqbM_spec rth_final rth_publishes k sc srcs ls).
    - intros Hno.
      pose proof (safe_run hf eqbM rt_handle eqbM_spec rth_final rth_publishes rth_monitor k sc srcs ls)
        as [_ Hl].
      fold st in Hl. unfold dup_budget. induction Hl as [|d dl Hd _ IH]; [reflexivity|].
      simpl. rewrite IH. destruct Hd as (_ & _ & _ & _ & Hsc & Hfw).
      unfold dup_of. destruct (is_acked (d_final d)) eqn:Ea; [reflexivity|].
      rewrite Hfw; [reflexivity| |reflexivity]. intros j pn. rewrite Hsc. apply Hno.
  Qed.

  (** ** the model passes the monitors the harness applies to the implementation *)
  Theorem model_accepted k sc srcs ls :
    let st := run k sc srcs ls in
    log_ok hf eqbM (dlog st) = true
    /\ sink_sound hf eqbM k srcs (topic st k) = true
    /\ (quiescentb k st = true -> sink_complete hf eqbM k srcs (topic st k) = true)
    /\ (quiescentb k st = true -> redelivery_ok eqbM (dlog st) = true).
  Proof.
    intros st. split; [apply ack_only_after_next_accepted|].
    split; [apply nothing_invented|].
    split; [|apply redelivered_until_acked].
    intros Hq.
    pose proof (cover_run hf eqbM rt_handle eqbM_spec rth_final rth_publishes k sc srcs ls) as HC.
    unfold sink_complete. apply forallb_forall. intros y Hy. apply (memb_In eqbM eqbM_spec).
    apply (cover_quiescent hf k srcs _ HC); [now apply quiescentb_spec|exact Hy].
  Qed.

  (** a replayed (strict) schedule is a run *)
  Lemma preplay_prun k sc : forall ls st st',
    preplay hf eqbM rt_handle k sc st ls = Some st' -> prun k sc st ls = st'.
  Proof.
    induction ls as [|l ls IH]; simpl; intros st st' H; [congruence|].
    destruct (pstep k sc st l); [now apply IH|discriminate].
  Qed.
End Final.

(** finite scripts satisfy the fairness hypothesis *)
Lemma sc_of_eventually_clean k (l : list (list fault)) : eventually_clean k (sc_of l).
Proof.
  exists (list_max (map (@length fault) l)). intros s c _ Hc. unfold sc_of.
  apply nth_overflow.
  destruct (Nat.lt_ge_cases s (length l)) as [Hs|Hs].
  - assert (Hin : In (length (nth s l [])) (map (@length fault) l)).
    { apply in_map. now apply nth_In. }
    pose proof (proj1 (list_max_le _ _) (Nat.le_refl (list_max (map (@length fault) l)))) as Hall.
    rewrite Forall_forall in Hall. specialize (Hall _ Hin). lia.
  - rewrite nth_overflow by exact Hs. simpl. lia.
Qed.
