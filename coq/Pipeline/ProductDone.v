(** C01: a quiescent state of the product is complete - when no GoChannel topic has a pending
    publication any more and every source message has been published, every descendant of every
    source message is on the final topic (the "ends complete" half of termination; from
    [product_never_lost]). *)
From WM Require Import Base.Prelude Message.Model Handler.RouterHandle
     GoChannel.Reg GoChannel.Sub Pipeline.TopicModel Pipeline.Model Pipeline.Final
     Pipeline.ProductModel Pipeline.ProductProofs.

Section Done.
  Context {M : Type}.
  Variable hf : nat -> M -> list M.
  Variable eqbM : M -> M -> bool.
  Hypothesis eqbM_spec : forall a b, eqbM a b = true <-> a = b.
  Variables (x : subid) (k : nat) (sc : script) (srcs : list M) (dflt : M).
  Hypothesis k_pos : 0 < k.
  Variables (pers blk fx : bool) (cap0 : nat) (sfx : bool).
  Variable ls : list xlabel.
  Let xs := xrun hf x k sc srcs (xinit (fun _ => cinit pers blk fx cap0 sfx) dflt) ls.

  (** nothing pending at any GoChannel topic, every source published *)
  Definition xquiescent (s : xstate M) : Prop :=
    (forall t, t < k -> abs x (xtop s t) = []) /\ length srcs <= xnsrc s.

  Theorem product_quiescent_complete : xquiescent xs ->
    forall y, In y (expected_sink hf k srcs) -> In y (xsink xs).
  Proof.
    intros [Hq Hn] y Hy.
    destruct (fresh_product_never_lost hf eqbM eqbM_spec x k sc srcs dflt k_pos pers blk fx cap0 sfx ls y Hy)
      as [H|(t & m & Ht & Hm & _)]; [exact H|exfalso].
    fold xs in Hm. unfold xpending in Hm. rewrite (Hq t Ht) in Hm. simpl in Hm.
    unfold extra in Hm. destruct t; [|destruct Hm].
    rewrite skipn_all2 in Hm by exact Hn. destruct Hm.
  Qed.
End Done.
