(** C01: proofs about context-aware handlers (Pipeline/CtxModel.v). *)
From WM Require Import Base.Prelude Message.Model Handler.RouterHandle
     GoChannel.Sub GoChannel.SubProofs GoChannel.SubInvX GoChannel.SubCtx
     Pipeline.Model Pipeline.Proofs Pipeline.Final Pipeline.CtxModel.

(** with live contexts a context-aware pipeline is the pipeline *)
Lemma sc_ctx_live cl sc : (forall s c, cl s c = true) -> forall s c, sc_ctx cl sc s c = sc s c.
Proof. intros H s c. unfold sc_ctx. now rewrite H. Qed.

(** fairness carries over when only finitely many deliveries have a dead context *)
Lemma eventually_clean_ctx k cl sc : eventually_clean k sc ->
  (exists B, forall s c, s < k -> B <= c -> cl s c = true) -> eventually_clean k (sc_ctx cl sc).
Proof.
  intros [B1 H1] [B2 H2]. exists (max B1 B2). intros s c Hs Hc. unfold sc_ctx.
  rewrite H2 by lia. apply H1; lia.
Qed.

(** ... and a stage whose deliveries keep arriving with a dead context is a fault that never
    stops: the fairness hypothesis of the at-least-once theorem fails *)
Lemma dead_contexts_never_clean k cl sc s : s < k ->
  (forall B, exists c, B <= c /\ cl s c = false) -> ~ eventually_clean k (sc_ctx cl sc).
Proof.
  intros Hs Hdead [B HB]. destruct (Hdead B) as (c & Hc & Hf).
  specialize (HB s c Hs Hc). unfold sc_ctx in HB. rewrite Hf in HB. discriminate.
Qed.

(** GoChannel: every delivered copy - first delivery or redelivery, handed over directly or
    through the buffer of a subscription that is not closing - has a live context *)
Theorem delivery_ctx_live cap0 fx ls : let s := srun (sinit cap0 fx) ls in
  (forall t p c s', thr s t = SSend p c -> sstep s (LHandoff t) = Some s' ->
     ctx_live s c = true /\ ctx_live s' c = true)
  /\ (forall c b s', buf s = c :: b -> closing s = false -> sstep s LRecv = Some s' ->
     ctx_live s c = true /\ ctx_live s' c = true).
Proof.
  intros s. assert (X : SX s) by apply sx_reach. split.
  - intros t p c s' Et E. destruct (handoff_ctx_live s s' t p c X Et E) as (H1 & H2 & _). now split.
  - intros c b s' Eb Hc E. destruct (recv_ctx_live s s' c b X Eb E Hc) as (H1 & H2 & _). now split.
Qed.

Section CtxAtLeastOnce.
  Context {M : Type}.
  Variable hf : nat -> M -> list M.
  Variable eqbM : M -> M -> bool.
  Hypothesis eqbM_spec : forall x y, eqbM x y = true <-> x = y.

  (** at least once for context-aware handlers: the script is eventually fault-free and (from
      some call on) the delivery contexts are live *)
  Theorem at_least_once_ctx k cl sc srcs ls : eventually_clean k sc ->
    (exists B, forall s c, s < k -> B <= c -> cl s c = true) ->
    let st := prun hf eqbM rt_handle k (sc_ctx cl sc) (pinit srcs) ls in
    Acc (psucc hf eqbM rt_handle k (sc_ctx cl sc)) st
    /\ (quiescentb k st = false -> exists l, pstep hf eqbM rt_handle k (sc_ctx cl sc) st l <> None)
    /\ (quiescentb k st = true ->
          (forall y, In y (expected_sink hf k srcs) -> In y (topic st k))
          /\ sink_complete hf eqbM k srcs (topic st k) = true).
  Proof.
    intros H1 H2 st.
    destruct (at_least_once hf eqbM eqbM_spec k (sc_ctx cl sc) srcs ls (eventually_clean_ctx k cl sc H1 H2))
      as (HA & HP & _ & HD & _).
    split; [exact HA|split; [exact HP|exact HD]].
  Qed.
End CtxAtLeastOnce.
