(** C01: context-aware handlers.  A real handler does context-aware work (I/O, a Timeout
    middleware) with msg.Context(): when the context of its copy is already done at entry it
    fails with the context's error, the Router Nacks, GoChannel redelivers.  So the context of a
    delivered copy is an INPUT of a delivery attempt: [cl s c] = "the context of the copy handed
    to call c of stage s is live at handler entry".  A context-aware pipeline under the oracle [cl]
    is the pipeline of Pipeline/Model.v under the script [sc_ctx cl sc]: a dead context is a
    handler error whatever the script says.  For GoChannel the oracle is constantly true (C04:
    [SubCtx.recv_ctx_live], [SubCtx.handoff_ctx_live] - every copy, redeliveries included, is
    delivered with the live context of its Sender).  No proofs here. *)
From WM Require Import Base.Prelude Pipeline.Model.

Definition ctx_oracle := nat -> nat -> bool.

Definition sc_ctx (cl : ctx_oracle) (sc : script) : script :=
  fun s c => if cl s c then sc s c else FErr.

(** finite tables (what the harness observed); beyond the table: live *)
Definition cl_of (l : list (list bool)) : ctx_oracle := fun s c => nth c (nth s l []) true.
Definition all_live (l : list (list bool)) : bool := forallb (forallb (fun b : bool => b)) l.
