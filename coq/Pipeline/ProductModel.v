(** C01: the PRODUCT - k GoChannel topics, each the composition of Pipeline/TopicModel.v (the
    registry model Reg.v x the send-loop model Sub.v, one always-registered subscription x), the
    final topic as a plain list, and one Router step ([rt_handle], C02's model) per delivered copy.

    Concrete steps
      XInt t l      any step of topic t's composed system that neither accepts a publication for
                    x nor settles an unsettled copy (Sender steps, hand-over to the consumer,
                    registry bookkeeping, other subscriptions coming and going, ...);
      XSrc bls      the source publisher publishes the next source message to topic 0: the
                    registry steps [bls] of that Publish call, which accept exactly one publication;
      XHandle t c bls   the Router of stage t handles the received, unsettled copy c: handler +
                    publisher wrapper as the fault script says, the outputs that get through are
                    published to topic t+1 by the registry steps [bls] (or appended to the final
                    topic), then the copy is Acked / Nacked ([rt_handle]'s settlement).
    Publications carry no content in Reg.v / Sub.v; [xmsg] is the ghost labelling of publication
    ids with messages (assigned when a publication is accepted).  No proofs here. *)
From WM Require Import Base.Prelude Message.Model Handler.RouterHandle
     GoChannel.Reg GoChannel.Sub Pipeline.TopicModel Pipeline.Model.

(** run the registry steps of one Publish call; collect the publications accepted for x *)
Fixpoint pub_all (x : subid) (st : cstate) (bls : list glabel) : option (cstate * list Reg.pubid) :=
  match bls with
  | [] => Some (st, [])
  | bl :: r =>
      match cstep x st (CB bl) with
      | Some st1 => match pub_all x st1 r with
                    | Some (st2, acc) => Some (st2, acc ++ pubs_of x (grown (fst st) (fst st1)))
                    | None => None
                    end
      | None => None
      end
  end.

Section Product.
  Context {M : Type}.
  Variable hf : nat -> M -> list M.
  Variable eqbM : M -> M -> bool.
  Variable x : subid.

  (** label the publications [acc] with the messages [ms], position by position *)
  Definition relabel (f : Reg.pubid -> M) (acc : list Reg.pubid) (ms : list M) : Reg.pubid -> M :=
    fun p => match find (fun q => Nat.eqb (fst q) p) (combine acc ms) with
             | Some q => snd q
             | None => f p
             end.

  Record xstate := XS {
    xtop : nat -> cstate;                 (* topic t < k: its GoChannel (registry x send loop) *)
    xmsg : nat -> Reg.pubid -> M;         (* ghost: the message a publication of topic t carries *)
    xsink : list M;                       (* the final topic *)
    xcalls : nat -> nat;
    xlog : list (delivery M);
    xnsrc : nat                           (* source messages published so far *)
  }.

  Inductive xlabel :=
  | XInt (t : nat) (l : clabel)
  | XSrc (bls : list glabel)
  | XHandle (t : nat) (c : cid) (bls : list glabel).

  Definition is_quiet_lab (l : tlabel) : bool :=
    match l with TTau | TAcc [] => true | _ => false end.

  Definition set_top (xs : xstate) (t : nat) (st : cstate) : xstate :=
    XS (upd (xtop xs) t st) (xmsg xs) (xsink xs) (xcalls xs) (xlog xs) (xnsrc xs).

  Definition xstep (k : nat) (sc : script) (srcs : list M) (xs : xstate) (l : xlabel) : option xstate :=
    match l with
    | XInt t cl =>
        if Nat.ltb t k then
          match cstep x (xtop xs t) cl with
          | Some st' => if is_quiet_lab (lab x (xtop xs t) cl st') then Some (set_top xs t st') else None
          | None => None
          end
        else None
    | XSrc bls =>
        if Nat.ltb 0 k then
          match nth_error srcs (xnsrc xs), pub_all x (xtop xs 0) bls with
          | Some m, Some (st', [p]) =>
              Some (XS (upd (xtop xs) 0 st') (upd (xmsg xs) 0 (relabel (xmsg xs 0) [p] [m]))
                       (xsink xs) (xcalls xs) (xlog xs) (S (xnsrc xs)))
          | _, _ => None
          end
        else None
    | XHandle t c bls =>
        if Nat.ltb t k then
          let '(g, a) := xtop xs t in
          if c_recv (copies a c) && match c_st (copies a c) with Unsettled => true | _ => false end then
            let m := xmsg xs t (c_pub (copies a c)) in
            let call := xcalls xs t in
            let f := sc t call in
            let outs := hf t m in
            let '(w, tr) := rt_handle (pb_of f) (out_of f outs) in
            let fwd := flat_map (fwd_of f) (publishes tr) in
            match sstep a (if is_acked w then LAck c else LNack c) with
            | None => None
            | Some a' =>
                let d := D t call m f tr fwd w in
                if Nat.eqb (S t) k then
                  match bls with
                  | [] => Some (XS (upd (xtop xs) t (g, a')) (xmsg xs) (xsink xs ++ fwd)
                                   (upd (xcalls xs) t (S call)) (xlog xs ++ [d]) (xnsrc xs))
                  | _ => None
                  end
                else
                  match pub_all x (xtop xs (S t)) bls with
                  | Some (st1, acc) =>
                      if Nat.eqb (length acc) (length fwd) then
                        Some (XS (upd (upd (xtop xs) t (g, a')) (S t) st1)
                                 (upd (xmsg xs) (S t) (relabel (xmsg xs (S t)) acc fwd))
                                 (xsink xs) (upd (xcalls xs) t (S call)) (xlog xs ++ [d]) (xnsrc xs))
                      else None
                  | None => None
                  end
            end
          else None
        else None
    end.

  Fixpoint xrun (k : nat) (sc : script) (srcs : list M) (xs : xstate) (ls : list xlabel) : xstate :=
    match ls with
    | [] => xs
    | l :: ls' => match xstep k sc srcs xs l with
                  | Some xs' => xrun k sc srcs xs' ls' | None => xrun k sc srcs xs ls' end
    end.

  (** every topic an empty, freshly made GoChannel *)
  Definition xinit (mk : nat -> cstate) (dflt : M) : xstate :=
    XS mk (fun _ _ => dflt) [] (fun _ => 0) [] 0.

  (** the abstraction: what is pending at topic t, as messages *)
  Definition xpending (xs : xstate) (t : nat) : list M := map (xmsg xs t) (abs x (xtop xs t)).
End Product.

Arguments xstate : clear implicits.
Arguments xlabel : clear implicits.
