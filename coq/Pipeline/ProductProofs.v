(** C01: every run of the product of Pipeline/ProductModel.v (k GoChannel topics as registry x
    send-loop compositions + one Router step per delivered copy) maps to a run of the abstract
    pipeline model Pipeline/Model.v: a forward simulation, so the safety theorems transfer. *)
From Coq Require Import Permutation.
From WM Require Import Base.Prelude Message.Model Handler.RouterHandle Handler.RouterProofs
     GoChannel.Reg GoChannel.RegLocks GoChannel.RegSend
     GoChannel.Sub GoChannel.SubProofs
     Pipeline.TopicModel Pipeline.TopicRefine Pipeline.Model Pipeline.Proofs Pipeline.Final
     Pipeline.ProductModel.

(** * one Publish call on a composed topic *)
Lemma pub_all_spec x bls : forall st st' acc, CInv x st -> pub_all x st bls = Some (st', acc) ->
  CInv x st' /\ abs x st' = acc ++ abs x st.
Proof.
  induction bls as [|bl r IH]; intros st st' acc HI E; simpl in E.
  - injection E as <- <-. now split.
  - destruct (cstep x st (CB bl)) as [st1|] eqn:E1; [|discriminate].
    destruct (pub_all x st1 r) as [[st2 acc2]|] eqn:E2; [|discriminate]. injection E as <- <-.
    destruct (crefine_step x st (CB bl) st1 HI E1) as [HI1 Ht].
    destruct (IH st1 st2 acc2 HI1 E2) as [HI2 Ha]. split; [exact HI2|].
    simpl in Ht. destruct (nodupb _ && disjointb _ _); [|discriminate]. injection Ht as Ht.
    rewrite Ha, <- Ht. now rewrite app_assoc.
Qed.

Lemma nodup_app_split {A} (a b : list A) : NoDup (a ++ b) ->
  NoDup a /\ (forall q, In q b -> ~ In q a).
Proof.
  induction a as [|y a IH]; simpl; intros H; [split; [constructor|tauto]|].
  inversion H as [|? ? Hy H']; subst. destruct (IH H') as [H1 H2]. split.
  - constructor; [|exact H1]. intros Hin. apply Hy. apply in_or_app. now left.
  - intros q Hq [->|Hin]; [apply Hy; apply in_or_app; now right|now apply (H2 q)].
Qed.

Section ProductProofs.
  Context {M : Type}.
  Variable hf : nat -> M -> list M.
  Variable eqbM : M -> M -> bool.
  Hypothesis eqbM_spec : forall a b, eqbM a b = true <-> a = b.
  Variable x : subid.

  Notation xstate := (xstate M).
  Notation pstep := (pstep hf eqbM rt_handle).
  Notation xstep := (xstep hf x).

  (** * relabelling *)
  Lemma relabel_other (f : Reg.pubid -> M) acc ms p : ~ In p acc -> relabel f acc ms p = f p.
  Proof.
    unfold relabel. revert ms. induction acc as [|q acc IH]; intros ms Hn; [reflexivity|].
    destruct ms as [|m ms]; [reflexivity|]. simpl.
    destruct (Nat.eqb q p) eqn:E; [apply Nat.eqb_eq in E; subst; exfalso; apply Hn; now left|].
    apply IH. intros H. apply Hn. now right.
  Qed.
  Lemma map_relabel (f : Reg.pubid -> M) acc : forall ms, NoDup acc -> length acc = length ms ->
    map (relabel f acc ms) acc = ms.
  Proof.
    induction acc as [|q acc IH]; intros [|m ms] Hnd Hl; try discriminate; [reflexivity|].
    inversion Hnd as [|? ? Hq Hnd']; subst. simpl. f_equal.
    - unfold relabel. simpl. now rewrite Nat.eqb_refl.
    - rewrite <- (IH ms Hnd') at 2 by (simpl in Hl; lia). apply map_ext_in. intros p Hp.
      unfold relabel. simpl. destruct (Nat.eqb q p) eqn:E; [|reflexivity].
      apply Nat.eqb_eq in E. subst. contradiction.
  Qed.
  Lemma map_relabel_old (f : Reg.pubid -> M) acc ms l : (forall p, In p l -> ~ In p acc) ->
    map (relabel f acc ms) l = map f l.
  Proof. intros H. apply map_ext_in. intros p Hp. apply relabel_other. now apply H. Qed.

  (** * remove_first and permutations *)
  Lemma remove_first_app_l m (l r e : list M) :
    remove_first eqbM m l = Some r -> remove_first eqbM m (l ++ e) = Some (r ++ e).
  Proof.
    revert r. induction l as [|y l IH]; intros r H; simpl in *; [discriminate|].
    destruct (eqbM m y); [now injection H as <-|].
    destruct (remove_first eqbM m l) as [r0|]; [|discriminate]. injection H as <-.
    now rewrite (IH r0 eq_refl).
  Qed.
  Lemma remove_first_perm m (l l' r : list M) : Permutation l l' ->
    remove_first eqbM m l = Some r -> exists r', remove_first eqbM m l' = Some r' /\ Permutation r r'.
  Proof.
    intros P H. destruct (remove_first_spec eqbM eqbM_spec _ _ _ H) as (a & b & -> & ->).
    assert (Hin : In m l') by (eapply Permutation_in; [exact P|apply in_or_app; right; now left]).
    destruct (remove_first eqbM m l') as [r'|] eqn:E;
      [|exfalso; now apply (remove_first_In eqbM eqbM_spec m l')].
    exists r'. split; [reflexivity|].
    destruct (remove_first_spec eqbM eqbM_spec _ _ _ E) as (a' & b' & -> & ->).
    eapply Permutation_app_inv; exact P.
  Qed.

  (** * the simulation relation *)
  Variable k : nat.
  Variable sc : script.
  Variable srcs : list M.

  Definition extra (xs : xstate) (t : nat) : list M :=
    match t with O => skipn (xnsrc xs) srcs | _ => [] end.

  Record XR (xs : xstate) (st : pstate M) : Prop := {
    r_inv : forall t, t < k -> CInv x (xtop xs t);
    r_top : forall t, t < k -> Permutation (topic st t) (xpending x xs t ++ extra xs t);
    r_sink : Permutation (topic st k) (xsink xs);
    r_calls : forall t, calls st t = xcalls xs t;
    r_log : dlog st = xlog xs
  }.

  Hypothesis k_pos : 0 < k.

  Lemma xr_init mk dflt : (forall t, t < k -> CInv x (mk t) /\ abs x (mk t) = []) ->
    XR (xinit mk dflt) (pinit srcs).
  Proof.
    intros H. constructor; simpl.
    - intros t Ht. apply (H t Ht).
    - intros t Ht. unfold xpending. simpl. rewrite (proj2 (H t Ht)). simpl.
      destruct t; simpl; reflexivity.
    - destruct k; [lia|]. reflexivity.
    - reflexivity.
    - reflexivity.
  Qed.

  (** a quiet step of one topic changes nothing abstractly *)
  Lemma quiet_abs st l st' : CInv x st -> cstep x st l = Some st' ->
    is_quiet_lab (lab x st l st') = true -> CInv x st' /\ abs x st' = abs x st.
  Proof.
    intros HI E Hq. destruct (crefine_step x st l st' HI E) as [HI' Ht]. split; [exact HI'|].
    destruct (lab x st l st') as [ps|p|p|]; try discriminate.
    - destruct ps; [|discriminate]. simpl in Ht. injection Ht as <-. reflexivity.
    - simpl in Ht. injection Ht as <-. reflexivity.
  Qed.

  Lemma perm_upd_same (f : nat -> list M) t v u : u <> t -> upd f t v u = f u.
  Proof. apply upd_other. Qed.

  (** the simulation: every concrete step is an abstract step or a stutter *)
  Theorem xsim_step xs st l xs' : XR xs st -> xstep k sc srcs xs l = Some xs' ->
    exists st', match l with
                | XHandle _ _ _ => exists pl, pstep k sc st pl = Some st'
                | _ => st' = st
                end /\ XR xs' st'.
  Proof.
    intros R E. destruct R as [Rinv Rtop Rsink Rcalls Rlog].
    destruct l as [t cl|bls|t c bls]; simpl in E.
    - (* XInt: stutter *)
      destruct (Nat.ltb t k) eqn:Ht; [|discriminate]. apply Nat.ltb_lt in Ht.
      destruct (cstep x (xtop xs t) cl) as [st1|] eqn:E1; [|discriminate].
      destruct (is_quiet_lab (lab x (xtop xs t) cl st1)) eqn:Hq; [|discriminate]. injection E as <-.
      destruct (quiet_abs _ _ _ (Rinv t Ht) E1 Hq) as [HI1 Ha].
      exists st. split; [reflexivity|]. constructor; simpl; auto.
      + intros u Hu. destruct (Nat.eq_dec u t) as [->|Hne]; [now rewrite upd_same|].
        rewrite upd_other by exact Hne. now apply Rinv.
      + intros u Hu. unfold xpending, extra. simpl.
        destruct (Nat.eq_dec u t) as [->|Hne].
        * rewrite upd_same, Ha. apply (Rtop t Ht).
        * rewrite upd_other by exact Hne. apply (Rtop u Hu).
    - (* XSrc: the abstract model has the source messages pending from the start *)
      replace (Nat.ltb 0 k) with true in E by (symmetry; now apply Nat.ltb_lt).
      destruct (nth_error srcs (xnsrc xs)) as [m|] eqn:En; [|discriminate].
      destruct (pub_all x (xtop xs 0) bls) as [[st1 acc]|] eqn:Ep; [|discriminate].
      destruct acc as [|p [|? ?]]; try discriminate. injection E as <-.
      destruct (pub_all_spec x bls _ _ _ (Rinv 0 k_pos) Ep) as [HI1 Ha].
      pose proof (abs_nodup x st1 HI1) as Hnd. rewrite Ha in Hnd. simpl in Hnd.
      inversion Hnd as [|? ? Hp _]; subst.
      exists st. split; [reflexivity|]. constructor; simpl; auto.
      + intros u Hu. destruct (Nat.eq_dec u 0) as [->|Hne]; [now rewrite upd_same|].
        rewrite upd_other by exact Hne. now apply Rinv.
      + intros u Hu. unfold xpending, extra. simpl. destruct (Nat.eq_dec u 0) as [->|Hne].
        * rewrite !upd_same, Ha. simpl.
          replace (relabel (xmsg xs 0) [p] [m] p) with m
            by (unfold relabel; simpl; now rewrite Nat.eqb_refl).
          rewrite (map_relabel_old (xmsg xs 0) [p] [m]).
          2:{ intros q Hq [<-|[]]. contradiction. }
          eapply perm_trans; [apply (Rtop 0 k_pos)|]. unfold xpending, extra.
          assert (Esk : skipn (xnsrc xs) srcs = m :: skipn (S (xnsrc xs)) srcs).
          { clear -En. revert En. generalize (xnsrc xs) as n. induction srcs as [|y l IH]; intros n En.
            - destruct n; discriminate.
            - destruct n; simpl in *; [now injection En as ->|now apply IH]. }
          rewrite Esk. apply Permutation_sym, Permutation_middle.
        * rewrite !upd_other by exact Hne. destruct u; [congruence|]. apply (Rtop (S u) Hu).
    - (* XHandle: one abstract pipeline step *)
      destruct (Nat.ltb t k) eqn:Ht; [|discriminate]. pose proof Ht as Ht'. apply Nat.ltb_lt in Ht.
      destruct (xtop xs t) as [g a] eqn:Et.
      destruct (c_recv (copies a c)) eqn:Er; [|discriminate].
      destruct (c_st (copies a c)) eqn:Eu; try discriminate. cbv beta iota delta [andb] in E.
      set (p := c_pub (copies a c)) in *. set (m := xmsg xs t p) in *.
      set (f := sc t (xcalls xs t)) in *.
      destruct (rt_handle (pb_of f) (out_of f (hf t m))) as [w tr] eqn:Ert.
      set (fwd := flat_map (fwd_of f) (publishes tr)) in *.
      set (b := is_acked w) in *.
      destruct (sstep a (if b then LAck c else LNack c)) as [a'|] eqn:Es; [|discriminate].
      (* topic t, concretely *)
      pose proof (Rinv t Ht) as HIt. rewrite Et in HIt.
      assert (Ecs : cstep x (g, a) (CA (if b then LAck c else LNack c)) = Some (g, a')).
      { simpl. replace (a_label_ok (if b then LAck c else LNack c)) with true by now destruct b.
        now rewrite Es. }
      destruct (crefine_step x (g, a) _ (g, a') HIt Ecs) as [HIt' Hts].
      assert (Hlt : c < next a) by (destruct HIt as (_ & Ia & _); now apply (recv_lt a c Ia)).
      assert (Hpend : In p (abs x (g, a))).
      { destruct HIt as (_ & Ia & K). now apply unsettled_pending. }
      assert (Habs' : abs x (g, a') = if b then filter (fun q => negb (Nat.eqb q p)) (abs x (g, a))
                                     else abs x (g, a)).
      { clear -Hts Eu. destruct b; simpl in Hts; rewrite Eu in Hts; simpl in Hts; fold p in Hts;
          destruct (mem p (abs x (g, a))); try discriminate; now injection Hts as <-. }
      (* the abstract step *)
      pose proof (Rtop t Ht) as Pt. unfold xpending in Pt. rewrite Et in Pt.
      destruct (topic_list_ack eqbM eqbM_spec (xmsg xs t) p (abs x (g, a)) (abs_nodup x _ HIt) Hpend)
        as (rest0 & Er0 & Pr0). fold m in Er0.
      pose proof (remove_first_app_l m _ _ (extra xs t) Er0) as Er1.
      destruct (remove_first_perm m _ _ _ (Permutation_sym Pt) Er1) as (rest & Erest & Prest).
      set (T1 := if b then upd (topic st) t rest else topic st).
      assert (Hstep : pstep k sc st (t, m) =
                Some (PS (upd T1 (S t) (T1 (S t) ++ fwd))
                         (upd (calls st) t (S (calls st t)))
                         (dlog st ++ [D t (calls st t) m (sc t (calls st t)) tr fwd w]))).
      { unfold Model.pstep. rewrite Ht', Erest, (Rcalls t). fold f. rewrite Ert. reflexivity. }
      eexists. split; [exists (t, m); exact Hstep|].
      (* the relation afterwards *)
      assert (HT1_t : Permutation (T1 t) (map (xmsg xs t) (abs x (g, a')) ++ extra xs t)).
      { rewrite Habs'. unfold T1. clear -Prest Pr0 Pt. destruct b.
        - rewrite upd_same. eapply perm_trans; [apply Permutation_sym, Prest|].
          now apply Permutation_app_tail.
        - exact Pt. }
      assert (HT1_o : forall u, u <> t -> T1 u = topic st u).
      { intros u Hu. unfold T1. destruct b; [now rewrite upd_other|reflexivity]. }
      clearbody T1.
      change (match k with 0 => false | S m' => Nat.eqb t m' end) with (Nat.eqb (S t) k) in E.
      destruct (Nat.eqb (S t) k) eqn:Ek.
      + (* last stage: the outputs go to the final topic *)
        apply Nat.eqb_eq in Ek. destruct bls; [|discriminate]. injection E as <-.
        constructor; simpl.
        * intros u Hu. destruct (Nat.eq_dec u t) as [->|Hne]; [now rewrite upd_same|].
          rewrite upd_other by exact Hne. now apply Rinv.
        * intros u Hu. unfold xpending, extra. simpl.
          rewrite (upd_other _ (S t)) by lia.
          destruct (Nat.eq_dec u t) as [->|Hne].
          -- rewrite upd_same. exact HT1_t.
          -- rewrite (upd_other _ t _ u Hne), (HT1_o u Hne). apply (Rtop u Hu).
        * rewrite <- Ek, upd_same. apply Permutation_app_tail.
          rewrite (HT1_o (S t)) by lia. rewrite Ek. exact Rsink.
        * intros u. unfold upd. rewrite (Rcalls t). destruct (Nat.eqb u t); [reflexivity|apply Rcalls].
        * now rewrite Rlog, (Rcalls t).
      + (* the outputs are published to the GoChannel of topic t+1 *)
        apply Nat.eqb_neq in Ek. assert (Hst : S t < k) by lia.
        destruct (pub_all x (xtop xs (S t)) bls) as [[st1 acc]|] eqn:Ep; [|discriminate].
        destruct (Nat.eqb (length acc) (length fwd)) eqn:El; [|discriminate]. apply Nat.eqb_eq in El.
        injection E as <-.
        destruct (pub_all_spec x bls _ _ _ (Rinv (S t) Hst) Ep) as [HI1 Ha].
        pose proof (abs_nodup x st1 HI1) as Hnd. rewrite Ha in Hnd.
        destruct (nodup_app_split _ _ Hnd) as [Hnd_acc Hdisj].
        constructor; simpl.
        * intros u Hu. destruct (Nat.eq_dec u (S t)) as [->|Hne1]; [now rewrite upd_same|].
          rewrite upd_other by exact Hne1.
          destruct (Nat.eq_dec u t) as [->|Hne]; [now rewrite upd_same|].
          rewrite upd_other by exact Hne. now apply Rinv.
        * intros u Hu. unfold xpending, extra. simpl.
          destruct (Nat.eq_dec u (S t)) as [->|Hne1].
          -- rewrite !upd_same, Ha, map_app, (map_relabel _ acc fwd Hnd_acc El).
             rewrite (map_relabel_old _ acc fwd _ Hdisj). simpl. rewrite app_nil_r.
             eapply perm_trans; [|apply Permutation_app_comm]. apply Permutation_app_tail.
             pose proof (Rtop (S t) Hst) as P1. unfold xpending, extra in P1. simpl in P1.
             rewrite app_nil_r in P1. rewrite (HT1_o (S t)) by lia. exact P1.
          -- rewrite !(upd_other _ (S t) _ u Hne1).
             destruct (Nat.eq_dec u t) as [->|Hne].
             ++ rewrite upd_same. exact HT1_t.
             ++ rewrite (upd_other _ t _ u Hne), (HT1_o u Hne). apply (Rtop u Hu).
        * rewrite upd_other by lia. rewrite (HT1_o k) by lia. exact Rsink.
        * intros u. unfold upd. rewrite (Rcalls t). destruct (Nat.eqb u t); [reflexivity|apply Rcalls].
        * now rewrite Rlog, (Rcalls t).
  Qed.

  Notation prun := (prun hf eqbM rt_handle).
  Notation xrun := (xrun hf x).

  Lemma prun_snoc st pls pl st' : pstep k sc (prun k sc st pls) pl = Some st' ->
    prun k sc st (pls ++ [pl]) = st'.
  Proof.
    revert st. induction pls as [|q pls IH]; intros st H; simpl in *.
    - now rewrite H.
    - destruct (pstep k sc st q); now apply IH.
  Qed.

  (** every run of the product maps to a run of the abstract pipeline *)
  Theorem xsim_run ls : forall xs st, XR xs st ->
    exists pls, XR (xrun k sc srcs xs ls) (prun k sc st pls).
  Proof.
    induction ls as [|l ls IH]; intros xs st R; simpl.
    - exists []. exact R.
    - destruct (xstep k sc srcs xs l) as [xs'|] eqn:E; [|now apply IH].
      destruct (xsim_step xs st l xs' R E) as (st' & Hl & R').
      destruct l as [t cl|bls|t c bls]; try (subst st'; now apply IH).
      destruct Hl as [pl Hp].
      destruct (IH xs' st' R') as (pls & Rf). exists (pl :: pls). simpl. now rewrite Hp.
  Qed.

  (** * liveness, the part that transfers: finitely many Router steps *)
  Definition is_handle (l : xlabel) : bool := match l with XHandle _ _ _ => true | _ => false end.

  Lemma xsim_stutter_run ls : forall xs st, XR xs st -> forallb (fun l => negb (is_handle l)) ls = true ->
    XR (xrun k sc srcs xs ls) st.
  Proof.
    induction ls as [|l ls IH]; intros xs st R H; simpl; [exact R|].
    simpl in H. apply andb_true_iff in H as [Hl Hls].
    destruct (xstep k sc srcs xs l) as [xs'|] eqn:E; [|now apply IH].
    destruct (xsim_step xs st l xs' R E) as (st' & Hm & R').
    destruct l; try discriminate Hl; subst st'; now apply IH.
  Qed.

  (** b is reached from a by any number of non-Router steps followed by one Router step *)
  Definition hsucc (b a : xstate) : Prop :=
    exists ls t c bls, forallb (fun l => negb (is_handle l)) ls = true
                       /\ xstep k sc srcs (xrun k sc srcs a ls) (XHandle t c bls) = Some b.

  Lemma acc_transfer st : Acc (psucc hf eqbM rt_handle k sc) st -> forall xs, XR xs st -> Acc hsucc xs.
  Proof.
    induction 1 as [st _ IH]. intros xs R. constructor. intros b (ls & t & c & bls & Hq & Hs).
    pose proof (xsim_stutter_run ls xs st R Hq) as R1.
    destruct (xsim_step _ st _ b R1 Hs) as (st' & [pl Hp] & R'). simpl in Hp.
    apply (IH st'); [exists pl; exact Hp|exact R'].
  Qed.

  (** * what transfers to the composition *)
  Section Transfer.
    Variable mk : nat -> cstate.
    Variable dflt : M.
    Hypothesis mk_ok : forall t, t < k -> CInv x (mk t) /\ abs x (mk t) = [].
    Variable ls : list (xlabel).
    Let xs := xrun k sc srcs (xinit mk dflt) ls.

    Theorem product_refines : exists pls, XR xs (prun k sc (pinit srcs) pls).
    Proof. apply xsim_run. now apply xr_init. Qed.

    (** safety 1: nothing arriving at the final topic of the composition is invented *)
    Theorem product_nothing_invented : forall y, In y (xsink xs) -> In y (expected_sink hf k srcs).
    Proof.
      destruct product_refines as (pls & R). intros y Hy.
      destruct (nothing_invented hf eqbM eqbM_spec k sc srcs pls) as (H & _). apply H.
      eapply Permutation_in; [apply Permutation_sym, (r_sink _ _ R)|exact Hy].
    Qed.

    (** safety 2: every Router step of the composition passes the delivery monitor: Ack only
        after the next topic accepted every output, Nack on every fault *)
    Theorem product_ack_only_after_next_accepted :
      log_ok hf eqbM (xlog xs) = true
      /\ forall d, In d (xlog xs) ->
           (d_final d = Acked -> d_fwd d = hf (d_stage d) (d_msg d)
                                 /\ ack_after_publish (d_tr d) false = true)
           /\ (d_final d = Acked \/ d_final d = Nacked).
    Proof.
      destruct product_refines as (pls & R). rewrite <- (r_log _ _ R).
      destruct (ack_only_after_next_accepted hf eqbM eqbM_spec k sc srcs pls) as [H1 H2].
      split; [exact H1|]. intros d Hd. destruct (H2 d Hd) as (Ha & Hb & _). now split.
    Qed.

    (** safety 3: never lost - every expected arrival is at the final topic, or descends from a
        publication pending at some GoChannel topic or from a source message not yet published *)
    Theorem product_never_lost : forall y, In y (expected_sink hf k srcs) ->
      In y (xsink xs)
      \/ exists t m, t < k /\ In m (xpending x xs t ++ extra xs t) /\ In y (desc hf (k - t) t m).
    Proof.
      destruct product_refines as (pls & R). intros y Hy.
      destruct (never_lost hf eqbM eqbM_spec k sc srcs pls y Hy) as [H|(t & m & Ht & Hm & Hd)].
      - left. eapply Permutation_in; [apply (r_sink _ _ R)|exact H].
      - right. exists t, m. split; [exact Ht|]. split; [|exact Hd].
        eapply Permutation_in; [apply (r_top _ _ R t Ht)|exact Hm].
    Qed.

    (** liveness, PARTIAL: under the fairness hypothesis every run of the composition contains only
        finitely many Router steps, whatever happens in between ([Acc] of "any number of other steps,
        then one Router step").  Missing for the full "everything arrives": that the steps between
        two Router steps are finitely many and lead to the next hand-over.  That needs (a) a finite
        environment ([XInt] lets arbitrary other clients of the same GoChannel publish, subscribe and
        cancel for ever), (b) a progress measure for the composed topic while the subscription is NOT
        closing ([SubLive.quiet_run_bounded] is for the woken teardown only; here the rank would be
        (Senders not yet at their select) + (registry program counters of the pending Publish
        calls)), and (c) the fact that a quiescent composed topic with a non-empty [abs] has a
        Sender at its hand-over - from [v_out]/[v_cur] of SubProofs plus a scheduler-fairness
        assumption for the sending lock. *)
    Theorem product_router_steps_finite_partial : eventually_clean k sc -> Acc hsucc xs.
    Proof.
      intros [B HB]. destruct product_refines as (pls & R).
      eapply acc_transfer; [|exact R].
      eapply (acc_all hf eqbM rt_handle eqbM_spec (@rth_final M) (@rth_publishes M) k sc B HB).
    Qed.
  End Transfer.
End ProductProofs.

(** * the product of freshly made GoChannels *)
Lemma cinit_ok x pers blk fx cap0 sfx :
  CInv x (cinit pers blk fx cap0 sfx) /\ abs x (cinit pers blk fx cap0 sfx) = [].
Proof. split; [apply cinv_init|reflexivity]. Qed.

Section Fresh.
  Context {M : Type}.
  Variable hf : nat -> M -> list M.
  Variable eqbM : M -> M -> bool.
  Hypothesis eqbM_spec : forall a b, eqbM a b = true <-> a = b.
  Variables (x : subid) (k : nat) (sc : script) (srcs : list M) (dflt : M).
  Hypothesis k_pos : 0 < k.
  Variables (pers blk fx : bool) (cap0 : nat) (sfx : bool).
  Variable ls : list xlabel.

  Let mk : nat -> cstate := fun _ => cinit pers blk fx cap0 sfx.
  Let xs := xrun hf x k sc srcs (xinit mk dflt) ls.
  Let mk_ok : forall t, t < k -> CInv x (mk t) /\ abs x (mk t) = [] :=
    fun t _ => cinit_ok x pers blk fx cap0 sfx.

  Theorem fresh_product_refines :
    exists pls, XR x k srcs xs (prun hf eqbM rt_handle k sc (pinit srcs) pls).
  Proof. exact (product_refines hf eqbM eqbM_spec x k sc srcs k_pos mk dflt mk_ok ls). Qed.

  Theorem fresh_product_nothing_invented : forall y, In y (xsink xs) -> In y (expected_sink hf k srcs).
  Proof. exact (product_nothing_invented hf eqbM eqbM_spec x k sc srcs k_pos mk dflt mk_ok ls). Qed.

  Theorem fresh_product_ack_only_after_next_accepted :
    log_ok hf eqbM (xlog xs) = true
    /\ forall d, In d (xlog xs) ->
         (d_final d = Acked -> d_fwd d = hf (d_stage d) (d_msg d)
                               /\ ack_after_publish (d_tr d) false = true)
         /\ (d_final d = Acked \/ d_final d = Nacked).
  Proof. exact (product_ack_only_after_next_accepted hf eqbM eqbM_spec x k sc srcs k_pos mk dflt mk_ok ls). Qed.

  Theorem fresh_product_never_lost : forall y, In y (expected_sink hf k srcs) ->
    In y (xsink xs)
    \/ exists t m, t < k /\ In m (xpending x xs t ++ extra srcs xs t) /\ In y (desc hf (k - t) t m).
  Proof. exact (product_never_lost hf eqbM eqbM_spec x k sc srcs k_pos mk dflt mk_ok ls). Qed.

  Theorem fresh_product_router_steps_finite_partial : eventually_clean k sc ->
    Acc (hsucc hf x k sc srcs) xs.
  Proof. exact (product_router_steps_finite_partial hf eqbM eqbM_spec x k sc srcs k_pos mk dflt mk_ok ls). Qed.
End Fresh.
