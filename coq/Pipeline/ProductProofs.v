(** C01: every run of the product of Pipeline/ProductModel.v (k GoChannel topics as registry x
    send-loop compositions + one Router step per delivered copy) maps to a run of the abstract
    pipeline model Pipeline/Model.v: a forward simulation, so the safety theorems transfer. *)
From Coq Require Import Permutation.
From WM Require Import Base.Prelude Message.Model Handler.RouterHandle Handler.RouterProofs
     GoChannel.Reg GoChannel.RegLocks GoChannel.RegSend
     GoChannel.Sub GoChannel.SubProofs
     Pipeline.TopicModel Pipeline.TopicRefine Pipeline.Model Pipeline.Proofs Pipeline.Final
     Pipeline.ProductModel.

(** * one Publish call on a composed topic *)
Lemma pub_all_spec x bls : forall st st' acc, CInv x st -> pub_all x st bls = Some (st', acc) ->
  CInv x st' /\ abs x st' = acc ++ abs x st.
Proof.
  induction bls as [|bl r IH]; intros st st' acc HI E; simpl in E.
  - injection E as <- <-. now split.
  - destruct (cstep x st (CB bl)) as [st1|] eqn:E1; [|discriminate].
    destruct (pub_all x st1 r) as [[st2 acc2]|] eqn:E2; [|discriminate]. injection E as <- <-.
    destruct (crefine_step x st (CB bl) st1 HI E1) as [HI1 Ht].
    destruct (IH st1 st2 acc2 HI1 E2) as [HI2 Ha]. split; [exact HI2|].
    simpl in Ht. destruct (nodupb _ && disjointb _ _); [|discriminate]. injection Ht as Ht.
    rewrite Ha, <- Ht. now rewrite app_assoc.
Qed.

Lemma nodup_app_split {A} (a b : list A) : NoDup (a ++ b) ->
  NoDup a /\ (forall q, In q b -> ~ In q a).
Proof.
  induction a as [|y a IH]; simpl; intros H; [split; [constructor|tauto]|].
  inversion H as [|? ? Hy H']; subst. destruct (IH H') as [H1 H2]. split.
  - constructor; [|exact H1]. intros Hin. apply Hy. apply in_or_app. now left.
  - intros q Hq [->|Hin]; [apply Hy; apply in_or_app; now right|now apply (H2 q)].
Qed.

Section ProductProofs.
  Context {M : Type}.
  Variable hf : nat -> M -> list M.
  Variable eqbM : M -> M -> bool.
  Hypothesis eqbM_spec : forall a b, eqbM a b = true <-> a = b.
  Variable x : subid.

  Notation xstate := (xstate M).
  Notation pstep := (pstep hf eqbM rt_handle).
  Notation xstep := (xstep hf x).

  (** * relabelling *)
  Lemma relabel_other (f : Reg.pubid -> M) acc ms p : ~ In p acc -> relabel f acc ms p = f p.
  Proof.
    unfold relabel. revert ms. induction acc as [|q acc IH]; intros ms Hn; [reflexivity|].
    destruct ms as [|m ms]; [reflexivity|]. simpl.
    destruct (Nat.eqb q p) eqn:E; [apply Nat.eqb_eq in E; subst; exfalso; apply Hn; now left|].
    apply IH. intros H. apply Hn. now right.
  Qed.
  Lemma map_relabel (f : Reg.pubid -> M) acc : forall ms, NoDup acc -> length acc = length ms ->
    map (relabel f acc ms) acc = ms.
  Proof.
    induction acc as [|q acc IH]; intros [|m ms] Hnd Hl; try discriminate; [reflexivity|].
    inversion Hnd as [|? ? Hq Hnd']; subst. simpl. f_equal.
    - unfold relabel. simpl. now rewrite Nat.eqb_refl.
    - rewrite <- (IH ms Hnd') at 2 by (simpl in Hl; lia). apply map_ext_in. intros p Hp.
      unfold relabel. simpl. destruct (Nat.eqb q p) eqn:E; [|reflexivity].
      apply Nat.eqb_eq in E. subst. contradiction.
  Qed.
  Lemma map_relabel_old (f : Reg.pubid -> M) acc ms l : (forall p, In p l -> ~ In p acc) ->
    map (relabel f acc ms) l = map f l.
  Proof. intros H. apply map_ext_in. intros p Hp. apply relabel_other. now apply H. Qed.

  (** * remove_first and permutations *)
  Lemma remove_first_app_l m (l r e : list M) :
    remove_first eqbM m l = Some r -> remove_first eqbM m (l ++ e) = Some (r ++ e).
  Proof.
    revert r. induction l as [|y l IH]; intros r H; simpl in *; [discriminate|].
    destruct (eqbM m y); [now injection H as <-|].
    destruct (remove_first eqbM m l) as [r0|]; [|discriminate]. injection H as <-.
    now rewrite (IH r0 eq_refl).
  Qed.
  Lemma remove_first_perm m (l l' r : list M) : Permutation l l' ->
    remove_first eqbM m l = Some r -> exists r', remove_first eqbM m l' = Some r' /\ Permutation r r'.
  Proof.
    intros P H. destruct (remove_first_spec eqbM eqbM_spec _ _ _ H) as (a & b & -> & ->).
    assert (Hin : In m l') by (eapply Permutation_in; [exact P|apply in_or_app; right; now left]).
    destruct (remove_first eqbM m l') as [r'|] eqn:E;
      [|exfalso; now apply (remove_first_In eqbM eqbM_spec m l')].
    exists r'. split; [reflexivity|].
    destruct (remove_first_spec eqbM eqbM_spec _ _ _ E) as (a' & b' & -> & ->).
    eapply Permutation_app_inv; exact P.
  Qed.

  (** * the simulation relation *)
  Variable k : nat.
  Variable sc : script.
  Variable srcs : list M.

  Definition extra (xs : xstate) (t : nat) : list M :=
    match t with O => skipn (xnsrc xs) srcs | _ => [] end.

  Record XR (xs : xstate) (st : pstate M) : Prop := {
    r_inv : forall t, t < k -> CInv x (xtop xs t);
    r_top : forall t, t < k -> Permutation (topic st t) (xpending x xs t ++ extra xs t);
    r_sink : Permutation (topic st k) (xsink xs);
    r_calls : forall t, calls st t = xcalls xs t;
    r_log : dlog st = xlog xs
  }.

  Hypothesis k_pos : 0 < k.

  Lemma xr_init mk dflt : (forall t, t < k -> CInv x (mk t) /\ abs x (mk t) = []) ->
    XR (xinit mk dflt) (pinit srcs).
  Proof.
    intros H. constructor; simpl.
    - intros t Ht. apply (H t Ht).
    - intros t Ht. unfold xpending. simpl. rewrite (proj2 (H t Ht)). simpl.
      destruct t; simpl; reflexivity.
    - destruct k; [lia|]. reflexivity.
    - reflexivity.
    - reflexivity.
  Qed.

  (** a quiet step of one topic changes nothing abstractly *)
  Lemma quiet_abs st l st' : CInv x st -> cstep x st l = Some st' ->
    is_quiet_lab (lab x st l st') = true -> CInv x st' /\ abs x st' = abs x st.
  Proof.
    intros HI E Hq. destruct (crefine_step x st l st' HI E) as [HI' Ht]. split; [exact HI'|].
    destruct (lab x st l st') as [ps|p|p|]; try discriminate.
    - destruct ps; [|discriminate]. simpl in Ht. injection Ht as <-. reflexivity.
    - simpl in Ht. injection Ht as <-. reflexivity.
  Qed.

  Lemma perm_upd_same (f : nat -> list M) t v u : u <> t -> upd f t v u = f u.
  Proof. apply upd_other. Qed.

  (** the simulation: every concrete step is an abstract step or a stutter *)
  Theorem xsim_step xs st l xs' : XR xs st -> xstep k sc srcs xs l = Some xs' ->
    exists st', (st' = st \/ exists pl, pstep k sc st pl = Some st') /\ XR xs' st'.
  Proof.
    intros R E. destruct R as [Rinv Rtop Rsink Rcalls Rlog].
    destruct l as [t cl|bls|t c bls]; simpl in E.
    - (* XInt: stutter *)
      destruct (Nat.ltb t k) eqn:Ht; [|discriminate]. apply Nat.ltb_lt in Ht.
      destruct (cstep x (xtop xs t) cl) as [st1|] eqn:E1; [|discriminate].
      destruct (is_quiet_lab (lab x (xtop xs t) cl st1)) eqn:Hq; [|discriminate]. injection E as <-.
      destruct (quiet_abs _ _ _ (Rinv t Ht) E1 Hq) as [HI1 Ha].
      exists st. split; [now left|]. constructor; simpl; auto.
      + intros u Hu. destruct (Nat.eq_dec u t) as [->|Hne]; [now rewrite upd_same|].
        rewrite upd_other by exact Hne. now apply Rinv.
      + intros u Hu. unfold xpending, extra. simpl.
        destruct (Nat.eq_dec u t) as [->|Hne].
        * rewrite upd_same, Ha. apply (Rtop t Ht).
        * rewrite upd_other by exact Hne. apply (Rtop u Hu).
    - (* XSrc: the abstract model has the source messages pending from the start *)
      replace (Nat.ltb 0 k) with true in E by (symmetry; now apply Nat.ltb_lt).
      destruct (nth_error srcs (xnsrc xs)) as [m|] eqn:En; [|discriminate].
      destruct (pub_all x (xtop xs 0) bls) as [[st1 acc]|] eqn:Ep; [|discriminate].
      destruct acc as [|p [|? ?]]; try discriminate. injection E as <-.
      destruct (pub_all_spec x bls _ _ _ (Rinv 0 k_pos) Ep) as [HI1 Ha].
      pose proof (abs_nodup x st1 HI1) as Hnd. rewrite Ha in Hnd. simpl in Hnd.
      inversion Hnd as [|? ? Hp _]; subst.
      exists st. split; [now left|]. constructor; simpl; auto.
      + intros u Hu. destruct (Nat.eq_dec u 0) as [->|Hne]; [now rewrite upd_same|].
        rewrite upd_other by exact Hne. now apply Rinv.
      + intros u Hu. unfold xpending, extra. simpl. destruct (Nat.eq_dec u 0) as [->|Hne].
        * rewrite !upd_same, Ha. simpl.
          replace (relabel (xmsg xs 0) [p] [m] p) with m
            by (unfold relabel; simpl; now rewrite Nat.eqb_refl).
          rewrite (map_relabel_old (xmsg xs 0) [p] [m]).
          2:{ intros q Hq [<-|[]]. contradiction. }
          eapply perm_trans; [apply (Rtop 0 k_pos)|]. unfold xpending, extra.
          assert (Esk : skipn (xnsrc xs) srcs = m :: skipn (S (xnsrc xs)) srcs).
          { clear -En. revert En. generalize (xnsrc xs) as n. induction srcs as [|y l IH]; intros n En.
            - destruct n; discriminate.
            - destruct n; simpl in *; [now injection En as ->|now apply IH]. }
          rewrite Esk. apply Permutation_sym, Permutation_middle.
        * rewrite !upd_other by exact Hne. destruct u; [congruence|]. apply (Rtop (S u) Hu).
    - (* XHandle: one abstract pipeline step *)
      destruct (Nat.ltb t k) eqn:Ht; [|discriminate]. pose proof Ht as Ht'. apply Nat.ltb_lt in Ht.
      destruct (xtop xs t) as [g a] eqn:Et.
      destruct (c_recv (copies a c)) eqn:Er; [|discriminate].
      destruct (c_st (copies a c)) eqn:Eu; try discriminate. cbv beta iota delta [andb] in E.
      set (p := c_pub (copies a c)) in *. set (m := xmsg xs t p) in *.
      set (f := sc t (xcalls xs t)) in *.
      destruct (rt_handle (pb_of f) (out_of f (hf t m))) as [w tr] eqn:Ert.
      set (fwd := flat_map (fwd_of f) (publishes tr)) in *.
      set (b := is_acked w) in *.
      destruct (sstep a (if b then LAck c else LNack c)) as [a'|] eqn:Es; [|discriminate].
      (* topic t, concretely *)
      pose proof (Rinv t Ht) as HIt. rewrite Et in HIt.
      assert (Ecs : cstep x (g, a) (CA (if b then LAck c else LNack c)) = Some (g, a')).
      { simpl. replace (a_label_ok (if b then LAck c else LNack c)) with true by now destruct b.
        now rewrite Es. }
      destruct (crefine_step x (g, a) _ (g, a') HIt Ecs) as [HIt' Hts].
      assert (Hlt : c < next a) by (destruct HIt as (_ & Ia & _); now apply (recv_lt a c Ia)).
      assert (Hpend : In p (abs x (g, a))).
      { destruct HIt as (_ & Ia & K). now apply unsettled_pending. }
      assert (Habs' : abs x (g, a') = if b then filter (fun q => negb (Nat.eqb q p)) (abs x (g, a))
                                     else abs x (g, a)).
      { clear -Hts Eu. destruct b; simpl in Hts; rewrite Eu in Hts; simpl in Hts; fold p in Hts;
          destruct (mem p (abs x (g, a))); try discriminate; now injection Hts as <-. }
      (* the abstract step *)
      pose proof (Rtop t Ht) as Pt. unfold xpending in Pt. rewrite Et in Pt.
      destruct (topic_list_ack eqbM eqbM_spec (xmsg xs t) p (abs x (g, a)) (abs_nodup x _ HIt) Hpend)
        as (rest0 & Er0 & Pr0). fold m in Er0.
      pose proof (remove_first_app_l m _ _ (extra xs t) Er0) as Er1.
      destruct (remove_first_perm m _ _ _ (Permutation_sym Pt) Er1) as (rest & Erest & Prest).
      set (T1 := if b then upd (topic st) t rest else topic st).
      assert (Hstep : pstep k sc st (t, m) =
                Some (PS (upd T1 (S t) (T1 (S t) ++ fwd))
                         (upd (calls st) t (S (calls st t)))
                         (dlog st ++ [D t (calls st t) m (sc t (calls st t)) tr fwd w]))).
      { unfold Model.pstep. rewrite Ht', Erest, (Rcalls t). fold f. rewrite Ert. reflexivity. }
      eexists. split; [right; exists (t, m); exact Hstep|].
      (* the relation afterwards *)
      assert (HT1_t : Permutation (T1 t) (map (xmsg xs t) (abs x (g, a')) ++ extra xs t)).
      { rewrite Habs'. unfold T1. clear -Prest Pr0 Pt. destruct b.
        - rewrite upd_same. eapply perm_trans; [apply Permutation_sym, Prest|].
          now apply Permutation_app_tail.
        - exact Pt. }
      assert (HT1_o : forall u, u <> t -> T1 u = topic st u).
      { intros u Hu. unfold T1. destruct b; [now rewrite upd_other|reflexivity]. }
      clearbody T1.
      change (match k with 0 => false | S m' => Nat.eqb t m' end) with (Nat.eqb (S t) k) in E.
      destruct (Nat.eqb (S t) k) eqn:Ek.
      + (* last stage: the outputs go to the final topic *)
        apply Nat.eqb_eq in Ek. destruct bls; [|discriminate]. injection E as <-.
        constructor; simpl.
        * intros u Hu. destruct (Nat.eq_dec u t) as [->|Hne]; [now rewrite upd_same|].
          rewrite upd_other by exact Hne. now apply Rinv.
        * intros u Hu. unfold xpending, extra. simpl.
          rewrite (upd_other _ (S t)) by lia.
          destruct (Nat.eq_dec u t) as [->|Hne].
          -- rewrite upd_same. exact HT1_t.
          -- rewrite (upd_other _ t _ u Hne), (HT1_o u Hne). apply (Rtop u Hu).
        * rewrite <- Ek, upd_same. apply Permutation_app_tail.
          rewrite (HT1_o (S t)) by lia. rewrite Ek. exact Rsink.
        * intros u. unfold upd. rewrite (Rcalls t). destruct (Nat.eqb u t); [reflexivity|apply Rcalls].
        * now rewrite Rlog, (Rcalls t).
      + (* the outputs are published to the GoChannel of topic t+1 *)
        apply Nat.eqb_neq in Ek. assert (Hst : S t < k) by lia.
        destruct (pub_all x (xtop xs (S t)) bls) as [[st1 acc]|] eqn:Ep; [|discriminate].
        destruct (Nat.eqb (length acc) (length fwd)) eqn:El; [|discriminate]. apply Nat.eqb_eq in El.
        injection E as <-.
        destruct (pub_all_spec x bls _ _ _ (Rinv (S t) Hst) Ep) as [HI1 Ha].
        pose proof (abs_nodup x st1 HI1) as Hnd. rewrite Ha in Hnd.
        destruct (nodup_app_split _ _ Hnd) as [Hnd_acc Hdisj].
        constructor; simpl.
        * intros u Hu. destruct (Nat.eq_dec u (S t)) as [->|Hne1]; [now rewrite upd_same|].
          rewrite upd_other by exact Hne1.
          destruct (Nat.eq_dec u t) as [->|Hne]; [now rewrite upd_same|].
          rewrite upd_other by exact Hne. now apply Rinv.
        * intros u Hu. unfold xpending, extra. simpl.
          destruct (Nat.eq_dec u (S t)) as [->|Hne1].
          -- rewrite !upd_same, Ha, map_app, (map_relabel _ acc fwd Hnd_acc El).
             rewrite (map_relabel_old _ acc fwd _ Hdisj). simpl. rewrite app_nil_r.
             eapply perm_trans; [|apply Permutation_app_comm]. apply Permutation_app_tail.
             pose proof (Rtop (S t) Hst) as P1. unfold xpending, extra in P1. simpl in P1.
             rewrite app_nil_r in P1. rewrite (HT1_o (S t)) by lia. exact P1.
          -- rewrite !(upd_other _ (S t) _ u Hne1).
             destruct (Nat.eq_dec u t) as [->|Hne].
             ++ rewrite upd_same. exact HT1_t.
             ++ rewrite (upd_other _ t _ u Hne), (HT1_o u Hne). apply (Rtop u Hu).
        * rewrite upd_other by lia. rewrite (HT1_o k) by lia. exact Rsink.
        * intros u. unfold upd. rewrite (Rcalls t). destruct (Nat.eqb u t); [reflexivity|apply Rcalls].
        * now rewrite Rlog, (Rcalls t).
  Qed.
End ProductProofs.
