(** C01: the topic abstraction of Pipeline/Model.v ("a publication stays pending, a fresh copy
    is delivered again after every Nack, it leaves on Ack") replayed on the detailed
    per-subscription model of pubsub.go (GoChannel/Sub.v): the attempt loop of ONE Sender. *)
From WM Require Import Base.Prelude Message.Model GoChannel.Sub GoChannel.SubProofs.

(** the Sender of publication p as thread 0, holding the sending lock at the loop head *)
Definition spawned (cap0 : nat) (fx : bool) (p : pubid) : sstate :=
  srun (sinit cap0 fx) [LSpawn 0 p; LStep 0].

(** one attempt of thread t with copy number c: fresh copy, hand-over to the consumer (the
    Router), the consumer's Ack/Nack, the Sender observing it *)
Definition attempt (t : tid) (c : cid) (ack : bool) : list label :=
  [LStep t; LHandoff t; (if ack then LAck c else LNack c); (if ack then LSeeAcked t else LSeeNacked t)].

(** n Nacked attempts, then an Acked one *)
Fixpoint attempts (t : tid) (c : cid) (nacks : nat) : list label :=
  match nacks with
  | O => attempt t c true
  | S n => attempt t c false ++ attempts t (S c) n
  end.

Definition ready (s : sstate) (t : tid) (p : pubid) : Prop :=
  thr s t = SHead p /\ closedf s = false /\ closing s = false /\ chan_closed s = false /\ buf s = [].

Lemma attempt_round s t p (ack : bool) : ready s t p ->
  exists s', sreplay s (attempt t (next s) ack) = Some s'
    /\ thr s' t = (if ack then SExit p else SHead p)
    /\ closedf s' = false /\ closing s' = false /\ chan_closed s' = false /\ buf s' = []
    /\ next s' = S (next s)
    /\ copies s' (next s) = CP p t (if ack then Acked else Nacked) true true
    /\ (forall c', c' <> next s -> copies s' c' = copies s c').
Proof.
  intros (Ht & Hcl & Hcg & Hcc & Hb).
  destruct s as [cap0 fx cg cl cc snd bf cps nx th tdd pk]. simpl in *. subst cg cl cc bf.
  unfold attempt. cbn [sreplay sstep thr closedf fixed closing]. rewrite Ht. rewrite andb_false_r.
  cbn [set_thr set_next set_copy thr next copies chan_closed buf cap fixed closing closedf sending td Sub.panicked].
  rewrite upd_same. cbn [chan_closed buf set_thr set_copy thr copies cap fixed closing closedf sending next td Sub.panicked].
  rewrite !upd_same.
  destruct ack; cbn [sstep copies thr c_recv c_st mark_recv mark_sent set_copy set_thr
                    cap fixed closing closedf chan_closed sending buf next td Sub.panicked];
    rewrite ?upd_same; cbn [c_recv c_st c_pub c_thr c_sent mark_st mark_recv mark_sent];
    cbn [sstep copies thr c_recv c_st set_copy set_thr cap fixed closing closedf chan_closed sending buf next td Sub.panicked];
    rewrite ?upd_same; cbn [c_st mark_st];
    (eexists; split; [reflexivity|]);
    cbn [thr closedf closing chan_closed buf next copies set_thr];
    rewrite ?upd_same;
    (repeat split; try reflexivity).
  all: simpl; rewrite ?upd_same; try reflexivity.
  all: intros c' Hc'; simpl; rewrite !upd_other by exact Hc'; reflexivity.
Qed.

Lemma sreplay_app l1 : forall l2 s s1, sreplay s l1 = Some s1 -> sreplay s (l1 ++ l2) = sreplay s1 l2.
Proof.
  induction l1 as [|l l1 IH]; simpl; intros l2 s s1 H; [now inversion H|].
  destruct (sstep s l); [now apply IH|discriminate].
Qed.
Lemma sreplay_srun ls : forall s s', sreplay s ls = Some s' -> srun s ls = s'.
Proof.
  induction ls as [|l ls IH]; simpl; intros s s' H; [now inversion H|].
  destruct (sstep s l); [now apply IH|discriminate].
Qed.

Lemma attempts_spec t p n : forall s, ready s t p ->
  exists s', sreplay s (attempts t (next s) n) = Some s'
    /\ next s' = S (next s + n)
    /\ (forall c, next s <= c < next s + n -> copies s' c = CP p t Nacked true true)
    /\ copies s' (next s + n) = CP p t Acked true true
    /\ thr s' t = SExit p
    /\ (forall c, c < next s -> copies s' c = copies s c).
Proof.
  induction n as [|n IH]; intros s Hr.
  - destruct (attempt_round s t p true Hr) as (s' & H1 & H2 & _ & _ & _ & _ & H3 & H4 & H5).
    exists s'. simpl. rewrite Nat.add_0_r. split; [exact H1|]. split; [exact H3|].
    split; [intros c Hc; lia|]. split; [exact H4|]. split; [exact H2|].
    intros c Hc. apply H5. lia.
  - destruct (attempt_round s t p false Hr) as (s1 & H1 & H2 & Ha & Hb & Hc & Hd & H3 & H4 & H5).
    assert (Hr1 : ready s1 t p) by (repeat split; assumption).
    destruct (IH s1 Hr1) as (s' & G1 & G2 & G3 & G4 & G5 & G6).
    exists s'. change (attempts t (next s) (S n)) with (attempt t (next s) false ++ attempts t (S (next s)) n).
    rewrite (sreplay_app _ _ _ _ H1). rewrite H3 in *.
    split; [exact G1|]. split; [rewrite G2; lia|]. split.
    + intros c Hc'. destruct (Nat.eq_dec c (next s)) as [->|Hne].
      * rewrite G6 by lia. exact H4.
      * apply G3. lia.
    + split; [replace (next s + S n) with (S (next s) + n) by lia; exact G4|].
      split; [exact G5|]. intros c Hc'. rewrite G6 by lia. apply H5. lia.
Qed.

Lemma spawned_ready cap0 fx p : ready (spawned cap0 fx p) 0 p /\ next (spawned cap0 fx p) = 0.
Proof. unfold spawned, ready. simpl. repeat split; reflexivity. Qed.

(** the attempt loop of pubsub.go, for any number of Nacks: exactly one fresh copy per attempt,
    all but the last Nacked, the last Acked, the Sender leaves the loop, nothing in flight *)
Theorem attempt_loop cap0 fx p nacks :
  let s := srun (spawned cap0 fx p) (attempts 0 0 nacks) in
  sreplay (spawned cap0 fx p) (attempts 0 0 nacks) = Some s
  /\ next s = S nacks
  /\ (forall c, c < nacks -> copies s c = CP p 0 Nacked true true)
  /\ copies s nacks = CP p 0 Acked true true
  /\ thr s 0 = SExit p /\ outstanding s = [].
Proof.
  destruct (spawned_ready cap0 fx p) as [Hr Hn].
  destruct (attempts_spec 0 p nacks _ Hr) as (s' & G1 & G2 & G3 & G4 & G5 & _).
  rewrite Hn in *. simpl in G2, G3, G4. intros s.
  assert (E : s = s') by (apply sreplay_srun; exact G1). rewrite E.
  split; [exact G1|]. split; [exact G2|]. split; [intros c Hc; apply G3; lia|].
  split; [exact G4|]. split; [exact G5|].
  unfold outstanding. rewrite G2.
  assert (Hall : forall c, In c (seq 0 (S nacks)) -> outstanding_b s' c = false).
  { intros c Hc. apply in_seq in Hc. unfold outstanding_b.
    destruct (Nat.eq_dec c nacks) as [->|Hne].
    - rewrite G4. simpl. now rewrite andb_false_r.
    - rewrite G3 by lia. simpl. now rewrite andb_false_r. }
  induction (seq 0 (S nacks)) as [|c l IH]; [reflexivity|]. simpl.
  rewrite Hall by now left. apply IH. intros c' Hc'. apply Hall. now right.
Qed.
