(** C01 - a pipeline of k Router stages connected by GoChannel topics, under faults.

      topic 0 -> stage 0 -> topic 1 -> ... -> stage (k-1) -> topic k  (the final topic / sink)

    Stage s = one GoChannel subscription on topic s (pubsub/gochannel/pubsub.go,
    sendMessageToSubscriber: a publication stays with the subscription and a FRESH copy of it is
    delivered again after every Nack, until one copy is Acked; one copy in flight) feeding a
    Router handler (message/router.go handleMessage + publishProducedMessages) whose publisher
    publishes to topic s+1.

    The model is built from the SPECIFICATIONS of the two components, not from a third
    description of the code:
    - the Router is the Section variable [rt] (what it does with ONE delivered copy, given the
      handler chain's outcome and the publisher's behaviour: final settlement + its event
      trace); the only facts the proofs use about it are the three C02 statements
      ([RouterProofs.handle_final], [handle_publishes], [handle_monitor]), and
      [Pipeline/Instance.v] instantiates [rt] with the real [RouterHandle.handle];
    - a topic is its set of publications not yet given up: a delivery attempt takes any pending
      publication (a fresh, unmodified copy), the publication leaves the topic iff that copy
      was Acked ([GoChannel/SubProofs]: [no_duplicate_without_nack], [redelivery_after_nack],
      [one_in_flight]; [Pipeline/SubLink.v] replays the attempt loop on the detailed
      per-subscription model [GoChannel/Sub.v]).

    Faults: the script gives, per stage and per call number of that stage's handler, what goes
    wrong at that delivery attempt.  Executable; no proofs here. *)
From WM Require Import Base.Prelude Message.Model Handler.RouterHandle.

Inductive fault :=
| FNone                          (* the handler returns its outputs, the publisher accepts them *)
| FErr                           (* the handler returns (outputs, error) *)
| FPanic                         (* the handler panics *)
| FPub (j : nat) (pn : bool).    (* publish failure: the publisher forwards the first j outputs
                                    to the next topic (which accepts them), then returns an
                                    error ([pn = false]) or panics ([pn = true]);
                                    j < #outputs is a partial batch failure *)

Definition script := nat -> nat -> fault.       (* stage -> call number of the stage -> fault *)

Definition fault_is_none (f : fault) : bool := match f with FNone => true | _ => false end.

(** finite scripts (what the harness uses): beyond the end nothing goes wrong *)
Definition sc_of (l : list (list fault)) : script :=
  fun s c => nth c (nth s l []) FNone.

Definition is_acked (w : settle) : bool := match w with Acked => true | _ => false end.

Section Pipeline.
  Context {M : Type}.
  Variable hf : nat -> M -> list M.        (* the handler of stage s: message -> outputs, deterministic *)
  Variable eqbM : M -> M -> bool.
  (** the Router on ONE delivered copy: publisher behaviour -> chain outcome -> (final
      settlement of the copy, event trace) *)
  Variable rt : pubbeh -> outcome M -> settle * list (hevent M).

  (** what the faulty handler / faulty publisher of the harness do at a call with fault [f] *)
  Definition out_of (f : fault) (outs : list M) : outcome M :=
    match f with FErr => Fail outs | FPanic => Panic | _ => Ret outs end.
  Definition pb_of (f : fault) : pubbeh :=
    match f with FPub _ false => PubError | FPub _ true => PubPanic | _ => PubAccept end.
  (** the messages the publisher hands to the next topic during one Publish(outs) call *)
  Definition fwd_of (f : fault) (outs : list M) : list M :=
    match f with FPub j _ => firstn j outs | _ => outs end.

  (** one delivery attempt as it is logged (by the model and by the harness) *)
  Record delivery := D {
    d_stage : nat; d_call : nat;          (* stage, call number of the stage's handler *)
    d_msg : M;                            (* the copy as the handler saw it *)
    d_fault : fault;
    d_tr : list (hevent M);               (* the Router's events for this copy *)
    d_fwd : list M;                       (* accepted by the next topic, inside the Publish call *)
    d_final : settle                      (* final settlement of the copy *)
  }.

  Record pstate := PS {
    topic : nat -> list M;                (* publications not yet given up (topic k: all arrivals) *)
    calls : nat -> nat;                   (* handler invocations so far, per stage *)
    dlog : list delivery
  }.

  Definition pinit (srcs : list M) : pstate :=
    PS (fun t => match t with O => srcs | _ => [] end) (fun _ => 0) [].

  Fixpoint remove_first (m : M) (l : list M) : option (list M) :=
    match l with
    | [] => None
    | x :: l' => if eqbM m x then Some l'
                 else match remove_first m l' with Some r => Some (x :: r) | None => None end
    end.

  (** label (s, m): the subscription of stage s delivers a copy of its pending publication m *)
  Definition plabel := (nat * M)%type.

  Definition pstep (k : nat) (sc : script) (st : pstate) (l : plabel) : option pstate :=
    let '(s, m) := l in
    if Nat.ltb s k then
      match remove_first m (topic st s) with
      | None => None
      | Some rest =>
          let c := calls st s in
          let f := sc s c in
          let outs := hf s m in
          let '(w, tr) := rt (pb_of f) (out_of f outs) in
          let fwd := flat_map (fwd_of f) (publishes tr) in
          let t1 := if is_acked w then upd (topic st) s rest else topic st in
          Some (PS (upd t1 (S s) (t1 (S s) ++ fwd))
                   (upd (calls st) s (S c))
                   (dlog st ++ [D s c m f tr fwd w]))
      end
    else None.

  (** any schedule: labels that are not enabled are skipped *)
  Fixpoint prun (k : nat) (sc : script) (st : pstate) (ls : list plabel) : pstate :=
    match ls with
    | [] => st
    | l :: ls' => match pstep k sc st l with Some st' => prun k sc st' ls' | None => prun k sc st ls' end
    end.

  (** strict replay of an observed schedule: every label must be enabled *)
  Fixpoint preplay (k : nat) (sc : script) (st : pstate) (ls : list plabel) : option pstate :=
    match ls with
    | [] => Some st
    | l :: ls' => match pstep k sc st l with Some st' => preplay k sc st' ls' | None => None end
    end.

  (** ** what the property talks about *)

  (** the final-topic descendants of a message sitting at topic t, n stages before the end *)
  Fixpoint desc (n : nat) (t : nat) (m : M) : list M :=
    match n with
    | O => [m]
    | S n' => flat_map (desc n' (S t)) (hf t m)
    end.
  (** everything the sink has to see at least once *)
  Definition expected_sink (k : nat) (srcs : list M) : list M := flat_map (desc k 0) srcs.

  Definition memb (x : M) (l : list M) : bool := existsb (eqbM x) l.

  (** the monitor for ONE logged delivery attempt:
      - the Router part is C02's acceptor: one handler call, one settle call as the last
        event, Ack iff no error and outputs accepted (so: Nack - redelivery - on every fault),
        the Ack only after Publish returned nil, the copy still unsettled inside Publish,
        exactly the handler's outputs published;
      - the stage gave the copy up (Ack) only if the next topic accepted every output of it;
      - nothing but (a prefix of) the handler's outputs went to the next topic. *)
  Definition delivery_ok (d : delivery) : bool :=
    let outs := hf (d_stage d) (d_msg d) in
    c02_monitor eqbM PubReal (pb_of (d_fault d)) (CR PreNone (out_of (d_fault d) outs))
                (d_tr d) (d_final d)
    && (if is_acked (d_final d) then list_eqb eqbM (d_fwd d) outs else true)
    && list_eqb eqbM (d_fwd d) (firstn (length (d_fwd d)) outs).

  Definition log_ok (dl : list delivery) : bool := forallb delivery_ok dl.

  (** nothing invented: every arrival at the final topic is a descendant of a source message *)
  Definition sink_sound (k : nat) (srcs sink : list M) : bool :=
    forallb (fun y => memb y (expected_sink k srcs)) sink.
  (** at least once: every descendant of every source message has arrived *)
  Definition sink_complete (k : nat) (srcs sink : list M) : bool :=
    forallb (fun y => memb y sink) (expected_sink k srcs).

  (** "until then the message is redelivered": the delivery attempts that ended in a Nack and
      were not (yet) followed by another attempt of the same message at the same stage *)
  Definition same_pub (a b : delivery) : bool :=
    Nat.eqb (d_stage a) (d_stage b) && eqbM (d_msg a) (d_msg b).
  Fixpoint unfollowed (dl : list delivery) : list delivery :=
    match dl with
    | [] => []
    | d :: dl' => (if negb (is_acked (d_final d)) && negb (existsb (same_pub d) dl') then [d] else [])
                  ++ unfollowed dl'
    end.
  Definition redelivery_ok (dl : list delivery) : bool :=
    match unfollowed dl with [] => true | _ => false end.

  (** nothing is pending any more *)
  Definition quiescentb (k : nat) (st : pstate) : bool :=
    forallb (fun t => match topic st t with [] => true | _ => false end) (seq 0 k).

  (** ** termination measure (used by the at-least-once proof; executable so that the Example
      can show it) *)
  Fixpoint weight (n : nat) (t : nat) (m : M) : nat :=     (* handler invocations still needed *)
    match n with
    | O => 0
    | S n' => S (list_sum (map (weight n' (S t)) (hf t m)))
    end.
  Definition topic_weight (k : nat) (st : pstate) (t : nat) : nat :=
    list_sum (map (weight (k - t) t) (topic st t)).
  Definition total_weight (k : nat) (st : pstate) : nat :=
    list_sum (map (topic_weight k st) (seq 0 (S k))).
  (** faults of stage s still ahead of its call counter (B: from call B on the script is clean) *)
  Definition faults_ahead (sc : script) (B : nat) (st : pstate) (s : nat) : nat :=
    length (filter (fun c => negb (fault_is_none (sc s c))) (seq (calls st s) (B - calls st s))).
  Definition total_faults (k : nat) (sc : script) (B : nat) (st : pstate) : nat :=
    list_sum (map (faults_ahead sc B st) (seq 0 k)).

  (** ** duplicates: arrivals at the final topic that exist only because a publish-side fault
      hit after the next topic had accepted something *)
  Definition dup_of (k : nat) (d : delivery) : nat :=
    if is_acked (d_final d) then 0
    else list_sum (map (fun o => length (desc (k - S (d_stage d)) (S (d_stage d)) o)) (d_fwd d)).
  Definition dup_budget (k : nat) (dl : list delivery) : nat := list_sum (map (dup_of k) dl).
End Pipeline.

Arguments delivery : clear implicits.
Arguments pstate : clear implicits.
Arguments plabel : clear implicits.

(** the fairness hypothesis of the at-least-once theorem: finitely many faults per stage *)
Definition eventually_clean (k : nat) (sc : script) : Prop :=
  exists B, forall s c, s < k -> B <= c -> sc s c = FNone.

(** the Router component instantiated with the C02 model of handleMessage: a handler added
    with a real publisher, a handler that does not settle the message itself *)
Definition rt_handle {M : Type} (pb : pubbeh) (o : outcome M) : settle * list (hevent M) :=
  let '(m, tr) := handle PubReal pb (CR PreNone o) in (st m, tr).
