(** C01: "redelivery is immediate".  In pubsub.go the Sender keeps the subscription's sending lock
    while it waits for the settlement and loops on a Nack (sendMessageToSubscriber), so between
    a Nack and the redelivery no other message of the topic reaches that subscription - C05's
    one-in-flight seen from the pipeline.  [pstep_imm] is [pstep] with that guard: while the last
    attempt of stage s ended in a Nack, only the same message can be attempted at s.
    No proofs here. *)
From WM Require Import Base.Prelude Message.Model Handler.RouterHandle Pipeline.Model.

Section Imm.
  Context {M : Type}.
  Variable hf : nat -> M -> list M.
  Variable eqbM : M -> M -> bool.
  Variable rt : pubbeh -> outcome M -> settle * list (hevent M).

  (** per stage: the message whose Sender holds the sending lock after these attempts *)
  Definition held_next (h : nat -> option M) (d : delivery M) : nat -> option M :=
    upd h (d_stage d) (if is_acked (d_final d) then None else Some (d_msg d)).
  Fixpoint held_after (h : nat -> option M) (dl : list (delivery M)) : nat -> option M :=
    match dl with
    | [] => h
    | d :: dl' => held_after (held_next h d) dl'
    end.
  Definition no_lock : nat -> option M := fun _ => None.
  Definition holds_lock (st : pstate M) (s : nat) : option M := held_after no_lock (dlog st) s.

  (** the monitor: an attempt at a stage whose previous attempt was Nacked is an attempt of the
      same message *)
  Definition imm_check (h : nat -> option M) (d : delivery M) : bool :=
    match h (d_stage d) with Some m' => eqbM (d_msg d) m' | None => true end.
  Fixpoint imm_walk (h : nat -> option M) (dl : list (delivery M)) : bool :=
    match dl with
    | [] => true
    | d :: dl' => imm_check h d && imm_walk (held_next h d) dl'
    end.
  Definition immediate_ok (dl : list (delivery M)) : bool := imm_walk no_lock dl.

  Definition pstep_imm (k : nat) (sc : script) (st : pstate M) (l : plabel M) : option (pstate M) :=
    match holds_lock st (fst l) with
    | Some m' => if eqbM (snd l) m' then pstep hf eqbM rt k sc st l else None
    | None => pstep hf eqbM rt k sc st l
    end.

  Fixpoint prun_imm (k : nat) (sc : script) (st : pstate M) (ls : list (plabel M)) : pstate M :=
    match ls with
    | [] => st
    | l :: ls' => match pstep_imm k sc st l with
                  | Some st' => prun_imm k sc st' ls' | None => prun_imm k sc st ls' end
    end.
  Fixpoint preplay_imm (k : nat) (sc : script) (st : pstate M) (ls : list (plabel M)) : option (pstate M) :=
    match ls with
    | [] => Some st
    | l :: ls' => match pstep_imm k sc st l with
                  | Some st' => preplay_imm k sc st' ls' | None => None end
    end.
  (** the labels of [ls] that [prun_imm] actually takes *)
  Fixpoint taken_imm (k : nat) (sc : script) (st : pstate M) (ls : list (plabel M)) : list (plabel M) :=
    match ls with
    | [] => []
    | l :: ls' => match pstep_imm k sc st l with
                  | Some st' => l :: taken_imm k sc st' ls' | None => taken_imm k sc st ls' end
    end.
End Imm.
